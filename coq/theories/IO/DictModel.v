(* Executable model of cobra/io/dict.py: model_to_dict / model_from_dict over an abstract model
   record.  Mirrors _fix_type, _update_optional, _metabolite_to_dict/_from_dict, _gene_to_dict/
   gene_from_dict, _reaction_to_dict/_from_dict (bounds applied one at a time on a default
   reaction, or both at once when the source does so), model_to_dict/model_from_dict.
   The attribute tables are a parameter (`tables`); the current ones are regenerated from the
   source into Gen/DictTables.v.  Nothing here is a theorem.                                   *)
From Coq Require Import ZArith QArith List Bool String.
From Cobra.IO Require Import Str JVal.
Import ListNotations.
Open Scope Z_scope.

(* ------------------------------------------------------------------ results *)
(* EUnmodelled: the model makes no prediction (ill-typed input); EOther: any other exception class
   of the implementation (never produced by the model) *)
Inductive err := EValue | EKey | EType | EAttr | EUnmodelled | EOther.
Inductive result (A : Type) := Ok (a : A) | Err (e : err).
Arguments Ok {A} a.
Arguments Err {A} e.

Definition bind {A B} (r : result A) (f : A -> result B) : result B :=
  match r with Ok a => f a | Err e => Err e end.
Notation "x <- r ;; k" := (bind r (fun x => k)) (at level 61, r at next level, right associativity).

Fixpoint mapM {A B} (f : A -> result B) (l : list A) : result (list B) :=
  match l with
  | [] => Ok []
  | x :: l' => y <- f x ;; ys <- mapM f l' ;; Ok (y :: ys)
  end.

Fixpoint foldM {A B} (f : A -> B -> result A) (l : list B) (a : A) : result A :=
  match l with
  | [] => Ok a
  | x :: l' => a' <- f a x ;; foldM f l' a'
  end.

(* ------------------------------------------------------------------ abstract model *)
Inductive ebound := NegInf | Fin (q : Q) | PosInf.

Definition eb_leb (a b : ebound) : bool :=
  match a, b with
  | NegInf, _ => true
  | _, PosInf => true
  | Fin x, Fin y => Qle_bool x y
  | _, _ => false
  end.

Record cfg := mkCfg { c_lb : Q; c_ub : Q }.      (* Configuration().bounds *)

Record amet := mkMet {
  m_id : str; m_name : str; m_comp : option str; m_charge : option Z; m_formula : option str;
  m_bound : Q; m_notes : dict; m_annot : dict }.
Record agene := mkGene { g_id : str; g_name : str; g_notes : dict; g_annot : dict }.
Record arxn := mkRxn {
  r_id : str; r_name : str; r_stoich : list (str * Q); r_lb : ebound; r_ub : ebound;
  r_rule : str; r_obj : Q; r_subsystem : str; r_notes : dict; r_annot : dict }.
Record amodel := mkModel {
  a_id : option str; a_name : option str;
  a_mets : list amet; a_rxns : list arxn; a_genes : list agene;
  a_comps : list (str * str);          (* the private _compartments dict, sorted by key *)
  a_notes : dict; a_annot : dict;
  a_max : bool }.                       (* objective direction: true = max *)

Record tables := mkTables {
  t_req_rxn : list str; t_opt_rxn_keys : list str; t_opt_rxn_defaults : list (str * Z);
  t_req_met : list str; t_opt_met_keys : list str; t_opt_met_defaults : list (str * Z);
  t_req_gene : list str; t_opt_gene_keys : list str; t_opt_gene_defaults : list (str * Z);
  t_opt_model_keys : list str; t_opt_model_defaults : list (str * Z);
  t_rxn_skip : list str; t_bounds_at_once : bool; t_model_attrs : list str }.

(* GPR.from_string / to_string are the subject of C08; here they are a parameter:
   rule_norm s = GPR.from_string(s).to_string(), rule_genes s = GPR.from_string(s).genes *)
Record gpr_api := mkGpr { rule_norm : str -> str; rule_genes : str -> list str }.

(* ------------------------------------------------------------------ attribute names *)
Definition k_id := Eval compute in of_string "id"%string.
Definition k_name := Eval compute in of_string "name"%string.
Definition k_compartment := Eval compute in of_string "compartment"%string.
Definition k_charge := Eval compute in of_string "charge"%string.
Definition k_formula := Eval compute in of_string "formula"%string.
Definition k__bound := Eval compute in of_string "_bound"%string.
Definition k_notes := Eval compute in of_string "notes"%string.
Definition k_annotation := Eval compute in of_string "annotation"%string.
Definition k_metabolites := Eval compute in of_string "metabolites"%string.
Definition k_reactions := Eval compute in of_string "reactions"%string.
Definition k_genes := Eval compute in of_string "genes"%string.
Definition k_lower_bound := Eval compute in of_string "lower_bound"%string.
Definition k_upper_bound := Eval compute in of_string "upper_bound"%string.
Definition k_gene_reaction_rule := Eval compute in of_string "gene_reaction_rule"%string.
Definition k_objective_coefficient := Eval compute in of_string "objective_coefficient"%string.
Definition k_subsystem := Eval compute in of_string "subsystem"%string.
Definition k_compartments := Eval compute in of_string "compartments"%string.
Definition k_reaction := Eval compute in of_string "reaction"%string.
Definition k_reversibility := Eval compute in of_string "reversibility"%string.
Definition s_inf := Eval compute in of_string "inf"%string.
Definition s_neg_inf := Eval compute in of_string "-inf"%string.

(* ------------------------------------------------------------------ saving *)
Definition opt_str (o : option str) : jval := match o with Some s => JStr s | None => JNull end.
Definition eb_val (b : ebound) : jval :=
  match b with NegInf => JInf true | Fin q => JNum q | PosInf => JInf false end.

(* _fix_type *)
Definition fix_type (v : jval) : jval :=
  match v with
  | JDict d => JDict (dsort d)
  | JNull => JStr []
  | _ => v
  end.

Definition default_of (code : Z) : option jval :=
  if code =? 0 then Some JNull else if code =? 1 then Some (JNum 0)
  else if code =? 2 then Some (JStr []) else if code =? 3 then Some (JDict [])
  else if code =? 4 then Some (JList []) else None.

Definition is_null (v : jval) : bool := match v with JNull => true | _ => false end.

(* _update_optional *)
Fixpoint update_optional (ga : str -> option jval) (defaults : list (str * Z)) (keys : list str)
  : result (list (str * jval)) :=
  match keys with
  | [] => Ok []
  | k :: ks =>
      match lookup k defaults with
      | None => Err EKey
      | Some code =>
          match default_of code with
          | None => Err EUnmodelled
          | Some d =>
              match ga k with
              | None => Err EAttr
              | Some v =>
                  rest <- update_optional ga defaults ks ;;
                  Ok (if is_null v || jval_eqb v d then rest else (k, fix_type v) :: rest)
              end
          end
      end
  end.

Fixpoint required (ga : str -> option jval) (keys : list str) : result (list (str * jval)) :=
  match keys with
  | [] => Ok []
  | k :: ks =>
      match ga k with
      | None => Err EAttr
      | Some v => rest <- required ga ks ;; Ok ((k, fix_type v) :: rest)
      end
  end.

Definition met_getattr (m : amet) (k : str) : option jval :=
  if str_eqb k k_id then Some (JStr (m_id m))
  else if str_eqb k k_name then Some (JStr (m_name m))
  else if str_eqb k k_compartment then Some (opt_str (m_comp m))
  else if str_eqb k k_charge then Some (match m_charge m with Some z => JNum (inject_Z z) | None => JNull end)
  else if str_eqb k k_formula then Some (opt_str (m_formula m))
  else if str_eqb k k__bound then Some (JNum (m_bound m))
  else if str_eqb k k_notes then Some (JDict (m_notes m))
  else if str_eqb k k_annotation then Some (JDict (m_annot m))
  else None.

Definition gene_getattr (g : agene) (k : str) : option jval :=
  if str_eqb k k_id then Some (JStr (g_id g))
  else if str_eqb k k_name then Some (JStr (g_name g))
  else if str_eqb k k_notes then Some (JDict (g_notes g))
  else if str_eqb k k_annotation then Some (JDict (g_annot g))
  else None.

Definition stoich_val (st : list (str * Q)) : jval := JDict (map (fun p => (fst p, JNum (snd p))) st).

Definition rxn_getattr (r : arxn) (k : str) : option jval :=
  if str_eqb k k_id then Some (JStr (r_id r))
  else if str_eqb k k_name then Some (JStr (r_name r))
  else if str_eqb k k_lower_bound then Some (eb_val (r_lb r))
  else if str_eqb k k_upper_bound then Some (eb_val (r_ub r))
  else if str_eqb k k_gene_reaction_rule then Some (JStr (r_rule r))
  else if str_eqb k k_objective_coefficient then Some (JNum (r_obj r))
  else if str_eqb k k_subsystem then Some (JStr (r_subsystem r))
  else if str_eqb k k_notes then Some (JDict (r_notes r))
  else if str_eqb k k_annotation then Some (JDict (r_annot r))
  else None.

Definition met_to_dict (T : tables) (m : amet) : result jval :=
  req <- required (met_getattr m) (t_req_met T) ;;
  opt <- update_optional (met_getattr m) (t_opt_met_defaults T) (t_opt_met_keys T) ;;
  Ok (JDict (req ++ opt)).

Definition gene_to_dict (T : tables) (g : agene) : result jval :=
  req <- required (gene_getattr g) (t_req_gene T) ;;
  opt <- update_optional (gene_getattr g) (t_opt_gene_defaults T) (t_opt_gene_keys T) ;;
  Ok (JDict (req ++ opt)).

(* an infinite (or nan) bound is saved as str(float) *)
Definition save_bound (v : jval) : jval :=
  match v with
  | JInf neg => JStr (if neg then s_neg_inf else s_inf)
  | _ => fix_type v
  end.

(* the loop over _REQUIRED_REACTION_ATTRIBUTES: "metabolites" sorted by metabolite id, infinite
   bounds as str(float), everything else through _fix_type *)
Fixpoint rxn_required (r : arxn) (keys : list str) : result (list (str * jval)) :=
  match keys with
  | [] => Ok []
  | k :: ks =>
      item <- (if str_eqb k k_metabolites then Ok (k, stoich_val (sort_by fst (r_stoich r)))
               else match rxn_getattr r k with
                    | None => Err EAttr
                    | Some v =>
                        if str_eqb k k_lower_bound || str_eqb k k_upper_bound then Ok (k, save_bound v)
                        else Ok (k, fix_type v)
                    end) ;;
      rest <- rxn_required r ks ;;
      Ok (item :: rest)
  end.

Definition rxn_to_dict (T : tables) (r : arxn) : result jval :=
  req <- rxn_required r (t_req_rxn T) ;;
  opt <- update_optional (rxn_getattr r) (t_opt_rxn_defaults T) (t_opt_rxn_keys T) ;;
  Ok (JDict (req ++ opt)).

(* Model.compartments (the public property): compartments of the metabolites, in order of first
   occurrence, with the stored description or "" *)
Fixpoint public_comps_from (comps : list (str * str)) (mets : list amet) (acc : list (str * str))
  : list (str * str) :=
  match mets with
  | [] => acc
  | m :: ms =>
      match m_comp m with
      | None => public_comps_from comps ms acc
      | Some c =>
          if has_key c acc then public_comps_from comps ms acc
          else public_comps_from comps ms
                 (acc ++ [(c, match lookup c comps with Some d => d | None => [] end)])
      end
  end.
Definition public_comps (m : amodel) : list (str * str) := public_comps_from (a_comps m) (a_mets m) [].
Definition comps_val (l : list (str * str)) : jval := JDict (map (fun p => (fst p, JStr (snd p))) l).

Definition model_getattr (m : amodel) (k : str) : option jval :=
  if str_eqb k k_name then Some (opt_str (a_name m))
  else if str_eqb k k_compartments then Some (comps_val (public_comps m))
  else if str_eqb k k_notes then Some (JDict (a_notes m))
  else if str_eqb k k_annotation then Some (JDict (a_annot m))
  else None.

(* itemgetter("id") on an element of the three lists *)
Definition jid (v : jval) : str :=
  match v with
  | JDict l => match lookup k_id l with Some (JStr s) => s | _ => [] end
  | _ => []
  end.

Definition to_dict (T : tables) (sort : bool) (m : amodel) : result jval :=
  mets <- mapM (met_to_dict T) (a_mets m) ;;
  rxns <- mapM (rxn_to_dict T) (a_rxns m) ;;
  genes <- mapM (gene_to_dict T) (a_genes m) ;;
  opt <- update_optional (model_getattr m) (t_opt_model_defaults T) (t_opt_model_keys T) ;;
  let s := fun l => if sort then sort_by jid l else l in
  Ok (JDict ([(k_metabolites, JList (s mets)); (k_reactions, JList (s rxns)); (k_genes, JList (s genes));
              (k_id, opt_str (a_id m))] ++ opt)).

(* ------------------------------------------------------------------ loading *)
Definition as_dict (v : jval) : result dict :=
  match v with JDict d => Ok d | _ => Err EUnmodelled end.

Definition as_list (v : jval) : result (list jval) :=
  match v with JList l => Ok l | _ => Err EUnmodelled end.

Definition get_item (k : str) (d : dict) : result jval :=
  match lookup k d with Some v => Ok v | None => Err EKey end.

Definition as_str_val (v : jval) : result str :=
  match v with JStr s => Ok s | _ => Err EUnmodelled end.

Definition as_opt_str (v : jval) : result (option str) :=
  match v with JStr s => Ok (Some s) | JNull => Ok None | _ => Err EUnmodelled end.

(* Object.id setter on an object whose id is still None: None passes, a non-string raises TypeError *)
Definition set_id (cur : str) (v : jval) : result str :=
  match v with JStr s => Ok s | JNull => Ok cur | _ => Err EType end.

(* Object.annotation setter *)
Definition as_annotation (v : jval) : result dict :=
  match v with JDict d => Ok (dsort d) | _ => Err EType end.

Definition as_notes (v : jval) : result dict :=
  match v with JDict d => Ok (dsort d) | _ => Err EUnmodelled end.

Definition default_met : amet := mkMet [] [] None None None 0 [] [].

Definition met_setattr (m : amet) (kv : str * jval) : result amet :=
  let (k, v) := kv in
  if str_eqb k k_id then
    s <- set_id (m_id m) v ;;
    Ok (mkMet s (m_name m) (m_comp m) (m_charge m) (m_formula m) (m_bound m) (m_notes m) (m_annot m))
  else if str_eqb k k_name then
    s <- as_str_val v ;;
    Ok (mkMet (m_id m) s (m_comp m) (m_charge m) (m_formula m) (m_bound m) (m_notes m) (m_annot m))
  else if str_eqb k k_compartment then
    s <- as_opt_str v ;;
    Ok (mkMet (m_id m) (m_name m) s (m_charge m) (m_formula m) (m_bound m) (m_notes m) (m_annot m))
  else if str_eqb k k_charge then
    c <- match v with
         | JNull => Ok None
         | JNum q => if (Zpos (Qden q) =? 1) then Ok (Some (Qnum q)) else Err EUnmodelled
         | _ => Err EUnmodelled
         end ;;
    Ok (mkMet (m_id m) (m_name m) (m_comp m) c (m_formula m) (m_bound m) (m_notes m) (m_annot m))
  else if str_eqb k k_formula then
    s <- as_opt_str v ;;
    Ok (mkMet (m_id m) (m_name m) (m_comp m) (m_charge m) s (m_bound m) (m_notes m) (m_annot m))
  else if str_eqb k k__bound then
    b <- match v with JNum q => Ok q | _ => Err EUnmodelled end ;;
    Ok (mkMet (m_id m) (m_name m) (m_comp m) (m_charge m) (m_formula m) b (m_notes m) (m_annot m))
  else if str_eqb k k_notes then
    d <- as_notes v ;;
    Ok (mkMet (m_id m) (m_name m) (m_comp m) (m_charge m) (m_formula m) (m_bound m) d (m_annot m))
  else if str_eqb k k_annotation then
    d <- as_annotation v ;;
    Ok (mkMet (m_id m) (m_name m) (m_comp m) (m_charge m) (m_formula m) (m_bound m) (m_notes m) d)
  else Ok m.      (* setattr of an unknown name creates an attribute nobody reads *)

(* _metabolite_from_dict *)
Definition met_from_dict (v : jval) : result amet :=
  d <- as_dict v ;; foldM met_setattr d default_met.

Definition gene_setattr (g : agene) (kv : str * jval) : result agene :=
  let (k, v) := kv in
  if str_eqb k k_id then
    s <- (match v with JStr s => Ok s | JNull => Err EUnmodelled | _ => Err EType end) ;;
    Ok (mkGene s (g_name g) (g_notes g) (g_annot g))
  else if str_eqb k k_name then
    s <- as_str_val v ;; Ok (mkGene (g_id g) s (g_notes g) (g_annot g))
  else if str_eqb k k_notes then
    d <- as_notes v ;; Ok (mkGene (g_id g) (g_name g) d (g_annot g))
  else if str_eqb k k_annotation then
    d <- as_annotation v ;; Ok (mkGene (g_id g) (g_name g) (g_notes g) d)
  else Ok g.

(* gene_from_dict: Gene(gene["id"]) then setattr of every item *)
Definition gene_from_dict (v : jval) : result agene :=
  d <- as_dict v ;;
  i <- get_item k_id d ;;
  s <- as_str_val i ;;
  foldM gene_setattr d (mkGene s [] [] []).

(* float(v) for the two bounds *)
Definition py_float (v : jval) : result ebound :=
  match v with
  | JNum q => Ok (Fin q)
  | JStr s => if str_eqb s s_inf then Ok PosInf else if str_eqb s s_neg_inf then Ok NegInf else Err EUnmodelled
  | JNull | JList _ | JDict _ => Err EType
  | _ => Err EUnmodelled
  end.

(* Reaction._check_bounds *)
Definition check_bounds (lb ub : ebound) : result unit :=
  if eb_leb lb ub then Ok tt else Err EValue.

Fixpoint parse_stoich (met_ids : list str) (d : dict) : result (list (str * Q)) :=
  match d with
  | [] => Ok []
  | (k, v) :: d' =>
      if str_mem k met_ids then
        match v with
        | JNum q => rest <- parse_stoich met_ids d' ;; Ok ((k, q) :: rest)
        | _ => Err EUnmodelled
        end
      else Err EKey      (* model.metabolites.get_by_id *)
  end.

Definition set_r_bounds (r : arxn) (lb ub : ebound) : arxn :=
  mkRxn (r_id r) (r_name r) (r_stoich r) lb ub (r_rule r) (r_obj r) (r_subsystem r) (r_notes r) (r_annot r).

Definition default_rxn (c : cfg) : arxn := mkRxn [] [] [] (Fin 0) (Fin (c_ub c)) [] 0 [] [] [].

(* the "metabolites" item: model.metabolites.get_by_id for every key, then Reaction.add_metabolites
   on an empty reaction (zero coefficients are dropped again) *)
Definition load_stoich (met_ids : list str) (v : jval) : result (list (str * Q)) :=
  d <- as_dict v ;;
  st <- parse_stoich met_ids d ;;
  Ok (dsort (filter (fun p => negb (q_is_zero (snd p))) st)).

(* reaction.lower_bound = float(v) / reaction.upper_bound = float(v) *)
Definition set_lb (r : arxn) (v : jval) : result arxn :=
  b <- py_float v ;; _ <- check_bounds b (r_ub r) ;; Ok (set_r_bounds r b (r_ub r)).
Definition set_ub (r : arxn) (v : jval) : result arxn :=
  b <- py_float v ;; _ <- check_bounds (r_lb r) b ;; Ok (set_r_bounds r (r_lb r) b).

(* reaction.bounds = (float(d.get("lower_bound", default)), float(d.get("upper_bound", default))) *)
Definition init_bounds (c : cfg) (d : dict) : result arxn :=
  lb <- (match lookup k_lower_bound d with Some x => py_float x | None => Ok (Fin 0) end) ;;
  ub <- (match lookup k_upper_bound d with Some x => py_float x | None => Ok (Fin (c_ub c)) end) ;;
  _ <- check_bounds lb ub ;;
  Ok (set_r_bounds (default_rxn c) lb ub).

Section Load.
  Variable G : gpr_api.
  Variable T : tables.
  Variable C : cfg.

  Definition rxn_setattr (met_ids : list str) (r : arxn) (kv : str * jval) : result arxn :=
    let (k, v) := kv in
    if str_mem k (t_rxn_skip T) then Ok r
    else if str_eqb k k_metabolites then
      st <- load_stoich met_ids v ;;
      Ok (mkRxn (r_id r) (r_name r) st (r_lb r) (r_ub r) (r_rule r) (r_obj r) (r_subsystem r) (r_notes r) (r_annot r))
    else if str_eqb k k_lower_bound then
      if t_bounds_at_once T then Ok r else set_lb r v
    else if str_eqb k k_upper_bound then
      if t_bounds_at_once T then Ok r else set_ub r v
    else if str_eqb k k_id then
      s <- (match v with JStr s => Ok s | JNull => Err EUnmodelled | _ => Err EType end) ;;
      Ok (mkRxn s (r_name r) (r_stoich r) (r_lb r) (r_ub r) (r_rule r) (r_obj r) (r_subsystem r) (r_notes r) (r_annot r))
    else if str_eqb k k_name then
      s <- as_str_val v ;;
      Ok (mkRxn (r_id r) s (r_stoich r) (r_lb r) (r_ub r) (r_rule r) (r_obj r) (r_subsystem r) (r_notes r) (r_annot r))
    else if str_eqb k k_gene_reaction_rule then
      s <- as_str_val v ;;
      Ok (mkRxn (r_id r) (r_name r) (r_stoich r) (r_lb r) (r_ub r) (rule_norm G s) (r_obj r) (r_subsystem r) (r_notes r) (r_annot r))
    else if str_eqb k k_subsystem then
      s <- as_str_val v ;;
      Ok (mkRxn (r_id r) (r_name r) (r_stoich r) (r_lb r) (r_ub r) (r_rule r) (r_obj r) s (r_notes r) (r_annot r))
    else if str_eqb k k_notes then
      d <- as_notes v ;;
      Ok (mkRxn (r_id r) (r_name r) (r_stoich r) (r_lb r) (r_ub r) (r_rule r) (r_obj r) (r_subsystem r) d (r_annot r))
    else if str_eqb k k_annotation then
      d <- as_annotation v ;;
      Ok (mkRxn (r_id r) (r_name r) (r_stoich r) (r_lb r) (r_ub r) (r_rule r) (r_obj r) (r_subsystem r) (r_notes r) d)
    else Ok r.

  (* model_from_dict's objective: rxn.get("objective_coefficient", 0) if it is != 0 *)
  Definition obj_coefficient (d : dict) : result Q :=
    match lookup k_objective_coefficient d with
    | None => Ok 0%Q
    | Some (JNum q) => Ok (if q_is_zero q then 0%Q else q)
    | Some _ => Err EUnmodelled
    end.

  (* _reaction_from_dict (the objective coefficient, applied later by set_objective, is carried along) *)
  Definition rxn_from_dict (met_ids : list str) (v : jval) : result arxn :=
    d <- as_dict v ;;
    r0 <- (if t_bounds_at_once T then init_bounds C d else Ok (default_rxn C)) ;;
    r <- foldM (rxn_setattr met_ids) d r0 ;;
    _ <- (if has_key k_id d then Ok tt else Err EUnmodelled) ;;
    Ok r.

  Definition with_obj (r : arxn) (q : Q) : arxn :=
    mkRxn (r_id r) (r_name r) (r_stoich r) (r_lb r) (r_ub r) (r_rule r) q (r_subsystem r) (r_notes r) (r_annot r).

  Fixpoint set_objs (rs : list arxn) (ds : list jval) : result (list arxn) :=
    match rs, ds with
    | r :: rs', JDict d :: ds' =>
        q <- obj_coefficient d ;; rest <- set_objs rs' ds' ;; Ok (with_obj r q :: rest)
    | [], [] => Ok []
    | _, _ => Err EUnmodelled
    end.

  Definition check_ids (ids : list str) : result unit :=
    if nodupb ids then Ok tt else Err EValue.

  (* genes named by a rule but absent from the "genes" list are created by add_reactions
     (set order in Python; canonical here: sorted by id) *)
  Fixpoint missing_genes (have : list str) (cands : list str) : list str :=
    match cands with
    | [] => []
    | c :: cs => if str_mem c have then missing_genes have cs else c :: missing_genes (c :: have) cs
    end.

  Fixpoint comps_of (d : dict) : result (list (str * str)) :=
    match d with
    | [] => Ok []
    | (k, JStr s) :: d' => rest <- comps_of d' ;; Ok ((k, s) :: rest)
    | _ => Err EUnmodelled
    end.

  (* model.compartments = v on a fresh model: _compartments.update(v) *)
  Definition load_comps (v : jval) : result (list (str * str)) :=
    d <- as_dict v ;; cs <- comps_of d ;; Ok (dsort cs).

  Definition model_setattr (m : amodel) (kv : str * jval) : result amodel :=
    let (k, v) := kv in
    if negb (str_mem k (t_model_attrs T)) then Ok m
    else if str_eqb k k_id then
      s <- (match v with JStr s => Ok (Some s) | JNull => Ok (a_id m) | _ => Err EType end) ;;
      Ok (mkModel s (a_name m) (a_mets m) (a_rxns m) (a_genes m) (a_comps m) (a_notes m) (a_annot m) (a_max m))
    else if str_eqb k k_name then
      s <- as_opt_str v ;;
      Ok (mkModel (a_id m) s (a_mets m) (a_rxns m) (a_genes m) (a_comps m) (a_notes m) (a_annot m) (a_max m))
    else if str_eqb k k_notes then
      d <- as_notes v ;;
      Ok (mkModel (a_id m) (a_name m) (a_mets m) (a_rxns m) (a_genes m) (a_comps m) d (a_annot m) (a_max m))
    else if str_eqb k k_compartments then
      cs <- load_comps v ;;
      Ok (mkModel (a_id m) (a_name m) (a_mets m) (a_rxns m) (a_genes m) cs (a_notes m) (a_annot m) (a_max m))
    else if str_eqb k k_annotation then
      d <- as_annotation v ;;
      Ok (mkModel (a_id m) (a_name m) (a_mets m) (a_rxns m) (a_genes m) (a_comps m) (a_notes m) d (a_max m))
    else Ok m.

  Definition from_dict (v : jval) : result amodel :=
    obj <- as_dict v ;;
    _ <- (if has_key k_reactions obj then Ok tt else Err EValue) ;;
    mj <- get_item k_metabolites obj ;; ml <- as_list mj ;;
    mets <- mapM met_from_dict ml ;;
    (* Model.add_metabolites: ids must be non-empty strings; DictList refuses duplicates *)
    _ <- (if forallb (fun m => negb (is_nil (m_id m))) mets then Ok tt else Err EValue) ;;
    _ <- check_ids (map m_id mets) ;;
    gj <- get_item k_genes obj ;; gl <- as_list gj ;;
    genes <- mapM gene_from_dict gl ;;
    _ <- check_ids (map g_id genes) ;;
    rj <- get_item k_reactions obj ;; rl <- as_list rj ;;
    rxns <- mapM (rxn_from_dict (map m_id mets)) rl ;;
    _ <- check_ids (map r_id rxns) ;;
    let extra := sort_by (fun s => s)
                   (missing_genes (map g_id genes) (flat_map (fun r => rule_genes G (r_rule r)) rxns)) in
    rxns' <- set_objs rxns rl ;;
    foldM model_setattr obj
      (mkModel None None mets rxns' (genes ++ map (fun s => mkGene s [] [] []) extra) [] [] [] true).
End Load.

(* ------------------------------------------------------------------ the reference tables
   (what the theorems are proved for; Gen/DictTables.v must agree, see tables_ok) *)
Definition ref_tables (at_once : bool) : tables :=
  mkTables
    [k_id; k_name; k_metabolites; k_lower_bound; k_upper_bound; k_gene_reaction_rule]
    [k_objective_coefficient; k_subsystem; k_notes; k_annotation]
    [(k_objective_coefficient, 1); (k_subsystem, 2); (k_notes, 3); (k_annotation, 3)]
    [k_id; k_name; k_compartment]
    [k_charge; k_formula; k__bound; k_notes; k_annotation]
    [(k_charge, 0); (k_formula, 0); (k__bound, 1); (k_notes, 3); (k_annotation, 3)]
    [k_id; k_name]
    [k_notes; k_annotation]
    [(k_notes, 3); (k_annotation, 3)]
    [k_name; k_compartments; k_notes; k_annotation]
    [(k_name, 0); (k_compartments, 4); (k_notes, 3); (k_annotation, 3)]
    [k_objective_coefficient; k_reaction; k_reversibility]
    at_once
    [k_annotation; k_compartments; k_id; k_name; k_notes].

Fixpoint list_eqb {A} (eqb : A -> A -> bool) (a b : list A) : bool :=
  match a, b with
  | [], [] => true
  | x :: a', y :: b' => eqb x y && list_eqb eqb a' b'
  | _, _ => false
  end.
Definition strs_eqb (a b : list str) : bool := list_eqb str_eqb a b.
Definition dflt_eqb (a b : list (str * Z)) : bool :=
  list_eqb (fun p q => str_eqb (fst p) (fst q) && (snd p =? snd q)) a b.

Definition tables_eqb (a b : tables) : bool :=
  strs_eqb (t_req_rxn a) (t_req_rxn b) && strs_eqb (t_opt_rxn_keys a) (t_opt_rxn_keys b) &&
  dflt_eqb (t_opt_rxn_defaults a) (t_opt_rxn_defaults b) &&
  strs_eqb (t_req_met a) (t_req_met b) && strs_eqb (t_opt_met_keys a) (t_opt_met_keys b) &&
  dflt_eqb (t_opt_met_defaults a) (t_opt_met_defaults b) &&
  strs_eqb (t_req_gene a) (t_req_gene b) && strs_eqb (t_opt_gene_keys a) (t_opt_gene_keys b) &&
  dflt_eqb (t_opt_gene_defaults a) (t_opt_gene_defaults b) &&
  strs_eqb (t_opt_model_keys a) (t_opt_model_keys b) &&
  dflt_eqb (t_opt_model_defaults a) (t_opt_model_defaults b) &&
  strs_eqb (t_rxn_skip a) (t_rxn_skip b) && Bool.eqb (t_bounds_at_once a) (t_bounds_at_once b) &&
  strs_eqb (t_model_attrs a) (t_model_attrs b).

(* well-formedness of a table: it is the reference table (for either way of applying bounds) *)
Definition tables_ok (t : tables) : bool := tables_eqb t (ref_tables (t_bounds_at_once t)).
