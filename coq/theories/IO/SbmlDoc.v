(* Document-level model of cobra/io/sbml.py: what _model_to_sbml writes, as data ([doc]), and what
   _sbml_to_model makes of such a document.  [write_doc] and [read_doc] follow the Python statement by
   statement for the modelled fields:
     model id / name, compartments, species (id, name, compartment, fbc:charge, fbc:chemicalFormula,
     boundaryCondition), parameters (id, value, constant), reactions (id, name, reversible, fast, the two
     flux-bound parameter ids, reactants / products with stoichiometry, gene product association), gene
     products (id, name, label), the objective (active id, type, flux objectives) and groups (id, name,
     kind, member idRefs).
   NOT in the document model: notes, annotations, metaids, SBO terms, units, the model history, the
   `_bound` of a metabolite and the `subsystem` of a reaction (not stored as such); [forget] resets the
   corresponding fields of the abstract model.
   libsbml is represented by its observable effect on these data: setId / setCompartment refuse a string
   that is not an SId (the attribute stays unset = ""), an unset string attribute reads as "", numbers are
   written with 15 significant digits ([wnum], see SbmlNum.v), and FbcAssociation's infix parser (fed with
   GPR.to_string) drops single-child operators and merges nested operators of the same kind
   ([write_assoc]).  harness/c10.py compares [write_doc] with the document cobrapy actually wrote and
   [read_doc] of that document with the model cobrapy actually read, for every generated model.
   Nothing here is a theorem. *)
From Coq Require Import ZArith QArith List Bool String.
From Cobra.IO Require Import Str JVal DictModel SbmlId.
From Cobra.GPR Require Syntax.
Import ListNotations.
Open Scope Z_scope.

Notation gpr := Syntax.gpr.
Notation Gene := Syntax.Gene.
Notation GBool := Syntax.Bool.

(* ------------------------------------------------------------------ abstract model for SBML *)
Inductive gkind := KCollection | KClassification | KPartonomy.       (* Group.KIND_TYPES; the setter refuses anything else *)

(* member: (type, id) with type 0 = gene, 1 = metabolite, 2 = reaction (the numbering of SbmlCheck.prefix_of);
   Group.members is a set: canonical representative = sorted, without duplicates *)
Record agroup := mkGroup { gr_id : str; gr_name : str; gr_kind : gkind; gr_members : list (Z * str) }.

(* the components of DictModel.amodel, a rule tree per reaction (GPR.body) and the groups *)
Record smodel := mkSModel {
  sm_id : option str; sm_name : option str;
  sm_mets : list amet; sm_rxns : list (arxn * Syntax.rule); sm_genes : list agene;
  sm_comps : list (str * str);          (* the private _compartments dict, sorted by key *)
  sm_max : bool; sm_groups : list agroup }.

(* ------------------------------------------------------------------ the document *)
Record dspecies := mkSp {
  sp_id : str; sp_name : str; sp_comp : str; sp_charge : option Z; sp_formula : str; sp_boundary : bool }.
Record dreaction := mkDR {
  dr_id : str; dr_name : str; dr_reversible : bool; dr_fast : bool; dr_lb : str; dr_ub : str;
  dr_reactants : list (str * Q); dr_products : list (str * Q); dr_assoc : option gpr }.
Record dgroup := mkDG { dg_id : str; dg_name : str; dg_kind : option gkind; dg_members : list str }.
Record doc := mkDoc {
  d_id : str; d_name : str;                              (* "" = attribute not set *)
  d_comps : list (str * str);                            (* id, name *)
  d_species : list dspecies;
  d_params : list (str * ebound * bool);                 (* id, value, constant *)
  d_rxns : list dreaction;
  d_gps : list (str * str * str);                        (* fbc:id, fbc:name, fbc:label *)
  d_active : str;
  d_objs : list (str * bool * list (str * Q));           (* fbc:id, type = maximize, (reaction, coefficient) *)
  d_groups : list dgroup }.

(* the identifiers that share the model-wide SId namespace of SBML core (the validator demands them distinct) *)
Definition core_sids (d : doc) : list str :=
  map fst (d_comps d) ++ map sp_id (d_species d) ++ map (fun p => fst (fst p)) (d_params d) ++ map dr_id (d_rxns d).

(* what is regenerated from the source (Gen/SbmlTables.v): prefixes, SBML_DOT, the five shared parameter ids,
   and how the reader creates a reaction before assigning its bounds *)
Record senv := mkEnv {
  e_pg : str; e_pm : str; e_pr : str; e_pgrp : str; e_dot : str;
  e_lower : str; e_upper : str; e_zero : str; e_minf : str; e_pinf : str;
  e_wide : bool;
  e_genes : bool }.                    (* the reader's sid_map also holds the gene products *)

(* ------------------------------------------------------------------ small library *)
Definition is_letter (c : Z) : bool := ((97 <=? c) && (c <=? 122)) || ((65 <=? c) && (c <=? 90)).
(* libsbml SyntaxChecker::isValidSBMLSId *)
Definition is_sid (s : str) : bool :=
  match s with
  | c :: r => (is_letter c || (c =? 95)) && forallb is_plain r
  | [] => false
  end.
(* setId / setCompartment / setIdRef with a string that is not an SId leave the attribute unset *)
Definition sid_or_empty (s : str) : str := if is_sid s then s else [].

(* str.strip() *)
Definition is_space (c : Z) : bool :=
  ((9 <=? c) && (c <=? 13)) || ((28 <=? c) && (c <=? 32)) || (c =? 133) || (c =? 160) || (c =? 5760) ||
  ((8192 <=? c) && (c <=? 8202)) || (c =? 8232) || (c =? 8233) || (c =? 8239) || (c =? 8287) || (c =? 12288).
Fixpoint lstrip (s : str) : str := match s with c :: r => if is_space c then lstrip r else s | [] => [] end.
Definition py_strip (s : str) : str := rev (lstrip (rev (lstrip s))).

(* pat in s *)
Fixpoint contains (pat s : str) : bool :=
  match s with
  | [] => is_nil pat
  | _ :: s' => starts_with pat s || contains pat s'
  end.

(* d[k] = f(d.get(k)) on an insertion-ordered dict *)
Fixpoint dict_upd {A} (f : option A -> A) (k : str) (d : list (str * A)) : list (str * A) :=
  match d with
  | [] => [(k, f None)]
  | (k', v) :: d' => if str_eqb k k' then (k', f (Some v)) :: d' else (k', v) :: dict_upd f k d'
  end.
Definition dict_of {A} (l : list (str * A)) : list (str * A) :=
  fold_left (fun d kv => dict_upd (fun _ => snd kv) (fst kv) d) l [].

Definition nonzero (p : str * Q) : bool := negb (q_is_zero (snd p)).
Definition qred_snd (p : str * Q) : str * Q := (fst p, Qred (snd p)).
Definition eb_red (v : ebound) : ebound := match v with Fin q => Fin (Qred q) | _ => v end.
Definition obj_red (q : Q) : Q := if q_is_zero q then 0%Q else Qred q.

(* group members: sorted by type, then id; no duplicates *)
Definition mkey (p : Z * str) : str := fst p :: snd p.
Definition mem_eqb (a b : Z * str) : bool := (fst a =? fst b) && str_eqb (snd a) (snd b).
Fixpoint dedup (l : list (Z * str)) : list (Z * str) :=
  match l with
  | [] => []
  | x :: r => if existsb (mem_eqb x) r then dedup r else x :: dedup r
  end.
Definition canon_members (l : list (Z * str)) : list (Z * str) := sort_by mkey (dedup l).

(* ------------------------------------------------------------------ gene product associations *)
Fixpoint rename (f : str -> str) (t : gpr) : gpr :=
  match t with
  | Syntax.Gene g => Gene (f g)
  | Syntax.Bool o l => GBool o (map (rename f) l)
  end.

(* nested operators of the same kind are merged (FbcAssociation: addChildren) *)
Fixpoint flatten (t : gpr) : gpr :=
  match t with
  | Syntax.Gene g => Gene g
  | Syntax.Bool o l =>
      GBool o (flat_map (fun x => match flatten x with
                                  | Syntax.Bool o' l' => if Syntax.bop_eqb o o' then l' else [GBool o' l']
                                  | y => [y]
                                  end) l)
  end.

(* the tree libsbml builds from GPR.to_string(): "(x)" is x (Syntax.collapse), then the merge *)
Definition assoc_norm (t : gpr) : gpr := flatten (Syntax.collapse t).

Definition s_lower_sfx := Eval compute in of_string "_lower_bound"%string.
Definition s_upper_sfx := Eval compute in of_string "_upper_bound"%string.
Definition s_obj := Eval compute in of_string "obj"%string.
Definition s_EX := Eval compute in of_string "EX_"%string.

Section Doc.
  Variable dec : Z -> str.          (* str(int) *)
  Variable undec : str -> Z.        (* int(str) *)
  Variable wnum : Q -> Q.           (* a double written as text and parsed again *)
  Variable clean : str -> str.      (* GPRCleaner.visit_Name on a gene id *)
  Variable E : senv.

  Definition enc_m (s : str) : str := f_rev dec (e_pm E) s.
  Definition enc_r (s : str) : str := f_rev dec (e_pr E) s.
  Definition enc_grp (s : str) : str := f_rev dec (e_pgrp E) s.
  Definition enc_g (s : str) : str := f_gene_rev dec (e_dot E) (e_pg E) s.
  Definition dec_m (s : str) : str := f_fwd undec (e_pm E) s.
  Definition dec_r (s : str) : str := f_fwd undec (e_pr E) s.
  Definition dec_grp (s : str) : str := f_fwd undec (e_pgrp E) s.
  Definition dec_g (s : str) : str := f_gene undec (e_dot E) (e_pg E) s.

  Definition wb (v : ebound) : ebound := match v with Fin q => Fin (wnum q) | _ => v end.

  (* ---------------------------------------------------------------- writing *)
  (* setAssociation(gpr.to_string(names=idmap), True, False); an operator without operands prints as "()" or
     "", which the infix parser refuses (_check only logs): no association is written *)
  Definition write_assoc (t : gpr) : option gpr :=
    if Syntax.wf t then Some (rename enc_g (assoc_norm t)) else None.

  Definition write_species (x : amet) : result dspecies :=
    match m_comp x with
    | None => Err EType                                  (* specie.setCompartment(None) *)
    | Some c =>
        Ok (mkSp (enc_m (m_id x)) (m_name x) (sid_or_empty c) (m_charge x)
                 (match m_formula x with Some f => f | None => [] end) false)
    end.

  Definition write_gp (g : agene) : str * str * str :=
    let gid := enc_g (g_id g) in (gid, if is_nil (g_name g) then gid else g_name g, gid).

  (* _create_bound: the id of the parameter, and the parameter it creates (if any) *)
  Definition pid_of (c : cfg) (rid : str) (upper : bool) (v : ebound) : str :=
    match create_bound c v with
    | BLower => e_lower E | BZero => e_zero E | BUpper => e_upper E
    | BMinusInf => e_minf E | BPlusInf => e_pinf E
    | BOwn _ => enc_r rid ++ (if upper then s_upper_sfx else s_lower_sfx)
    end.
  Definition own_param (c : cfg) (rid : str) (upper : bool) (v : ebound) : list (str * ebound * bool) :=
    match create_bound c v with
    | BOwn v' => [(pid_of c rid upper v, wb v', true)]
    | _ => []
    end.
  Definition shared_params (c : cfg) : list (str * ebound * bool) :=
    [(e_lower E, Fin (wnum (c_lb c)), true); (e_upper E, Fin (wnum (c_ub c)), true); (e_zero E, Fin 0, true);
     (e_minf E, NegInf, true); (e_pinf E, PosInf, true)].

  Definition write_sref (p : str * Q) : bool * (str * Q) :=
    let (is_prod, v) := export_coef (snd p) in (is_prod, (enc_m (fst p), wnum v)).

  Definition neg_bound (v : ebound) : bool :=
    match v with NegInf => true | Fin q => negb (Qle_bool 0 q) | PosInf => false end.

  Definition write_rxn (c : cfg) (rr : arxn * Syntax.rule) : dreaction :=
    let (r, rule) := rr in
    let refs := map write_sref (r_stoich r) in
    mkDR (enc_r (r_id r)) (r_name r) (neg_bound (r_lb r)) false
         (pid_of c (r_id r) false (r_lb r)) (pid_of c (r_id r) true (r_ub r))
         (map snd (filter (fun x => negb (fst x)) refs)) (map snd (filter fst refs))
         (match rule with Some t => write_assoc t | None => None end).

  Definition write_flux (rr : arxn * Syntax.rule) : list (str * Q) :=
    let r := fst rr in if q_is_zero (r_obj r) then [] else [(enc_r (r_id r), wnum (r_obj r))].

  Definition enc_member (p : Z * str) : str :=
    if fst p =? 2 then enc_r (snd p) else if fst p =? 1 then enc_m (snd p) else enc_g (snd p).

  Definition write_group (g : agroup) : dgroup :=
    mkDG (enc_grp (gr_id g)) (gr_name g) (Some (gr_kind g)) (map enc_member (gr_members g)).

  Definition write_doc (c : cfg) (m : smodel) : result doc :=
    species <- mapM write_species (sm_mets m) ;;
    Ok (mkDoc (match sm_id m with Some s => sid_or_empty s | None => [] end)
              (match sm_name m with Some s => s | None => [] end)
              (map (fun p => (sid_or_empty (fst p), snd p)) (public_comps_from (sm_comps m) (sm_mets m) []))
              species
              (shared_params c ++
               flat_map (fun rr => own_param c (r_id (fst rr)) false (r_lb (fst rr)) ++
                                   own_param c (r_id (fst rr)) true (r_ub (fst rr))) (sm_rxns m))
              (map (write_rxn c) (sm_rxns m))
              (map write_gp (sm_genes m))
              s_obj [(s_obj, sm_max m, flat_map write_flux (sm_rxns m))]
              (map write_group (sm_groups m))).

  (* ---------------------------------------------------------------- reading *)
  Definition req (s : str) : result str := if is_nil s then Err EOther else Ok s.      (* _check_required *)

  Definition read_comp (p : str * str) : result (str * str) := i <- req (fst p) ;; Ok (i, snd p).

  Definition read_species (s : dspecies) : result amet :=
    sid <- req (sp_id s) ;;
    Ok (mkMet (dec_m sid) (sp_name s) (Some (sp_comp s)) (sp_charge s)
              (if is_nil (sp_formula s) then None else Some (sp_formula s)) 0 [] []).

  Definition read_gp (g : str * str * str) : result agene :=
    gid <- req (fst (fst g)) ;; Ok (mkGene (dec_g gid) (snd (fst g)) [] []).

  Fixpoint find_param (pid : str) (ps : list (str * ebound * bool)) : option (ebound * bool) :=
    match ps with
    | [] => None
    | (i, v, k) :: ps' => if str_eqb pid i then Some (v, k) else find_param pid ps'
    end.

  (* model.getParameter(id); it must exist and be constant *)
  Definition read_bound_ref (ps : list (str * ebound * bool)) (pid : str) : result (option ebound) :=
    if is_nil pid then Ok None
    else match find_param pid ps with
         | Some (v, true) => Ok (Some (eb_red v))
         | _ => Err EOther
         end.

  Definition set_lower (cur : ebound * ebound) (v : ebound) : result (ebound * ebound) :=
    _ <- check_bounds v (snd cur) ;; Ok (v, snd cur).
  Definition set_upper (cur : ebound * ebound) (v : ebound) : result (ebound * ebound) :=
    _ <- check_bounds (fst cur) v ;; Ok (fst cur, v).

  (* Reaction(rid[, -inf, inf]); lower_bound = .. ; upper_bound = .. ; a missing bound is then set to the
     configured default *)
  Definition read_rxn_bounds (c : cfg) (olb oub : option ebound) : result (ebound * ebound) :=
    let b0 := if e_wide E then (NegInf, PosInf) else (Fin 0, Fin (c_ub c)) in
    b1 <- match olb with Some v => set_lower b0 v | None => Ok b0 end ;;
    b2 <- match oub with Some v => set_upper b1 v | None => Ok b1 end ;;
    b3 <- match olb with None => set_lower b2 (Fin (c_lb c)) | Some _ => Ok b2 end ;;
    match oub with None => set_upper b3 (Fin (c_ub c)) | Some _ => Ok b3 end.

  Definition q_of (o : option Q) : Q := match o with Some q => q | None => 0%Q end.

  (* stoichiometry[sid] -= / += number(stoichiometry) on a defaultdict *)
  Fixpoint acc_refs (sign : bool) (refs : list (str * Q)) (acc : list (str * Q)) : result (list (str * Q)) :=
    match refs with
    | [] => Ok acc
    | (sid, v) :: refs' =>
        s <- req sid ;;
        acc_refs sign refs' (dict_upd (fun o => if sign then Qplus (q_of o) v else Qminus (q_of o) v) (dec_m s) acc)
    end.

  Definition read_assoc (t : gpr) : gpr := rename (fun s => clean (dec_g s)) t.

  Definition read_rxn (c : cfg) (ps : list (str * ebound * bool)) (met_ids : list str) (r : dreaction)
    : result (arxn * Syntax.rule) :=
    rid <- req (dr_id r) ;;
    olb <- read_bound_ref ps (dr_lb r) ;;
    oub <- read_bound_ref ps (dr_ub r) ;;
    b <- read_rxn_bounds c olb oub ;;
    a1 <- acc_refs false (dr_reactants r) [] ;;
    a2 <- acc_refs true (dr_products r) a1 ;;
    _ <- (if forallb (fun p => str_mem (fst p) met_ids) a2 then Ok tt else Err EKey) ;;   (* metabolites.get_by_id *)
    Ok (mkRxn (dec_r rid) (py_strip (dr_name r)) (dsort (filter nonzero (map qred_snd a2))) (fst b) (snd b)
              [] 0 [] [] [],
        match dr_assoc r with Some a => Some (read_assoc a) | None => None end).

  (* exchange reactions for boundaryCondition species (not written by cobrapy, met in foreign documents) *)
  Definition ex_rxn (c : cfg) (x : amet) : result (arxn * Syntax.rule) :=
    b1 <- set_lower (Fin 0, Fin (c_ub c)) (Fin (c_lb c)) ;;
    b2 <- set_upper b1 (Fin (c_ub c)) ;;
    Ok (mkRxn (s_EX ++ m_id x) (s_EX ++ m_id x) [(m_id x, (-1) # 1)] (fst b2) (snd b2) [] 0 [] [] [], None).

  Fixpoint find_obj (i : str) (l : list (str * bool * list (str * Q))) : option (bool * list (str * Q)) :=
    match l with
    | [] => None
    | (j, mx, fl) :: l' => if str_eqb i j then Some (mx, fl) else find_obj i l'
    end.

  Fixpoint acc_flux (rids : list str) (fl : list (str * Q)) (acc : list (str * Q)) : result (list (str * Q)) :=
    match fl with
    | [] => Ok acc
    | (r, q) :: fl' =>
        let rid := dec_r r in
        if str_mem rid rids then acc_flux rids fl' (dict_upd (fun _ => q) rid acc)
        else Err EOther                                  (* "Objective reaction not found" *)
    end.

  Definition read_objective (d : doc) (rids : list str) : result (bool * list (str * Q)) :=
    if is_nil (d_objs d) || is_nil (d_active d) then Ok (true, [])
    else match find_obj (d_active d) (d_objs d) with
         | None => Err EAttr
         | Some (mx, fl) => co <- acc_flux rids fl [] ;; Ok (mx, co)
         end.

  Definition with_obj_of (co : list (str * Q)) (rr : arxn * Syntax.rule) : arxn * Syntax.rule :=
    let r := fst rr in
    (mkRxn (r_id r) (r_name r) (r_stoich r) (r_lb r) (r_ub r) (r_rule r)
           (match lookup (r_id r) co with Some q => obj_red q | None => 0%Q end)
           (r_subsystem r) (r_notes r) (r_annot r), snd rr).

  (* sid_map: compartments, species, reactions, [gene products,] groups -- a later list overrides an earlier one *)
  Definition read_member (d : doc) (idref : str) : result (list (Z * str)) :=
    if str_mem idref (map dg_id (d_groups d)) then Ok []                       (* unsupported type code: skipped *)
    else if e_genes E && str_mem idref (map (fun g => fst (fst g)) (d_gps d)) then Ok [(0, dec_g idref)]
    else if str_mem idref (map dr_id (d_rxns d)) then Ok [(2, dec_r idref)]
    else if str_mem idref (map sp_id (d_species d)) then Ok [(1, dec_m idref)]
    else if str_mem idref (map fst (d_comps d)) then Ok []
    else Err EKey.

  Definition read_group (d : doc) (g : dgroup) : result agroup :=
    gid <- req (dg_id g) ;;
    ms <- mapM (read_member d) (dg_members g) ;;
    Ok (mkGroup (dec_grp gid) (dg_name g) (match dg_kind g with Some k => k | None => KCollection end)
                (canon_members (List.concat ms))).

  Definition rule_gene_ids (rr : arxn * Syntax.rule) : list str := Syntax.genes_rule (snd rr).

  Definition read_doc (c : cfg) (d : doc) : result smodel :=
    comps <- mapM read_comp (d_comps d) ;;
    mets <- mapM read_species (d_species d) ;;
    (* Model.add_metabolites: ids must be non-empty; DictList refuses duplicates *)
    _ <- (if forallb (fun x => negb (is_nil (m_id x))) mets then Ok tt else Err EValue) ;;
    _ <- check_ids (map m_id mets) ;;
    exs <- mapM (ex_rxn c) (map snd (filter (fun p => sp_boundary (fst p)) (combine (d_species d) mets))) ;;
    genes <- mapM read_gp (d_gps d) ;;
    _ <- check_ids (map g_id genes) ;;
    rxns <- mapM (read_rxn c (d_params d) (map m_id mets)) (d_rxns d) ;;
    _ <- check_ids (map (fun rr => r_id (fst rr)) rxns) ;;
    (* Model.add_reactions ignores a reaction whose id is already in the model *)
    let ex_ids := map (fun rr => r_id (fst rr)) exs in
    let all := exs ++ filter (fun rr => negb (str_mem (r_id (fst rr)) ex_ids)) rxns in
    let extra := sort_by (fun s => s) (missing_genes (map g_id genes) (flat_map rule_gene_ids all)) in
    ob <- read_objective d (map (fun rr => r_id (fst rr)) all) ;;
    groups <- mapM (read_group d) (d_groups d) ;;
    _ <- check_ids (map gr_id groups) ;;
    Ok (mkSModel (Some (d_id d)) (if is_nil (d_name d) then None else Some (d_name d))
                 mets (map (with_obj_of (snd ob)) all)
                 (genes ++ map (fun s => mkGene s [] [] []) extra)
                 (dsort (dict_of comps)) (fst ob) groups).

  Definition roundtrip (c : cfg) (m : smodel) : result smodel := d <- write_doc c m ;; read_doc c d.

  (* ---------------------------------------------------------------- the documented normalisation *)
  Definition forget_met (x : amet) : amet :=
    mkMet (m_id x) (m_name x) (m_comp x) (m_charge x) (m_formula x) 0 [] [].
  Definition forget_gene (g : agene) : agene := mkGene (g_id g) (g_name g) [] [].
  Definition forget_rxn (rr : arxn * Syntax.rule) : arxn * Syntax.rule :=
    let r := fst rr in
    (mkRxn (r_id r) (r_name r) (r_stoich r) (r_lb r) (r_ub r) [] (r_obj r) [] [] [], snd rr).
  (* the fields the document does not carry *)
  Definition forget (m : smodel) : smodel :=
    mkSModel (sm_id m) (sm_name m) (map forget_met (sm_mets m)) (map forget_rxn (sm_rxns m))
             (map forget_gene (sm_genes m)) (sm_comps m) (sm_max m) (sm_groups m).

  Definition norm_met (x : amet) : amet :=
    mkMet (m_id x) (m_name x) (m_comp x) (m_charge x)
          (match m_formula x with Some [] => None | f => f end) 0 [] [].
  Definition norm_gene (g : agene) : agene :=
    mkGene (g_id g) (if is_nil (g_name g) then enc_g (g_id g) else g_name g) [] [].
  Definition norm_rxn (rr : arxn * Syntax.rule) : arxn * Syntax.rule :=
    let r := fst rr in
    (mkRxn (r_id r) (py_strip (r_name r)) (dsort (filter nonzero (map qred_snd (r_stoich r))))
           (eb_red (r_lb r)) (eb_red (r_ub r)) [] (obj_red (r_obj r)) [] [] [],
     match snd rr with Some t => Some (assoc_norm t) | None => None end).
  Definition norm_group (g : agroup) : agroup :=
    mkGroup (gr_id g) (gr_name g) (gr_kind g) (canon_members (gr_members g)).

  (* what one write/read trip makes of a model inside [sbml_ok]: unmodelled fields reset; model id "" unless
     it is an SId; names: model name "" -> None, reaction names stripped, an empty gene name becomes the
     gene's SBML id; formula "" -> None; numbers in lowest terms, zero coefficients dropped, stoichiometry
     sorted; rule trees in the form libsbml gives them; compartments = those of the metabolites; group
     members as a sorted set *)
  Definition norm (m : smodel) : smodel :=
    mkSModel (Some (match sm_id m with Some s => sid_or_empty s | None => [] end))
             (match sm_name m with Some [] => None | x => x end)
             (map norm_met (sm_mets m)) (map norm_rxn (sm_rxns m)) (map norm_gene (sm_genes m))
             (dsort (public_comps_from (sm_comps m) (sm_mets m) [])) (sm_max m) (map norm_group (sm_groups m)).

  (* ---------------------------------------------------------------- the side condition *)
  Definition num_ok (q : Q) : bool := Qeq_bool (wnum q) q.
  (* the parameter a bound refers to carries a number that survives being written *)
  Definition bound_num_ok (c : cfg) (v : ebound) : bool :=
    match bref_value c (create_bound c v) with Fin q => num_ok q | _ => true end.

  (* genes: besides the codec's precondition, the marker SBML_DOT must not occur in what is written *)
  Definition gene_sid_ok (s : str) : bool :=
    sid_ok (e_pg E) s && negb (contains (e_dot E) (e_pg E ++ escape dec s)).

  Definition met_ok (x : amet) : bool :=
    sid_ok (e_pm E) (m_id x) && negb (is_nil (m_id x)) &&
    match m_comp x with Some c => is_sid c | None => false end.

  Definition rule_ok (gids : list str) (t : gpr) : bool :=
    Syntax.wf t && forallb (fun g => str_mem g gids && str_eqb (clean g) g) (Syntax.genes t).

  Definition coef_ok (mids : list str) (p : str * Q) : bool :=
    str_mem (fst p) mids && num_ok (snd (export_coef (snd p))).

  Definition rxn_ok (c : cfg) (mids gids : list str) (rr : arxn * Syntax.rule) : bool :=
    let r := fst rr in
    sid_ok (e_pr E) (r_id r) && eb_leb (r_lb r) (r_ub r) && (e_wide E || eb_leb (r_lb r) (Fin (c_ub c))) &&
    bound_num_ok c (r_lb r) && bound_num_ok c (r_ub r) &&
    nodupb (map fst (r_stoich r)) && forallb (coef_ok mids) (r_stoich r) &&
    (q_is_zero (r_obj r) || num_ok (r_obj r)) &&
    match snd rr with Some t => rule_ok gids t | None => true end.

  (* a member is a metabolite, a reaction or -- when the reader knows gene products -- a gene of the model; the
     prefixes of genes and groups coincide (G_), so a gene member must not be written like one of the groups *)
  Definition member_ok (mids rids gids grpids : list str) (p : Z * str) : bool :=
    ((fst p =? 1) && str_mem (snd p) mids) || ((fst p =? 2) && str_mem (snd p) rids) ||
    ((fst p =? 0) && e_genes E && str_mem (snd p) gids && negb (str_mem (enc_g (snd p)) (map enc_grp grpids))).

  Definition group_ok (mids rids gids grpids : list str) (g : agroup) : bool :=
    sid_ok (e_pgrp E) (gr_id g) && forallb (member_ok mids rids gids grpids) (gr_members g).

  Definition sbml_ok (c : cfg) (m : smodel) : bool :=
    let mids := map m_id (sm_mets m) in
    let gids := map g_id (sm_genes m) in
    let rids := map (fun rr => r_id (fst rr)) (sm_rxns m) in
    forallb met_ok (sm_mets m) && nodupb mids &&
    forallb (fun g => gene_sid_ok (g_id g)) (sm_genes m) && nodupb gids &&
    forallb (rxn_ok c mids gids) (sm_rxns m) && nodupb rids &&
    forallb (group_ok mids rids gids (map gr_id (sm_groups m))) (sm_groups m) && nodupb (map gr_id (sm_groups m)).
End Doc.

(* well-formedness of the regenerated constants: prefixes are non-empty, plain, start with a letter and the
   prefixes of species, reactions and groups start differently, and so do those of genes and species / reactions; the five shared parameter ids are pairwise
   distinct, non-empty and none of them starts like a reaction id *)
Definition head_of (s : str) : Z := match s with c :: _ => c | [] => 0 end.
Definition prefix_ok (p : str) : bool := forallb is_plain p && is_letter (head_of p).
Definition env_ok (E : senv) : bool :=
  prefix_ok (e_pg E) && prefix_ok (e_pm E) && prefix_ok (e_pr E) && prefix_ok (e_pgrp E) &&
  negb (head_of (e_pm E) =? head_of (e_pr E)) && negb (head_of (e_pm E) =? head_of (e_pgrp E)) &&
  negb (head_of (e_pr E) =? head_of (e_pgrp E)) &&
  negb (head_of (e_pg E) =? head_of (e_pm E)) && negb (head_of (e_pg E) =? head_of (e_pr E)) &&
  nodupb [e_lower E; e_upper E; e_zero E; e_minf E; e_pinf E] &&
  forallb (fun s => negb (is_nil s) && negb (head_of s =? head_of (e_pr E)))
          [e_lower E; e_upper E; e_zero E; e_minf E; e_pinf E].
