(* Gene / reaction knock-outs (Gene.knock_out, the Gene.functional setter, Reaction.functional,
   Reaction.knock_out, manipulation.delete.knock_out_model_genes).  Executable model only.

   State kept per reaction: id, rule, the reaction's own gene set (`_genes`), bounds;
   per model: the genes whose `functional` flag is False, and the genes' back-references
   (`gene.reactions`).  Everything else of a cobra Model is irrelevant to these operations.   *)
From Coq Require Import ZArith QArith List Bool.
From Cobra.GPR Require Import Syntax.
Import ListNotations.
Open Scope Z_scope.

Record rxn := mkR { r_id : Z; r_rule : rule; r_genes : list ident; r_lb : Q; r_ub : Q }.

Record state := mkS {
  s_rxns : list rxn;
  s_nonfunc : list ident;              (* genes with functional = False *)
  s_grx : list (ident * list Z)        (* gene.reactions, as reaction ids *)
}.

Definition memz (z : Z) (l : list Z) : bool := existsb (Z.eqb z) l.

Fixpoint assoc_rx (g : ident) (l : list (ident * list Z)) : list Z :=
  match l with
  | [] => []
  | (h, rs) :: r => if str_eqb g h then rs else assoc_rx g r
  end.

(* Reaction.functional: self._gpr.eval({gene.id for gene in self.genes if not gene.functional}) *)
Definition ko_set (nf : list ident) (r : rxn) : ident -> bool :=
  fun g => mem g (r_genes r) && mem g nf.
Definition rfun (nf : list ident) (r : rxn) : bool := eval_rule (ko_set nf r) (r_rule r).
Definition rxn_functional (w : state) (r : rxn) : bool := rfun (s_nonfunc w) r.
Definition gene_functional (w : state) (g : ident) : bool := negb (mem g (s_nonfunc w)).

(* reaction.bounds = (0, 0) *)
Definition zero (r : rxn) : rxn := mkR (r_id r) (r_rule r) (r_genes r) 0 0.

(* Gene.knock_out: self.functional = False; for reaction in self.reactions:
                      if not reaction.functional: reaction.bounds = (0, 0)               *)
Definition ko1 (grx : list (ident * list Z)) (nf : list ident) (g : ident) (r : rxn) : rxn :=
  if memz (r_id r) (assoc_rx g grx) && negb (rfun (g :: nf) r) then zero r else r.

Definition gene_knock_out (w : state) (g : ident) : state :=
  mkS (map (ko1 (s_grx w) (s_nonfunc w) g) (s_rxns w)) (g :: s_nonfunc w) (s_grx w).

Definition knock_outs (gs : list ident) (w : state) : state := fold_left gene_knock_out gs w.

(* knock_out_model_genes: for gene in gene_list: gene.knock_out(); rxn_set.update(gene.reactions)
   return [rxn for rxn in rxn_set if not rxn.functional]        (a set: order not modelled)    *)
Definition knock_out_model_genes (w : state) (gs : list ident) : state * list Z :=
  let w' := knock_outs gs w in
  (w', map r_id (filter (fun r => existsb (fun g => memz (r_id r) (assoc_rx g (s_grx w))) gs
                                  && negb (rxn_functional w' r)) (s_rxns w'))).

(* Reaction.knock_out: self.bounds = (0, 0) *)
Definition reaction_knock_out (w : state) (rid : Z) : state :=
  mkS (map (fun r => if r_id r =? rid then zero r else r) (s_rxns w)) (s_nonfunc w) (s_grx w).

(* gene.functional = b  (the plain setter; no effect on bounds) *)
Definition set_functional (w : state) (g : ident) (b : bool) : state :=
  mkS (s_rxns w)
      (if b then filter (fun x => negb (str_eqb x g)) (s_nonfunc w) else g :: s_nonfunc w)
      (s_grx w).

(* well-formedness of the cross references the operations rely on *)
Definition wf_rxn (grx : list (ident * list Z)) (r : rxn) : Prop :=
  (forall g, memz (r_id r) (assoc_rx g grx) = mem g (r_genes r)) /\
  (forall g, In g (genes_rule (r_rule r)) -> In g (r_genes r)).

(* solver variables of a reaction with finite bounds (Reaction.update_variable_bounds) *)
Definition qmax0 (q : Q) : Q := if Qle_bool 0 q then q else 0.
Definition fwd_bounds (r : rxn) : Q * Q := (qmax0 (r_lb r), qmax0 (r_ub r)).
Definition rev_bounds (r : rxn) : Q * Q := (qmax0 (- r_ub r), qmax0 (- r_lb r)).
