(* C07 correspondence + monitor, evaluated by vm_compute on observations of real cobra Models.
   Nothing here is a theorem. *)
From Coq Require Import ZArith QArith List Bool.
From Cobra.GPR Require Import Syntax Remover.
From Cobra.Knockout Require Import Model.
Import ListNotations.
Open Scope Z_scope.

Inductive op :=
| OKo (g : ident)                 (* model.genes.get_by_id(g).knock_out() *)
| OKoModel (gs : list ident)      (* knock_out_model_genes(model, gs) *)
| ORko (rid : Z)                  (* reaction.knock_out() *)
| OSetFunc (g : ident) (b : bool) (* gene.functional = b *)
| ORestore.                       (* leaving the `with model:` block *)

Record obs := mkObs {
  ob_bounds : list (Z * (Q * Q));           (* reaction index, (lb, ub) *)
  ob_gfunc : list (ident * bool);           (* gene.functional *)
  ob_rfunc : list (Z * bool);               (* reaction.functional *)
  ob_vars : list (Z * ((Q * Q) * (Q * Q))); (* forward / reverse variable (lb, ub) after solver.update() *)
  ob_ret : list Z                           (* reactions returned by knock_out_model_genes *)
}.

Definition case := (state * obs * list (op * obs))%type.

Definition qpair_eqb (a b : Q * Q) : bool := Qeq_bool (fst a) (fst b) && Qeq_bool (snd a) (snd b).

Fixpoint zassoc {A} (k : Z) (l : list (Z * A)) : option A :=
  match l with [] => None | (a, b) :: r => if a =? k then Some b else zassoc k r end.
Fixpoint sassoc {A} (k : ident) (l : list (ident * A)) : option A :=
  match l with [] => None | (a, b) :: r => if str_eqb a k then Some b else sassoc k r end.

Definition zsubset (a b : list Z) : bool := forallb (fun x => memz x b) a.
Definition zset_eqb (a b : list Z) : bool := zsubset a b && zsubset b a.

Definition step (w : state) (o : op) (init : state) : state * list Z :=
  match o with
  | OKo g => (gene_knock_out w g, [])
  | OKoModel gs => knock_out_model_genes w gs
  | ORko rid => (reaction_knock_out w rid, [])
  | OSetFunc g b => (set_functional w g b, [])
  | ORestore => (init, [])
  end.

(* model state vs observation *)
Definition agrees (w : state) (ret : list Z) (ob : obs) : bool :=
  Nat.eqb (length (s_rxns w)) (length (ob_bounds ob)) &&
  forallb (fun r =>
    match zassoc (r_id r) (ob_bounds ob), zassoc (r_id r) (ob_rfunc ob), zassoc (r_id r) (ob_vars ob) with
    | Some b, Some f, Some (vf, vr) =>
        qpair_eqb b (r_lb r, r_ub r) && Bool.eqb f (rxn_functional w r) &&
        qpair_eqb vf (fwd_bounds r) && qpair_eqb vr (rev_bounds r)
    | _, _, _ => false
    end) (s_rxns w) &&
  forallb (fun gf => Bool.eqb (snd gf) (gene_functional w (fst gf))) (ob_gfunc ob) &&
  zset_eqb ret (ob_ret ob).

(* ---- the property, on observations only (truth-table evaluator = Syntax.eval) *)
Definition nonfunc_of (ob : obs) : list ident := map fst (filter (fun gf => negb (snd gf)) (ob_gfunc ob)).
Definition rule_of (init : state) (rid : Z) : rule :=
  match find (fun r => r_id r =? rid) (s_rxns init) with Some r => r_rule r | None => None end.
Definition in_rule (init : state) (rid : Z) (g : ident) : bool := mem g (genes_rule (rule_of init rid)).

Definition rfunc_ok (init : state) (ob : obs) : bool :=
  forallb (fun rf => Bool.eqb (snd rf) (eval_rule (in_set (nonfunc_of ob)) (rule_of init (fst rf)))) (ob_rfunc ob).

Definition bounds_same_except (prev ob : obs) (zeroed : Z -> bool) : bool :=
  forallb (fun rb =>
    match zassoc (fst rb) (ob_bounds prev) with
    | Some pb => if zeroed (fst rb) then qpair_eqb (snd rb) (0, 0)%Q else qpair_eqb (snd rb) pb
    | None => false
    end) (ob_bounds ob).

Definition gfunc_same_except (prev ob : obs) (changed : ident -> option bool) : bool :=
  forallb (fun gf =>
    match changed (fst gf) with
    | Some b => Bool.eqb (snd gf) b
    | None => match sassoc (fst gf) (ob_gfunc prev) with Some b => Bool.eqb (snd gf) b | None => false end
    end) (ob_gfunc ob).

Definition ko_zeroed (init : state) (ob : obs) (gs : list ident) (rid : Z) : bool :=
  existsb (in_rule init rid) gs && negb (eval_rule (in_set (nonfunc_of ob)) (rule_of init rid)).

Definition prop_ok (init : state) (ob0 prev : obs) (o : op) (ob : obs) : bool :=
  rfunc_ok init ob &&
  match o with
  | OKo g => bounds_same_except prev ob (ko_zeroed init ob [g]) &&
             gfunc_same_except prev ob (fun x => if str_eqb x g then Some false else None)
  | OKoModel gs => bounds_same_except prev ob (ko_zeroed init ob gs) &&
                   gfunc_same_except prev ob (fun x => if mem x gs then Some false else None) &&
                   zset_eqb (ob_ret ob) (map fst (filter (fun rb => ko_zeroed init ob gs (fst rb)) (ob_bounds ob)))
  | ORko rid => bounds_same_except prev ob (fun x => x =? rid) && gfunc_same_except prev ob (fun _ => None)
  | OSetFunc g b => bounds_same_except prev ob (fun _ => false) &&
                    gfunc_same_except prev ob (fun x => if str_eqb x g then Some b else None)
  | ORestore => bounds_same_except ob0 ob (fun _ => false) && gfunc_same_except ob0 ob (fun _ => None)
  end.

Definition vars_ok (ob : obs) : bool :=
  forallb (fun v =>
    match zassoc (fst v) (ob_bounds ob) with
    | Some (lb, ub) =>
        let r := mkR 0 None [] lb ub in
        qpair_eqb (fst (snd v)) (fwd_bounds r) && qpair_eqb (snd (snd v)) (rev_bounds r)
    | None => false
    end) (ob_vars ob).

(* cross references the theorems assume: gene.reactions <-> reaction.genes, rule genes are reaction genes *)
Definition wf_state (w : state) : bool :=
  forallb (fun r =>
    forallb (fun g => mem g (r_genes r)) (genes_rule (r_rule r)) &&
    forallb (fun g => memz (r_id r) (assoc_rx g (s_grx w))) (r_genes r) &&
    forallb (fun grs => negb (memz (r_id r) (snd grs)) || mem (fst grs) (r_genes r)) (s_grx w)) (s_rxns w).

Definition code (ok : bool) (n k : nat) : list (nat * nat) := if ok then [] else [(n, k)].

Fixpoint check_steps (init w : state) (ob0 prev : obs) (steps : list (op * obs)) (n : nat) : list (nat * nat) :=
  match steps with
  | [] => []
  | (o, ob) :: r =>
      let '(w', ret) := step w o init in
      code (agrees w' ret ob) n 1 ++ code (prop_ok init ob0 prev o ob) n 2 ++ code (vars_ok ob) n 3 ++
      check_steps init w' ob0 ob r (S n)
  end.

(* codes: 1 model and implementation differ; 2 the knock-out property fails on the observed
   state; 3 solver variable bounds do not match the reaction bounds; 5 cross references of the
   freshly built model are not well-formed *)
Definition check_case (c : case) : list (nat * nat) :=
  let '(init, ob0, steps) := c in
  code (agrees init [] ob0) 0 1 ++ code (wf_state init) 0 5 ++ code (vars_ok ob0 && rfunc_ok init ob0) 0 2 ++
  check_steps init init ob0 ob0 steps 1.

Fixpoint failing (cs : list (Z * case)) : list (Z * list (nat * nat)) :=
  match cs with
  | [] => []
  | (i, c) :: r => match check_case c with [] => failing r | l => (i, l) :: failing r end
  end.
