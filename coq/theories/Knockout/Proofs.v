(* Proofs for the knock-out model. *)
From Coq Require Import ZArith QArith List Bool Lia Permutation.
From Cobra.GPR Require Import Syntax Proofs.
From Cobra.Knockout Require Import Model.
Import ListNotations.
Open Scope Z_scope.

Definition static (r : rxn) := (r_id r, r_rule r, r_genes r).
Definition bounds (r : rxn) : Q * Q := (r_lb r, r_ub r).

Lemma rxn_eq r r' : static r = static r' -> bounds r = bounds r' -> r = r'.
Proof. destruct r, r'; unfold static, bounds; cbn. intros H1 H2. inversion H1; inversion H2; subst; reflexivity. Qed.

Lemma rfun_static nf r r' : static r = static r' -> rfun nf r = rfun nf r'.
Proof. unfold static, rfun, ko_set. intro H. inversion H. reflexivity. Qed.

Lemma static_zero r : static (zero r) = static r.
Proof. reflexivity. Qed.

Lemma eval_rule_ext K K' r : (forall g, In g (genes_rule r) -> K g = K' g) -> eval_rule K r = eval_rule K' r.
Proof. destruct r as [t|]; cbn; [apply eval_ext | reflexivity]. Qed.

Lemma eval_rule_mono K K' r : (forall g, K g = true -> K' g = true) -> eval_rule K' r = true -> eval_rule K r = true.
Proof. destruct r as [t|]; cbn; [apply eval_mono | reflexivity]. Qed.

(* the reaction's own view agrees with the plain knock-out set when its genes cover its rule *)
Lemma rfun_plain grx nf r : wf_rxn grx r -> rfun nf r = eval_rule (fun g => mem g nf) (r_rule r).
Proof.
  intros [_ H]. unfold rfun, ko_set. apply eval_rule_ext. intros g Hg.
  replace (mem g (r_genes r)) with true; [reflexivity|]. symmetry. apply mem_In. apply H. exact Hg.
Qed.

Lemma rfun_ext nf nf' r :
  (forall g, In g (r_genes r) -> mem g nf = mem g nf') -> rfun nf r = rfun nf' r.
Proof.
  intro H. unfold rfun, ko_set. apply eval_rule_ext. intros g _.
  destruct (mem g (r_genes r)) eqn:E; [|reflexivity]. cbn. apply H. apply mem_In. exact E.
Qed.

Lemma rfun_mono nf nf' r :
  (forall g, mem g nf = true -> mem g nf' = true) -> rfun nf' r = true -> rfun nf r = true.
Proof.
  intro H. unfold rfun, ko_set. apply eval_rule_mono. intros g Hg.
  apply andb_true_iff in Hg as [H1 H2]. rewrite H1, (H g H2). reflexivity.
Qed.

Lemma mem_app g a b : mem g (a ++ b) = mem g a || mem g b.
Proof. unfold mem. apply existsb_app. Qed.

Lemma mem_rev g a : mem g (rev a) = mem g a.
Proof.
  destruct (mem g a) eqn:E.
  - apply mem_In. apply in_rev. rewrite rev_involutive. apply mem_In. exact E.
  - apply mem_false. intro H. apply in_rev in H. apply mem_In in H. congruence.
Qed.

Lemma mem_cons g h a : mem g (h :: a) = str_eqb g h || mem g a.
Proof. reflexivity. Qed.

(* ------------------------------------------------------------ one reaction through a sequence *)
Fixpoint kos1 (grx : list (ident * list Z)) (nf : list ident) (gs : list ident) (r : rxn) : rxn :=
  match gs with
  | [] => r
  | g :: gs' => kos1 grx (g :: nf) gs' (ko1 grx nf g r)
  end.

Lemma knock_outs_map gs : forall w,
  knock_outs gs w = mkS (map (kos1 (s_grx w) (s_nonfunc w) gs) (s_rxns w)) (rev gs ++ s_nonfunc w) (s_grx w).
Proof.
  induction gs as [|g gs IH]; intro w.
  - cbn. rewrite map_id. destruct w; reflexivity.
  - cbn [knock_outs fold_left]. fold (knock_outs gs (gene_knock_out w g)). rewrite IH.
    cbn [gene_knock_out s_grx s_nonfunc s_rxns]. rewrite map_map. cbn [rev]. rewrite <- app_assoc. reflexivity.
Qed.

Lemma static_ko1 grx nf g r : static (ko1 grx nf g r) = static r.
Proof. unfold ko1. destruct (_ && _); reflexivity. Qed.

Definition touched (gs : list ident) (r : rxn) : bool := existsb (fun g => mem g (r_genes r)) gs.

Lemma kos1_spec grx gs : forall nf r, wf_rxn grx r ->
  static (kos1 grx nf gs r) = static r /\
  bounds (kos1 grx nf gs r) =
    if touched gs r && negb (rfun (rev gs ++ nf) r) then (0, 0)%Q else bounds r.
Proof.
  induction gs as [|g gs IH]; intros nf r Hwf; [split; reflexivity|].
  cbn [kos1].
  assert (Hs1 : static (ko1 grx nf g r) = static r) by apply static_ko1.
  assert (Hwf1 : wf_rxn grx (ko1 grx nf g r)).
  { unfold wf_rxn, static in *. inversion Hs1 as [[E1 E2 E3]]. rewrite E1, E2, E3. exact Hwf. }
  destruct (IH (g :: nf) (ko1 grx nf g r) Hwf1) as [IHs IHb].
  split; [congruence|].
  rewrite IHb. clear IHb IHs.
  assert (Eg : r_genes (ko1 grx nf g r) = r_genes r) by (unfold static in Hs1; congruence).
  assert (Et : touched gs (ko1 grx nf g r) = touched gs r) by (unfold touched; rewrite Eg; reflexivity).
  rewrite Et. rewrite (rfun_static _ _ _ Hs1).
  assert (Er : rev (g :: gs) ++ nf = rev gs ++ g :: nf) by (cbn [rev]; rewrite <- app_assoc; reflexivity).
  rewrite Er. set (F := rfun (rev gs ++ g :: nf) r).
  cbn [touched existsb]. fold (touched gs r).
  destruct Hwf as [Hback _]. unfold ko1. rewrite Hback.
  destruct (touched gs r) eqn:Tl, F eqn:EF; cbn [andb negb orb]; try rewrite orb_true_r; cbn [andb negb].
  - (* later touched, finally functional: never zeroed *)
    replace (rfun (g :: nf) r) with true; [rewrite andb_false_r; reflexivity|].
    symmetry. apply (rfun_mono (g :: nf) (rev gs ++ g :: nf)); [|exact EF].
    intros x Hx. rewrite mem_app, Hx. apply orb_true_r.
  - reflexivity.
  - replace (rfun (g :: nf) r) with true; [rewrite andb_false_r, orb_false_r; cbn; rewrite andb_false_r; reflexivity|].
    symmetry. apply (rfun_mono (g :: nf) (rev gs ++ g :: nf)); [|exact EF].
    intros x Hx. rewrite mem_app, Hx. apply orb_true_r.
  - (* not touched later, finally non-functional: decided at this step *)
    assert (E : rfun (g :: nf) r = false).
    { rewrite <- EF. unfold F. apply rfun_ext. intros x Hx. rewrite mem_app, mem_rev.
      replace (mem x gs) with false; [reflexivity|]. symmetry. apply mem_false. intro Hin.
      unfold touched in Tl. assert (existsb (fun g0 => mem g0 (r_genes r)) gs = true); [|congruence].
      apply existsb_exists. exists x. split; [exact Hin | apply mem_In; exact Hx]. }
    rewrite E. rewrite orb_false_r. cbn [negb]. rewrite !andb_true_r.
    destruct (mem g (r_genes r)); reflexivity.
Qed.

(* ------------------------------------------------------------ the property *)
Definition WF (w : state) : Prop := forall r, In r (s_rxns w) -> wf_rxn (s_grx w) r.

Theorem knock_out_spec w gs : WF w ->
  let w' := knock_outs gs w in
  let K := fun g => mem g gs || mem g (s_nonfunc w) in
  (forall g, In g gs -> gene_functional w' g = false) /\
  (forall g, gene_functional w' g = negb (K g)) /\
  length (s_rxns w') = length (s_rxns w) /\
  (forall i r, nth_error (s_rxns w) i = Some r ->
     exists r', nth_error (s_rxns w') i = Some r' /\
       static r' = static r /\
       rxn_functional w' r' = eval_rule K (r_rule r) /\
       bounds r' = (if touched gs r && negb (eval_rule K (r_rule r)) then (0, 0)%Q else bounds r)) /\
  s_grx w' = s_grx w.
Proof.
  intros Hwf w' K. unfold w'. rewrite knock_outs_map.
  assert (HK : forall g, mem g (rev gs ++ s_nonfunc w) = K g).
  { intro g. unfold K. rewrite mem_app, mem_rev. reflexivity. }
  repeat split.
  - intros g Hg. unfold gene_functional. cbn [s_nonfunc]. rewrite HK. unfold K.
    replace (mem g gs) with true by (symmetry; apply mem_In; exact Hg). reflexivity.
  - intro g. unfold gene_functional. cbn [s_nonfunc]. rewrite HK. reflexivity.
  - cbn [s_rxns]. apply map_length.
  - intros i r Hi. cbn [s_rxns]. exists (kos1 (s_grx w) (s_nonfunc w) gs r). split.
    + rewrite nth_error_map, Hi. reflexivity.
    + assert (Hr : wf_rxn (s_grx w) r) by (apply Hwf; eapply nth_error_In; exact Hi).
      destruct (kos1_spec (s_grx w) gs (s_nonfunc w) r Hr) as [Hs Hb].
      assert (Hplain : rfun (rev gs ++ s_nonfunc w) r = eval_rule K (r_rule r)).
      { rewrite (rfun_plain (s_grx w) _ r Hr). apply eval_rule_ext. intros g _. apply HK. }
      split; [exact Hs|]. split.
      * unfold rxn_functional. cbn [s_nonfunc]. rewrite (rfun_static _ _ _ Hs). exact Hplain.
      * rewrite Hb, Hplain. reflexivity.
Qed.

(* a reaction without a rule is never affected *)
Corollary knock_out_no_rule w gs : WF w -> forall i r,
  nth_error (s_rxns w) i = Some r -> r_rule r = None -> nth_error (s_rxns (knock_outs gs w)) i = Some r.
Proof.
  intros Hwf i r Hi Hn. destruct (knock_out_spec w gs Hwf) as [_ [_ [_ [H _]]]].
  destruct (H i r Hi) as [r' [Hi' [Hs [_ Hb]]]]. rewrite Hi'. f_equal. apply rxn_eq; [exact Hs|].
  rewrite Hb, Hn. cbn. rewrite andb_false_r. reflexivity.
Qed.

(* order independence *)
Lemma mem_perm g a b : Permutation a b -> mem g a = mem g b.
Proof.
  intro P. destruct (mem g b) eqn:E.
  - apply mem_In. apply (Permutation_in _ (Permutation_sym P)). apply mem_In. exact E.
  - apply mem_false. intro H. apply (Permutation_in _ P) in H. apply mem_In in H. congruence.
Qed.

Lemma touched_perm a b r : Permutation a b -> touched a r = touched b r.
Proof.
  intro P. unfold touched. apply bool_eq_iff. rewrite !existsb_exists. split; intros [x [Hx Hm]]; exists x; split; auto.
  - apply (Permutation_in _ P); exact Hx.
  - apply (Permutation_in _ (Permutation_sym P)); exact Hx.
Qed.

Theorem knock_out_order w gs gs' : WF w -> Permutation gs gs' ->
  s_rxns (knock_outs gs w) = s_rxns (knock_outs gs' w) /\
  (forall g, gene_functional (knock_outs gs w) g = gene_functional (knock_outs gs' w) g).
Proof.
  intros Hwf P. rewrite !knock_outs_map. cbn [s_rxns s_nonfunc]. split.
  - apply map_ext_in. intros r Hr. specialize (Hwf r Hr).
    destruct (kos1_spec (s_grx w) gs (s_nonfunc w) r Hwf) as [S1 B1].
    destruct (kos1_spec (s_grx w) gs' (s_nonfunc w) r Hwf) as [S2 B2].
    apply rxn_eq; [congruence|]. rewrite B1, B2. rewrite (touched_perm gs gs' r P).
    replace (rfun (rev gs ++ s_nonfunc w) r) with (rfun (rev gs' ++ s_nonfunc w) r); [reflexivity|].
    apply rfun_ext. intros g _. rewrite !mem_app, !mem_rev. rewrite (mem_perm g gs gs' P). reflexivity.
  - intro g. unfold gene_functional. cbn [s_nonfunc]. rewrite !mem_app, !mem_rev, (mem_perm g gs gs' P). reflexivity.
Qed.

(* knock_out_model_genes: same final state; returned = touched reactions that are not functional *)
Theorem knock_out_model_genes_spec w gs : WF w ->
  fst (knock_out_model_genes w gs) = knock_outs gs w /\
  forall rid, In rid (snd (knock_out_model_genes w gs)) <->
    exists r', In r' (s_rxns (knock_outs gs w)) /\ r_id r' = rid /\
               touched gs r' = true /\ rxn_functional (knock_outs gs w) r' = false.
Proof.
  intro Hwf. split; [reflexivity|]. intro rid. unfold knock_out_model_genes. cbn [snd].
  rewrite in_map_iff. split.
  - intros [r' [Hid Hin]]. apply filter_In in Hin as [Hin Hc]. apply andb_true_iff in Hc as [Ht Hf].
    exists r'. repeat split; auto.
    + (* back references agree with the reaction's genes *)
      rewrite knock_outs_map in Hin. cbn [s_rxns] in Hin. apply in_map_iff in Hin as [r [Er Hr]].
      destruct (kos1_spec (s_grx w) gs (s_nonfunc w) r (Hwf r Hr)) as [Hs _]. rewrite Er in Hs.
      destruct (Hwf r Hr) as [Hback _]. unfold touched.
      unfold static in Hs. inversion Hs as [[E1 E2 E3]]. rewrite E3.
      rewrite <- Ht. apply existsb_ext_in. intros g _. rewrite E1. symmetry. apply Hback.
    + apply negb_true_iff. exact Hf.
  - intros [r' [Hin [Hid [Ht Hf]]]]. exists r'. split; [exact Hid|]. apply filter_In. split; [exact Hin|].
    apply andb_true_iff. split; [|rewrite Hf; reflexivity].
    rewrite knock_outs_map in Hin. cbn [s_rxns] in Hin. apply in_map_iff in Hin as [r [Er Hr]].
    destruct (kos1_spec (s_grx w) gs (s_nonfunc w) r (Hwf r Hr)) as [Hs _]. rewrite Er in Hs.
    destruct (Hwf r Hr) as [Hback _]. unfold touched in Ht.
    unfold static in Hs. inversion Hs as [[E1 E2 E3]]. rewrite E3 in Ht.
    rewrite <- Ht. apply existsb_ext_in. intros g _. rewrite E1. apply Hback.
Qed.

(* Reaction.knock_out sets exactly its own bounds to zero *)
Theorem reaction_knock_out_spec w rid :
  let w' := reaction_knock_out w rid in
  s_nonfunc w' = s_nonfunc w /\ s_grx w' = s_grx w /\ length (s_rxns w') = length (s_rxns w) /\
  forall i r, nth_error (s_rxns w) i = Some r ->
    exists r', nth_error (s_rxns w') i = Some r' /\ static r' = static r /\
      bounds r' = if r_id r =? rid then (0, 0)%Q else bounds r.
Proof.
  cbn. repeat split; [apply map_length|].
  intros i r Hi. eexists. split; [rewrite nth_error_map, Hi; reflexivity|].
  destruct (r_id r =? rid); split; reflexivity.
Qed.
