(* Mixed problems with BINARY variables (GLPK kind "binary": an integer column with bounds [0,1]) on
   top of the exact LP layer: optimality certified by enumerating all assignments of the binaries, one LP
   certificate per assignment.  The assignments are generated here, in Coq; the certificates come from
   the untrusted search (harness/lpexact.py).                                                     *)
From Coq Require Import QArith List Bool Lia Lqa.
From Cobra.LP Require Import Defs Cert.
Import ListNotations.
Open Scope Q_scope.

Definition is_bin (x : Q) : Prop := x == 0 \/ x == 1.
Definition is_bin_b (x : Q) : bool := Qeq_bool x 0 || Qeq_bool x 1.

Definition milp_feasible (p : lp) (ints : list nat) (x : vec) : Prop :=
  feasible p x /\ Forall (fun i => is_bin (nth i x 0)) ints.
Definition milp_opt (p : lp) (ints : list nat) (x : vec) : Prop :=
  milp_feasible p ints x /\ forall x', milp_feasible p ints x' -> value p x' <= value p x.

Fixpoint set_nth {A} (i : nat) (v : A) (l : list A) {struct l} : list A :=
  match l, i with
  | [], _ => []
  | _ :: l', O => v :: l'
  | a :: l', S i' => a :: set_nth i' v l'
  end.

Definition bq (b : bool) : Q := if b then 1 else 0.
Definition fix_var (p : lp) (i : nat) (b : bool) : lp :=
  mkLP (set_nth i (Fin (bq b), Fin (bq b)) (vbounds p)) (rows p) (obj p).
Fixpoint fix_vars (p : lp) (ints : list nat) (bs : list bool) : lp :=
  match ints, bs with
  | i :: ints', b :: bs' => fix_vars (fix_var p i b) ints' bs'
  | _, _ => p
  end.

Fixpoint all_assign (k : nat) : list (list bool) :=
  match k with
  | O => [[]]
  | S k' => map (cons false) (all_assign k') ++ map (cons true) (all_assign k')
  end.

Inductive bcert := BInf (y : vec) | BUp (y : vec).

Definition check_assign (p : lp) (ints : list nat) (B : Q) (bs : list bool) (c : bcert) : bool :=
  let p' := fix_vars p ints bs in
  match c with
  | BInf y => check_infeasible p' y
  | BUp y => check_upper p' y B
  end.

Definition check_milp (p : lp) (ints : list nat) (x : vec) (certs : list bcert) : bool :=
  feasible_b p x && forallb (fun i => is_bin_b (nth i x 0)) ints &&
  forall2b (check_assign p ints (value p x)) (all_assign (length ints)) certs.

(* ---- soundness ---- *)
Lemma is_bin_b_ok x : is_bin_b x = true <-> is_bin x.
Proof. unfold is_bin_b, is_bin. rewrite orb_true_iff, !Qeq_bool_iff. tauto. Qed.

Lemma all_assign_complete k : forall bs, length bs = k -> In bs (all_assign k).
Proof.
  induction k as [|k IH]; intros [|b bs] H; cbn in H; try discriminate; cbn [all_assign].
  - left. reflexivity.
  - apply in_or_app. destruct b; [right|left]; apply in_map; apply IH; lia.
Qed.

Lemma forall2b_In {A B} (f : A -> B -> bool) l : forall m a,
  forall2b f l m = true -> In a l -> exists b, In b m /\ f a b = true.
Proof.
  induction l as [|a0 l IH]; intros [|b0 m] a H Hin; cbn in H; try discriminate; [destruct Hin|].
  apply andb_true_iff in H as [H0 H1]. destruct Hin as [<-|Hin].
  - exists b0. split; [left; reflexivity|exact H0].
  - destruct (IH m a H1 Hin) as [b [Hb Hf]]. exists b. split; [right; exact Hb|exact Hf].
Qed.

Lemma set_nth_inb vb : forall x i q,
  Forall2 inb vb x -> nth i x 0 == q -> Forall2 inb (set_nth i (Fin q, Fin q) vb) x.
Proof.
  induction vb as [|b vb IH]; intros x i q H E; inversion H as [|b' x0 vb' x' Hb H']; subst; cbn [set_nth].
  - constructor.
  - destruct i as [|i]; cbn [nth] in E.
    + constructor; [|exact H']. split; cbn; lra.
    + constructor; [exact Hb|apply IH; assumption].
Qed.

Lemma fix_var_feasible p i b x : feasible p x -> nth i x 0 == bq b -> feasible (fix_var p i b) x.
Proof. intros [Hb Hr] E. split; cbn; [apply set_nth_inb; assumption|exact Hr]. Qed.

Lemma fix_vars_feasible ints : forall bs p x,
  feasible p x -> Forall2 (fun i b => nth i x 0 == bq b) ints bs -> feasible (fix_vars p ints bs) x.
Proof.
  induction ints as [|i ints IH]; intros bs p x Hf H; inversion H as [|i' b ints' bs' E H']; subst; cbn [fix_vars];
    [exact Hf|].
  apply IH; [apply fix_var_feasible; assumption|exact H'].
Qed.

Lemma fix_vars_obj ints : forall bs p, obj (fix_vars p ints bs) = obj p.
Proof.
  induction ints as [|i ints IH]; intros [|b bs] p; cbn [fix_vars]; try reflexivity. rewrite IH. reflexivity.
Qed.

Definition assignment_of (x : vec) (ints : list nat) : list bool :=
  map (fun i => Qeq_bool (nth i x 0) 1) ints.

Lemma assignment_ok x ints :
  Forall (fun i => is_bin (nth i x 0)) ints ->
  Forall2 (fun i b => nth i x 0 == bq b) ints (assignment_of x ints).
Proof.
  induction 1 as [|i ints Hi _ IH]; cbn; constructor; [|exact IH].
  destruct (Qeq_bool (nth i x 0) 1) eqn:E; cbn [bq].
  - apply Qeq_bool_iff. exact E.
  - destruct Hi as [Hi|Hi]; [exact Hi|]. apply Qeq_bool_iff in Hi. congruence.
Qed.

Theorem check_milp_sound p ints x certs : check_milp p ints x certs = true -> milp_opt p ints x.
Proof.
  unfold check_milp. rewrite !andb_true_iff. intros [[Hf Hb] Hc].
  apply feasible_b_ok in Hf. split.
  - split; [exact Hf|]. rewrite Forall_forall. rewrite forallb_forall in Hb.
    intros i Hi. apply is_bin_b_ok, Hb, Hi.
  - intros x' [Hf' Hb'].
    pose proof (assignment_ok x' ints Hb') as Ha.
    assert (Hin : In (assignment_of x' ints) (all_assign (length ints)))
      by (apply all_assign_complete; unfold assignment_of; apply map_length).
    destruct (forall2b_In _ _ _ _ Hc Hin) as [c [_ Hchk]].
    pose proof (fix_vars_feasible ints _ p x' Hf' Ha) as Hfx.
    unfold check_assign in Hchk. destruct c as [y|y].
    + exfalso. exact (check_infeasible_sound _ _ Hchk _ Hfx).
    + pose proof (check_upper_sound _ _ _ Hchk _ Hfx) as Hu.
      unfold value in *. rewrite fix_vars_obj in Hu. exact Hu.
Qed.
