(* The flux-balance problem of a stoichiometric model, in the two shapes that matter:
   - net_lp  : one variable per reaction (the mathematical problem the properties talk about)
   - split_lp: cobrapy's encoding, a forward and a reverse variable per reaction whose bounds
               are those computed by Reaction.update_variable_bounds (core/reaction.py)
   and the proof that they are equivalent (each reaction's net flux ranges over exactly
   [lb, ub]; feasible points and optima correspond).                                    *)
From Coq Require Import QArith List Bool Lia Lqa.
From Cobra.LP Require Import Defs Cert.
Import ListNotations.
Open Scope Q_scope.

Record rxn := mkRxn { rx_col : vec; rx_lb : ebound; rx_ub : ebound; rx_obj : Q }.
Record fbamodel := mkFba { nmets : nat; rxns : list rxn; maximize : bool }.

Definition met_row (rs : list rxn) (i : nat) : vec := map (fun r => nth i (rx_col r) 0) rs.
Definition sgn (m : fbamodel) : Q := if maximize m then 1 else -1.
Definition net_obj (m : fbamodel) : vec := map (fun r => sgn m * rx_obj r) (rxns m).
Definition zero_row (c : vec) : row := mkRow c (Fin 0) (Fin 0).
Definition net_lp (m : fbamodel) : lp :=
  mkLP (map (fun r => (rx_lb r, rx_ub r)) (rxns m))
       (map (fun i => zero_row (met_row (rxns m) i)) (seq 0 (nmets m)))
       (net_obj m).

(* ---- Reaction.update_variable_bounds ---- *)
Definition as_lo (b : ebound) : ebound := match b with Fin q => Fin q | _ => NegInf end.  (* None if isinf(x) else x, as a lower bound *)
Definition as_hi (b : ebound) : ebound := match b with Fin q => Fin q | _ => PosInf end.
Definition eopp (b : ebound) : ebound :=
  match b with Fin q => Fin (- q) | NegInf => PosInf | PosInf => NegInf end.
Definition epos (b : ebound) : bool :=    (* b > 0 *)
  match b with Fin q => negb (Qle_bool q 0) | PosInf => true | NegInf => false end.
Definition eneg (b : ebound) : bool :=    (* b < 0 *)
  match b with Fin q => negb (Qle_bool 0 q) | NegInf => true | PosInf => false end.

Definition split_bounds (lb ub : ebound) : (ebound * ebound) * (ebound * ebound) :=
  if epos lb then ((as_lo lb, as_hi ub), (Fin 0, Fin 0))
  else if eneg ub then ((Fin 0, Fin 0), (as_lo (eopp ub), as_hi (eopp lb)))
  else ((Fin 0, as_hi ub), (Fin 0, as_hi (eopp lb))).

Definition ele (a b : ebound) : Prop :=
  match a, b with
  | NegInf, _ => True | _, PosInf => True
  | Fin x, Fin y => x <= y
  | _, _ => False
  end.
(* what Reaction._check_bounds and sane data guarantee *)
Definition valid (lb ub : ebound) : Prop := ele lb ub /\ lb <> PosInf /\ ub <> NegInf.
Definition valid_b (lb ub : ebound) : bool :=
  match lb, ub with
  | PosInf, _ => false | _, NegInf => false
  | Fin x, Fin y => Qle_bool x y
  | _, _ => true
  end.

Ltac qb :=
  repeat match goal with
  | H : negb _ = true |- _ => apply negb_true_iff in H
  | H : negb _ = false |- _ => apply negb_false_iff in H
  | H : Qle_bool ?a ?b = true |- _ => apply Qle_bool_iff in H
  | H : Qle_bool ?a ?b = false |- _ =>
      let H' := fresh in
      assert (H' : b < a) by (destruct (Qlt_le_dec b a) as [L|L]; [exact L|apply Qle_bool_iff in L; congruence]);
      clear H
  end.

Lemma valid_b_ok lb ub : valid_b lb ub = true <-> valid lb ub.
Proof.
  unfold valid. destruct lb, ub; cbn; split; intros H; try discriminate; try (repeat split; congruence);
    try (destruct H as [H1 [H2 H3]]; try contradiction; congruence).
  - qb. repeat split; congruence || assumption.
  - apply Qle_bool_iff. tauto.
Qed.

Definition qpos (x : Q) : Q := if Qle_bool 0 x then x else 0.   (* max(x, 0) *)

Lemma qpos_spec x : 0 <= qpos x /\ x <= qpos x /\ qpos x - qpos (- x) == x /\ (0 <= x -> qpos x == x) /\ (x <= 0 -> qpos x == 0).
Proof.
  unfold qpos. destruct (Qle_bool 0 x) eqn:E1; destruct (Qle_bool 0 (- x)) eqn:E2; qb; repeat split; intros; lra.
Qed.

(* the net flux of a forward/reverse pair within its bounds lies in [lb, ub] ... *)
Lemma split_sound lb ub f r :
  valid lb ub ->
  inb (fst (split_bounds lb ub)) f -> inb (snd (split_bounds lb ub)) r -> inb (lb, ub) (f - r).
Proof.
  unfold valid, split_bounds, inb. intros [Hle [Hl Hu]].
  destruct (epos lb) eqn:E1; [|destruct (eneg ub) eqn:E2]; cbn [fst snd];
    destruct lb as [|l|]; destruct ub as [|u|]; cbn in *; try congruence; try tauto; qb;
    intros [? ?] [? ?]; split; try tauto; lra.
Qed.

(* ... and every flux in [lb, ub] is the net flux of an in-bounds pair (the canonical one) *)
Lemma split_complete lb ub v :
  valid lb ub -> inb (lb, ub) v ->
  inb (fst (split_bounds lb ub)) (qpos v) /\ inb (snd (split_bounds lb ub)) (qpos (- v)).
Proof.
  unfold valid, split_bounds, inb. intros [Hle [Hl Hu]].
  pose proof (qpos_spec v) as [P1 [P2 [P3 [P4 P5]]]].
  pose proof (qpos_spec (- v)) as [N1 [N2 [N3 [N4 N5]]]].
  destruct (epos lb) eqn:E1; [|destruct (eneg ub) eqn:E2]; cbn [fst snd];
    destruct lb as [|l|]; destruct ub as [|u|]; cbn in *; try congruence; try tauto; qb;
    intros [? ?]; repeat split; try tauto; try lra;
    try (assert (0 <= v) by lra; specialize (P4 ltac:(assumption)); lra);
    try (assert (v <= 0) by lra; specialize (P5 ltac:(assumption)); assert (0 <= - v) by lra; specialize (N4 ltac:(assumption)); lra).
Qed.

Theorem net_flux_range lb ub v :
  valid lb ub ->
  (inb (lb, ub) v <->
   exists f r, inb (fst (split_bounds lb ub)) f /\ inb (snd (split_bounds lb ub)) r /\ v == f - r).
Proof.
  intros Hv. split.
  - intros H. exists (qpos v), (qpos (- v)). destruct (split_complete lb ub v Hv H) as [A B].
    repeat split; try apply A; try apply B. destruct (qpos_spec v) as [_ [_ [E _]]]. lra.
  - intros [f [r [Hf [Hr E]]]]. eapply inb_proper; [symmetry; exact E|]. apply split_sound; assumption.
Qed.

(* ---- vectors of pairs ---- *)
Fixpoint flat (zs : list (Q * Q)) : vec :=
  match zs with [] => [] | (f, r) :: zs' => f :: r :: flat zs' end.
Definition nets (zs : list (Q * Q)) : vec := map (fun p => fst p - snd p) zs.
Definition splits (v : vec) : list (Q * Q) := map (fun x => (qpos x, qpos (- x))) v.
Fixpoint dup (a : vec) : vec := match a with [] => [] | x :: a' => x :: - x :: dup a' end.
Fixpoint flat_bounds (bs : list ((ebound * ebound) * (ebound * ebound))) : list (ebound * ebound) :=
  match bs with [] => [] | (fb, rb) :: bs' => fb :: rb :: flat_bounds bs' end.

Definition split_lp (m : fbamodel) : lp :=
  mkLP (flat_bounds (map (fun r => split_bounds (rx_lb r) (rx_ub r)) (rxns m)))
       (map (fun i => zero_row (dup (met_row (rxns m) i))) (seq 0 (nmets m)))
       (dup (net_obj m)).

Definition valid_model (m : fbamodel) : Prop := Forall (fun r => valid (rx_lb r) (rx_ub r)) (rxns m).
Definition valid_model_b (m : fbamodel) : bool := forallb (fun r => valid_b (rx_lb r) (rx_ub r)) (rxns m).
Lemma valid_model_b_ok m : valid_model_b m = true <-> valid_model m.
Proof.
  unfold valid_model_b, valid_model. rewrite forallb_forall, Forall_forall.
  split; intros H r Hr; apply valid_b_ok, H, Hr.
Qed.

Lemma dot_dup a : forall zs, dot (dup a) (flat zs) == dot a (nets zs).
Proof.
  induction a as [|x a IH]; intros zs; cbn [dup dot]; [reflexivity|].
  destruct zs as [|[f r] zs]; cbn [flat nets map dot fst snd]; [reflexivity|].
  fold (nets zs). rewrite IH. lra.
Qed.

Lemma dot_ext a : forall x y, Forall2 Qeq x y -> dot a x == dot a y.
Proof.
  induction a as [|a0 a IH]; intros x y H; cbn [dot]; [reflexivity|].
  destruct H as [|x0 y0 x' y' E H']; [reflexivity|]. rewrite (IH _ _ H'), E. reflexivity.
Qed.

Lemma nets_splits v : Forall2 Qeq (nets (splits v)) v.
Proof.
  induction v as [|x v IH]; cbn; constructor; [|exact IH].
  destruct (qpos_spec x) as [_ [_ [E _]]]. exact E.
Qed.

Lemma split_vars_sound rs : forall zs,
  Forall (fun r => valid (rx_lb r) (rx_ub r)) rs ->
  Forall2 inb (flat_bounds (map (fun r => split_bounds (rx_lb r) (rx_ub r)) rs)) (flat zs) ->
  Forall2 inb (map (fun r => (rx_lb r, rx_ub r)) rs) (nets zs).
Proof.
  induction rs as [|r rs IH]; intros zs Hv H; cbn in *.
  - destruct zs as [|[f r0] zs]; cbn in *; [constructor|inversion H].
  - inversion Hv as [|r' rs' V Hv']; subst.
    destruct (split_bounds (rx_lb r) (rx_ub r)) as [fb rb] eqn:E.
    destruct zs as [|[f r0] zs]; cbn in *; [inversion H|].
    inversion H as [|b1 x1 l1 l1' Hf H1]; subst. inversion H1 as [|b2 x2 l2 l2' Hr H2]; subst.
    constructor; [|apply IH; assumption].
    apply split_sound; [exact V|rewrite E; exact Hf|rewrite E; exact Hr].
Qed.

Lemma split_vars_complete rs : forall v,
  Forall (fun r => valid (rx_lb r) (rx_ub r)) rs ->
  Forall2 inb (map (fun r => (rx_lb r, rx_ub r)) rs) v ->
  Forall2 inb (flat_bounds (map (fun r => split_bounds (rx_lb r) (rx_ub r)) rs)) (flat (splits v)).
Proof.
  induction rs as [|r rs IH]; intros v Hv H; cbn in *.
  - inversion H; subst. constructor.
  - inversion Hv as [|r' rs' V Hv']; subst.
    inversion H as [|b x l l' Hb H']; subst.
    destruct (split_complete _ _ _ V Hb) as [A B].
    destruct (split_bounds (rx_lb r) (rx_ub r)) as [fb rb] eqn:E. cbn [splits map flat].
    constructor; [exact A|]. constructor; [exact B|]. apply IH; assumption.
Qed.

Theorem split_to_net m zs :
  valid_model m -> feasible (split_lp m) (flat zs) ->
  feasible (net_lp m) (nets zs) /\ value (split_lp m) (flat zs) == value (net_lp m) (nets zs).
Proof.
  intros Hv [Hb Hr]. split; [split|].
  - apply split_vars_sound; assumption.
  - cbn in *. rewrite Forall_forall in *. intros rw Hin.
    apply in_map_iff in Hin as [i [<- Hi]].
    specialize (Hr (zero_row (dup (met_row (rxns m) i)))).
    assert (Hin' : In (zero_row (dup (met_row (rxns m) i)))
                     (map (fun i0 => zero_row (dup (met_row (rxns m) i0))) (seq 0 (nmets m))))
      by (apply in_map_iff; exists i; tauto).
    specialize (Hr Hin'). unfold row_ok in *. cbn in *.
    eapply inb_proper; [apply dot_dup|exact Hr].
  - unfold value. cbn. apply dot_dup.
Qed.

Theorem net_to_split m v :
  valid_model m -> feasible (net_lp m) v ->
  feasible (split_lp m) (flat (splits v)) /\ value (split_lp m) (flat (splits v)) == value (net_lp m) v.
Proof.
  intros Hv [Hb Hr]. split; [split|].
  - apply split_vars_complete; assumption.
  - cbn in *. rewrite Forall_forall in *. intros rw Hin.
    apply in_map_iff in Hin as [i [<- Hi]].
    specialize (Hr (zero_row (met_row (rxns m) i))).
    assert (Hin' : In (zero_row (met_row (rxns m) i))
                     (map (fun i0 => zero_row (met_row (rxns m) i0)) (seq 0 (nmets m))))
      by (apply in_map_iff; exists i; tauto).
    specialize (Hr Hin'). unfold row_ok in *. cbn in *.
    eapply inb_proper; [|exact Hr].
    rewrite dot_dup. symmetry. apply dot_ext, nets_splits.
  - unfold value. cbn. rewrite dot_dup. apply dot_ext, nets_splits.
Qed.

(* an optimum of cobrapy's LP is, read back as forward - reverse, an optimum of the
   flux-balance problem; infeasibility and unboundedness transfer as well              *)
Theorem split_opt_is_net_opt m zs :
  valid_model m -> is_opt (split_lp m) (flat zs) -> is_opt (net_lp m) (nets zs).
Proof.
  intros Hv [Hf Hopt]. destruct (split_to_net m zs Hv Hf) as [Hnf Hval]. split; [exact Hnf|].
  intros v' Hv'. destruct (net_to_split m v' Hv Hv') as [Hsf Hsv].
  specialize (Hopt _ Hsf). lra.
Qed.

Theorem net_infeasible_split_infeasible m :
  valid_model m -> infeasible (net_lp m) -> forall zs, ~ feasible (split_lp m) (flat zs).
Proof. intros Hv Hi zs Hf. destruct (split_to_net m zs Hv Hf) as [Hnf _]. exact (Hi _ Hnf). Qed.

Theorem net_unbounded_split_unbounded m :
  valid_model m -> unbounded (net_lp m) -> unbounded (split_lp m).
Proof.
  intros Hv Hu M. destruct (Hu M) as [v [Hf HM]].
  destruct (net_to_split m v Hv Hf) as [Hsf Hsv]. exists (flat (splits v)). split; [exact Hsf|lra].
Qed.
