(* Exact linear programs over Q: definitions shared by every LP-based property
   (C04, C05, C06, C09, C16, C17, C18, C19).  A problem is always a MAXIMISATION;
   minimisation is maximisation of the negated objective.                              *)
From Coq Require Import QArith List Bool Lia Lqa.
Import ListNotations.
Open Scope Q_scope.

Inductive ebound := NegInf | Fin (q : Q) | PosInf.

Definition le_lo (l : ebound) (x : Q) : Prop :=
  match l with NegInf => True | Fin q => q <= x | PosInf => False end.
Definition le_hi (x : Q) (u : ebound) : Prop :=
  match u with PosInf => True | Fin q => x <= q | NegInf => False end.
Definition inb (b : ebound * ebound) (x : Q) : Prop := le_lo (fst b) x /\ le_hi x (snd b).

Definition le_lo_b (l : ebound) (x : Q) : bool :=
  match l with NegInf => true | Fin q => Qle_bool q x | PosInf => false end.
Definition le_hi_b (x : Q) (u : ebound) : bool :=
  match u with PosInf => true | Fin q => Qle_bool x q | NegInf => false end.
Definition inb_b (b : ebound * ebound) (x : Q) : bool := le_lo_b (fst b) x && le_hi_b x (snd b).

Definition vec := list Q.

(* dot product; the shorter operand decides (missing entries count as 0) *)
Fixpoint dot (a x : vec) : Q :=
  match a, x with
  | a0 :: a', x0 :: x' => a0 * x0 + dot a' x'
  | _, _ => 0
  end.

(* padding vector operations: missing entries count as 0 *)
Fixpoint vadd (a b : vec) : vec :=
  match a, b with
  | [], _ => b
  | _, [] => a
  | a0 :: a', b0 :: b' => (a0 + b0) :: vadd a' b'
  end.
Definition vscale (k : Q) (a : vec) : vec := map (Qmult k) a.
Definition vopp (a : vec) : vec := map Qopp a.
Definition vsub (a b : vec) : vec := vadd a (vopp b).

Record row := mkRow { r_coef : vec; r_lo : ebound; r_hi : ebound }.

Record lp := mkLP { vbounds : list (ebound * ebound); rows : list row; obj : vec }.

Definition row_ok (x : vec) (r : row) : Prop := inb (r_lo r, r_hi r) (dot (r_coef r) x).
Definition row_ok_b (x : vec) (r : row) : bool := inb_b (r_lo r, r_hi r) (dot (r_coef r) x).

Definition feasible (p : lp) (x : vec) : Prop :=
  Forall2 inb (vbounds p) x /\ Forall (row_ok x) (rows p).

Fixpoint forall2b {A B} (f : A -> B -> bool) (l : list A) (m : list B) : bool :=
  match l, m with
  | [], [] => true
  | a :: l', b :: m' => f a b && forall2b f l' m'
  | _, _ => false
  end.

Definition feasible_b (p : lp) (x : vec) : bool :=
  forall2b inb_b (vbounds p) x && forallb (row_ok_b x) (rows p).

Definition value (p : lp) (x : vec) : Q := dot (obj p) x.

Definition is_opt (p : lp) (x : vec) : Prop :=
  feasible p x /\ forall x', feasible p x' -> value p x' <= value p x.
Definition infeasible (p : lp) : Prop := forall x, ~ feasible p x.
Definition unbounded (p : lp) : Prop :=
  forall M : Q, exists x, feasible p x /\ M < value p x.
(* the supremum of the objective is v: attained optimum *)
Definition opt_value (p : lp) (v : Q) : Prop := exists x, is_opt p x /\ value p x == v.

(* ---- multipliers: y_i per row; reduced objective d = c - sum_i y_i a_i ---- *)
Fixpoint comb (ys : vec) (rs : list row) : vec :=
  match ys, rs with
  | y :: ys', r :: rs' => vadd (vscale y (r_coef r)) (comb ys' rs')
  | _, _ => []
  end.

(* upper bound of  k * v  for v in [lo, hi]; None when the needed side is infinite *)
Definition ub_term (k : Q) (lo hi : ebound) : option Q :=
  match Qcompare k 0 with
  | Gt => match hi with Fin u => Some (k * u) | _ => None end
  | Lt => match lo with Fin l => Some (k * l) | _ => None end
  | Eq => Some 0
  end.

Fixpoint ub_vars (d : vec) (vb : list (ebound * ebound)) : option Q :=
  match d, vb with
  | [], _ => Some 0
  | _ :: _, [] => None
  | k :: d', b :: vb' =>
      match ub_term k (fst b) (snd b), ub_vars d' vb' with
      | Some t, Some s => Some (t + s)
      | _, _ => None
      end
  end.

Fixpoint ub_rows (ys : vec) (rs : list row) : option Q :=
  match ys, rs with
  | [], _ => Some 0
  | _ :: _, [] => None
  | y :: ys', r :: rs' =>
      match ub_term y (r_lo r) (r_hi r), ub_rows ys' rs' with
      | Some t, Some s => Some (t + s)
      | _, _ => None
      end
  end.

(* an upper bound of  c . x  over the feasible set, from multipliers ys *)
Definition dual_bound (p : lp) (c : vec) (ys : vec) : option Q :=
  match ub_vars (vsub c (comb ys (rows p))) (vbounds p), ub_rows ys (rows p) with
  | Some a, Some b => Some (a + b)
  | _, _ => None
  end.

(* every coefficient of d beyond the variables must vanish: we simply demand that d is not
   longer than the variable list (ub_vars returns None otherwise).                        *)

(* ---- certificate checkers ---- *)
Definition check_opt (p : lp) (x ys : vec) : bool :=
  feasible_b p x &&
  match dual_bound p (obj p) ys with
  | Some B => Qle_bool B (value p x)
  | None => false
  end.

(* x is feasible and no feasible point has objective above B (B need not be attained) *)
Definition check_upper (p : lp) (ys : vec) (B : Q) : bool :=
  match dual_bound p (obj p) ys with
  | Some B' => Qle_bool B' B
  | None => false
  end.

Definition check_infeasible (p : lp) (ys : vec) : bool :=
  match dual_bound p [] ys with
  | Some B => negb (Qle_bool 0 B)
  | None => false
  end.

Definition nonneg_if_fin (b : ebound) (v : Q) : bool :=
  match b with Fin _ => Qle_bool 0 v | _ => true end.
Definition nonpos_if_fin (b : ebound) (v : Q) : bool :=
  match b with Fin _ => Qle_bool v 0 | _ => true end.
Definition ray_dir_ok (b : ebound * ebound) (v : Q) : bool :=
  nonneg_if_fin (fst b) v && nonpos_if_fin (snd b) v.

Definition check_unbounded (p : lp) (x r : vec) : bool :=
  feasible_b p x &&
  forall2b ray_dir_ok (vbounds p) r &&
  forallb (fun rw => ray_dir_ok (r_lo rw, r_hi rw) (dot (r_coef rw) r)) (rows p) &&
  negb (Qle_bool (dot (obj p) r) 0).

(* ---- tolerant comparisons used by the correspondence functions ---- *)
Definition Qabs' (a : Q) : Q := if Qle_bool 0 a then a else - a.
Definition Qmax' (a b : Q) : Q := if Qle_bool a b then b else a.
Definition close (tol a b : Q) : bool := Qle_bool (Qabs' (a - b)) (tol * Qmax' 1 (Qabs' b)).

Definition relax_lo (e : Q) (b : ebound) : ebound := match b with Fin q => Fin (q - e) | o => o end.
Definition relax_hi (e : Q) (b : ebound) : ebound := match b with Fin q => Fin (q + e) | o => o end.
Definition relax (e : Q) (p : lp) : lp :=
  mkLP (map (fun b => (relax_lo e (fst b), relax_hi e (snd b))) (vbounds p))
       (map (fun r => mkRow (r_coef r) (relax_lo e (r_lo r)) (relax_hi e (r_hi r))) (rows p))
       (obj p).
Definition feasible_tol (p : lp) (e : Q) (x : vec) : bool := feasible_b (relax e p) x.
