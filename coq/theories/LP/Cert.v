(* Soundness of the LP certificate checkers: weak duality with bounded variables and ranged
   rows.  No strong duality is used anywhere: every statement is "if a certificate checks
   then ...".                                                                            *)
From Coq Require Import QArith List Bool Lia Lqa.
From Cobra.LP Require Import Defs.
Import ListNotations.
Open Scope Q_scope.

Lemma dot_nil_r a : dot a [] = 0.
Proof. destruct a; reflexivity. Qed.

Lemma dot_vadd a : forall b x, dot (vadd a b) x == dot a x + dot b x.
Proof.
  induction a as [|a0 a IH]; intros b x; cbn [vadd].
  - cbn [dot]. lra.
  - destruct b as [|b0 b].
    + cbn [dot]. destruct x; lra.
    + destruct x as [|x0 x]; cbn [dot]; [lra|]. rewrite IH. lra.
Qed.

Lemma dot_vscale k a : forall x, dot (vscale k a) x == k * dot a x.
Proof.
  induction a as [|a0 a IH]; intros x; cbn [vscale map dot]; [lra|].
  destruct x as [|x0 x]; [lra|]. fold (vscale k a). rewrite IH. lra.
Qed.

Lemma dot_vopp a : forall x, dot (vopp a) x == - dot a x.
Proof.
  induction a as [|a0 a IH]; intros x; cbn [vopp map dot]; [lra|].
  destruct x as [|x0 x]; [lra|]. fold (vopp a). rewrite IH. lra.
Qed.

Lemma dot_vsub a b x : dot (vsub a b) x == dot a x - dot b x.
Proof. unfold vsub. rewrite dot_vadd, dot_vopp. lra. Qed.

Lemma dot_vadd_r a : forall x y, dot a (vadd x y) == dot a x + dot a y.
Proof.
  induction a as [|a0 a IH]; intros x y; cbn [dot]; [lra|].
  destruct x as [|x0 x]; cbn [vadd].
  - destruct y; lra.
  - destruct y as [|y0 y]; [lra|]. rewrite IH. lra.
Qed.

Lemma dot_vscale_r k a : forall x, dot a (vscale k x) == k * dot a x.
Proof.
  induction a as [|a0 a IH]; intros x; cbn [dot]; [destruct x; cbn; lra|].
  destruct x as [|x0 x]; cbn [vscale map]; [lra|]. fold (vscale k x). rewrite IH. lra.
Qed.

Fixpoint sumrows (ys : vec) (rs : list row) (x : vec) : Q :=
  match ys, rs with
  | y :: ys', r :: rs' => y * dot (r_coef r) x + sumrows ys' rs' x
  | _, _ => 0
  end.

Lemma dot_comb ys : forall rs x, dot (comb ys rs) x == sumrows ys rs x.
Proof.
  induction ys as [|y ys IH]; intros rs x; cbn [comb sumrows]; [reflexivity|].
  destruct rs as [|r rs]; [reflexivity|]. rewrite dot_vadd, dot_vscale, IH. lra.
Qed.

Lemma ub_term_ok k lo hi v t : inb (lo, hi) v -> ub_term k lo hi = Some t -> k * v <= t.
Proof.
  unfold inb, ub_term; cbn [fst snd]. intros [Hl Hh].
  destruct (Qcompare_spec k 0) as [E|L|G].
  - intros H; injection H as <-. rewrite E. lra.
  - destruct lo as [|l|]; try discriminate. intros H; injection H as <-. cbn in Hl. nra.
  - destruct hi as [|u|]; try discriminate. intros H; injection H as <-. cbn in Hh. nra.
Qed.

Lemma ub_vars_ok d : forall vb x B, Forall2 inb vb x -> ub_vars d vb = Some B -> dot d x <= B.
Proof.
  induction d as [|k d IH]; intros vb x B HF H; cbn [ub_vars] in H.
  - injection H as <-. cbn. lra.
  - destruct vb as [|b vb]; [discriminate|].
    inversion HF as [|b' x0 vb' x' Hb HF']; subst.
    destruct (ub_term k (fst b) (snd b)) as [t|] eqn:Et; [|discriminate].
    destruct (ub_vars d vb) as [s|] eqn:Es; [|discriminate].
    injection H as <-. cbn [dot].
    assert (k * x0 <= t) by (apply (ub_term_ok k (fst b) (snd b)); [destruct b; exact Hb|exact Et]).
    specialize (IH vb x' s HF' Es). lra.
Qed.

Lemma ub_rows_ok ys : forall rs x B, Forall (row_ok x) rs -> ub_rows ys rs = Some B -> sumrows ys rs x <= B.
Proof.
  induction ys as [|y ys IH]; intros rs x B HF H; cbn [ub_rows] in H.
  - injection H as <-. cbn. lra.
  - destruct rs as [|r rs]; [discriminate|].
    inversion HF as [|r' rs' Hr HF']; subst.
    destruct (ub_term y (r_lo r) (r_hi r)) as [t|] eqn:Et; [|discriminate].
    destruct (ub_rows ys rs) as [s|] eqn:Es; [|discriminate].
    injection H as <-. cbn [sumrows].
    assert (y * dot (r_coef r) x <= t) by (apply (ub_term_ok y (r_lo r) (r_hi r)); [exact Hr|exact Et]).
    specialize (IH rs x s HF' Es). lra.
Qed.

Theorem weak_duality p c ys B x :
  feasible p x -> dual_bound p c ys = Some B -> dot c x <= B.
Proof.
  intros [Hv Hr] H. unfold dual_bound in H.
  destruct (ub_vars (vsub c (comb ys (rows p))) (vbounds p)) as [a|] eqn:Ea; [|discriminate].
  destruct (ub_rows ys (rows p)) as [b|] eqn:Eb; [|discriminate].
  injection H as <-.
  pose proof (ub_vars_ok _ _ _ _ Hv Ea) as H1.
  pose proof (ub_rows_ok _ _ _ _ Hr Eb) as H2.
  rewrite dot_vsub, dot_comb in H1. lra.
Qed.

(* ---- reflection of the boolean feasibility test ---- *)
Lemma le_lo_b_ok l x : le_lo_b l x = true <-> le_lo l x.
Proof. destruct l; cbn; [tauto|apply Qle_bool_iff|split; [discriminate|tauto]]. Qed.
Lemma le_hi_b_ok x u : le_hi_b x u = true <-> le_hi x u.
Proof. destruct u; cbn; [split; [discriminate|tauto]|apply Qle_bool_iff|tauto]. Qed.
Lemma inb_b_ok b x : inb_b b x = true <-> inb b x.
Proof. unfold inb_b, inb. rewrite andb_true_iff, le_lo_b_ok, le_hi_b_ok. tauto. Qed.

Lemma forall2b_ok {A B} (f : A -> B -> bool) (P : A -> B -> Prop) :
  (forall a b, f a b = true <-> P a b) ->
  forall l m, forall2b f l m = true <-> Forall2 P l m.
Proof.
  intros Hf l; induction l as [|a l IH]; intros m; destruct m as [|b m]; cbn.
  - split; [constructor|reflexivity].
  - split; [discriminate|intros H; inversion H].
  - split; [discriminate|intros H; inversion H].
  - rewrite andb_true_iff, Hf, IH. split.
    + intros [? ?]; constructor; assumption.
    + intros H; inversion H; subst; tauto.
Qed.

Lemma feasible_b_ok p x : feasible_b p x = true <-> feasible p x.
Proof.
  unfold feasible_b, feasible. rewrite andb_true_iff, (forall2b_ok inb_b inb inb_b_ok), forallb_forall, Forall_forall.
  split; intros [H1 H2]; split; try exact H1; intros r Hr; specialize (H2 r Hr);
    unfold row_ok_b, row_ok in *; apply inb_b_ok; exact H2.
Qed.

(* ---- the three verdicts ---- *)
Theorem check_opt_sound p x ys : check_opt p x ys = true -> is_opt p x.
Proof.
  unfold check_opt. rewrite andb_true_iff. intros [Hf Hd].
  apply feasible_b_ok in Hf. split; [exact Hf|]. intros x' Hx'.
  destruct (dual_bound p (obj p) ys) as [B|] eqn:E; [|discriminate].
  apply Qle_bool_iff in Hd. pose proof (weak_duality p (obj p) ys B x' Hx' E). unfold value in *. lra.
Qed.

Theorem check_upper_sound p ys B : check_upper p ys B = true -> forall x, feasible p x -> value p x <= B.
Proof.
  unfold check_upper. intros H x Hx.
  destruct (dual_bound p (obj p) ys) as [B'|] eqn:E; [|discriminate].
  apply Qle_bool_iff in H. pose proof (weak_duality p (obj p) ys B' x Hx E). unfold value. lra.
Qed.

Theorem check_infeasible_sound p ys : check_infeasible p ys = true -> infeasible p.
Proof.
  unfold check_infeasible, infeasible. intros H x Hx.
  destruct (dual_bound p [] ys) as [B|] eqn:E; [|discriminate].
  pose proof (weak_duality p [] ys B x Hx E) as Hw. cbn [dot] in Hw.
  apply negb_true_iff in H. apply Qle_bool_iff in Hw. congruence.
Qed.

Lemma ray_var b x r t :
  inb b x -> ray_dir_ok b r = true -> 0 <= t -> inb b (x + t * r).
Proof.
  destruct b as [lo hi]. unfold inb, ray_dir_ok; cbn [fst snd].
  rewrite andb_true_iff. intros [Hl Hh] [Rl Rh] Ht. split.
  - destruct lo as [|l|]; cbn in *; try tauto. apply Qle_bool_iff in Rl. nra.
  - destruct hi as [|u|]; cbn in *; try tauto. apply Qle_bool_iff in Rh. nra.
Qed.

Lemma inb_proper b x y : x == y -> inb b x -> inb b y.
Proof.
  destruct b as [lo hi]. unfold inb; cbn [fst snd]. intros E [Hl Hh]. split.
  - destruct lo; cbn in *; try tauto. lra.
  - destruct hi; cbn in *; try tauto. lra.
Qed.

Lemma ray_vars vb : forall x r t,
  Forall2 inb vb x -> forall2b ray_dir_ok vb r = true -> 0 <= t ->
  Forall2 inb vb (vadd x (vscale t r)).
Proof.
  induction vb as [|b vb IH]; intros x r t HF HR Ht.
  - inversion HF; subst. destruct r; [constructor|discriminate].
  - inversion HF as [|b' x0 vb' x' Hb HF']; subst.
    destruct r as [|r0 r]; [discriminate|]. cbn in HR. apply andb_true_iff in HR as [HR0 HR].
    cbn [vscale map vadd]. constructor.
    + apply ray_var; assumption.
    + apply IH; assumption.
Qed.

Theorem check_unbounded_sound p x r : check_unbounded p x r = true -> unbounded p.
Proof.
  unfold check_unbounded. rewrite !andb_true_iff. intros [[[Hf Hv] Hr] Hc].
  apply feasible_b_ok in Hf. destruct Hf as [Fv Fr].
  apply negb_true_iff in Hc.
  assert (Hpos : 0 < dot (obj p) r).
  { destruct (Qlt_le_dec 0 (dot (obj p) r)) as [L|L]; [exact L|]. apply Qle_bool_iff in L. congruence. }
  intros M. set (cr := dot (obj p) r) in *.
  set (t := Qabs' (M - value p x) / cr + 1).
  assert (Habs : 0 <= Qabs' (M - value p x) /\ M - value p x <= Qabs' (M - value p x)).
  { unfold Qabs'. destruct (Qle_bool 0 (M - value p x)) eqn:E.
    - apply Qle_bool_iff in E. lra.
    - assert (~ 0 <= M - value p x) by (intros H; apply Qle_bool_iff in H; congruence). lra. }
  assert (Hq : 0 <= Qabs' (M - value p x) / cr).
  { unfold Qdiv. apply Qmult_le_0_compat; [tauto|]. apply Qlt_le_weak. apply Qinv_lt_0_compat. exact Hpos. }
  assert (Ht : 0 <= t) by (unfold t; lra).
  exists (vadd x (vscale t r)). split.
  - split.
    + apply ray_vars; assumption.
    + rewrite Forall_forall in *. rewrite forallb_forall in Hr. intros rw Hin.
      specialize (Fr rw Hin). specialize (Hr rw Hin). unfold row_ok in *.
      eapply inb_proper; [|apply (ray_var _ _ _ t Fr Hr Ht)].
      rewrite dot_vadd_r, dot_vscale_r. reflexivity.
  - unfold value. rewrite dot_vadd_r, dot_vscale_r. fold cr. fold (value p x).
    assert (E : t * cr == Qabs' (M - value p x) + cr).
    { unfold t. field. lra. }
    lra.
Qed.

(* ---- tolerant feasibility is feasibility of the relaxed problem ---- *)
Theorem feasible_tol_sound p e x : feasible_tol p e x = true -> feasible (relax e p) x.
Proof. apply feasible_b_ok. Qed.

Lemma relax_zero_lo b x : le_lo b x -> forall e, 0 <= e -> le_lo (relax_lo e b) x.
Proof. destruct b; cbn; intros; try tauto. lra. Qed.
Lemma relax_zero_hi b x : le_hi x b -> forall e, 0 <= e -> le_hi x (relax_hi e b).
Proof. destruct b; cbn; intros; try tauto. lra. Qed.

Theorem feasible_relax p e x : 0 <= e -> feasible p x -> feasible (relax e p) x.
Proof.
  intros He [Hv Hr]. split; cbn.
  - clear Hr. induction Hv as [|b x0 vb x' Hb _ IH]; cbn; constructor; [|exact IH].
    destruct Hb. split; cbn; [apply relax_zero_lo|apply relax_zero_hi]; assumption.
  - rewrite Forall_forall in *. intros r Hin. apply in_map_iff in Hin as [r0 [<- Hin0]].
    specialize (Hr r0 Hin0). destruct Hr. split; cbn; [apply relax_zero_lo|apply relax_zero_hi]; assumption.
Qed.
