(* Correspondence + monitor functions for C05, evaluated by vm_compute on the observations the
   harness took from the real flux_variability_analysis.  Nothing here is a theorem.        *)
From Coq Require Import QArith List Bool ZArith.
From Cobra.LP Require Import Defs Cert Fba.
From Cobra.FVA Require Import Model.
Import ListNotations.
Open Scope Q_scope.

Inductive rcert := ROpt (x y : vec) | RUnb (x r : vec).
Inductive pcert := POpt (x y : vec) | PInf (y : vec).
Inductive obs := ORaise | OBad | OTable (rows : list (Q * Q)).    (* (minimum, maximum) per requested reaction *)

Record c05case := mkC05 {
  k_m : fbamodel;
  k_fba : vec * vec;                   (* certificate (x, y) of the FBA optimum on net_lp *)
  k_frac : Q;                          (* fraction_of_optimum *)
  k_pfba : option (Q * pfba_arg * pcert);
                                       (* pfba_factor, the fraction add_pfba is called with (read from the source by the
                                          harness; the translated table Gen/FvaTables.v is checked in Properties/C05.v),
                                          certificate for the pFBA step problem *)
  k_ids : list nat;                    (* requested reactions (positions), request order *)
  k_certs : list (rcert * rcert);      (* per requested reaction: certificate of the min and of the max step problem *)
  k_impl : obs;                        (* what flux_variability_analysis returned *)
  k_index_ok : bool;                   (* frame index = requested ids in request order, columns minimum, maximum *)
  k_optima : list vec;                 (* optimal FBA flux vectors (the implementation's own, the oracle's) *)
  k_loopless : option (obs * list (option (Q * Q) * (bool * bool)))
                                       (* loopless=True on the same arguments: returned table; per requested reaction the
                                          exact loop-free range by sign-pattern enumeration (None: loop-free scope empty)
                                          and two flags computed by the harness from the network structure (docs/C05.md,
                                          "where the heuristic is exact"): the unchanged loopless_fva_iter provably
                                          cannot be wider / cannot be narrower than the exact range for this reaction *)
}.

Definition tol : Q := 1 # 1000000.

(* the bound fix_objective_as_constraint uses inside add_pfba, per the regenerated table *)
Definition pfba_fixed_bound (a : pfba_arg) (frac opt : Q) : Q :=
  match a with PfbaConst f => f * opt | PfbaSameFraction => frac * opt end.

Definition step_value (p : lp) (mx : bool) (c : rcert) : option (option Q) :=   (* None = certificate rejected *)
  match c with
  | ROpt x y => if check_opt p x y then Some (Some (if mx then value p x else - value p x)) else None
  | RUnb x r => if check_unbounded p x r then Some None else None
  end.

Fixpoint exact_rows (m : fbamodel) (bound : Q) (cap : option Q) (ids : list nat) (cs : list (rcert * rcert))
  : option (list (option Q * option Q)) :=
  match ids, cs with
  | [], [] => Some []
  | j :: ids', (cmin, cmax) :: cs' =>
      match step_value (fva_lp m bound cap j false) false cmin,
            step_value (fva_lp m bound cap j true) true cmax,
            exact_rows m bound cap ids' cs' with
      | Some lo, Some hi, Some rest => if (j <? length (rxns m))%nat then Some ((lo, hi) :: rest) else None
      | _, _, _ => None
      end
  | _, _ => None
  end.

Definition to_answer (o : option Q) : answer := match o with Some v => AOpt v | None => ARaise end.

(* the model's outcome, from the certified exact answers of the step problems *)
Definition model_outcome (ids : list nat) (ex : list (option Q * option Q)) : outcome :=
  fva_table ids (map (fun r => to_answer (fst r)) ex) (map (fun r => to_answer (snd r)) ex).

Definition le_tol (a b : Q) : bool := Qle_bool a (b + tol * Qmax' 1 (Qabs' b)).

Fixpoint cmp_rows (ex : list (nat * (Q * Q))) (im : list (Q * Q)) : list nat :=
  match ex, im with
  | [], [] => []
  | (_, (lo, hi)) :: ex', (ilo, ihi) :: im' =>
      (if close tol ilo lo then [] else [2%nat]) ++ (if close tol ihi hi then [] else [3%nat]) ++ cmp_rows ex' im'
  | _, _ => [1%nat]
  end.

Definition ordered (im : list (Q * Q)) : bool := forallb (fun r => le_tol (fst r) (snd r)) im.

Definition contains (ids : list nat) (im : list (Q * Q)) (v : vec) : bool :=
  forallb (fun p => le_tol (fst (snd p)) (flux (fst p) v) && le_tol (flux (fst p) v) (snd (snd p))) (combine ids im).

Fixpoint inside (ll im : list (Q * Q)) : bool :=
  match ll, im with
  | [], [] => true
  | (a, b) :: ll', (lo, hi) :: im' => le_tol lo a && le_tol b hi && inside ll' im'
  | _, _ => false
  end.

(* against the exact loop-free range (lo, hi): a reported loopless range may be WIDER (it contains values
   only attained by distributions with an internal cycle) or NARROWER (it misses loop-free distributions).
   `strict` selects the reactions whose flag says the unchanged heuristic cannot deviate that way. *)
Definition wider1 (r : Q * Q) (e : option (Q * Q)) : bool :=
  match e with Some (lo, hi) => negb (le_tol lo (fst r)) || negb (le_tol (snd r) hi) | None => false end.
Definition narrower1 (r : Q * Q) (e : option (Q * Q)) : bool :=
  match e with Some (lo, hi) => negb (le_tol (fst r) lo) || negb (le_tol hi (snd r)) | None => false end.
Fixpoint ll_dev (f : (Q * Q) -> option (Q * Q) -> bool) (pick : bool * bool -> bool) (strict : bool)
                (ll : list (Q * Q)) (ex : list (option (Q * Q) * (bool * bool))) : bool :=
  match ll, ex with
  | r :: ll', (e, fl) :: ex' => (f r e && Bool.eqb (pick fl) strict) || ll_dev f pick strict ll' ex'
  | _, _ => false
  end.
(* codes: 13 / 14 = wider / narrower where the unchanged heuristic is provably exact on that side (never a known
   finding); 7 / 12 = wider / narrower elsewhere, reported only when no 13 / 14 is present so that shrinking a
   strict deviation cannot drift into a case that only shows the known inexactness                       *)
Definition ll_codes (ll : list (Q * Q)) (ex : list (option (Q * Q) * (bool * bool))) : list nat :=
  let s := (if ll_dev wider1 fst true ll ex then [13%nat] else []) ++
           (if ll_dev narrower1 snd true ll ex then [14%nat] else []) in
  match s with
  | [] => (if ll_dev wider1 fst false ll ex then [7%nat] else []) ++
          (if ll_dev narrower1 snd false ll ex then [12%nat] else [])
  | _ => s
  end.

Definition checks (c : c05case) : list nat :=
  let m := k_m c in
  let '(x, y) := k_fba c in
  if negb (valid_model_b m && check_opt (net_lp m) x y) then [9%nat] else
  let opt := objv m x in
  let bound := k_frac c * opt in
  if negb (admissible_b m (k_frac c) opt) then [9%nat] else
  (* the pFBA step: minimal total flux, or infeasible (then cobrapy raises) *)
  let pf : option (option (option Q)) :=     (* None: rejected; Some None: infeasible; Some (Some cap) *)
    match k_pfba c with
    | None => Some (Some None)
    | Some (factor, a, POpt xp yp) =>
        let p := pfba_lp m bound (pfba_fixed_bound a (k_frac c) opt) in
        if check_opt p xp yp then Some (Some (Some (factor * - value p xp))) else None
    | Some (_, a, PInf yp) =>
        if check_infeasible (pfba_lp m bound (pfba_fixed_bound a (k_frac c) opt)) yp then Some None else None
    end in
  match pf with
  | None => [9%nat]
  | Some None =>
      (* the model raises; the scope is non-empty (the optimum is in it), so the property is violated *)
      match k_impl c with ORaise => [8%nat] | _ => [1%nat] end
  | Some (Some cap) =>
      match exact_rows m bound cap (k_ids c) (k_certs c) with
      | None => [9%nat]
      | Some ex =>
          (if k_index_ok c then [] else [10%nat]) ++
          match model_outcome (k_ids c) ex, k_impl c with
          | Raised, ORaise => []
          | Table rows, OTable im =>
              cmp_rows rows im ++
              (if ordered im then [] else [4%nat]) ++
              (match k_pfba c with
               | None => if forallb (contains (k_ids c) im) (k_optima c) then [] else [5%nat]
               | Some _ => []
               end) ++
              (match k_loopless c with
               | None => []
               | Some (OTable ll, exl) =>
                   (if inside ll im then [] else [6%nat]) ++
                   (if Nat.eqb (length ll) (length exl) then [] else [11%nat]) ++
                   ll_codes ll exl
               | Some (_, _) => [11%nat]
               end)
          | _, _ => [1%nat]
          end
      end
  end.

Definition failing (cases : list (Z * c05case)) : list (Z * list (nat * nat)) :=
  filter (fun r => match snd r with [] => false | _ => true end)
         (map (fun c => (fst c, map (fun k => (0%nat, k)) (checks (snd c)))) cases).
