(* Proofs for C05: the problems cobrapy builds for flux variability analysis have exactly the
   optimal values the specification asks for.                                              *)
From Coq Require Import QArith List Bool Lia Lqa.
From Cobra.LP Require Import Defs Cert Fba.
From Cobra.FVA Require Import Model.
Import ListNotations.
Open Scope Q_scope.

(* ------------------------------------------------------------------ lists and dot products *)
Lemma dot_app_short a : forall x t, (length a <= length x)%nat -> dot a (x ++ t) == dot a x.
Proof.
  induction a as [|a0 a IH]; intros x t H; cbn [dot]; [reflexivity|].
  destruct x as [|x0 x]; cbn in H; [lia|]. cbn [app dot]. rewrite IH by lia. reflexivity.
Qed.

Lemma dot_app_exact e : forall e' x t, length e = length x -> dot (e ++ e') (x ++ t) == dot e x + dot e' t.
Proof.
  induction e as [|e0 e IH]; intros e' x t H; destruct x as [|x0 x]; cbn in H; try discriminate.
  - cbn [app dot]. lra.
  - cbn [app dot]. rewrite IH by lia. lra.
Qed.

Lemma Forall2_snoc {A B} (R : A -> B -> Prop) l a x t :
  Forall2 R (l ++ [a]) (x ++ [t]) <-> Forall2 R l x /\ R a t.
Proof.
  split.
  - intros H. apply Forall2_app_inv_l in H as (l1 & l2 & H1 & H2 & E).
    inversion H2 as [|a' t' n1 n2 Hr Hn]; subst. inversion Hn; subst.
    apply app_inj_tail in E as [-> ->]. split; assumption.
  - intros [H1 H2]. apply Forall2_app; [exact H1|]. constructor; [exact H2|constructor].
Qed.

Lemma Forall2_length {A B} (R : A -> B -> Prop) l m : Forall2 R l m -> length l = length m.
Proof. intros H; induction H; cbn; congruence. Qed.
Arguments Forall2_length {A B R l m} _.

Lemma length_dup a : length (dup a) = (2 * length a)%nat.
Proof. induction a as [|x a IH]; cbn [dup length]; lia. Qed.
Lemma length_flat zs : length (flat zs) = (2 * length zs)%nat.
Proof. induction zs as [|[f r] zs IH]; cbn [flat length]; lia. Qed.
Lemma length_flat_bounds bs : length (flat_bounds bs) = (2 * length bs)%nat.
Proof. induction bs as [|[fb rb] bs IH]; cbn [flat_bounds length]; lia. Qed.
Lemma length_nets zs : length (nets zs) = length zs.
Proof. apply map_length. Qed.

(* ------------------------------------------------------------------ generic LP edits *)
Definition rows_fit (p : lp) : Prop :=
  Forall (fun r => (length (r_coef r) <= length (vbounds p))%nat) (rows p).

Lemma feasible_set_obj p c x : feasible (set_obj p c) x <-> feasible p x.
Proof. unfold feasible; cbn. tauto. Qed.

Lemma row_ok_proper x r a : dot (r_coef r) x == a -> (row_ok x r <-> inb (r_lo r, r_hi r) a).
Proof.
  intros E. unfold row_ok. split; intros H; eapply inb_proper; try exact H; [exact E|symmetry; exact E].
Qed.

Lemma inb_zero a : inb (Fin 0, Fin 0) a <-> a == 0.
Proof. unfold inb; cbn. split; [intros [? ?]; lra|intros E; split; lra]. Qed.

Lemma with_var_feasible p e b x t :
  rows_fit p -> length e = length (vbounds p) ->
  (feasible (with_var p e b) (x ++ [t]) <-> feasible p x /\ inb b t /\ dot e x == t).
Proof.
  intros Hfit He. unfold feasible, with_var; cbn [vbounds rows].
  rewrite Forall2_snoc, Forall_app. split.
  - intros [[Hv Hb] [Hr Hn]]. pose proof (Forall2_length Hv) as HL.
    inversion Hn as [|r0 l0 Hn0 _]; subst.
    split; [split; [exact Hv|]|split; [exact Hb|]].
    + unfold rows_fit in Hfit. rewrite Forall_forall in *. intros r Hin.
      specialize (Hr r Hin). specialize (Hfit r Hin).
      apply (row_ok_proper (x ++ [t]) r (dot (r_coef r) x)) in Hr; [exact Hr|].
      apply dot_app_short. lia.
    + unfold row_ok in Hn0. cbn [r_coef r_lo r_hi] in Hn0.
      apply inb_zero in Hn0. rewrite dot_app_exact in Hn0 by lia. cbn [dot] in Hn0. lra.
  - intros [[Hv Hr] [Hb E]]. pose proof (Forall2_length Hv) as HL.
    split; [split; [exact Hv|exact Hb]|split].
    + unfold rows_fit in Hfit. rewrite Forall_forall in *. intros r Hin.
      specialize (Hr r Hin). specialize (Hfit r Hin).
      apply (row_ok_proper (x ++ [t]) r (dot (r_coef r) x)); [|exact Hr].
      apply dot_app_short. lia.
    + constructor; [|constructor]. unfold row_ok. cbn [r_coef r_lo r_hi].
      apply inb_zero. rewrite dot_app_exact by lia. cbn [dot]. lra.
Qed.

Lemma with_var_fit p e b : rows_fit p -> length e = length (vbounds p) -> rows_fit (with_var p e b).
Proof.
  intros Hfit He. unfold rows_fit, with_var in *; cbn [vbounds rows]. rewrite app_length. cbn [length].
  apply Forall_app. split.
  - eapply Forall_impl; [|exact Hfit]. cbn. intros r Hr. lia.
  - constructor; [|constructor]. cbn [r_coef]. rewrite app_length. cbn [length]. lia.
Qed.

Lemma add_row_feasible p r x :
  feasible (add_row p r) x <-> feasible p x /\ row_ok x r.
Proof.
  unfold feasible, add_row; cbn [vbounds rows]. rewrite Forall_app. split.
  - intros [Hv [Hr Hn]]. inversion Hn; subst. tauto.
  - intros [[Hv Hr] Hn]. repeat split; try assumption. constructor; [exact Hn|constructor].
Qed.

(* ------------------------------------------------------------------ the split problem *)
Lemma split_fit m : rows_fit (split_lp m).
Proof.
  unfold rows_fit, split_lp; cbn [vbounds rows]. rewrite Forall_forall. intros r Hin.
  apply in_map_iff in Hin as [i [<- _]]. cbn [zero_row r_coef].
  rewrite length_dup, length_flat_bounds. unfold met_row. rewrite !map_length. lia.
Qed.

Lemma split_nvars m : length (vbounds (split_lp m)) = (2 * length (rxns m))%nat.
Proof. unfold split_lp; cbn [vbounds]. rewrite length_flat_bounds, map_length. reflexivity. Qed.

Lemma split_feasible_length m zs : feasible (split_lp m) (flat zs) -> length zs = length (rxns m).
Proof.
  intros [Hv _]. apply Forall2_length in Hv. rewrite split_nvars, length_flat in Hv. lia.
Qed.

Lemma base_fit m bound : rows_fit (base_lp m bound).
Proof.
  apply with_var_fit; [apply split_fit|]. rewrite length_dup, split_nvars. unfold cvec. rewrite map_length. reflexivity.
Qed.

Lemma base_nvars m bound : length (vbounds (base_lp m bound)) = (2 * length (rxns m) + 1)%nat.
Proof. unfold base_lp, with_var; cbn [vbounds]. rewrite app_length, split_nvars. cbn. lia. Qed.

Lemma length_ones2 m : length (ones2 m) = (2 * length (rxns m))%nat.
Proof. unfold ones2. rewrite length_flat, map_length. reflexivity. Qed.

(* forward and reverse variables are never negative *)
Lemma split_nonneg lb ub f r :
  valid lb ub -> inb (fst (split_bounds lb ub)) f -> inb (snd (split_bounds lb ub)) r -> 0 <= f /\ 0 <= r.
Proof.
  unfold valid, split_bounds, inb. intros [Hle [Hl Hu]].
  destruct (epos lb) eqn:E1; [|destruct (eneg ub) eqn:E2]; cbn [fst snd];
    destruct lb as [|l|]; destruct ub as [|u|]; cbn in *; try congruence; try tauto; qb;
    intros [? ?] [? ?]; split; lra.
Qed.

Fixpoint sum2 (zs : list (Q * Q)) : Q := match zs with [] => 0 | (f, r) :: zs' => f + r + sum2 zs' end.

Lemma Qabs'_spec x : 0 <= Qabs' x /\ x <= Qabs' x /\ - x <= Qabs' x /\ (Qabs' x == x \/ Qabs' x == - x).
Proof.
  unfold Qabs'. destruct (Qle_bool 0 x) eqn:E; qb; (split; [lra|split; [lra|split; [lra|]]]); [left|right]; reflexivity.
Qed.

Lemma Qabs'_qpos x : Qabs' x == qpos x + qpos (- x).
Proof.
  unfold Qabs', qpos. destruct (Qle_bool 0 x) eqn:E1; destruct (Qle_bool 0 (- x)) eqn:E2; qb; lra.
Qed.

Lemma total_le_sum2 rs : forall zs,
  Forall (fun r => valid (rx_lb r) (rx_ub r)) rs ->
  Forall2 inb (flat_bounds (map (fun r => split_bounds (rx_lb r) (rx_ub r)) rs)) (flat zs) ->
  total_flux (nets zs) <= sum2 zs.
Proof.
  induction rs as [|r rs IH]; intros zs Hv H; cbn in *.
  - destruct zs as [|[f r0] zs]; cbn in *; [lra|inversion H].
  - inversion Hv as [|r' rs' V Hv']; subst.
    destruct (split_bounds (rx_lb r) (rx_ub r)) as [fb rb] eqn:E.
    destruct zs as [|[f r0] zs]; cbn [flat] in H; [inversion H|].
    inversion H as [|b1 x1 l1 l1' Hf H1]; subst. inversion H1 as [|b2 x2 l2 l2' Hr H2]; subst.
    cbn [nets map total_flux sum2 fst snd]. fold (nets zs).
    specialize (IH zs Hv' H2).
    assert (N : 0 <= f /\ 0 <= r0).
    { apply (split_nonneg (rx_lb r) (rx_ub r)); [exact V|rewrite E; exact Hf|rewrite E; exact Hr]. }
    destruct (Qabs'_spec (f - r0)) as [_ [_ [_ [A|A]]]]; lra.
Qed.

Lemma sum2_splits v : sum2 (splits v) == total_flux v.
Proof.
  induction v as [|x v IH]; cbn [splits map sum2 total_flux]; [reflexivity|].
  fold (splits v). rewrite IH, Qabs'_qpos. lra.
Qed.

Lemma dot_ones2 (rs : list rxn) : forall zs, length zs = length rs ->
  dot (flat (map (fun _ => (1, 1)) rs)) (flat zs) == sum2 zs.
Proof.
  induction rs as [|r rs IH]; intros zs H; destruct zs as [|[f r0] zs]; cbn in H; try discriminate.
  - reflexivity.
  - cbn [map flat dot sum2]. rewrite IH by lia. lra.
Qed.

Lemma total_flux_ext : forall a b, Forall2 Qeq a b -> total_flux a == total_flux b.
Proof.
  intros a b H. induction H as [|x y a b E _ IH]; cbn [total_flux]; [reflexivity|].
  rewrite IH. unfold Qabs'.
  destruct (Qle_bool 0 x) eqn:E1; destruct (Qle_bool 0 y) eqn:E2; qb; lra.
Qed.

Lemma length_splits v : length (splits v) = length v.
Proof. apply map_length. Qed.

Lemma net_feasible_length m v : feasible (net_lp m) v -> length v = length (rxns m).
Proof. intros [Hv _]. apply Forall2_length in Hv. cbn in Hv. rewrite map_length in Hv. lia. Qed.

(* ------------------------------------------------------------------ base problem  <->  scope *)
Lemma keeps_bounds m bound t : inb (old_obj_bounds m bound) t <-> (if maximize m then bound <= t else t <= bound).
Proof. unfold old_obj_bounds, inb. destruct (maximize m); cbn; tauto. Qed.

Lemma objv_nets m zs : dot (dup (cvec m)) (flat zs) == objv m (nets zs).
Proof. unfold objv. apply dot_dup. Qed.

Lemma objv_splits m v : dot (dup (cvec m)) (flat (splits v)) == objv m v.
Proof. unfold objv. rewrite dot_dup. apply dot_ext, nets_splits. Qed.

Lemma base_sound m bound zs t :
  valid_model m -> feasible (base_lp m bound) (flat zs ++ [t]) ->
  in_scope m bound None (nets zs) /\ t == objv m (nets zs) /\ feasible (split_lp m) (flat zs).
Proof.
  intros Hv H. unfold base_lp in H.
  apply with_var_feasible in H as [Hs [Hb E]];
    [|apply split_fit|rewrite length_dup, split_nvars; unfold cvec; rewrite map_length; reflexivity].
  destruct (split_to_net m zs Hv Hs) as [Hn _]. rewrite objv_nets in E.
  split; [|split; [symmetry; exact E|exact Hs]].
  split; [exact Hn|]. split; [|exact I].
  apply keeps_bounds in Hb. unfold keeps. destruct (maximize m); lra.
Qed.

Lemma base_complete m bound v :
  valid_model m -> in_scope m bound None v -> feasible (base_lp m bound) (flat (splits v) ++ [objv m v]).
Proof.
  intros Hv [Hn [Hk _]]. unfold base_lp.
  apply with_var_feasible;
    [apply split_fit|rewrite length_dup, split_nvars; unfold cvec; rewrite map_length; reflexivity|].
  destruct (net_to_split m v Hv Hn) as [Hs _]. split; [exact Hs|]. split; [|apply objv_splits].
  apply keeps_bounds. exact Hk.
Qed.

(* ------------------------------------------------------------------ the objective of one step *)
Lemma dot_zero_pairs (rs : list rxn) : forall x, dot (flat (map (fun _ => (0, 0)) rs)) x == 0.
Proof.
  induction rs as [|r rs IH]; intros x; cbn [map flat dot]; [reflexivity|].
  destruct x as [|x0 x]; [reflexivity|]. destruct x as [|x1 x]; cbn [dot]; [lra|]. rewrite IH. lra.
Qed.

Lemma dot_unit_pairs (rs : list rxn) : forall j zs rest, length zs = length rs ->
  dot (flat (set_pair (map (fun _ => (0, 0)) rs) j (1, -1))) (flat zs ++ rest) ==
  if (j <? length rs)%nat then flux j (nets zs) else 0.
Proof.
  induction rs as [|r rs IH]; intros j zs rest H; destruct zs as [|[f r0] zs]; cbn in H; try discriminate.
  - cbn. destruct j; reflexivity.
  - destruct j as [|j].
    + cbn [map set_pair flat app dot length Nat.ltb Nat.leb nets fst snd flux nth].
      change (flat (map (fun _ : rxn => (0, 0)) rs)) with (flat (map (fun _ : rxn => (0, 0)) rs)).
      rewrite dot_zero_pairs. lra.
    + cbn [map set_pair flat app dot length nets fst snd flux nth].
      fold (nets zs). rewrite IH by lia.
      change (S j <? S (length rs))%nat with (j <? length rs)%nat. unfold flux. lra.
Qed.

Lemma value_signed p mx c x : value (set_obj p (signed mx c)) x == (if mx then dot c x else - dot c x).
Proof. unfold value, set_obj, signed; cbn [obj]. destruct mx; [reflexivity|apply dot_vopp]. Qed.

(* ------------------------------------------------------------------ capped problem <-> scope *)
(* the shape of a point of the capped problem: (forward, reverse) pairs, fva_old_objective, [flux_sum] *)
Definition point (cap : option Q) (zs : list (Q * Q)) (t s : Q) : vec :=
  match cap with None => flat zs ++ [t] | Some _ => (flat zs ++ [t]) ++ [s] end.

Lemma capped_sound m bound cap zs t s :
  valid_model m -> feasible (capped_lp m bound cap) (point cap zs t s) ->
  in_scope m bound cap (nets zs) /\ length zs = length (rxns m).
Proof.
  intros Hv H. destruct cap as [k|]; cbn [capped_lp point] in H.
  - apply with_var_feasible in H as [Hb [Hs E]];
      [|apply base_fit|rewrite app_length, length_ones2, base_nvars; cbn; lia].
    destruct (base_sound m bound zs t Hv Hb) as [[Hn [Hk _]] [_ Hsp]].
    pose proof (split_feasible_length m zs Hsp) as HL. split; [|exact HL].
    split; [exact Hn|]. split; [exact Hk|].
    rewrite dot_app_exact in E by (rewrite length_ones2, length_flat; lia).
    unfold ones2 in E. rewrite dot_ones2 in E by exact HL. cbn [dot] in E.
    unfold inb in Hs; cbn in Hs. destruct Hs as [_ Hs].
    destruct Hsp as [Hvb _].
    pose proof (total_le_sum2 (rxns m) zs Hv Hvb). lra.
  - destruct (base_sound m bound zs t Hv H) as [Hsc [_ Hsp]]. split; [exact Hsc|].
    apply (split_feasible_length m zs Hsp).
Qed.

Lemma capped_complete m bound cap v :
  valid_model m -> in_scope m bound cap v ->
  feasible (capped_lp m bound cap) (point cap (splits v) (objv m v) (total_flux v)).
Proof.
  intros Hv [Hn [Hk Hc]]. destruct cap as [k|]; cbn [capped_lp point].
  - apply with_var_feasible; [apply base_fit|rewrite app_length, length_ones2, base_nvars; cbn; lia|].
    split; [apply base_complete; [exact Hv|]; split; [exact Hn|split; [exact Hk|exact I]]|].
    split; [unfold inb; cbn; split; [exact I|exact Hc]|].
    pose proof (net_feasible_length m v Hn) as HL.
    rewrite dot_app_exact by (rewrite length_ones2, length_flat, length_splits; lia).
    unfold ones2. rewrite dot_ones2 by (rewrite length_splits; exact HL). cbn [dot]. rewrite sum2_splits. lra.
  - apply base_complete; [exact Hv|]. split; [exact Hn|split; [exact Hk|exact I]].
Qed.

Lemma point_prefix cap zs t s : exists rest, point cap zs t s = flat zs ++ rest.
Proof.
  destruct cap; cbn [point]; [exists ([t] ++ [s]); rewrite app_assoc; reflexivity|exists [t]; reflexivity].
Qed.

Lemma fva_value m bound cap j mx zs t s :
  length zs = length (rxns m) -> (j < length (rxns m))%nat ->
  value (fva_lp m bound cap j mx) (point cap zs t s) == if mx then flux j (nets zs) else - flux j (nets zs).
Proof.
  intros HL Hj. unfold fva_lp. rewrite value_signed.
  destruct (point_prefix cap zs t s) as [rest ->]. unfold unit_pairs, zero_obj.
  pose proof (dot_unit_pairs (rxns m) j zs rest HL) as E.
  apply Nat.ltb_lt in Hj. rewrite Hj in E. destruct mx; rewrite E; reflexivity.
Qed.

Lemma flux_ext j : forall a b, Forall2 Qeq a b -> flux j a == flux j b.
Proof.
  unfold flux. induction j as [|j IH]; intros a b H; destruct H; cbn; try reflexivity; [assumption|apply IH; assumption].
Qed.

(* ---- fva_correct: an optimum of the problem cobrapy solves for reaction j is the true extreme ---- *)
Theorem fva_max_correct m bound cap j zs t s :
  valid_model m -> (j < length (rxns m))%nat ->
  is_opt (fva_lp m bound cap j true) (point cap zs t s) ->
  is_max (in_scope m bound cap) (flux j) (value (fva_lp m bound cap j true) (point cap zs t s)).
Proof.
  intros Hv Hj [Hf Hbest]. unfold fva_lp in Hf. apply feasible_set_obj in Hf.
  destruct (capped_sound m bound cap zs t s Hv Hf) as [Hsc HL].
  split.
  - exists (nets zs). split; [exact Hsc|]. rewrite (fva_value m bound cap j true zs t s HL Hj). reflexivity.
  - intros v Hs. pose proof (capped_complete m bound cap v Hv Hs) as Hc.
    assert (Hc' : feasible (fva_lp m bound cap j true) (point cap (splits v) (objv m v) (total_flux v)))
      by (unfold fva_lp; apply feasible_set_obj; exact Hc).
    specialize (Hbest _ Hc').
    destruct Hs as [Hn _]. pose proof (net_feasible_length m v Hn) as HLv.
    rewrite (fva_value m bound cap j true (splits v)) in Hbest by (rewrite ?length_splits; assumption).
    rewrite (flux_ext j _ _ (nets_splits v)) in Hbest. exact Hbest.
Qed.

Theorem fva_min_correct m bound cap j zs t s :
  valid_model m -> (j < length (rxns m))%nat ->
  is_opt (fva_lp m bound cap j false) (point cap zs t s) ->
  is_min (in_scope m bound cap) (flux j) (- value (fva_lp m bound cap j false) (point cap zs t s)).
Proof.
  intros Hv Hj [Hf Hbest]. unfold fva_lp in Hf. apply feasible_set_obj in Hf.
  destruct (capped_sound m bound cap zs t s Hv Hf) as [Hsc HL].
  split.
  - exists (nets zs). split; [exact Hsc|]. rewrite (fva_value m bound cap j false zs t s HL Hj). lra.
  - intros v Hs. pose proof (capped_complete m bound cap v Hv Hs) as Hc.
    assert (Hc' : feasible (fva_lp m bound cap j false) (point cap (splits v) (objv m v) (total_flux v)))
      by (unfold fva_lp; apply feasible_set_obj; exact Hc).
    specialize (Hbest _ Hc').
    destruct Hs as [Hn _]. pose proof (net_feasible_length m v Hn) as HLv.
    rewrite (fva_value m bound cap j false (splits v)) in Hbest by (rewrite ?length_splits; assumption).
    rewrite (flux_ext j _ _ (nets_splits v)) in Hbest. lra.
Qed.

(* an unbounded step problem means the flux of the reaction has no finite extreme *)
Theorem fva_unbounded m bound cap j (mx : bool) :
  valid_model m -> (j < length (rxns m))%nat ->
  (forall M : Q, exists v, in_scope m bound cap v /\ (if mx then M < flux j v else flux j v < - M)) ->
  unbounded (fva_lp m bound cap j mx).
Proof.
  intros Hv Hj H M. destruct (H M) as [v [Hs HM]].
  exists (point cap (splits v) (objv m v) (total_flux v)). split.
  - unfold fva_lp. apply feasible_set_obj. apply capped_complete; assumption.
  - destruct Hs as [Hn _]. pose proof (net_feasible_length m v Hn) as HLv.
    rewrite (fva_value m bound cap j mx (splits v)) by (rewrite ?length_splits; assumption).
    pose proof (flux_ext j _ _ (nets_splits v)) as E. destruct mx; lra.
Qed.

(* ------------------------------------------------------------------ the pFBA step *)
Lemma fixed_row_ok m fb zs rest :
  length zs = length (rxns m) ->
  (row_ok (flat zs ++ rest) (fixed_obj_row m fb) <-> keeps m fb (nets zs)).
Proof.
  intros HL. unfold fixed_obj_row, keeps.
  assert (E : dot (dup (cvec m)) (flat zs ++ rest) == objv m (nets zs)).
  { rewrite dot_app_short by (rewrite length_dup, length_flat; unfold cvec; rewrite map_length; lia). apply objv_nets. }
  destruct (maximize m); unfold row_ok, inb; cbn [r_coef r_lo r_hi fst snd le_lo le_hi]; rewrite E; tauto.
Qed.

Lemma keeps_ext m b v v' : objv m v == objv m v' -> keeps m b v -> keeps m b v'.
Proof. unfold keeps. intros E. destruct (maximize m); lra. Qed.

(* the constraint added by fix_objective_as_constraint is implied by the fva_old_objective bound *)
Definition implied (m : fbamodel) (bound fb : Q) : Prop := if maximize m then fb <= bound else bound <= fb.
Definition sign_ok (m : fbamodel) (bound : Q) : Prop := if maximize m then 0 <= bound else bound <= 0.

Theorem pfba_min_correct m bound fb zs t :
  valid_model m -> implied m bound fb ->
  is_opt (pfba_lp m bound fb) (flat zs ++ [t]) ->
  is_min (in_scope m bound None) total_flux (- value (pfba_lp m bound fb) (flat zs ++ [t])).
Proof.
  intros Hv Hsg [Hf Hbest]. unfold pfba_lp in Hf. apply feasible_set_obj in Hf.
  apply add_row_feasible in Hf as [Hb Hrow].
  destruct (base_sound m bound zs t Hv Hb) as [Hsc [_ Hsp]].
  pose proof (split_feasible_length m zs Hsp) as HL.
  assert (Hval : forall ws u, length ws = length (rxns m) ->
            value (pfba_lp m bound fb) (flat ws ++ [u]) == - sum2 ws).
  { intros ws u Hw. unfold value, pfba_lp, set_obj; cbn [obj]. rewrite dot_vopp.
    rewrite dot_app_short by (rewrite length_ones2, length_flat; lia).
    unfold ones2. rewrite dot_ones2 by exact Hw. reflexivity. }
  (* the optimum uses no superfluous forward+reverse flux: sum2 zs = total flux of its net vector *)
  assert (Hcanon : feasible (pfba_lp m bound fb) (flat (splits (nets zs)) ++ [objv m (nets zs)])).
  { unfold pfba_lp. apply feasible_set_obj, add_row_feasible. split.
    - apply base_complete; assumption.
    - apply fixed_row_ok; [rewrite length_splits, length_nets; exact HL|].
      apply (fixed_row_ok m fb zs [t] HL) in Hrow.
      eapply keeps_ext; [|exact Hrow]. unfold objv. symmetry. apply dot_ext, nets_splits. }
  pose proof (Hbest _ Hcanon) as Hc.
  rewrite !Hval in Hc by (rewrite ?length_splits, ?length_nets; exact HL).
  rewrite sum2_splits in Hc.
  destruct Hsp as [Hvb _]. pose proof (total_le_sum2 (rxns m) zs Hv Hvb) as Hle.
  split.
  - exists (nets zs). split; [exact Hsc|]. rewrite Hval by exact HL. lra.
  - intros v Hs. pose proof (base_complete m bound v Hv Hs) as Hcv.
    destruct Hs as [Hn [Hk _]]. pose proof (net_feasible_length m v Hn) as HLv.
    assert (Hfv : feasible (pfba_lp m bound fb) (flat (splits v) ++ [objv m v])).
    { unfold pfba_lp. apply feasible_set_obj, add_row_feasible. split; [exact Hcv|].
      apply fixed_row_ok; [rewrite length_splits; exact HLv|].
      assert (E : objv m (nets (splits v)) == objv m v) by (unfold objv; apply dot_ext, nets_splits).
      unfold keeps in *. unfold implied in Hsg. destruct (maximize m); rewrite E; lra. }
    specialize (Hbest _ Hfv). rewrite !Hval in Hbest by (rewrite ?length_splits; assumption).
    rewrite sum2_splits in Hbest. rewrite (Hval zs t HL). lra.
Qed.

(* ------------------------------------------------------------------ order facts *)
Lemma admissible_b_ok m frac opt : admissible_b m frac opt = true -> admissible m frac opt.
Proof.
  unfold admissible_b, admissible. intros H. apply orb_true_iff in H as [H|H].
  - left. apply Qeq_bool_iff in H. exact H.
  - right. apply andb_true_iff in H as [H H3]. apply andb_true_iff in H as [H1 H2].
    apply Qle_bool_iff in H1, H2. repeat split; try assumption.
    destruct (maximize m); apply Qle_bool_iff in H3; exact H3.
Qed.

Lemma admissible_sign m frac opt : admissible m frac opt -> (if maximize m then 0 <= opt else opt <= 0) ->
  sign_ok m (frac * opt).
Proof. unfold sign_ok. intros [E|[H0 [H1 _]]] Hs; destruct (maximize m); try rewrite E; nra. Qed.

(* every optimal FBA solution keeps the objective beyond fraction * optimum ... *)
Lemma fba_opt_keeps m x opt frac : fba_opt m x opt -> admissible m frac opt -> in_scope m (frac * opt) None x.
Proof.
  intros [[Hf _] Ho] Ha. split; [exact Hf|]. split; [|exact I].
  unfold keeps. unfold admissible in Ha.
  destruct Ha as [E|[H0 [H1 Hs]]]; destruct (maximize m); try rewrite E; nra.
Qed.

(* ... and ANY optimal solution does, whatever optimum value was used for the bound *)
Lemma fba_all_opt_keep m x x' opt frac :
  fba_opt m x opt -> is_opt (net_lp m) x' -> admissible m frac opt -> in_scope m (frac * opt) None x'.
Proof.
  intros [[Hf Hb] Ho] [Hf' Hb'] Ha.
  assert (E : objv m x' == opt).
  { specialize (Hb _ Hf'). specialize (Hb' _ Hf). unfold value, net_lp, net_obj in Hb, Hb'; cbn [obj] in Hb, Hb'.
    assert (S : forall z, dot (map (fun r => sgn m * rx_obj r) (rxns m)) z == sgn m * objv m z).
    { intros z. unfold objv, cvec. generalize (rxns m). intros rs. revert z.
      induction rs as [|r rs IH]; intros z; cbn [map dot]; [lra|]. destruct z as [|z0 z]; [lra|]. rewrite IH. lra. }
    rewrite !S in Hb, Hb'. unfold sgn in *. destruct (maximize m); lra. }
  apply (fba_opt_keeps m x' opt frac); [|exact Ha]. split; [split; assumption|exact E].
Qed.

Theorem fva_order S f lo hi : is_min S f lo -> is_max S f hi -> lo <= hi.
Proof. intros [[v [Hs E]] _] [_ Hmax]. specialize (Hmax v Hs). lra. Qed.

Theorem fva_contains S f lo hi v : is_min S f lo -> is_max S f hi -> S v -> lo <= f v /\ f v <= hi.
Proof. intros [_ Hmin] [_ Hmax] Hs. split; [apply Hmin|apply Hmax]; exact Hs. Qed.

(* a smaller scope gives a range inside the larger one (used for: capped inside uncapped,
   loopless inside plain)                                                                  *)
Theorem range_monotone (S S' : vec -> Prop) f lo hi lo' hi' :
  (forall v, S' v -> S v) -> is_min S f lo -> is_max S f hi -> is_min S' f lo' -> is_max S' f hi' ->
  lo <= lo' /\ hi' <= hi.
Proof.
  intros Hsub [_ Hmin] [_ Hmax] [[v1 [H1 E1]] _] [[v2 [H2 E2]] _].
  pose proof (Hmin _ (Hsub _ H1)). pose proof (Hmax _ (Hsub _ H2)). lra.
Qed.

(* ------------------------------------------------------------------ step bookkeeping *)
Lemma set_pair_twice o : forall j p q, set_pair (set_pair o j p) j q = set_pair o j q.
Proof. induction o as [|x o IH]; intros j p q; destruct j; cbn; try reflexivity. rewrite IH. reflexivity. Qed.

Lemma set_pair_zero (rs : list rxn) : forall j, set_pair (map (fun _ => (0, 0)) rs) j (0, 0) = map (fun _ => (0, 0)) rs.
Proof. induction rs as [|r rs IH]; intros j; destruct j; cbn; try reflexivity. rewrite IH. reflexivity. Qed.

(* starting from the all-zero objective every step solves exactly the closed-form problem for its
   reaction and leaves the objective all-zero again                                           *)
Theorem run_steps_spec m base mx ids :
  run_steps base (mkW (zero_obj m) mx) ids =
  (map (fun j => set_obj base (signed mx (flat (unit_pairs m j)))) ids, mkW (zero_obj m) mx).
Proof.
  induction ids as [|j ids IH]; cbn [run_steps map]; [reflexivity|].
  unfold step_state; cbn [w_obj w_max]. rewrite set_pair_twice. unfold zero_obj at 1. rewrite set_pair_zero.
  fold (zero_obj m). rewrite IH. reflexivity.
Qed.

Theorem fva_problems_spec m bound cap ids :
  fva_problems m bound cap ids =
  (map (fun j => fva_lp m bound cap j false) ids, map (fun j => fva_lp m bound cap j true) ids).
Proof.
  unfold fva_problems, init_worker. rewrite run_steps_spec. cbn [w_obj]. rewrite run_steps_spec. reflexivity.
Qed.

(* the table has one row per requested reaction, in request order, when every step was optimal *)
Lemma all_opt_length l vs : all_opt l = Some vs -> length vs = length l.
Proof.
  revert vs. induction l as [|a l IH]; intros vs H; cbn [all_opt] in H.
  - injection H as <-. reflexivity.
  - destruct a as [v|]; [|discriminate]. destruct (all_opt l) as [vs'|]; [|discriminate].
    injection H as <-. cbn. rewrite (IH vs' eq_refl). reflexivity.
Qed.

Theorem fva_table_ids ids amin amax rows :
  length amin = length ids -> length amax = length ids ->
  fva_table ids amin amax = Table rows -> map fst rows = ids.
Proof.
  intros H1 H2. unfold fva_table.
  destruct (all_opt amin) as [lo|] eqn:E1; [|discriminate]. destruct (all_opt amax) as [hi|] eqn:E2; [|discriminate].
  intros H; injection H as <-. apply all_opt_length in E1, E2.
  assert (L : length (combine lo hi) = length ids) by (rewrite combine_length; lia).
  revert L. generalize (combine lo hi). clear. induction ids as [|j ids IH]; intros l L; destruct l; cbn in *; try lia; [reflexivity|].
  rewrite IH by lia. reflexivity.
Qed.

(* ------------------------------------------------------------------ loopless values lie inside *)
Lemma emax0_le lb x : le_lo (emax0 lb) x -> le_lo lb x.
Proof.
  destruct lb as [|q|]; cbn; try tauto. unfold Qmax'. destruct (Qle_bool 0 q) eqn:E; qb; lra.
Qed.
Lemma emin0_le ub x : le_hi x (emin0 ub) -> le_hi x ub.
Proof.
  destruct ub as [|q|]; cbn; try tauto. destruct (Qle_bool q 0) eqn:E; qb; lra.
Qed.

Lemma close_rxns_bounds sel : forall rs v,
  Forall2 inb (map (fun r => (rx_lb r, rx_ub r)) (close_rxns sel rs)) v ->
  Forall2 inb (map (fun r => (rx_lb r, rx_ub r)) rs) v.
Proof.
  induction sel as [|s sel IH]; intros rs v H; [destruct rs; exact H|].
  destruct rs as [|r rs]; [exact H|]. cbn [close_rxns map] in *.
  inversion H as [|b x l l' Hb H']; subst. constructor; [|apply IH; exact H'].
  destruct s; cbn [close_rxn rx_lb rx_ub] in Hb; [|exact Hb].
  destruct Hb as [Hl Hh]; cbn [fst snd] in *. split; cbn [fst snd]; [apply emax0_le|apply emin0_le]; assumption.
Qed.

Lemma close_rxns_cols sel : forall rs i, met_row (close_rxns sel rs) i = met_row rs i.
Proof.
  induction sel as [|s sel IH]; intros rs i; [destruct rs; reflexivity|].
  destruct rs as [|r rs]; [reflexivity|]. cbn [close_rxns]. unfold met_row in *. cbn [map].
  rewrite IH. destruct s; reflexivity.
Qed.

Lemma close_rxns_obj sel : forall rs, map rx_obj (close_rxns sel rs) = map rx_obj rs.
Proof.
  induction sel as [|s sel IH]; intros rs; [destruct rs; reflexivity|].
  destruct rs as [|r rs]; [reflexivity|]. cbn [close_rxns map]. rewrite IH. destruct s; reflexivity.
Qed.

(* every point of the problem with some reactions closed to zero (third branch of
   loopless_fva_iter) is a point of the original scope: loopless values are attained by feasible
   distributions, hence lie inside the plain range                                            *)
Theorem restricted_in_scope m sel bound cap v :
  in_scope (restricted m sel) bound cap v -> in_scope m bound cap v.
Proof.
  intros [[Hv Hr] [Hk Hc]]. split; [split|split; [|exact Hc]].
  - apply (close_rxns_bounds sel). exact Hv.
  - cbn [net_lp rows restricted nmets rxns] in *. rewrite Forall_forall in *. intros rw Hin.
    apply in_map_iff in Hin as [i [<- Hi]]. rewrite <- (close_rxns_cols sel).
    apply Hr. apply in_map_iff. exists i. split; [reflexivity|exact Hi].
  - unfold keeps, objv, cvec in *. cbn [restricted rxns maximize] in Hk. rewrite close_rxns_obj in Hk. exact Hk.
Qed.

Theorem loopless_inside m sel bound cap j lo hi a :
  is_min (in_scope m bound cap) (flux j) lo -> is_max (in_scope m bound cap) (flux j) hi ->
  (exists v, in_scope (restricted m sel) bound cap v /\ flux j v == a) -> lo <= a /\ a <= hi.
Proof.
  intros Hmin Hmax [v [Hs E]]. apply restricted_in_scope in Hs.
  destruct (fva_contains _ _ _ _ v Hmin Hmax Hs). lra.
Qed.

(* ------------------------------------------------------------------ every point has the shape *)
Lemma unflat n : forall x, length x = (2 * n)%nat -> exists zs, x = flat zs.
Proof.
  induction n as [|n IH]; intros x H.
  - destruct x; [exists []; reflexivity|cbn in H; lia].
  - destruct x as [|f x]; [cbn in H; lia|]. destruct x as [|r x]; [cbn in H; lia|].
    destruct (IH x) as [zs ->]; [cbn in H; lia|]. exists ((f, r) :: zs). reflexivity.
Qed.

Lemma unsnoc {A} (x : list A) n : length x = S n -> exists y t, x = y ++ [t] /\ length y = n.
Proof.
  intros H. assert (N : x <> []) by (intros ->; discriminate).
  destruct (exists_last N) as [y [t ->]]. exists y, t. split; [reflexivity|].
  rewrite app_length in H. cbn in H. lia.
Qed.

Lemma capped_nvars m bound cap :
  length (vbounds (capped_lp m bound cap)) =
  match cap with None => (2 * length (rxns m) + 1)%nat | Some _ => (2 * length (rxns m) + 2)%nat end.
Proof.
  destruct cap; cbn [capped_lp]; [|apply base_nvars].
  unfold with_var; cbn [vbounds]. rewrite app_length, base_nvars. cbn. lia.
Qed.

Theorem point_shape m bound cap z :
  Forall2 inb (vbounds (capped_lp m bound cap)) z -> exists zs t s, z = point cap zs t s.
Proof.
  intros H. apply Forall2_length in H. rewrite capped_nvars in H. destruct cap as [k|]; cbn [point].
  - destruct (unsnoc z (2 * length (rxns m) + 1)) as [y [s [-> Hy]]]; [lia|].
    destruct (unsnoc y (2 * length (rxns m))) as [x [t [-> Hx]]]; [lia|].
    destruct (unflat _ x Hx) as [zs ->]. exists zs, t, s. reflexivity.
  - destruct (unsnoc z (2 * length (rxns m))) as [x [t [-> Hx]]]; [lia|].
    destruct (unflat _ x Hx) as [zs ->]. exists zs, t, 0. reflexivity.
Qed.

(* fva_correct for ANY optimal point of the step problem *)
Theorem fva_max_correct_any m bound cap j z :
  valid_model m -> (j < length (rxns m))%nat -> is_opt (fva_lp m bound cap j true) z ->
  is_max (in_scope m bound cap) (flux j) (value (fva_lp m bound cap j true) z).
Proof.
  intros Hv Hj Ho. destruct Ho as [[Hb Hr] Hbest].
  destruct (point_shape m bound cap z Hb) as [zs [t [s ->]]].
  apply fva_max_correct; [exact Hv|exact Hj|]. split; [split; assumption|exact Hbest].
Qed.

Theorem fva_min_correct_any m bound cap j z :
  valid_model m -> (j < length (rxns m))%nat -> is_opt (fva_lp m bound cap j false) z ->
  is_min (in_scope m bound cap) (flux j) (- value (fva_lp m bound cap j false) z).
Proof.
  intros Hv Hj Ho. destruct Ho as [[Hb Hr] Hbest].
  destruct (point_shape m bound cap z Hb) as [zs [t [s ->]]].
  apply fva_min_correct; [exact Hv|exact Hj|]. split; [split; assumption|exact Hbest].
Qed.

(* a step problem is unbounded exactly when the reaction has no finite extreme in the scope:
   then cobrapy raises (status "unbounded" is not in has_primals) instead of reporting a number *)
Theorem fva_unbounded_iff m bound cap j (mx : bool) :
  valid_model m -> (j < length (rxns m))%nat ->
  (unbounded (fva_lp m bound cap j mx) <->
   forall M : Q, exists v, in_scope m bound cap v /\ (if mx then M < flux j v else flux j v < - M)).
Proof.
  intros Hv Hj. split; [|apply fva_unbounded; assumption].
  intros Hu M. destruct (Hu M) as [z [Hf HM]].
  pose proof Hf as Hf'. destruct Hf' as [Hb _].
  destruct (point_shape m bound cap z Hb) as [zs [t [s ->]]].
  unfold fva_lp in Hf. apply feasible_set_obj in Hf.
  destruct (capped_sound m bound cap zs t s Hv Hf) as [Hsc HL].
  exists (nets zs). split; [exact Hsc|].
  rewrite (fva_value m bound cap j mx zs t s HL Hj) in HM. destruct mx; lra.
Qed.

Theorem pfba_min_correct_any m bound fb z :
  valid_model m -> implied m bound fb -> is_opt (pfba_lp m bound fb) z ->
  is_min (in_scope m bound None) total_flux (- value (pfba_lp m bound fb) z).
Proof.
  intros Hv Hs Ho. pose proof Ho as [[Hb _] _].
  destruct (point_shape m bound None z Hb) as [zs [t [s E]]]. cbn [point] in E. subst z.
  apply pfba_min_correct; assumption.
Qed.
