(* Executable model of flux_variability_analysis (flux_analysis/variability.py), property C05.

   Two layers:
   (a) the SPECIFICATION the property text talks about, on the net fluxes of an `fbamodel`:
       the set  in_scope m bound cap  of steady-state, in-bounds flux vectors that keep the objective
       at or beyond `bound` (= fraction_of_optimum * optimum) and, when asked, whose total flux
       sum |v_i| is at most `cap` (= pfba_factor * minimal total flux); `is_max` / `is_min` of the
       flux of one reaction over that set.
   (b) the linear programs cobrapy really builds, in its forward/reverse encoding:
         - with model: ... prob.Variable("fva_old_objective", lb | ub = fraction * objective.value)
           + Constraint(objective.expression - fva_old_objective, lb=0, ub=0)        -> with_var
         - pfba_factor: add_pfba(model, fraction_of_optimum=0) [fix_objective_as_constraint with
           bound 0, objective = sum of all forward and reverse variables, minimised]    -> pfba_lp
           then Variable("flux_sum", ub = pfba_factor * that minimum) + Constraint(sum - flux_sum = 0)
         - model.objective = Zero; per reaction _fva_step sets the coefficients (forward 1,
           reverse -1), solves in the worker's direction, reads objective.value and resets the
           coefficients to 0                                                          -> wstate, fva_step
   and the assembly of the result table (all minima first, then all maxima; any non-optimal
   status other than those listed in has_primals raises OptimizationError out of the call).   *)
From Coq Require Import QArith List Bool Lia Lqa.
From Cobra.LP Require Import Defs Cert Fba.
Import ListNotations.
Open Scope Q_scope.

(* ------------------------------------------------------------------ specification *)
Definition cvec (m : fbamodel) : vec := map rx_obj (rxns m).       (* objective coefficients as written *)
Definition objv (m : fbamodel) (v : vec) : Q := dot (cvec m) v.    (* objective value of a flux vector *)
Definition flux (j : nat) (v : vec) : Q := nth j v 0.
Fixpoint total_flux (v : vec) : Q := match v with [] => 0 | x :: v' => Qabs' x + total_flux v' end.

(* "keep the objective at or beyond the bound": >= when maximising, <= when minimising *)
Definition keeps (m : fbamodel) (bound : Q) (v : vec) : Prop :=
  if maximize m then bound <= objv m v else objv m v <= bound.

Definition in_scope (m : fbamodel) (bound : Q) (cap : option Q) (v : vec) : Prop :=
  feasible (net_lp m) v /\ keeps m bound v /\
  match cap with None => True | Some k => total_flux v <= k end.

Definition is_max (S : vec -> Prop) (f : vec -> Q) (a : Q) : Prop :=
  (exists v, S v /\ f v == a) /\ forall v, S v -> f v <= a.
Definition is_min (S : vec -> Prop) (f : vec -> Q) (a : Q) : Prop :=
  (exists v, S v /\ f v == a) /\ forall v, S v -> a <= f v.

(* the optimum of the flux-balance problem, as the objective value cobrapy reports (raw sign) *)
Definition fba_opt (m : fbamodel) (x : vec) (opt : Q) : Prop := is_opt (net_lp m) x /\ objv m x == opt.

(* the quantifier of the property: fraction 1, or a fraction in [0,1] when the optimum has the
   sign of the direction                                                                   *)
Definition admissible (m : fbamodel) (frac opt : Q) : Prop :=
  frac == 1 \/ (0 <= frac /\ frac <= 1 /\ if maximize m then 0 <= opt else opt <= 0).
Definition admissible_b (m : fbamodel) (frac opt : Q) : bool :=
  Qeq_bool frac 1 || (Qle_bool 0 frac && Qle_bool frac 1 && if maximize m then Qle_bool 0 opt else Qle_bool opt 0).

(* shapes of the constants regenerated from the source (coq/theories/Gen/FvaTables.v) *)
Inductive pfba_arg := PfbaConst (f : Q) | PfbaSameFraction.   (* add_pfba(model, fraction_of_optimum=...) *)
Inductive side := SideLb | SideUb.                            (* which bound of fva_old_objective is set *)

(* ------------------------------------------------------------------ generic LP edits *)
(* add_cons_vars([Variable(bounds b), Constraint(e - var, lb=0, ub=0)]) *)
Definition with_var (p : lp) (e : vec) (b : ebound * ebound) : lp :=
  mkLP (vbounds p ++ [b]) (rows p ++ [mkRow (e ++ [-1]) (Fin 0) (Fin 0)]) (obj p).
Definition add_row (p : lp) (r : row) : lp := mkLP (vbounds p) (rows p ++ [r]) (obj p).
Definition set_obj (p : lp) (c : vec) : lp := mkLP (vbounds p) (rows p) c.

(* ------------------------------------------------------------------ cobrapy's problems *)
(* prob.Variable("fva_old_objective", lb=...)  for "max",  ub=...  otherwise *)
Definition old_obj_bounds (m : fbamodel) (bound : Q) : ebound * ebound :=
  if maximize m then (Fin bound, PosInf) else (NegInf, Fin bound).

(* sum of all forward and reverse variables (the pFBA objective expression) *)
Definition ones2 (m : fbamodel) : vec := flat (map (fun _ => (1, 1)) (rxns m)).

Definition base_lp (m : fbamodel) (bound : Q) : lp :=
  with_var (split_lp m) (dup (cvec m)) (old_obj_bounds m bound).

(* the problem solved inside  `with model: add_pfba(model, fraction_of_optimum=f); slim_optimize()` :
   fix_objective_as_constraint adds  objective >= fb  ("max")  or  objective <= fb  ("min") where
   fb = f * (optimum of the problem at that moment), the objective becomes
   min sum(forward + reverse);  as a maximisation: max -sum                                    *)
Definition fixed_obj_row (m : fbamodel) (fb : Q) : row :=
  if maximize m then mkRow (dup (cvec m)) (Fin fb) PosInf else mkRow (dup (cvec m)) NegInf (Fin fb).
Definition pfba_lp (m : fbamodel) (bound fb : Q) : lp :=
  set_obj (add_row (base_lp m bound) (fixed_obj_row m fb)) (vopp (ones2 m)).

(* Variable("flux_sum", ub=cap) + Constraint(pfba objective expression - flux_sum = 0) *)
Definition capped_lp (m : fbamodel) (bound : Q) (cap : option Q) : lp :=
  match cap with
  | None => base_lp m bound
  | Some k => with_var (base_lp m bound) (ones2 m ++ [0]) (NegInf, Fin k)
  end.

(* ---- the worker: objective coefficients are edited in place, step by step ---- *)
Record wstate := mkW { w_obj : list (Q * Q);      (* (forward, reverse) objective coefficient per reaction *)
                       w_max : bool }.            (* solver.objective.direction == "max" *)

Fixpoint set_pair (o : list (Q * Q)) (j : nat) (p : Q * Q) : list (Q * Q) :=
  match o, j with
  | [], _ => []
  | _ :: o', O => p :: o'
  | q :: o', S j' => q :: set_pair o' j' p
  end.

(* model.objective = Zero *)
Definition zero_obj (m : fbamodel) : list (Q * Q) := map (fun _ => (0, 0)) (rxns m).
(* _init_worker(model, loopless, sense) *)
Definition init_worker (o : list (Q * Q)) (sense_max : bool) : wstate := mkW o sense_max.

(* the LP layer always maximises: a "min" problem is the maximisation of the negated objective *)
Definition signed (mx : bool) (c : vec) : vec := if mx then c else vopp c.

(* the problem the solver holds when _fva_step calls slim_optimize() *)
Definition step_problem (base : lp) (w : wstate) (j : nat) : lp :=
  set_obj base (signed (w_max w) (flat (set_pair (w_obj w) j (1, -1)))).
(* ... and the worker state after the step (coefficients reset to 0) *)
Definition step_state (w : wstate) (j : nat) : wstate :=
  mkW (set_pair (set_pair (w_obj w) j (1, -1)) j (0, 0)) (w_max w).

Fixpoint run_steps (base : lp) (w : wstate) (ids : list nat) : list lp * wstate :=
  match ids with
  | [] => ([], w)
  | j :: ids' => let (ps, w') := run_steps base (step_state w j) ids' in (step_problem base w j :: ps, w')
  end.

(* the closed form the theorems are about: reaction j, direction mx *)
Definition unit_pairs (m : fbamodel) (j : nat) : list (Q * Q) := set_pair (zero_obj m) j (1, -1).
Definition fva_lp (m : fbamodel) (bound : Q) (cap : option Q) (j : nat) (mx : bool) : lp :=
  set_obj (capped_lp m bound cap) (signed mx (flat (unit_pairs m j))).

(* all problems of one call, in solving order: "minimum" pass, then "maximum" pass *)
Definition fva_problems (m : fbamodel) (bound : Q) (cap : option Q) (ids : list nat) : list lp * list lp :=
  let base := capped_lp m bound cap in
  let (pmin, w1) := run_steps base (init_worker (zero_obj m) false) ids in
  let (pmax, _) := run_steps base (init_worker (w_obj w1) true) ids in
  (pmin, pmax).

(* ---- what comes back from the solver for one step, and the assembly of the table ---- *)
Inductive answer := AOpt (objective_value : Q) | ARaise (* status not optimal and not in has_primals *).
Inductive outcome := Raised | Table (rows : list (nat * (Q * Q))).   (* reaction, (minimum, maximum) *)

Fixpoint all_opt (l : list answer) : option (list Q) :=
  match l with
  | [] => Some []
  | AOpt v :: l' => match all_opt l' with Some vs => Some (v :: vs) | None => None end
  | ARaise :: _ => None
  end.

(* objective.value of a "min" problem is the minimum itself; in the max-only LP layer the value of
   the negated problem is negated back                                                      *)
Definition fva_table (ids : list nat) (amin amax : list answer) : outcome :=
  match all_opt amin, all_opt amax with
  | Some lo, Some hi => Table (combine ids (combine lo hi))
  | _, _ => Raised
  end.

(* ------------------------------------------------------------------ loopless post-processing *)
(* third branch of loopless_fva_iter: reactions that are zero in the cycle-free solution but not in
   the "almost loopless" one get  bounds = (max(0, lb), min(0, ub))                           *)
Definition emax0 (b : ebound) : ebound :=
  match b with Fin q => Fin (Qmax' 0 q) | NegInf => Fin 0 | PosInf => PosInf end.
Definition emin0 (b : ebound) : ebound :=
  match b with Fin q => Fin (if Qle_bool q 0 then q else 0) | PosInf => Fin 0 | NegInf => NegInf end.
Definition close_rxn (sel : bool) (r : rxn) : rxn :=
  if sel then mkRxn (rx_col r) (emax0 (rx_lb r)) (emin0 (rx_ub r)) (rx_obj r) else r.
Fixpoint close_rxns (sel : list bool) (rs : list rxn) : list rxn :=
  match sel, rs with
  | s :: sel', r :: rs' => close_rxn s r :: close_rxns sel' rs'
  | _, _ => rs
  end.
Definition restricted (m : fbamodel) (sel : list bool) : fbamodel :=
  mkFba (nmets m) (close_rxns sel (rxns m)) (maximize m).
