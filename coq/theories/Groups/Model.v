(* Kernel III of the stateful core (property C02): groups and identifier changes.

   Executable model of
     cobra.core.group.Group (members, add_members, remove_members, kind)        core/group.py
     Model.add_groups, Model.remove_groups, Model.get_associated_groups          core/model.py
     Model.remove_reactions / Model.remove_metabolites                           core/model.py (what they do to
       membership of the four DictLists, to back references and to groups)
     cobra.manipulation.delete.remove_genes (flat "or" rules)                    manipulation/delete.py
     Object.id setter -> _set_id_with_model of Reaction / Metabolite / Gene / Group   core/object.py ...
     cobra.manipulation.modify.escape_ID (the identifier setter for every object)     manipulation/modify.py

   All Python objects of a history exist from the start; an object is a class and an integer, `ref`.
   `lst s c` is the DictList model.reactions / metabolites / genes / groups in list order, `oid` the identifier
   of an object (an integer: k >= 0 stands for "<prefix>k", negative numbers for the odd values below),
   `omod` says object._model is the model.  DictList look-ups are by identifier through `lst`/`oid` (the _dict
   index of a DictList is not a separate component: every modelled operation keeps it in step with the list).

   Three places where the code under /repo leaves a dangling group member are switchable (`variant`): the
   theorems are about `vfix` (all three repaired, fixes/groups-*.patch), the check probes which variant it is
   running against, and Examples.v shows that each unrepaired variant breaks the invariant.

   Outside: the solver (the names of variables / constraints are observed and compared with the identifiers
   in Check.v, they are no state here), gene rules as text (a reaction's genes are a set, rules are flat "or"),
   contexts other than at specification level (cst below), adoption of metabolites / genes by add_reactions
   (an outside reaction that enters through add_groups has its metabolites in the model and no genes: op_ok). *)
From Coq Require Import ZArith List Bool.
Import ListNotations.
Open Scope Z_scope.

Inductive cls := CR | CM | CG | CP.          (* reaction, metabolite, gene, group *)
Definition cls_eqb (a b : cls) : bool :=
  match a, b with CR, CR | CM, CM | CG, CG | CP, CP => true | _, _ => false end.
Definition ref := (cls * Z)%type.
Definition refb (a b : ref) : bool := cls_eqb (fst a) (fst b) && (snd a =? snd b).

Definition memz (z : Z) (l : list Z) : bool := existsb (Z.eqb z) l.
Definition memr (y : ref) (l : list ref) : bool := existsb (refb y) l.
Definition rem (x : Z) (l : list Z) : list Z := filter (fun y => negb (y =? x)) l.
Definition remr (y : ref) (l : list ref) : list ref := filter (fun z => negb (refb z y)) l.
Definition isnil {A} (l : list A) : bool := match l with [] => true | _ => false end.
Fixpoint nodupb (l : list Z) : bool := match l with [] => true | x :: r => negb (memz x r) && nodupb r end.
Definition dedup (l : list Z) : list Z := nodup Z.eq_dec l.

(* identifiers that are no ordinary "<prefix>k" *)
Definition id_empty : Z := -1.        (* ""            *)
Definition id_space : Z := -2.        (* "a b": optlang refuses it as the name of a variable / constraint *)
Definition id_nonstr : Z := -3.       (* 5 (not a string) *)
Definition bad_name (i : Z) : bool := (i =? id_empty) || (i =? id_space).

Record st := mkSt {
  lst : cls -> list Z;          (* model.reactions / .metabolites / .genes / .groups (objects, list order) *)
  oid : cls -> Z -> Z;          (* object.id *)
  omod : cls -> Z -> bool;      (* object._model is the model *)
  members : Z -> list ref;      (* group._members (a set; kept without repetitions) *)
  kind : Z -> Z;                (* group.kind: 0 collection, 1 classification, 2 partonomy *)
  sto : Z -> list (Z * Z);      (* reaction._metabolites: metabolite object, coefficient *)
  mback : Z -> list Z;          (* metabolite._reaction *)
  rgenes : Z -> list Z;         (* reaction._genes *)
  gback : Z -> list Z           (* gene._reaction *)
}.

Definition updz {A} (f : Z -> A) (k : Z) (v : A) : Z -> A := fun k' => if k' =? k then v else f k'.
Definition updc {A} (f : cls -> A) (c : cls) (v : A) : cls -> A := fun c' => if cls_eqb c' c then v else f c'.

Definition set_lst (c : cls) (l : list Z) (s : st) : st :=
  mkSt (updc (lst s) c l) (oid s) (omod s) (members s) (kind s) (sto s) (mback s) (rgenes s) (gback s).
Definition set_oid (c : cls) (x i : Z) (s : st) : st :=
  mkSt (lst s) (updc (oid s) c (updz (oid s c) x i)) (omod s) (members s) (kind s) (sto s) (mback s) (rgenes s) (gback s).
Definition set_omod (c : cls) (x : Z) (b : bool) (s : st) : st :=
  mkSt (lst s) (oid s) (updc (omod s) c (updz (omod s c) x b)) (members s) (kind s) (sto s) (mback s) (rgenes s) (gback s).
Definition set_members (f : Z -> list ref) (s : st) : st :=
  mkSt (lst s) (oid s) (omod s) f (kind s) (sto s) (mback s) (rgenes s) (gback s).
Definition set_kind (g k : Z) (s : st) : st :=
  mkSt (lst s) (oid s) (omod s) (members s) (updz (kind s) g k) (sto s) (mback s) (rgenes s) (gback s).
Definition set_sto (r : Z) (l : list (Z * Z)) (s : st) : st :=
  mkSt (lst s) (oid s) (omod s) (members s) (kind s) (updz (sto s) r l) (mback s) (rgenes s) (gback s).
Definition set_mback (m : Z) (l : list Z) (s : st) : st :=
  mkSt (lst s) (oid s) (omod s) (members s) (kind s) (sto s) (updz (mback s) m l) (rgenes s) (gback s).
Definition set_rgenes (r : Z) (l : list Z) (s : st) : st :=
  mkSt (lst s) (oid s) (omod s) (members s) (kind s) (sto s) (mback s) (updz (rgenes s) r l) (gback s).
Definition set_gback (g : Z) (l : list Z) (s : st) : st :=
  mkSt (lst s) (oid s) (omod s) (members s) (kind s) (sto s) (mback s) (rgenes s) (updz (gback s) g l).

(* the initial model: the listed objects belong to it, an identifier is the object number unless a table says otherwise
   (legacy identifiers for escape_ID), no groups *)
Definition assoc {A} (d : A) (t : list (Z * A)) (k : Z) : A :=
  match find (fun e => fst e =? k) t with Some e => snd e | None => d end.
Definition init (rs ms gs : list Z) (idr idm idg idp : list (Z * Z))
                (sto0 : list (Z * list (Z * Z))) (mb0 rg0 gb0 : list (Z * list Z)) : st :=
  mkSt (fun c => match c with CR => rs | CM => ms | CG => gs | CP => [] end)
       (fun c x => match c with CR => assoc x idr x | CM => assoc x idm x | CG => assoc x idg x | CP => assoc x idp x end)
       (fun c x => match c with CR => memz x rs | CM => memz x ms | CG => memz x gs | CP => false end)
       (fun _ => []) (fun _ => 0) (assoc [] sto0) (assoc [] mb0) (assoc [] rg0) (assoc [] gb0).

Inductive res := Ok | RaiseValueError | RaiseKeyError | RaiseTypeError | RaiseOther.

(* which of the three repairs the implementation under test has *)
Record variant := mkV {
  fx_nested : bool;      (* remove_groups also takes the group out of the groups that list it *)
  fx_orphan : bool;      (* a gene removed as an orphan by remove_reactions leaves its groups *)
  fx_addgene : bool }.   (* add_groups adds gene members that are not in the model *)
Definition vfix : variant := mkV true true true.
Definition vimpl : variant := mkV false false false.

(* ---------- DictList look-ups ---------- *)
Definition ids (s : st) (c : cls) : list Z := map (oid s c) (lst s c).
Definition has_id (s : st) (c : cls) (i : Z) : bool := memz i (ids s c).                  (* `i in dictlist` *)
Definition lookup (s : st) (c : cls) (i : Z) : option Z := find (fun x => oid s c x =? i) (lst s c).
Definition in_model (s : st) (y : ref) : bool := memz (snd y) (lst s (fst y)).            (* identity *)

(* model.get_associated_groups(x) *)
Definition assoc_groups (s : st) (y : ref) : list Z := filter (fun g => memr y (members s g)) (lst s CP).
(* for group in model.get_associated_groups(x): group.remove_members(x) *)
Definition ungroup (y : ref) (s : st) : st :=
  set_members (fun g => if memz g (lst s CP) then remr y (members s g) else members s g) s.

(* dictlist.append / += [x]  and  x._model = model *)
Definition push (c : cls) (x : Z) (s : st) : st := set_lst c (lst s c ++ [x]) s.

(* ---------- Group.add_members / remove_members / kind ---------- *)
Definition add_members (g : Z) (l : list ref) (s : st) : st :=
  set_members (updz (members s) g (fold_left (fun acc y => if memr y acc then acc else acc ++ [y]) l (members s g))) s.
Definition remove_members (g : Z) (l : list ref) (s : st) : st :=
  set_members (updz (members s) g (filter (fun y => negb (memr y l)) (members s g))) s.
(* kind.lower() in KIND_TYPES, else ValueError *)
Definition set_kind_op (g k : Z) (s : st) : st * res :=
  if (0 <=? k) && (k <=? 2) then (set_kind g k s, Ok) else (s, RaiseValueError).

(* ---------- Model.add_groups ---------- *)
(* model.add_metabolites([m]) for a metabolite whose identifier the model does not have *)
Definition add_met (m : Z) (s : st) : st := push CM m (set_omod CM m true s).
(* model.add_reactions([r]) for a reaction whose identifier the model does not have, whose metabolites are in the
   model and which has no genes: it joins, its metabolites list it *)
Definition add_rxn (r : Z) (s : st) : st :=
  fold_left (fun s m => if memz r (mback s m) then s else set_mback m (mback s m ++ [r]) s)
            (map fst (sto s r)) (push CR r (set_omod CR r true s)).
(* the loop over group.members *)
Definition add_member (v : variant) (s : st) (y : ref) : st :=
  let '(c, x) := y in
  match c with
  | CM => if has_id s CM (oid s CM x) then s else add_met x s
  | CR => if has_id s CR (oid s CR x) then s else add_rxn x s
  | CG => if fx_addgene v then (if has_id s CG (oid s CG x) then s else push CG x (set_omod CG x true s)) else s
  | CP => s
  end.
Definition add_group (v : variant) (s : st) (g : Z) : st :=
  push CP g (fold_left (add_member v) (members s g) (set_omod CP g true s)).
(* pruned = DictList(filter(existing_filter, group_list)): a ValueError when two of them share an identifier *)
Definition add_groups (v : variant) (l : list Z) (s : st) : st * res :=
  let pruned := filter (fun g => negb (has_id s CP (oid s CP g))) l in
  if nodupb (map (oid s CP) pruned) then (fold_left (add_group v) pruned s, Ok) else (s, RaiseValueError).

(* ---------- Model.remove_groups ---------- *)
Fixpoint remove_groups (v : variant) (l : list Z) (s : st) : st * res :=
  match l with
  | [] => (s, Ok)
  | g :: rest =>
      match lookup s CP (oid s CP g) with
      | None => remove_groups v rest s                                   (* "not in model. Ignored." *)
      | Some g' =>
          if g' =? g then
            let s1 := set_omod CP g false (set_lst CP (rem g (lst s CP)) s) in
            remove_groups v rest (if fx_nested v then ungroup (CP, g) s1 else s1)
          else (s, RaiseValueError)                                      (* DictList.index: another object with this id *)
      end
  end.

(* ---------- Model.remove_metabolites / remove_reactions ---------- *)
(* reaction.subtract_metabolites({m: its coefficient}): the entry goes, the metabolite forgets the reaction *)
Definition subtract (m : Z) (s : st) (r : Z) : st :=
  set_mback m (rem r (mback s m)) (set_sto r (filter (fun e => negb (fst e =? m)) (sto s r)) s).

(* remove_metabolites([m], destructive=False) *)
Definition remove_met_nd (m : Z) (s : st) : st :=
  if memz m (lst s CM) then
    let s1 := ungroup (CM, m) (set_omod CM m false s) in
    let s2 := fold_left (subtract m) (mback s m) s1 in
    set_lst CM (rem m (lst s2 CM)) s2
  else s.

Definition unlink_met (r : Z) (orphans : bool) (s : st) (m : Z) : st :=
  if memz r (mback s m) then
    let s1 := set_mback m (rem r (mback s m)) s in
    if orphans && isnil (mback s1 m) then remove_met_nd m s1 else s1
  else s.
Definition unlink_gene (v : variant) (r : Z) (orphans : bool) (s : st) (g : Z) : st :=
  if memz r (gback s g) then
    let s1 := set_gback g (rem r (gback s g)) s in
    if orphans && isnil (gback s1 g) then
      let s2 := set_lst CG (rem g (lst s1 CG)) s1 in
      if fx_orphan v then ungroup (CG, g) s2 else s2
    else s1
  else s.
(* model.remove_reactions([r], remove_orphans) *)
Definition remove_rxn (v : variant) (r : Z) (orphans : bool) (s : st) : st :=
  if memz r (lst s CR) then
    let s1 := set_omod CR r false (set_lst CR (rem r (lst s CR)) s) in
    let s2 := fold_left (unlink_met r orphans) (map fst (sto s r)) s1 in
    let s3 := fold_left (unlink_gene v r orphans) (rgenes s r) s2 in
    ungroup (CR, r) s3
  else s.                                                                (* a warning, nothing else *)

(* model.remove_metabolites([m], destructive) *)
Definition remove_met (v : variant) (m : Z) (destructive : bool) (s : st) : st :=
  if destructive then
    if memz m (lst s CM) then
      let s1 := ungroup (CM, m) (set_omod CM m false s) in
      let s2 := fold_left (fun s r => remove_rxn v r false s) (mback s m) s1 in      (* reaction.remove_from_model() *)
      set_lst CM (rem m (lst s2 CM)) s2
    else s
  else remove_met_nd m s.

(* ---------- remove_genes(model, ids, remove_reactions) with flat "or" rules ---------- *)
Fixpoint lookup_all (s : st) (c : cls) (l : list Z) : option (list Z) :=
  match l with
  | [] => Some []
  | i :: r => match lookup s c i, lookup_all s c r with Some g, Some gs => Some (g :: gs) | _, _ => None end
  end.
(* model.genes.remove(g); g._model = None; the groups forget it *)
Definition drop_gene (s : st) (g : Z) : st :=
  ungroup (CG, g) (set_omod CG g false (set_lst CG (rem g (lst s CG)) s)).
(* update_genes_from_gpr after the remover went over the rule: the removed genes are dissociated *)
Definition regene (gs : list Z) (s : st) (r : Z) : st :=
  let old := rgenes s r in
  fold_left (fun s g => if memz g old then set_gback g (rem r (gback s g)) s else s) gs
            (set_rgenes r (filter (fun g => negb (memz g gs)) old) s).
Definition remove_genes (v : variant) (l : list Z) (rr : bool) (s : st) : st * res :=
  match lookup_all s CG l with
  | None => (s, RaiseKeyError)
  | Some gs =>
      let withrule := filter (fun r => negb (isnil (rgenes s r))) (lst s CR) in
      let dead := fun r => rr && forallb (fun g => memz g gs) (rgenes s r) in      (* not rxn.gpr.eval(ids) *)
      let s1 := fold_left drop_gene (dedup gs) s in
      let s2 := fold_left (fun s r => remove_rxn v r false s) (filter dead withrule) s1 in
      (fold_left (regene gs) (filter (fun r => negb (dead r)) withrule) s2, Ok)
  end.

(* ---------- object.id = i ---------- *)
(* Object.id setter: nothing for the same value; TypeError for a non-string; with a model _set_id_with_model:
   ValueError when the DictList has the identifier, (reactions, metabolites) ValueError when optlang refuses the
   name -- before anything changed; then the identifier and the index.  Without a model: the identifier. *)
Definition set_id (c : cls) (x i : Z) (s : st) : st * res :=
  if i =? oid s c x then (s, Ok)
  else if i =? id_nonstr then (s, RaiseTypeError)
  else if omod s c x then
    if has_id s c i then (s, RaiseValueError)
    else if (match c with CR | CM => true | _ => false end) && bad_name i then (s, RaiseValueError)
    else (set_oid c x i s, Ok)
  else (set_oid c x i s, Ok).

(* ---------- cobra.manipulation.modify.escape_ID(model) ----------
   for x in chain([model], model.metabolites, model.reactions, model.genes): x.id = _escape_str_id(x.id)
   -- the identifier setter above for every object, in this order; the first refusal ends the call with what has been
   renamed so far.  `f` is _escape_str_id on identifier numbers: the harness evaluates the REAL function on the
   identifiers the model has and passes the result as a table.  Then the rules are escaped and model.repair() rebuilds
   the indices and the back references of the listed metabolites and genes from the listed reactions. *)
Fixpoint escape_list (f : Z -> Z) (c : cls) (l : list Z) (s : st) : st * res :=
  match l with
  | [] => (s, Ok)
  | x :: r => match set_id c x (f (oid s c x)) s with
              | (s1, Ok) => escape_list f c r s1
              | (s1, e) => (s1, e)
              end
  end.
Definition repair_rel (s : st) : st :=
  mkSt (lst s) (oid s) (omod s) (members s) (kind s) (sto s)
       (fun m => if memz m (lst s CM) then filter (fun r => memz m (map fst (sto s r))) (lst s CR) else mback s m)
       (rgenes s)
       (fun g => if memz g (lst s CG) then filter (fun r => memz g (rgenes s r)) (lst s CR) else gback s g).
Definition escape_ids (tbl : list (Z * Z)) (s : st) : st * res :=
  let f := fun i => assoc i tbl i in
  match escape_list f CM (lst s CM) s with
  | (s1, Ok) =>
      match escape_list f CR (lst s1 CR) s1 with
      | (s2, Ok) =>
          match escape_list f CG (lst s2 CG) s2 with
          | (s3, Ok) => (repair_rel s3, Ok)
          | x => x
          end
      | x => x
      end
  | x => x
  end.

(* reaction.bounds = (lb, ub): nothing of this kernel's state changes (ValueError for lb > ub); the check observes that
   the column found under the reaction's identifier carries the bounds *)
Definition set_bounds (r lb ub : Z) (s : st) : st * res := if ub <? lb then (s, RaiseValueError) else (s, Ok).

Inductive op :=
| AddGroups (l : list Z)
| RemoveGroups (l : list Z)
| AddMembers (g : Z) (l : list ref)
| RemoveMembers (g : Z) (l : list ref)
| SetKind (g k : Z)
| RemoveRxn (r : Z) (orphans : bool)
| RemoveMet (m : Z) (destructive : bool)
| RemoveGenes (l : list Z) (remove_reactions : bool)
| SetId (c : cls) (x i : Z)
| EscapeIds (tbl : list (Z * Z))
| SetBounds (r lb ub : Z).

Definition step (v : variant) (s : st) (o : op) : st * res :=
  match o with
  | AddGroups l => add_groups v l s
  | RemoveGroups l => remove_groups v l s
  | AddMembers g l => (add_members g l s, Ok)
  | RemoveMembers g l => (remove_members g l s, Ok)
  | SetKind g k => set_kind_op g k s
  | RemoveRxn r orphans => (remove_rxn v r orphans s, Ok)
  | RemoveMet m d => (remove_met v m d s, Ok)
  | RemoveGenes l rr => remove_genes v l rr s
  | SetId c x i => set_id c x i s
  | EscapeIds tbl => escape_ids tbl s
  | SetBounds r lb ub => set_bounds r lb ub s
  end.

Definition run (v : variant) (ops : list op) (s : st) : st := fold_left (fun s o => fst (step v s o)) ops s.

(* ---------- `with model:` at SPECIFICATION level (property C03) ----------
   Entering a block saves the state, leaving it puts the saved state back (every object exists from the start,
   so nothing else has to be remembered).  That the implementation does the same for the operations it documents
   as reversible is what the C03 check compares (Check.v, codes 4 and 6). *)
Record cst := mkC { cur : st; saved : list st }.
Inductive cop := Do (o : op) | Enter | Exit.
Definition cstep (v : variant) (c : cst) (o : cop) : cst * res :=
  match o with
  | Do o => let '(s, r) := step v (cur c) o in (mkC s (saved c), r)
  | Enter => (mkC (cur c) (cur c :: saved c), Ok)
  | Exit => match saved c with e :: rest => (mkC e rest, Ok) | [] => (c, Ok) end
  end.
Definition crun (v : variant) (ops : list cop) (c : cst) : cst := fold_left (fun c o => fst (cstep v c o)) ops c.
