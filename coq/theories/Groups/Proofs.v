(* Every operation of the groups kernel (repaired variant `vfix`) keeps the invariant; hence every history does.

   Removals are treated uniformly.  `shr s s'`: the DictLists only lose elements, model.groups, identifiers and kinds
   are untouched, groups only lose members.  `trans D s s'`: moreover a listed object keeps its _model pointer and a
   member of a group that was listed stays listed -- except for the objects in D, which are in transit.  A removal is a
   chain of primitive steps (`prim_*`) each of which is `trans D` for the object being removed, and at its end that
   object is neither listed nor a member of a group of the model, which closes the transit (`trans_close`) and gives
   `clean s s'` = `trans (nothing)`; `clean` steps keep `WInv P` for every P. *)
From Coq Require Import ZArith List Bool Lia.
From Cobra.Groups Require Import Model Inv.
Import ListNotations.
Open Scope Z_scope.

Ltac sproj := cbn [lst oid omod members kind sto mback rgenes gback set_lst set_oid set_omod set_members set_kind
                   set_sto set_mback set_rgenes set_gback].

Record shr (s s' : st) : Prop := mkShr {
  sh_sub : forall c, exists p, lst s' c = filter p (lst s c);
  sh_cp : lst s' CP = lst s CP;
  sh_oid : forall c x, oid s' c x = oid s c x;
  sh_mem : forall g y, In y (members s' g) -> In y (members s g);
  sh_kind : forall g, kind s' g = kind s g }.

Lemma shr_In : forall s s' c x, shr s s' -> In x (lst s' c) -> In x (lst s c).
Proof. intros s s' c x H Hx. destruct (sh_sub _ _ H c) as [p E]. rewrite E in Hx. apply filter_In in Hx. apply Hx. Qed.
Lemma shr_refl : forall s, shr s s.
Proof. intros s. constructor; try reflexivity; [intros c; exists (fun _ => true); apply filter_all|auto]. Qed.
Lemma shr_trans : forall a b c, shr a b -> shr b c -> shr a c.
Proof.
  intros a b c H1 H2. constructor.
  - intros k. destruct (sh_sub _ _ H1 k) as [p E1]. destruct (sh_sub _ _ H2 k) as [q E2].
    exists (fun x => p x && q x). rewrite E2, E1. apply filter_filter.
  - rewrite (sh_cp _ _ H2). apply (sh_cp _ _ H1).
  - intros k x. rewrite (sh_oid _ _ H2). apply (sh_oid _ _ H1).
  - intros g y Hy. apply (sh_mem _ _ H1), (sh_mem _ _ H2), Hy.
  - intros g. rewrite (sh_kind _ _ H2). apply (sh_kind _ _ H1).
Qed.
Lemma shr_core : forall s s', core_eq s s' -> shr s s'.
Proof.
  intros s s' E. constructor.
  - intros c. exists (fun _ => true). rewrite (ce_lst _ _ E). apply filter_all.
  - apply (ce_lst _ _ E).
  - apply (ce_oid _ _ E).
  - intros g y Hy. rewrite (ce_mem _ _ E) in Hy. exact Hy.
  - apply (ce_kind _ _ E).
Qed.
Lemma shr_ids : forall s s' c, shr s s' -> NoDup (ids s c) -> NoDup (ids s' c).
Proof.
  intros s s' c H Hn. unfold ids in *. destruct (sh_sub _ _ H c) as [p E]. rewrite E.
  rewrite (map_ext _ (oid s c) (sh_oid _ _ H c)). apply NoDup_map_filter. exact Hn.
Qed.

Lemma shr_frame : forall s s', (forall c, lst s' c = lst s c) -> (forall c x, oid s' c x = oid s c x) ->
  (forall g, members s' g = members s g) -> (forall g, kind s' g = kind s g) -> shr s s'.
Proof.
  intros s s' H1 H2 H3 H4. constructor.
  - intros c. exists (fun _ => true). rewrite H1. apply filter_all.
  - apply H1.
  - exact H2.
  - intros g y Hy. rewrite H3 in Hy. exact Hy.
  - exact H4.
Qed.

Definition trans (D : ref -> Prop) (s s' : st) : Prop :=
  shr s s' /\
  (forall c x, In x (lst s' c) -> omod s' c x = omod s c x \/ D (c, x)) /\
  (forall g y, In g (lst s CP) -> In y (members s' g) -> in_modelP s y -> in_modelP s' y \/ D y).
Definition clean (s s' : st) : Prop := trans (fun _ => False) s s'.

Lemma trans_refl : forall D s, trans D s s.
Proof. intros D s. split; [apply shr_refl|]. split; intros; left; auto. Qed.
Lemma trans_trans : forall D a b c, trans D a b -> trans D b c -> trans D a c.
Proof.
  intros D a b c [S1 [M1 G1]] [S2 [M2 G2]]. split; [eapply shr_trans; eassumption|]. split.
  - intros k x Hx. destruct (M2 k x Hx) as [E|E]; [|right; exact E].
    destruct (M1 k x (shr_In _ _ _ _ S2 Hx)) as [E'|E']; [left; congruence|right; exact E'].
  - intros g y Hg Hy Hm. assert (Hg' : In g (lst b CP)) by (rewrite (sh_cp _ _ S1); exact Hg).
    destruct (G1 g y Hg (sh_mem _ _ S2 g y Hy) Hm) as [E|E]; [|right; exact E].
    apply (G2 g y Hg' Hy E).
Qed.
Lemma trans_weaken : forall (D E : ref -> Prop) s s', (forall y, D y -> E y) -> trans D s s' -> trans E s s'.
Proof.
  intros D E s s' H [S [M G]]. split; [exact S|]. split.
  - intros c x Hx. destruct (M c x Hx) as [A|A]; [left; exact A|right; apply H; exact A].
  - intros g y Hg Hy Hm. destruct (G g y Hg Hy Hm) as [A|A]; [left; exact A|right; apply H; exact A].
Qed.
Lemma clean_trans_D : forall D s s', clean s s' -> trans D s s'.
Proof. intros D s s' H. eapply trans_weaken; [|exact H]. intros y []. Qed.
Lemma trans_core : forall D s s', core_eq s s' -> trans D s s'.
Proof.
  intros D s s' E. split; [apply shr_core; exact E|]. split.
  - intros c x _. left. apply (ce_mod _ _ E).
  - intros g y _ _ Hm. left. unfold in_modelP in *. rewrite (ce_lst _ _ E). exact Hm.
Qed.
Lemma clean_core : forall s s', core_eq s s' -> clean s s'.
Proof. intros. apply trans_core. assumption. Qed.
Lemma clean_refl : forall s, clean s s.
Proof. intros. apply trans_refl. Qed.
Lemma clean_trans : forall a b c, clean a b -> clean b c -> clean a c.
Proof. intros a b c. apply trans_trans. Qed.

(* an object in transit that ends up neither listed nor a member of a group of the model is no longer in transit *)
Definition gone (s : st) (y : ref) : Prop :=
  ~ in_modelP s y /\ forall g, In g (lst s CP) -> ~ In y (members s g).
Lemma trans_close : forall D s s', trans D s s' -> (forall y, D y -> gone s' y) -> clean s s'.
Proof.
  intros D s s' [S [M G]] H. split; [exact S|]. split.
  - intros c x Hx. destruct (M c x Hx) as [A|A]; [left; exact A|]. exfalso. apply (proj1 (H _ A)). exact Hx.
  - intros g y Hg Hy Hm. destruct (G g y Hg Hy Hm) as [A|A]; [left; exact A|]. exfalso.
    apply (proj2 (H _ A) g); [rewrite (sh_cp _ _ S); exact Hg|exact Hy].
Qed.
Lemma shr_not_listed : forall s s' y, shr s s' -> ~ in_modelP s y -> ~ in_modelP s' y.
Proof. intros s s' [c x] S H Hi. apply H. unfold in_modelP in *. cbn [fst snd] in *. apply (shr_In _ _ _ _ S Hi). Qed.
Lemma shr_not_member : forall s s' y, shr s s' ->
  (forall g, In g (lst s CP) -> ~ In y (members s g)) -> forall g, In g (lst s' CP) -> ~ In y (members s' g).
Proof. intros s s' y S H g Hg Hy. rewrite (sh_cp _ _ S) in Hg. apply (H g Hg). apply (sh_mem _ _ S). exact Hy. Qed.

Lemma clean_WInv : forall P s s', clean s s' -> WInv P s -> WInv P s'.
Proof.
  intros P s s' [S [M G]] [W1 W2 W3]. constructor.
  - intros c. apply (shr_ids _ _ c S). apply W1.
  - intros c x Hx. destruct (M c x Hx) as [E|[]]. rewrite E. apply W2. apply (shr_In _ _ _ _ S Hx).
  - intros g y Hg Hy. rewrite (sh_cp _ _ S) in Hg.
    destruct (W3 g y Hg (sh_mem _ _ S g y Hy)) as [A|A]; [|right; exact A].
    destruct (G g y Hg Hy A) as [B|[]]. left. exact B.
Qed.
Lemma clean_fold : forall (A : Type) (f : st -> A -> st) (l : list A),
  (forall s a, clean s (f s a)) -> forall s, clean s (fold_left f l s).
Proof.
  intros A f l Hf. induction l as [|a l IH]; intros s; cbn; [apply clean_refl|].
  eapply clean_trans; [apply Hf|apply IH].
Qed.

(* ---------- primitive steps ---------- *)
Lemma prim_mark : forall c x s, trans (eq (c, x)) s (set_omod c x false s).
Proof.
  intros c x s. split; [apply shr_frame; reflexivity|]. split.
  - intros c' x' _. sproj. unfold updc. destruct (cls_eqb c' c) eqn:Ec; [|left; reflexivity].
    apply cls_eqb_eq in Ec. subst c'. unfold updz. destruct (Z.eqb_spec x' x); [right; subst; reflexivity|left; reflexivity].
  - intros g y _ _ Hm. left. exact Hm.
Qed.
Lemma prim_drop : forall c x s, c <> CP -> trans (eq (c, x)) s (set_lst c (rem x (lst s c)) s).
Proof.
  intros c x s Hc. split; [|split].
  - constructor; sproj; try reflexivity; [|rewrite updc_other; [reflexivity|congruence]|auto].
    intros c'. unfold updc. destruct (cls_eqb c' c) eqn:Ec.
    + apply cls_eqb_eq in Ec. subst c'. exists (fun y => negb (y =? x)). reflexivity.
    + exists (fun _ => true). apply filter_all.
  - intros c' x' _. left. reflexivity.
  - intros g [c' x'] _ _ Hm. unfold in_modelP in *. cbn [fst snd] in *. sproj. unfold updc.
    destruct (cls_eqb c' c) eqn:Ec; [|left; exact Hm]. apply cls_eqb_eq in Ec. subst c'.
    destruct (Z.eq_dec x' x) as [E|E]; [right; subst; reflexivity|left]. apply rem_In. split; assumption.
Qed.
Lemma prim_ungroup : forall y s, clean s (ungroup y s).
Proof.
  intros y s. unfold ungroup. split; [|split].
  - constructor; sproj; try reflexivity; [intros c; exists (fun _ => true); apply filter_all|].
    intros g z Hz. destruct (memz g (lst s CP)); [apply remr_In in Hz; apply Hz|exact Hz].
  - intros c x _. left. reflexivity.
  - intros g z _ _ Hm. left. exact Hm.
Qed.
Lemma ungroup_gone : forall y s g, In g (lst (ungroup y s) CP) -> ~ In y (members (ungroup y s) g).
Proof.
  intros y s g Hg Hy. unfold ungroup in *. cbn [lst members set_members] in Hg, Hy.
  apply memz_In in Hg. rewrite Hg in Hy. apply remr_In in Hy. destruct Hy as [_ Hy]. apply Hy. reflexivity.
Qed.
Lemma drop_not_listed : forall c x s, ~ in_modelP (set_lst c (rem x (lst s c)) s) (c, x).
Proof.
  intros c x s H. unfold in_modelP in H. cbn [fst snd lst set_lst] in H. rewrite updc_same in H.
  apply rem_In in H. destruct H as [_ H]. apply H. reflexivity.
Qed.

(* ---------- remove_metabolites / remove_reactions ---------- *)
Lemma subtract_core : forall m s r, core_eq s (subtract m s r).
Proof. intros. unfold subtract. constructor; reflexivity. Qed.

Lemma remove_met_nd_clean : forall m s, clean s (remove_met_nd m s).
Proof.
  intros m s. unfold remove_met_nd. destruct (memz m (lst s CM)) eqn:Em; [|apply clean_refl].
  set (s1 := ungroup (CM, m) (set_omod CM m false s)).
  set (s2 := fold_left (subtract m) (mback s m) s1).
  assert (T1 : trans (eq (CM, m)) s s1).
  { eapply trans_trans; [apply prim_mark|apply clean_trans_D, prim_ungroup]. }
  assert (C2 : core_eq s1 s2) by (apply core_fold; intros; apply subtract_core).
  assert (T2 : trans (eq (CM, m)) s s2) by (eapply trans_trans; [exact T1|apply trans_core; exact C2]).
  assert (T3 : trans (eq (CM, m)) s (set_lst CM (rem m (lst s2 CM)) s2)).
  { eapply trans_trans; [exact T2|apply prim_drop; discriminate]. }
  eapply trans_close; [exact T3|]. intros y Hy. subst y. split; [apply drop_not_listed|].
  apply (shr_not_member s1); [|apply ungroup_gone].
  eapply shr_trans; [apply shr_core; exact C2|]. apply (proj1 (prim_drop CM m s2 ltac:(discriminate))).
Qed.

Lemma unlink_met_clean : forall r orph s m, clean s (unlink_met r orph s m).
Proof.
  intros r orph s m. unfold unlink_met. destruct (memz r (mback s m)); [|apply clean_refl].
  set (s1 := set_mback m (rem r (mback s m)) s).
  assert (C1 : clean s s1) by (apply clean_core, core_set_mback).
  destruct (orph && isnil (mback s1 m)); [|exact C1].
  eapply clean_trans; [exact C1|apply remove_met_nd_clean].
Qed.

Lemma unlink_gene_clean : forall r orph s g, clean s (unlink_gene vfix r orph s g).
Proof.
  intros r orph s g. unfold unlink_gene. destruct (memz r (gback s g)); [|apply clean_refl].
  set (s1 := set_gback g (rem r (gback s g)) s).
  assert (C1 : clean s s1) by (apply clean_core, core_set_gback).
  destruct (orph && isnil (gback s1 g)); [|exact C1].
  cbn [fx_orphan vfix]. eapply clean_trans; [exact C1|].
  set (s2 := set_lst CG (rem g (lst s1 CG)) s1).
  eapply trans_close.
  - eapply trans_trans; [apply (prim_drop CG g s1); discriminate|apply clean_trans_D, prim_ungroup].
  - intros y Hy. subst y. split; [|apply ungroup_gone].
    apply (shr_not_listed s2); [apply (proj1 (prim_ungroup (CG, g) s2))|apply drop_not_listed].
Qed.

Lemma remove_rxn_clean : forall r orph s, clean s (remove_rxn vfix r orph s).
Proof.
  intros r orph s. unfold remove_rxn. destruct (memz r (lst s CR)); [|apply clean_refl].
  set (s0 := set_lst CR (rem r (lst s CR)) s).
  set (s1 := set_omod CR r false s0).
  set (s2 := fold_left (unlink_met r orph) (map fst (sto s r)) s1).
  set (s3 := fold_left (unlink_gene vfix r orph) (rgenes s r) s2).
  assert (T1 : trans (eq (CR, r)) s s1).
  { eapply trans_trans; [apply (prim_drop CR r s); discriminate|apply prim_mark]. }
  assert (C2 : clean s1 s2) by (apply clean_fold; intros; apply unlink_met_clean).
  assert (C3 : clean s2 s3) by (apply clean_fold; intros; apply unlink_gene_clean).
  assert (S13 : shr s1 s3) by (eapply shr_trans; [apply (proj1 C2)|apply (proj1 C3)]).
  eapply trans_close.
  - eapply trans_trans; [exact T1|]. eapply trans_trans; [apply clean_trans_D; exact C2|].
    eapply trans_trans; [apply clean_trans_D; exact C3|apply clean_trans_D, prim_ungroup].
  - intros y Hy. subst y. split; [|apply ungroup_gone].
    apply (shr_not_listed s0); [|apply drop_not_listed].
    eapply shr_trans; [apply (proj1 (prim_mark CR r s0))|].
    eapply shr_trans; [exact S13|apply (proj1 (prim_ungroup (CR, r) s3))].
Qed.

Lemma remove_met_clean : forall m d s, clean s (remove_met vfix m d s).
Proof.
  intros m d s. unfold remove_met. destruct d; [|apply remove_met_nd_clean].
  destruct (memz m (lst s CM)); [|apply clean_refl].
  set (s1 := ungroup (CM, m) (set_omod CM m false s)).
  set (s2 := fold_left (fun s r => remove_rxn vfix r false s) (mback s m) s1).
  assert (T1 : trans (eq (CM, m)) s s1).
  { eapply trans_trans; [apply prim_mark|apply clean_trans_D, prim_ungroup]. }
  assert (C2 : clean s1 s2) by (apply clean_fold; intros; apply remove_rxn_clean).
  eapply trans_close.
  - eapply trans_trans; [exact T1|]. eapply trans_trans; [apply clean_trans_D; exact C2|apply prim_drop; discriminate].
  - intros y Hy. subst y. split; [apply drop_not_listed|].
    apply (shr_not_member s1); [|apply ungroup_gone].
    eapply shr_trans; [apply (proj1 C2)|apply (proj1 (prim_drop CM m s2 ltac:(discriminate)))].
Qed.

(* ---------- remove_genes ---------- *)
Lemma drop_gene_clean : forall s g, clean s (drop_gene s g).
Proof.
  intros s g. unfold drop_gene.
  set (s1 := set_lst CG (rem g (lst s CG)) s). set (s2 := set_omod CG g false s1).
  eapply trans_close.
  - eapply trans_trans; [apply (prim_drop CG g s); discriminate|].
    eapply trans_trans; [apply prim_mark|apply clean_trans_D, prim_ungroup].
  - intros y Hy. subst y. split; [|apply ungroup_gone].
    apply (shr_not_listed s1); [|apply drop_not_listed].
    eapply shr_trans; [apply (proj1 (prim_mark CG g s1))|apply (proj1 (prim_ungroup (CG, g) s2))].
Qed.
Lemma regene_core : forall gs s r, core_eq s (regene gs s r).
Proof.
  intros gs s r. unfold regene. eapply core_eq_trans; [apply core_set_rgenes|].
  apply core_fold. intros s0 g. destruct (memz g _); [apply core_set_gback|apply core_eq_refl].
Qed.
Lemma remove_genes_clean : forall l rr s, clean s (fst (remove_genes vfix l rr s)).
Proof.
  intros l rr s. unfold remove_genes. destruct (lookup_all s CG l) as [gs|]; cbn [fst]; [|apply clean_refl].
  eapply clean_trans; [apply clean_fold; intros; apply drop_gene_clean|].
  eapply clean_trans; [apply clean_fold; intros; apply remove_rxn_clean|].
  apply clean_core. apply core_fold. intros. apply regene_core.
Qed.

(* ---------- additions ---------- *)
Lemma set_omod_true_WInv : forall P c x s, WInv P s -> WInv P (set_omod c x true s).
Proof.
  intros P c x s [W1 W2 W3]. constructor.
  - exact W1.
  - intros c' x' Hx. sproj. unfold updc. destruct (cls_eqb c' c) eqn:Ec; [|apply W2; exact Hx].
    apply cls_eqb_eq in Ec. subst c'. unfold updz. destruct (x' =? x); [left; reflexivity|apply W2; exact Hx].
  - exact W3.
Qed.

Lemma ids_push : forall c x s c', ids (push c x s) c' = if cls_eqb c' c then ids s c ++ [oid s c x] else ids s c'.
Proof.
  intros c x s c'. unfold ids, push. sproj. unfold updc. destruct (cls_eqb c' c) eqn:E; [|reflexivity].
  apply cls_eqb_eq in E. subst c'. rewrite map_app. reflexivity.
Qed.
Lemma NoDup_snoc : forall (l : list Z) x, NoDup l -> ~ In x l -> NoDup (l ++ [x]).
Proof.
  induction l as [|y l IH]; intros x Hn Hx; cbn; [constructor; [intros []|constructor]|].
  inversion Hn; subst. constructor.
  - intros Hi. apply in_app_or in Hi. destruct Hi as [Hi|[Hi|[]]]; [contradiction|]. subst. apply Hx. left. reflexivity.
  - apply IH; [assumption|]. intros Hi. apply Hx. right. exact Hi.
Qed.
Lemma push_In : forall c x s c' x', In x' (lst (push c x s) c') <-> In x' (lst s c') \/ (c' = c /\ x' = x).
Proof.
  intros c x s c' x'. unfold push. sproj. unfold updc. destruct (cls_eqb c' c) eqn:E.
  - apply cls_eqb_eq in E. subst c'. rewrite in_app_iff. cbn. intuition.
  - apply cls_eqb_neq in E. intuition.
Qed.

(* an object whose identifier the DictList does not have is appended: fine when it belongs to the model and, for a
   group, when its members are objects of the model *)
Lemma push_WInv : forall P c x s, WInv P s -> ~ In (oid s c x) (ids s c) -> omod s c x = true ->
  (c = CP -> forall y, In y (members s x) -> in_modelP s y \/ P y) -> WInv P (push c x s).
Proof.
  intros P c x s [W1 W2 W3] Hid Hm Hg. constructor.
  - intros c'. rewrite ids_push. destruct (cls_eqb c' c) eqn:E; [|apply W1]. apply NoDup_snoc; [apply W1|exact Hid].
  - intros c' x' Hx. apply push_In in Hx. change (omod (push c x s)) with (omod s).
    destruct Hx as [Hx|[E1 E2]]; [apply W2; exact Hx|subst; left; exact Hm].
  - intros g y Hgl Hy. change (members (push c x s) g) with (members s g) in Hy. apply push_In in Hgl.
    assert (Hor : in_modelP s y \/ P y).
    { destruct Hgl as [Hgl|[E1 E2]]; [apply (W3 g y Hgl Hy)|]. subst. apply Hg; [reflexivity|exact Hy]. }
    destruct Hor as [A|A]; [left|right; exact A]. unfold in_modelP in *. apply push_In. left. exact A.
Qed.

(* what the loop over group.members may change, and that it only adds *)
Record grows (s s' : st) : Prop := mkGrows {
  gr_lst : forall c x, In x (lst s c) -> In x (lst s' c);
  gr_cp : lst s' CP = lst s CP;
  gr_oid : forall c x, oid s' c x = oid s c x;
  gr_mem : forall g, members s' g = members s g;
  gr_kind : forall g, kind s' g = kind s g;
  gr_mod : forall c x, omod s c x = true -> omod s' c x = true }.
Lemma grows_refl : forall s, grows s s.
Proof. intros. constructor; auto. Qed.
Lemma grows_trans : forall a b c, grows a b -> grows b c -> grows a c.
Proof.
  intros a b c [A1 A2 A3 A4 A5 A6] [B1 B2 B3 B4 B5 B6]. constructor; intros.
  - apply B1, A1. assumption.
  - rewrite B2. exact A2.
  - rewrite B3. apply A3.
  - rewrite B4. apply A4.
  - rewrite B5. apply A5.
  - apply B6, A6. assumption.
Qed.
Lemma grows_core : forall s s', core_eq s s' -> grows s s'.
Proof.
  intros s s' E. constructor; intros.
  - rewrite (ce_lst _ _ E). assumption.
  - apply (ce_lst _ _ E).
  - apply (ce_oid _ _ E).
  - apply (ce_mem _ _ E).
  - apply (ce_kind _ _ E).
  - rewrite (ce_mod _ _ E). assumption.
Qed.
Lemma grows_push : forall c x s, c <> CP -> grows s (push c x (set_omod c x true s)).
Proof.
  intros c x s Hc. constructor; intros.
  - apply push_In. left. exact H.
  - unfold push. sproj. rewrite updc_other; [reflexivity|congruence].
  - reflexivity.
  - reflexivity.
  - reflexivity.
  - unfold push. sproj. unfold updc. destruct (cls_eqb c0 c) eqn:E; [|exact H].
    apply cls_eqb_eq in E. subst c0. unfold updz. destruct (x0 =? x); [reflexivity|exact H].
Qed.

Lemma push_fresh_WInv : forall P c x s, c <> CP -> WInv P s -> ~ In (oid s c x) (ids s c) ->
  WInv P (push c x (set_omod c x true s)).
Proof.
  intros P c x s Hc W Hid. apply push_WInv.
  - apply set_omod_true_WInv. exact W.
  - exact Hid.
  - sproj. rewrite updc_same, updz_same. reflexivity.
  - intros E. contradiction.
Qed.

Lemma add_rxn_spec : forall r s, core_eq (push CR r (set_omod CR r true s)) (add_rxn r s).
Proof.
  intros r s. unfold add_rxn. apply core_fold. intros s0 m.
  destruct (memz r (mback s0 m)); [apply core_eq_refl|apply core_set_mback].
Qed.

Lemma add_member_step : forall P s y, WInv P s -> member_okb s y = true ->
  WInv P (add_member vfix s y) /\ grows s (add_member vfix s y) /\ in_modelP (add_member vfix s y) y.
Proof.
  intros P s [c x] W Hok. unfold member_okb in Hok. apply orb_true_iff in Hok. destruct Hok as [Hin|Hout].
  - (* already in the model: its identifier is there, nothing happens *)
    apply memz_In in Hin. pose proof (listed_has_id s c x Hin) as Hh.
    assert (E : add_member vfix s (c, x) = s).
    { unfold add_member. destruct c; cbn [fx_addgene vfix]; try rewrite Hh; reflexivity. }
    rewrite E. split; [exact W|]. split; [apply grows_refl|exact Hin].
  - apply andb_true_iff in Hout. destruct Hout as [Hout _].
    apply andb_true_iff in Hout. destruct Hout as [Hout _].
    apply andb_true_iff in Hout. destruct Hout as [Hc Hid].
    apply negb_true_iff in Hc. apply cls_eqb_neq in Hc. apply negb_true_iff in Hid.
    pose proof (proj1 (has_id_false s c _) Hid) as Hfresh.
    unfold add_member. destruct c; cbn [fx_addgene vfix]; try contradiction; rewrite Hid.
    + (* reaction *)
      pose proof (add_rxn_spec x s) as E. split; [|split].
      * apply (WInv_core _ _ _ E). apply push_fresh_WInv; assumption.
      * eapply grows_trans; [apply grows_push; exact Hc|apply grows_core; exact E].
      * unfold in_modelP. cbn [fst snd]. rewrite (ce_lst _ _ E). apply push_In. right. split; reflexivity.
    + unfold add_met. split; [apply push_fresh_WInv; assumption|]. split; [apply grows_push; exact Hc|].
      unfold in_modelP. cbn [fst snd]. apply push_In. right. split; reflexivity.
    + split; [apply push_fresh_WInv; assumption|]. split; [apply grows_push; exact Hc|].
      unfold in_modelP. cbn [fst snd]. apply push_In. right. split; reflexivity.
Qed.

Lemma add_members_loop : forall P l s, WInv P s -> members_okb s l = true ->
  let s' := fold_left (add_member vfix) l s in
  WInv P s' /\ grows s s' /\ forall y, In y l -> in_modelP s' y.
Proof.
  intros P l. induction l as [|y l IH]; intros s W Hok; cbn [fold_left].
  - split; [exact W|]. split; [apply grows_refl|intros y []].
  - cbn [members_okb] in Hok. apply andb_true_iff in Hok. destruct Hok as [Hy Hl].
    destruct (add_member_step P s y W Hy) as [W1 [G1 I1]].
    destruct (IH _ W1 Hl) as [W2 [G2 I2]]. split; [exact W2|]. split; [eapply grows_trans; eassumption|].
    intros z [Hz|Hz]; [subst z|apply I2; exact Hz].
    unfold in_modelP in *. apply (gr_lst _ _ G2). exact I1.
Qed.

Lemma add_group_WInv : forall P s g, WInv P s -> ~ In (oid s CP g) (ids s CP) ->
  members_okb (set_omod CP g true s) (members s g) = true ->
  let s' := add_group vfix s g in
  WInv P s' /\ (forall c x, oid s' c x = oid s c x) /\ ids s' CP = ids s CP ++ [oid s CP g] /\
  (forall g', members s' g' = members s g') /\ (forall c x, In x (lst s c) -> In x (lst s' c)) /\
  (forall g', kind s' g' = kind s g').
Proof.
  intros P s g W Hid Hok. unfold add_group.
  set (s1 := set_omod CP g true s).
  assert (W1 : WInv P s1) by (apply set_omod_true_WInv; exact W).
  change (members s g) with (members s1 g). change (members s1 g) with (members s g) in Hok.
  destruct (add_members_loop P (members s1 g) s1 W1 Hok) as [W2 [G2 I2]].
  set (s2 := fold_left (add_member vfix) (members s1 g) s1) in *.
  assert (Hids : ids s2 CP = ids s CP).
  { unfold ids. rewrite (gr_cp _ _ G2). apply map_ext. intros. apply (gr_oid _ _ G2). }
  split; [|split; [|split; [|split; [|split]]]].
  - apply push_WInv.
    + exact W2.
    + rewrite Hids. rewrite (gr_oid _ _ G2). exact Hid.
    + apply (gr_mod _ _ G2). unfold s1. sproj. rewrite updc_same, updz_same. reflexivity.
    + intros _ y Hy. left. apply I2. rewrite (gr_mem _ _ G2) in Hy. exact Hy.
  - intros c x. change (oid (push CP g s2) c x) with (oid s2 c x). apply (gr_oid _ _ G2).
  - rewrite ids_push. cbn [cls_eqb]. rewrite Hids. rewrite (gr_oid _ _ G2). reflexivity.
  - intros g'. change (members (push CP g s2) g') with (members s2 g'). apply (gr_mem _ _ G2).
  - intros c x Hx. apply push_In. left. apply (gr_lst _ _ G2). exact Hx.
  - intros g'. change (kind (push CP g s2) g') with (kind s2 g'). apply (gr_kind _ _ G2).
Qed.

Lemma add_groups_loop : forall P l s, WInv P s -> NoDup (map (oid s CP) l) ->
  (forall g, In g l -> ~ In (oid s CP g) (ids s CP)) -> groups_okb s l = true ->
  WInv P (fold_left (add_group vfix) l s).
Proof.
  intros P l. induction l as [|g l IH]; intros s W Hn Hfresh Hok; cbn [fold_left]; [exact W|].
  cbn [groups_okb] in Hok. apply andb_true_iff in Hok. destruct Hok as [Hg Hl].
  cbn [map] in Hn. inversion Hn as [|? ? Hng Hnl]; subst.
  destruct (add_group_WInv P s g W (Hfresh g (or_introl eq_refl)) Hg) as [W1 [Eo [Ei _]]].
  apply IH.
  - exact W1.
  - rewrite (map_ext _ (oid s CP) (Eo CP)). exact Hnl.
  - intros g' Hg'. rewrite Ei, Eo. intros Hi. apply in_app_or in Hi. destruct Hi as [Hi|[Hi|[]]].
    + apply (Hfresh g' (or_intror Hg')). exact Hi.
    + apply Hng. rewrite Hi. apply in_map. exact Hg'.
  - exact Hl.
Qed.

Lemma add_groups_Inv : forall l s, Inv s -> op_ok s (AddGroups l) -> Inv (fst (add_groups vfix l s)).
Proof.
  intros l s W Hok. unfold op_ok, op_okb in Hok. unfold add_groups.
  set (pruned := filter (fun g => negb (has_id s CP (oid s CP g))) l) in *.
  destruct (nodupb (map (oid s CP) pruned)) eqn:En; cbn [fst]; [|exact W].
  apply add_groups_loop.
  - exact W.
  - apply nodupb_NoDup. exact En.
  - intros g Hg. unfold pruned in Hg. apply filter_In in Hg. destruct Hg as [_ Hg].
    apply negb_true_iff in Hg. apply has_id_false. exact Hg.
  - exact Hok.
Qed.

(* ---------- remove_groups ---------- *)
Lemma remove_group_Inv : forall g s, Inv s ->
  Inv (ungroup (CP, g) (set_omod CP g false (set_lst CP (rem g (lst s CP)) s))).
Proof.
  intros g s [W1 W2 W3]. unfold ungroup. constructor.
  - intros c. unfold ids. sproj. unfold updc. destruct (cls_eqb c CP) eqn:E; [|apply W1].
    apply cls_eqb_eq in E. subst c. unfold rem. apply NoDup_map_filter. apply W1.
  - intros c x Hx. left. sproj. sproj. cbn [lst set_members set_omod set_lst] in Hx. unfold updc in *.
    destruct (cls_eqb c CP) eqn:E.
    + apply cls_eqb_eq in E. subst c. apply rem_In in Hx. destruct Hx as [Hx Hne].
      rewrite updz_other; [|exact Hne]. destruct (W2 CP x Hx) as [A|[]]. exact A.
    + destruct (W2 c x Hx) as [A|[]]. exact A.
  - intros g' y Hg' Hy. left. cbn [lst set_members set_omod set_lst] in Hg'. rewrite updc_same in Hg'.
    cbn [lst members set_members set_omod set_lst] in Hy. rewrite updc_same in Hy. pose proof Hg' as Hg''. apply memz_In in Hg''. rewrite Hg'' in Hy.
    apply remr_In in Hy. destruct Hy as [Hy Hne]. apply rem_In in Hg'. destruct Hg' as [Hg' _].
    destruct (W3 g' y Hg' Hy) as [A|[]]. unfold in_modelP in *. sproj. destruct y as [c x]. cbn [fst snd] in *.
    unfold updc. destruct (cls_eqb c CP) eqn:E; [|exact A]. apply cls_eqb_eq in E. subst c.
    apply rem_In. split; [exact A|]. intros Ex. apply Hne. subst. reflexivity.
Qed.

Lemma remove_groups_Inv : forall l s, Inv s -> Inv (fst (remove_groups vfix l s)).
Proof.
  induction l as [|g l IH]; intros s W; cbn [remove_groups]; [exact W|].
  destruct (lookup s CP (oid s CP g)) as [g'|]; [|apply IH; exact W].
  destruct (g' =? g); [|exact W]. cbn [fx_nested vfix]. apply IH. apply remove_group_Inv. exact W.
Qed.

(* ---------- Group.add_members / remove_members / kind, object.id ---------- *)
Lemma add_members_In : forall l acc y,
  In y (fold_left (fun acc y => if memr y acc then acc else acc ++ [y]) l acc) -> In y acc \/ In y l.
Proof.
  induction l as [|z l IH]; intros acc y H; cbn [fold_left] in H; [left; exact H|].
  apply IH in H. destruct H as [H|H]; [|right; right; exact H].
  destruct (memr z acc); [left; exact H|]. apply in_app_or in H. destruct H as [H|[H|[]]]; [left; exact H|right; left; exact H].
Qed.
Lemma add_members_Inv : forall g l s, Inv s -> op_ok s (AddMembers g l) -> Inv (add_members g l s).
Proof.
  intros g l s [W1 W2 W3] Hok. unfold op_ok, op_okb in Hok. unfold add_members. constructor.
  - exact W1.
  - exact W2.
  - intros g' y Hg' Hy. cbn [lst members set_members] in Hg', Hy. unfold updz in Hy.
    destruct (Z.eqb_spec g' g) as [E|E]; [|apply (W3 g' y Hg' Hy)]. subst g'.
    apply add_members_In in Hy. destruct Hy as [Hy|Hy]; [apply (W3 g y Hg' Hy)|]. left.
    apply orb_true_iff in Hok. destruct Hok as [Hok|Hok].
    + apply negb_true_iff, memz_false in Hok. contradiction.
    + rewrite forallb_forall in Hok. apply in_model_In. apply Hok. exact Hy.
Qed.
Lemma remove_members_Inv : forall g l s, Inv s -> Inv (remove_members g l s).
Proof.
  intros g l s [W1 W2 W3]. unfold remove_members. constructor.
  - exact W1.
  - exact W2.
  - intros g' y Hg' Hy. cbn [lst members set_members] in Hg', Hy. unfold updz in Hy.
    destruct (Z.eqb_spec g' g) as [E|E]; [|apply (W3 g' y Hg' Hy)]. subst g'.
    apply filter_In in Hy. apply (W3 g y Hg' (proj1 Hy)).
Qed.
Lemma set_kind_Inv : forall g k s, Inv s -> Inv (fst (set_kind_op g k s)).
Proof.
  intros g k s W. unfold set_kind_op. destruct ((0 <=? k) && (k <=? 2)); cbn [fst]; [|exact W].
  destruct W as [W1 W2 W3]. constructor; assumption.
Qed.

Lemma ids_set_oid_unlisted : forall c x i s c', ~ In x (lst s c) -> ids (set_oid c x i s) c' = ids s c'.
Proof.
  intros c x i s c' Hx. unfold ids. sproj. unfold updc. destruct (cls_eqb c' c) eqn:E; [|reflexivity].
  apply cls_eqb_eq in E. subst c'. apply map_ext_in. intros y Hy. apply updz_other. intros Ey. subst. contradiction.
Qed.
Lemma NoDup_map_upd : forall (f : Z -> Z) x i l, NoDup (map f l) -> ~ In i (map f l) -> NoDup (map (updz f x i) l).
Proof.
  intros f x i l. induction l as [|y l IH]; intros Hn Hi; cbn; [constructor|].
  cbn in Hn, Hi. inversion Hn as [|? ? Hny Hnl]; subst.
  assert (Hi' : ~ In i (map f l)) by (intros H; apply Hi; right; exact H).
  constructor; [|apply IH; assumption].
  intros Hin. apply in_map_iff in Hin. destruct Hin as [z [Ez Hz]]. unfold updz in Ez.
  destruct (Z.eqb_spec z x) as [E1|E1]; destruct (Z.eqb_spec y x) as [E2|E2].
  - apply Hny. rewrite E2, <- E1. apply in_map. exact Hz.
  - apply Hi. left. symmetry. exact Ez.
  - apply Hi'. rewrite <- Ez. apply in_map. exact Hz.
  - apply Hny. rewrite <- Ez. apply in_map. exact Hz.
Qed.
Lemma set_oid_Inv : forall c x i s, Inv s -> (In x (lst s c) -> ~ In i (ids s c)) -> Inv (set_oid c x i s).
Proof.
  intros c x i s [W1 W2 W3] Hfresh. constructor.
  - intros c'. destruct (in_dec Z.eq_dec x (lst s c)) as [Hx|Hx].
    + unfold ids. sproj. unfold updc. destruct (cls_eqb c' c) eqn:E; [|apply W1].
      apply cls_eqb_eq in E. subst c'. apply NoDup_map_upd; [apply W1|apply Hfresh; exact Hx].
    + rewrite ids_set_oid_unlisted; [apply W1|exact Hx].
  - exact W2.
  - exact W3.
Qed.
Lemma set_id_Inv : forall c x i s, Inv s -> Inv (fst (set_id c x i s)).
Proof.
  intros c x i s W. unfold set_id. destruct (i =? oid s c x); [exact W|].
  destruct (i =? id_nonstr); [exact W|]. destruct (omod s c x) eqn:Em.
  - destruct (has_id s c i) eqn:Eh; [exact W|].
    destruct (_ && bad_name i); [exact W|]. cbn [fst]. apply set_oid_Inv; [exact W|].
    intros _. apply has_id_false. exact Eh.
  - cbn [fst]. apply set_oid_Inv; [exact W|]. intros Hx. exfalso.
    destruct (w_mod _ _ W c x Hx) as [A|[]]. congruence.
Qed.

(* ---------- escape_ID ---------- *)
Lemma escape_list_Inv : forall f c l s, Inv s -> Inv (fst (escape_list f c l s)).
Proof.
  intros f c l. induction l as [|x l IH]; intros s W; cbn [escape_list]; [exact W|].
  pose proof (set_id_Inv c x (f (oid s c x)) s W) as W1.
  destruct (set_id c x (f (oid s c x)) s) as [s1 r]. cbn [fst] in W1. destruct r; try exact W1. apply IH. exact W1.
Qed.
Lemma repair_rel_core : forall s, core_eq s (repair_rel s).
Proof. intros. constructor; reflexivity. Qed.
Lemma escape_ids_Inv : forall tbl s, Inv s -> Inv (fst (escape_ids tbl s)).
Proof.
  intros tbl s W. unfold escape_ids. set (f := fun i => assoc i tbl i).
  pose proof (escape_list_Inv f CM (lst s CM) s W) as W1.
  destruct (escape_list f CM (lst s CM) s) as [s1 r1]. cbn [fst] in W1. destruct r1; try exact W1.
  pose proof (escape_list_Inv f CR (lst s1 CR) s1 W1) as W2.
  destruct (escape_list f CR (lst s1 CR) s1) as [s2 r2]. cbn [fst] in W2. destruct r2; try exact W2.
  pose proof (escape_list_Inv f CG (lst s2 CG) s2 W2) as W3.
  destruct (escape_list f CG (lst s2 CG) s2) as [s3 r3]. cbn [fst] in W3. destruct r3; try exact W3.
  cbn [fst]. apply (WInv_core _ s3); [apply repair_rel_core|exact W3].
Qed.
Lemma set_bounds_Inv : forall r lb ub s, Inv s -> Inv (fst (set_bounds r lb ub s)).
Proof. intros r lb ub s W. unfold set_bounds. destruct (ub <? lb); exact W. Qed.

(* ---------- every operation, every history ---------- *)
Theorem step_Inv : forall s o, Inv s -> op_ok s o -> Inv (fst (step vfix s o)).
Proof.
  intros s o W Hok. destruct o as [l|l|g l|g l|g k|r orph|m d|l rr|c x i|tbl|r lb ub]; cbn [step fst].
  - apply add_groups_Inv; assumption.
  - apply remove_groups_Inv; assumption.
  - apply add_members_Inv; assumption.
  - apply remove_members_Inv; assumption.
  - apply set_kind_Inv; assumption.
  - apply (clean_WInv _ s); [apply remove_rxn_clean|exact W].
  - apply (clean_WInv _ s); [apply remove_met_clean|exact W].
  - apply (clean_WInv _ s); [apply remove_genes_clean|exact W].
  - apply set_id_Inv; assumption.
  - apply escape_ids_Inv; assumption.
  - apply set_bounds_Inv; assumption.
Qed.

Lemma init_Inv : forall rs ms gs idr idm idg idp sto0 mb0 rg0 gb0,
  NoDup (map (fun x => assoc x idr x) rs) -> NoDup (map (fun x => assoc x idm x) ms) ->
  NoDup (map (fun x => assoc x idg x) gs) ->
  Inv (init rs ms gs idr idm idg idp sto0 mb0 rg0 gb0).
Proof.
  intros rs ms gs idr idm idg idp sto0 mb0 rg0 gb0 Hr Hm Hg. constructor.
  - intros c. unfold ids, init. cbn [lst oid]. destruct c; try assumption. constructor.
  - intros c x Hx. left. unfold init in *. cbn [lst omod] in *. destruct c; try (apply memz_In; exact Hx). contradiction.
  - intros g y Hg'. unfold init in Hg'. cbn [lst] in Hg'. contradiction.
Qed.

Fixpoint ok_run (s : st) (ops : list op) : Prop :=
  match ops with [] => True | o :: r => op_ok s o /\ ok_run (fst (step vfix s o)) r end.
Theorem run_Inv : forall ops s, Inv s -> ok_run s ops -> Inv (run vfix ops s).
Proof.
  induction ops as [|o ops IH]; intros s W Hok; cbn [run fold_left]; [exact W|].
  destruct Hok as [H1 H2]. apply (IH (fst (step vfix s o))); [apply step_Inv; assumption|exact H2].
Qed.
