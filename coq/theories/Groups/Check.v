(* Correspondence and monitor functions of the groups-and-identifiers kernel (C02, C03), evaluated by vm_compute on
   what the harness observed of the real objects after every operation.  Nothing here is a theorem.

   Every Python object of a history is numbered by the harness (identity), so an observation names objects by
   class and number.  `com` is what is observed of ANY object: identifier, `_model is model`, the position at which
   the DictList of its class holds this very object (-1: it does not), whether get_by_id(id) / index(id) / has_id
   lead back to it, and model.get_associated_groups(object).                                                   *)
From Coq Require Import ZArith List Bool.
From Cobra.Groups Require Import Model.
Import ListNotations.
Open Scope Z_scope.

Record com := mkCm { c_n : Z; c_id : Z; c_mod : bool; c_pos : Z; c_lookup : bool; c_assoc : list Z }.
Record robs := mkR { r_c : com; r_sto : list (Z * Z); r_genes : list Z;
                     r_col : list (Z * Z);      (* solver: rows (metabolite found by the row's name) and coefficients of
                                                   the variable named reaction.id *)
                     r_colr : list (Z * Z) }.   (* ... of the variable named reaction.reverse_id *)
Record mobs := mkM { m_c : com; m_back : list Z }.
Record gobs := mkG { g_c : com; g_back : list Z }.
Record pobs := mkP { p_c : com; p_members : list ref; p_kind : Z }.
Record obs := mkO {
  o_rx : list robs; o_mt : list mobs; o_gn : list gobs; o_gp : list pobs;
  o_vars : list (Z * bool);     (* every solver variable: the model reaction whose id / reverse_id is its name (-1: none) *)
  o_cons : list Z;              (* every solver constraint: the model metabolite whose id is its name (-1: none) *)
  o_shape : bool;               (* len(list) == len(_dict), members are objects of the case, GLPK's own names = optlang's ... *)
  o_res : res }.

Definition res_eqb (a b : res) : bool :=
  match a, b with
  | Ok, Ok | RaiseValueError, RaiseValueError | RaiseKeyError, RaiseKeyError | RaiseTypeError, RaiseTypeError
  | RaiseOther, RaiseOther => true
  | _, _ => false
  end.
Definition subset (a b : list Z) : bool := forallb (fun x => memz x b) a.
Definition same_set (a b : list Z) : bool := subset a b && subset b a.
Definition pairb (a b : Z * Z) : bool := (fst a =? fst b) && (snd a =? snd b).
Definition same_pairs (a b : list (Z * Z)) : bool :=
  forallb (fun x => existsb (pairb x) b) a && forallb (fun x => existsb (pairb x) a) b.
Definition vb (a b : Z * bool) : bool := (fst a =? fst b) && Bool.eqb (snd a) (snd b).
Definition same_vars (a b : list (Z * bool)) : bool :=
  Nat.eqb (length a) (length b) && forallb (fun x => existsb (vb x) b) a && forallb (fun x => existsb (vb x) a) b.
Definition same_refs (a b : list ref) : bool :=
  forallb (fun x => memr x b) a && forallb (fun x => memr x a) b.
Fixpoint pos_in (x : Z) (l : list Z) (n : Z) : Z :=
  match l with [] => -1 | y :: r => if y =? x then n else pos_in x r (n + 1) end.
Definition neg_pairs (l : list (Z * Z)) : list (Z * Z) := map (fun e => (fst e, - snd e)) l.

(* ---- code 1: the model state, projected, equals the observation ---- *)
Definition com_agree (s : st) (c : cls) (x : com) : bool :=
  let n := c_n x in
  (c_id x =? oid s c n) && Bool.eqb (c_mod x) (omod s c n) && (c_pos x =? pos_in n (lst s c) 0) &&
  Bool.eqb (c_lookup x)
           (if memz n (lst s c) then match lookup s c (oid s c n) with Some y => y =? n | None => false end else true) &&
  same_set (c_assoc x) (assoc_groups s (c, n)).
Definition lst_covered (s : st) (c : cls) (l : list com) : bool := subset (lst s c) (map c_n l).
Definition agree (s : st) (o : obs) : bool :=
  forallb (fun x => com_agree s CR (r_c x) && same_pairs (r_sto x) (sto s (c_n (r_c x))) &&
                    same_set (r_genes x) (rgenes s (c_n (r_c x))) &&
                    (let mine := if memz (c_n (r_c x)) (lst s CR) then sto s (c_n (r_c x)) else [] in
                     same_pairs (r_col x) mine && same_pairs (r_colr x) (neg_pairs mine))) (o_rx o) &&
  forallb (fun x => com_agree s CM (m_c x) && same_set (m_back x) (mback s (c_n (m_c x)))) (o_mt o) &&
  forallb (fun x => com_agree s CG (g_c x) && same_set (g_back x) (gback s (c_n (g_c x)))) (o_gn o) &&
  forallb (fun x => com_agree s CP (p_c x) && same_refs (p_members x) (members s (c_n (p_c x))) &&
                    (p_kind x =? kind s (c_n (p_c x)))) (o_gp o) &&
  lst_covered s CR (map r_c (o_rx o)) && lst_covered s CM (map m_c (o_mt o)) &&
  lst_covered s CG (map g_c (o_gn o)) && lst_covered s CP (map p_c (o_gp o)) &&
  same_vars (o_vars o) (flat_map (fun r => [(r, false); (r, true)]) (lst s CR)) &&
  same_vars (map (fun m => (m, false)) (o_cons o)) (map (fun m => (m, false)) (lst s CM)).

(* ---- code 3: the group / identifier clauses of C02 on the observed object graph itself ---- *)
Definition listed (l : list com) : list com := filter (fun x => 0 <=? c_pos x) l.
Definition coms (o : obs) (c : cls) : list com :=
  match c with CR => map r_c (o_rx o) | CM => map m_c (o_mt o) | CG => map g_c (o_gn o) | CP => map p_c (o_gp o) end.
Definition is_listed (o : obs) (y : ref) : bool := existsb (fun x => c_n x =? snd y) (listed (coms o (fst y))).
Definition dictlist_ok (l : list com) : bool :=
  let ls := listed l in
  nodupb (map c_id ls) &&                                   (* identifiers are unique *)
  nodupb (map c_pos ls) &&
  forallb (fun x => c_mod x && c_lookup x &&                (* belongs to the model, is the object found under its id *)
                    (c_pos x <? Z.of_nat (length ls))) ls.
Definition model_groups (o : obs) : list pobs := filter (fun p => 0 <=? c_pos (p_c p)) (o_gp o).
Definition assoc_ok (o : obs) (c : cls) (x : com) : bool :=
  same_set (c_assoc x) (map (fun p => c_n (p_c p)) (filter (fun p => memr (c, c_n x) (p_members p)) (model_groups o))).
Definition inv_b (o : obs) : bool :=
  o_shape o &&
  dictlist_ok (coms o CR) && dictlist_ok (coms o CM) && dictlist_ok (coms o CG) && dictlist_ok (coms o CP) &&
  (* every member of a group of the model is an object of the model *)
  forallb (fun p => forallb (is_listed o) (p_members p)) (model_groups o) &&
  (* get_associated_groups agrees with the members *)
  forallb (assoc_ok o CR) (coms o CR) && forallb (assoc_ok o CM) (coms o CM) &&
  forallb (assoc_ok o CG) (coms o CG) && forallb (assoc_ok o CP) (coms o CP) &&
  (* the solver's variables / constraints are named after the reactions / metabolites of the model, nothing else *)
  same_vars (o_vars o) (flat_map (fun x => [(c_n x, false); (c_n x, true)]) (listed (coms o CR))) &&
  same_vars (map (fun m => (m, false)) (o_cons o)) (map (fun x => (c_n x, false)) (listed (coms o CM))) &&
  (* and the rows found under the metabolites' names carry the reaction's coefficients *)
  forallb (fun x => if 0 <=? c_pos (r_c x)
                    then same_pairs (r_col x) (r_sto x) && same_pairs (r_colr x) (neg_pairs (r_sto x))
                    else isnil (r_col x) && isnil (r_colr x)) (o_rx o).

Definition init_of (o : obs) : st :=
  let inlist (l : list com) := map c_n (listed l) in
  (* DictList order: by observed position *)
  let sorted (l : list com) :=
    flat_map (fun k => map c_n (filter (fun x => c_pos x =? Z.of_nat k) l)) (seq 0 (length l)) in
  let idt (l : list com) := map (fun x => (c_n x, c_id x)) l in
  init (sorted (coms o CR)) (sorted (coms o CM)) (sorted (coms o CG))
       (idt (coms o CR)) (idt (coms o CM)) (idt (coms o CG)) (idt (coms o CP))
       (map (fun x => (c_n (r_c x), r_sto x)) (o_rx o))
       (map (fun x => (c_n (m_c x), m_back x)) (o_mt o))
       (map (fun x => (c_n (r_c x), r_genes x)) (o_rx o))
       (map (fun x => (c_n (g_c x), g_back x)) (o_gn o)).

Fixpoint check_steps (v : variant) (s : st) (synced : bool) (steps : list (op * obs)) (n : nat) : list (nat * nat) :=
  match steps with
  | [] => []
  | (o, ob) :: rest =>
      let '(s', r) := step v s o in
      let c1 := negb synced || (agree s' ob && res_eqb r (o_res ob)) in
      let c3 := inv_b ob in
      (if c1 then [] else [(n, 1%nat)]) ++ (if c3 then [] else [(n, 3%nat)]) ++
      check_steps v s' (synced && c1) rest (S n)
  end.

Definition check_case (v : variant) (c : obs * list (op * obs)) : list (nat * nat) :=
  let '(ob0, steps) := c in
  let s0 := init_of ob0 in
  (if agree s0 ob0 then [] else [(0%nat, 1%nat)]) ++ (if inv_b ob0 then [] else [(0%nat, 3%nat)]) ++
  check_steps v s0 true steps 1.

Definition failing (v : variant) (cases : list (Z * (obs * list (op * obs)))) : list (Z * list (nat * nat)) :=
  filter (fun r => match snd r with [] => false | _ => true end)
         (map (fun c => (fst c, check_case v (snd c))) cases).

(* ---------- contexts (C03), on the implementation's own observations: after leaving a block
   code 4 = something other than group membership differs from the observation at entry,
   code 6 = the members of a group / get_associated_groups differ,
   code 5 = __exit__ raised.
   DictLists are compared as sets (an object that is put back is appended), everything else exactly. ---------- *)
Definition com_same (a b : com) : bool :=
  (c_n a =? c_n b) && (c_id a =? c_id b) && Bool.eqb (c_mod a) (c_mod b) &&
  Bool.eqb (0 <=? c_pos a) (0 <=? c_pos b) && Bool.eqb (c_lookup a) (c_lookup b).
Fixpoint all2 {A} (f : A -> A -> bool) (l m : list A) : bool :=
  match l, m with [] , [] => true | a :: l', b :: m' => f a b && all2 f l' m' | _, _ => false end.
Definition restored (a b : obs) : bool :=
  Bool.eqb (o_shape a) (o_shape b) &&
  all2 (fun x y => com_same (r_c x) (r_c y) && same_pairs (r_sto x) (r_sto y) && same_set (r_genes x) (r_genes y) &&
                   same_pairs (r_col x) (r_col y) && same_pairs (r_colr x) (r_colr y)) (o_rx a) (o_rx b) &&
  all2 (fun x y => com_same (m_c x) (m_c y) && same_set (m_back x) (m_back y)) (o_mt a) (o_mt b) &&
  all2 (fun x y => com_same (g_c x) (g_c y) && same_set (g_back x) (g_back y)) (o_gn a) (o_gn b) &&
  all2 (fun x y => com_same (p_c x) (p_c y) && (p_kind x =? p_kind y)) (o_gp a) (o_gp b) &&
  same_vars (o_vars a) (o_vars b) && same_vars (map (fun m => (m, false)) (o_cons a)) (map (fun m => (m, false)) (o_cons b)).
Definition assoc_same (a b : com) : bool := same_set (c_assoc a) (c_assoc b).
Definition groups_restored (a b : obs) : bool :=
  all2 (fun x y => same_refs (p_members x) (p_members y)) (o_gp a) (o_gp b) &&
  all2 assoc_same (coms a CR) (coms b CR) && all2 assoc_same (coms a CM) (coms b CM) &&
  all2 assoc_same (coms a CG) (coms b CG) && all2 assoc_same (coms a CP) (coms b CP).

Definition is_exit (o : cop) : bool := match o with Exit => true | _ => false end.
Definition is_enter (o : cop) : bool := match o with Enter => true | _ => false end.

Fixpoint check_csteps (v : variant) (c : cst) (synced : bool) (stack : list obs) (prev : obs)
                      (steps : list (cop * obs)) (n : nat) : list (nat * nat) :=
  match steps with
  | [] => []
  | (o, ob) :: rest =>
      let '(c', r) := cstep v c o in
      let c1 := negb synced || (agree (cur c') ob && res_eqb r (o_res ob)) in
      let c3 := inv_b ob in
      let '(c4, c5, c6, stack') :=
        if is_enter o then (true, true, true, prev :: stack)
        else if is_exit o then
          match stack with
          | e :: st' => (restored e ob, res_eqb (o_res ob) Ok, groups_restored e ob, st')
          | [] => (true, true, true, [])
          end
        else (true, true, true, stack) in
      (if c1 then [] else [(n, 1%nat)]) ++ (if c3 then [] else [(n, 3%nat)]) ++
      (if c4 then [] else [(n, 4%nat)]) ++ (if c5 then [] else [(n, 5%nat)]) ++ (if c6 then [] else [(n, 6%nat)]) ++
      check_csteps v c' (synced && c1) stack' ob rest (S n)
  end.

Definition check_ccase (v : variant) (c : obs * list (cop * obs)) : list (nat * nat) :=
  let '(ob0, steps) := c in
  let s0 := init_of ob0 in
  (if agree s0 ob0 then [] else [(0%nat, 1%nat)]) ++ (if inv_b ob0 then [] else [(0%nat, 3%nat)]) ++
  check_csteps v (mkC s0 []) true [] ob0 steps 1.

Definition failing_ctx (v : variant) (cases : list (Z * (obs * list (cop * obs)))) : list (Z * list (nat * nat)) :=
  filter (fun r => match snd r with [] => false | _ => true end)
         (map (fun c => (fst c, check_ccase v (snd c))) cases).
