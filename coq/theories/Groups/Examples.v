(* What the invariant says, spelled out; a non-trivial history that meets the conditions on operations; and the three
   places where the code as found in /repo (variant `vimpl`) breaks the invariant. *)
From Coq Require Import ZArith List Bool Lia.
From Cobra.Groups Require Import Model Inv Proofs.
Import ListNotations.
Open Scope Z_scope.

Theorem Inv_meaning : forall s, Inv s ->
  (* identifiers are unique in each DictList, no object is listed twice *)
  (forall c, NoDup (ids s c) /\ NoDup (lst s c)) /\
  (* every listed object belongs to the model and is the one found by looking up its identifier *)
  (forall c x, In x (lst s c) -> omod s c x = true /\ lookup s c (oid s c x) = Some x) /\
  (* every member of a group of the model is such an object: no dangling member *)
  (forall g c x, In g (lst s CP) -> In (c, x) (members s g) ->
     In x (lst s c) /\ omod s c x = true /\ lookup s c (oid s c x) = Some x) /\
  (* get_associated_groups gives exactly the groups of the model that list the object *)
  (forall y g, In g (assoc_groups s y) <-> In g (lst s CP) /\ In y (members s g)).
Proof.
  intros s W. pose proof W as [W1 W2 W3].
  assert (A : forall c x, In x (lst s c) -> omod s c x = true /\ lookup s c (oid s c x) = Some x).
  { intros c x Hx. split; [destruct (W2 c x Hx) as [H|[]]; exact H|apply lookup_self; [apply W1|exact Hx]]. }
  split; [|split; [exact A|split]].
  - intros c. split; [apply W1|apply (NoDup_map_inv' (oid s c)), W1].
  - intros g c x Hg Hy. destruct (W3 g (c, x) Hg Hy) as [H|[]]. unfold in_modelP in H. cbn [fst snd] in H.
    split; [exact H|apply A; exact H].
  - intros y g. unfold assoc_groups. rewrite filter_In, memr_In. reflexivity.
Qed.

(* ---- a history: R0: M0 -> M1 (g0), R1: M1 -> M2 (g0 or g1), R2: M2 -> (no rule) in the model; reaction 3,
   metabolite 3, gene 2 and the groups 0, 1, 2 outside ---- *)
Definition s0 : st :=
  init [0; 1; 2] [0; 1; 2] [0; 1] [] [(2, 103)] [] []          (* metabolite 2 has the legacy identifier "M-D[e]" *)
       [(0, [(0, -1); (1, 1)]); (1, [(1, -1); (2, 1)]); (2, [(2, -1)])]
       [(0, [0]); (1, [0; 1]); (2, [1; 2])]
       [(0, [0]); (1, [0; 1])]
       [(0, [0; 1]); (1, [1])].
Lemma s0_Inv : Inv s0.
Proof. apply init_Inv; apply nodupb_NoDup; reflexivity. Qed.

Definition hist : list op :=
  [ AddMembers 0 [(CR, 0); (CM, 1); (CG, 0)]; AddGroups [0];
    AddMembers 1 [(CP, 0); (CR, 3); (CM, 3); (CG, 2); (CR, 1)]; AddGroups [1; 1];   (* the same group twice: the DictList refuses, ValueError, nothing changed *)
    AddGroups [1];                        (* brings reaction 3, metabolite 3 and gene 2 into the model *)
    SetId CR 0 7; SetId CR 1 7;           (* the second one is refused: ValueError, nothing changed *)
    SetId CM 1 id_empty;                  (* refused by the solver: ValueError, nothing changed *)
    SetId CG 0 5; SetId CP 0 4; SetId CP 1 4; SetId CR 2 id_nonstr;
    SetKind 1 2; SetKind 1 9;
    SetId CR 1 100; EscapeIds [(100, 200); (103, 203)]; SetBounds 1 (-5) 7; SetBounds 1 3 2;   (* "R-b" -> "R__b", "M-D[e]" -> ... *)
    RemoveRxn 0 true;                     (* metabolite 0 goes with it as an orphan; the group 0 loses the reaction *)
    RemoveGenes [1] true;                 (* gene 1 ("g1") leaves; R1 = g5 or g1 survives *)
    RemoveMet 2 true;                     (* destructive: reactions 1 and 2 leave, group 1 loses reaction 1 *)
    RemoveMembers 1 [(CM, 3)]; RemoveGroups [0; 2] ].

Example hist_ok : ok_run s0 hist.
Proof. vm_compute. repeat split. Qed.
Example hist_nontrivial :
  let s := run vfix hist s0 in
  lst s CR = [3] /\ lst s CM = [1; 3] /\ lst s CG = [0; 2] /\ lst s CP = [1] /\
  map (oid s CR) [0; 1; 2; 3] = [7; 200; 2; 3] /\ oid s CM 2 = 203 /\ oid s CG 0 = 5 /\ oid s CP 0 = 4 /\ oid s CP 1 = 1 /\
  members s 0 = [(CM, 1); (CG, 0)] /\ members s 1 = [(CR, 3); (CG, 2)] /\ kind s 1 = 2 /\
  map snd (map (step vfix (run vfix (firstn 4 hist) s0)) [AddGroups [1; 1]]) = [RaiseValueError].
Proof. vm_compute. repeat split. Qed.

(* ---- the code as found (vimpl) breaks the invariant in three places; model and implementation agree on each ---- *)
(* 1. remove_groups leaves the removed group inside the groups that list it *)
Definition s_nested : st := run vfix [AddGroups [0]; AddMembers 1 [(CP, 0)]; AddGroups [1]] s0.
Theorem remove_groups_nested_refuted : Inv s_nested /\ ~ Inv (fst (step vimpl s_nested (RemoveGroups [0]))).
Proof.
  split.
  - apply run_Inv; [apply s0_Inv|]. vm_compute. repeat split.
  - intros [_ _ W3]. assert (H1 : In 1 (lst (fst (step vimpl s_nested (RemoveGroups [0]))) CP)) by (vm_compute; auto).
    assert (H2 : In (CP, 0) (members (fst (step vimpl s_nested (RemoveGroups [0]))) 1)) by (vm_compute; auto).
    destruct (W3 1 (CP, 0) H1 H2) as [H|[]]. vm_compute in H. destruct H as [H|[]]. discriminate.
Qed.
(* 2. a gene removed as an orphan by remove_reactions(remove_orphans=True) stays a member of its groups *)
Definition s_orphan : st := run vfix [AddMembers 0 [(CG, 1)]; AddGroups [0]] s0.
Theorem orphan_gene_refuted : Inv s_orphan /\ ~ Inv (fst (step vimpl s_orphan (RemoveRxn 1 true))).
Proof.
  split.
  - apply run_Inv; [apply s0_Inv|]. vm_compute. repeat split.
  - intros [_ _ W3]. assert (H1 : In 0 (lst (fst (step vimpl s_orphan (RemoveRxn 1 true))) CP)) by (vm_compute; auto).
    assert (H2 : In (CG, 1) (members (fst (step vimpl s_orphan (RemoveRxn 1 true))) 0)) by (vm_compute; auto).
    destruct (W3 0 (CG, 1) H1 H2) as [H|[]]. vm_compute in H. destruct H as [H|[]]. discriminate.
Qed.
(* 3. add_groups does not add a gene member that is outside the model *)
Definition s_addgene : st := run vfix [AddMembers 0 [(CG, 2)]] s0.
Theorem add_groups_gene_refuted : Inv s_addgene /\ ~ Inv (fst (step vimpl s_addgene (AddGroups [0]))).
Proof.
  split.
  - apply run_Inv; [apply s0_Inv|]. vm_compute. repeat split.
  - intros [_ _ W3]. assert (H1 : In 0 (lst (fst (step vimpl s_addgene (AddGroups [0]))) CP)) by (vm_compute; auto).
    assert (H2 : In (CG, 2) (members (fst (step vimpl s_addgene (AddGroups [0]))) 0)) by (vm_compute; auto).
    destruct (W3 0 (CG, 2) H1 H2) as [H|[]]. vm_compute in H. destruct H as [H|[H|[]]]; discriminate.
Qed.
(* Group.add_members with an object outside the model on a group of the model breaks the invariant as well: the
   condition of `op_ok` for AddMembers is needed (the class documents members as objects associated with the model) *)
Theorem add_members_outside_refuted :
  let s := run vfix [AddGroups [0]] s0 in Inv s /\ ~ Inv (fst (step vfix s (AddMembers 0 [(CM, 3)]))).
Proof.
  cbn zeta. split.
  - apply run_Inv; [apply s0_Inv|]. vm_compute. repeat split.
  - intros [_ _ W3].
    assert (H1 : In 0 (lst (fst (step vfix (run vfix [AddGroups [0]] s0) (AddMembers 0 [(CM, 3)]))) CP)) by (vm_compute; auto).
    assert (H2 : In (CM, 3) (members (fst (step vfix (run vfix [AddGroups [0]] s0) (AddMembers 0 [(CM, 3)]))) 0)) by (vm_compute; auto).
    destruct (W3 0 (CM, 3) H1 H2) as [H|[]]. vm_compute in H. destruct H as [H|[H|[H|[]]]]; discriminate.
Qed.
