(* The group and identifier clauses of C02 as an invariant of the groups kernel, the conditions on operations, and the
   basic facts about lists, look-ups and the field setters that the proofs use. *)
From Coq Require Import ZArith List Bool Lia.
From Cobra.Groups Require Import Model.
Import ListNotations.
Open Scope Z_scope.

(* ---------- the invariant ---------- *)
Definition in_modelP (s : st) (y : ref) : Prop := In (snd y) (lst s (fst y)).

(* `WInv P s`: the clauses, except that the objects in P may be in transit inside an operation (listed although their
   _model pointer is already gone; still a member of a group although no longer listed). *)
Record WInv (P : ref -> Prop) (s : st) : Prop := mkW {
  (* identifiers are unique in each of the four DictLists (so no object is listed twice either) *)
  w_ids : forall c, NoDup (ids s c);
  (* every listed object belongs to the model *)
  w_mod : forall c x, In x (lst s c) -> omod s c x = true \/ P (c, x);
  (* every member of a group of the model is an object of the model *)
  w_mem : forall g y, In g (lst s CP) -> In y (members s g) -> in_modelP s y \/ P y }.

Definition Inv (s : st) : Prop := WInv (fun _ => False) s.

(* ---------- conditions on operations (boolean) ----------
   add_groups: when the loop over group.members reaches a member, that member is in the model, or it is a reaction,
   metabolite or gene whose identifier the model does not have (then the loop adds it); a reaction that is added has
   its metabolites in the model and no genes (the adoption of metabolites / genes by add_reactions is kernel I / II).
   Group.add_members on a group of the model: the new members are objects of the model (the class documents members
   as "cobra.Model-associated objects"). *)
Definition member_okb (s : st) (y : ref) : bool :=
  let '(c, x) := y in
  memz x (lst s c) ||
  (negb (cls_eqb c CP) && negb (has_id s c (oid s c x)) && negb (bad_name (oid s c x)) &&
   match c with
   | CR => forallb (fun m => memz m (lst s CM)) (map fst (sto s x)) && isnil (rgenes s x)
   | _ => true
   end).
Fixpoint members_okb (s : st) (l : list ref) : bool :=
  match l with [] => true | y :: r => member_okb s y && members_okb (add_member vfix s y) r end.
Fixpoint groups_okb (s : st) (l : list Z) : bool :=
  match l with
  | [] => true
  | g :: r => members_okb (set_omod CP g true s) (members s g) && groups_okb (add_group vfix s g) r
  end.
Definition op_okb (s : st) (o : op) : bool :=
  match o with
  | AddGroups l =>
      let pruned := filter (fun g => negb (has_id s CP (oid s CP g))) l in
      if nodupb (map (oid s CP) pruned) then groups_okb s pruned else true
  | AddMembers g l => negb (memz g (lst s CP)) || forallb (in_model s) l
  | _ => true
  end.
Definition op_ok (s : st) (o : op) : Prop := op_okb s o = true.

(* ---------- small facts ---------- *)
Lemma memz_In : forall z l, memz z l = true <-> In z l.
Proof.
  intros z l. unfold memz. rewrite existsb_exists. split.
  - intros [x [Hx He]]. apply Z.eqb_eq in He. subst. exact Hx.
  - intros H. exists z. split; [exact H|apply Z.eqb_refl].
Qed.
Lemma memz_false : forall z l, memz z l = false <-> ~ In z l.
Proof.
  intros z l. rewrite <- memz_In. destruct (memz z l); split; intro H.
  - discriminate.
  - exfalso. apply H. reflexivity.
  - intro H'. discriminate.
  - reflexivity.
Qed.
Lemma nodupb_NoDup : forall l, nodupb l = true <-> NoDup l.
Proof.
  induction l as [|x l IH]; cbn.
  - split; intros; [constructor|reflexivity].
  - rewrite andb_true_iff, negb_true_iff, memz_false, IH. split.
    + intros [H1 H2]. constructor; assumption.
    + intros H. inversion H; subst. split; assumption.
Qed.

Lemma cls_eqb_eq : forall a b, cls_eqb a b = true <-> a = b.
Proof. intros a b. destruct a, b; cbn; split; intro H; try reflexivity; try discriminate. Qed.
Lemma cls_eqb_refl : forall a, cls_eqb a a = true.
Proof. destruct a; reflexivity. Qed.
Lemma cls_eqb_neq : forall a b, cls_eqb a b = false <-> a <> b.
Proof.
  intros a b. split.
  - intros H E. subst. rewrite cls_eqb_refl in H. discriminate.
  - intros H. destruct (cls_eqb a b) eqn:E; [|reflexivity]. apply cls_eqb_eq in E. contradiction.
Qed.
Lemma refb_eq : forall a b, refb a b = true <-> a = b.
Proof.
  intros [c x] [d y]. unfold refb. cbn [fst snd]. rewrite andb_true_iff, cls_eqb_eq, Z.eqb_eq. split.
  - intros [H1 H2]. subst. reflexivity.
  - intros H. inversion H. split; reflexivity.
Qed.
Lemma refb_refl : forall a, refb a a = true.
Proof. intros a. apply refb_eq. reflexivity. Qed.
Lemma refb_neq : forall a b, refb a b = false <-> a <> b.
Proof.
  intros a b. split.
  - intros H E. subst. rewrite refb_refl in H. discriminate.
  - intros H. destruct (refb a b) eqn:E; [|reflexivity]. apply refb_eq in E. contradiction.
Qed.
Lemma memr_In : forall y l, memr y l = true <-> In y l.
Proof.
  intros y l. unfold memr. rewrite existsb_exists. split.
  - intros [x [Hx He]]. apply refb_eq in He. subst. exact Hx.
  - intros H. exists y. split; [exact H|apply refb_refl].
Qed.
Lemma memr_false : forall y l, memr y l = false <-> ~ In y l.
Proof.
  intros y l. rewrite <- memr_In. destruct (memr y l); split; intro H.
  - discriminate.
  - exfalso. apply H. reflexivity.
  - intro H'. discriminate.
  - reflexivity.
Qed.

Lemma rem_In : forall x y l, In y (rem x l) <-> In y l /\ y <> x.
Proof.
  intros x y l. unfold rem. rewrite filter_In, negb_true_iff, Z.eqb_neq. reflexivity.
Qed.
Lemma remr_In : forall x y l, In y (remr x l) <-> In y l /\ y <> x.
Proof.
  intros x y l. unfold remr. rewrite filter_In, negb_true_iff, refb_neq. reflexivity.
Qed.

Lemma NoDup_map_filter : forall (f : Z -> Z) p l, NoDup (map f l) -> NoDup (map f (filter p l)).
Proof.
  intros f p l. induction l as [|x l IH]; intros H; cbn; [constructor|].
  cbn in H. inversion H as [|? ? Hn Hd]; subst. destruct (p x); [|apply IH; exact Hd].
  cbn. constructor; [|apply IH; exact Hd].
  intros Hi. apply Hn. apply in_map_iff in Hi. destruct Hi as [y [E Hy]]. apply filter_In in Hy.
  apply in_map_iff. exists y. split; [exact E|apply Hy].
Qed.
Lemma NoDup_map_inv' : forall (f : Z -> Z) l, NoDup (map f l) -> NoDup l.
Proof.
  intros f l. induction l as [|x l IH]; intros H; [constructor|].
  cbn in H. inversion H as [|? ? Hn Hd]; subst. constructor; [|apply IH; exact Hd].
  intros Hi. apply Hn. apply in_map. exact Hi.
Qed.
Lemma filter_filter : forall (p q : Z -> bool) l, filter q (filter p l) = filter (fun x => p x && q x) l.
Proof.
  intros p q l. induction l as [|x l IH]; cbn; [reflexivity|].
  destruct (p x); cbn; [destruct (q x); rewrite IH; reflexivity|exact IH].
Qed.
Lemma filter_all : forall (l : list Z), l = filter (fun _ => true) l.
Proof. induction l as [|x l IH]; cbn; [reflexivity|rewrite <- IH; reflexivity]. Qed.
Lemma map_ext_in' : forall (f g : Z -> Z) l, (forall x, In x l -> f x = g x) -> map f l = map g l.
Proof. intros. apply map_ext_in. assumption. Qed.

(* the object found under an identifier *)
Lemma lookup_self : forall s c x, NoDup (ids s c) -> In x (lst s c) -> lookup s c (oid s c x) = Some x.
Proof.
  intros s c x. unfold lookup, ids. induction (lst s c) as [|y l IH]; intros Hn Hx; [contradiction|].
  cbn in Hn. inversion Hn as [|? ? Hny Hnd]; subst. cbn. destruct (oid s c y =? oid s c x) eqn:E.
  - apply Z.eqb_eq in E. destruct Hx as [Hx|Hx]; [subst; reflexivity|].
    exfalso. apply Hny. rewrite E. apply in_map. exact Hx.
  - destruct Hx as [Hx|Hx]; [subst; rewrite Z.eqb_refl in E; discriminate|]. apply IH; assumption.
Qed.
Lemma lookup_Some : forall s c i x, lookup s c i = Some x -> In x (lst s c) /\ oid s c x = i.
Proof.
  intros s c i x H. unfold lookup in H. apply find_some in H. destruct H as [H1 H2]. apply Z.eqb_eq in H2. split; assumption.
Qed.
Lemma lookup_None : forall s c i, lookup s c i = None -> ~ In i (ids s c).
Proof.
  intros s c i H Hi. unfold ids in Hi. apply in_map_iff in Hi. destruct Hi as [x [E Hx]].
  unfold lookup in H. apply (find_none _ _ H) in Hx. rewrite E, Z.eqb_refl in Hx. discriminate.
Qed.
Lemma has_id_In : forall s c i, has_id s c i = true <-> In i (ids s c).
Proof. intros. unfold has_id. apply memz_In. Qed.
Lemma has_id_false : forall s c i, has_id s c i = false <-> ~ In i (ids s c).
Proof. intros. unfold has_id. apply memz_false. Qed.
Lemma listed_has_id : forall s c x, In x (lst s c) -> has_id s c (oid s c x) = true.
Proof. intros s c x H. apply has_id_In. unfold ids. apply in_map. exact H. Qed.
Lemma in_model_In : forall s y, in_model s y = true <-> in_modelP s y.
Proof. intros s y. unfold in_model, in_modelP. apply memz_In. Qed.

(* ---------- the field setters ---------- *)
Lemma updc_same : forall A (f : cls -> A) c v, updc f c v c = v.
Proof. intros. unfold updc. rewrite cls_eqb_refl. reflexivity. Qed.
Lemma updc_other : forall A (f : cls -> A) c v c', c' <> c -> updc f c v c' = f c'.
Proof. intros A f c v c' H. unfold updc. apply cls_eqb_neq in H. rewrite H. reflexivity. Qed.
Lemma updz_same : forall A (f : Z -> A) k v, updz f k v k = v.
Proof. intros. unfold updz. rewrite Z.eqb_refl. reflexivity. Qed.
Lemma updz_other : forall A (f : Z -> A) k v k', k' <> k -> updz f k v k' = f k'.
Proof. intros A f k v k' H. unfold updz. destruct (Z.eqb_spec k' k); [contradiction|reflexivity]. Qed.

(* two states with the same DictLists, identifiers, _model pointers, members and kinds *)
Record core_eq (s s' : st) : Prop := mkCore {
  ce_lst : forall c, lst s' c = lst s c;
  ce_oid : forall c x, oid s' c x = oid s c x;
  ce_mod : forall c x, omod s' c x = omod s c x;
  ce_mem : forall g, members s' g = members s g;
  ce_kind : forall g, kind s' g = kind s g }.
Lemma core_eq_refl : forall s, core_eq s s.
Proof. intros. constructor; reflexivity. Qed.
Lemma core_eq_trans : forall a b c, core_eq a b -> core_eq b c -> core_eq a c.
Proof.
  intros a b c [A1 A2 A3 A4 A5] [B1 B2 B3 B4 B5]. constructor; intros.
  - rewrite B1. apply A1.
  - rewrite B2. apply A2.
  - rewrite B3. apply A3.
  - rewrite B4. apply A4.
  - rewrite B5. apply A5.
Qed.
Lemma core_eq_ids : forall s s' c, core_eq s s' -> ids s' c = ids s c.
Proof.
  intros s s' c H. unfold ids. rewrite (ce_lst _ _ H). apply map_ext. intros. apply (ce_oid _ _ H).
Qed.
Lemma core_set_sto : forall r l s, core_eq s (set_sto r l s).
Proof. intros. constructor; reflexivity. Qed.
Lemma core_set_mback : forall m l s, core_eq s (set_mback m l s).
Proof. intros. constructor; reflexivity. Qed.
Lemma core_set_rgenes : forall r l s, core_eq s (set_rgenes r l s).
Proof. intros. constructor; reflexivity. Qed.
Lemma core_set_gback : forall g l s, core_eq s (set_gback g l s).
Proof. intros. constructor; reflexivity. Qed.
Lemma core_fold : forall (A : Type) (f : st -> A -> st) (l : list A),
  (forall s a, core_eq s (f s a)) -> forall s, core_eq s (fold_left f l s).
Proof.
  intros A f l Hf. induction l as [|a l IH]; intros s; cbn; [apply core_eq_refl|].
  eapply core_eq_trans; [apply Hf|apply IH].
Qed.

Lemma WInv_core : forall P s s', core_eq s s' -> WInv P s -> WInv P s'.
Proof.
  intros P s s' E [W1 W2 W3]. constructor.
  - intros c. rewrite (core_eq_ids _ _ c E). apply W1.
  - intros c x Hx. rewrite (ce_lst _ _ E) in Hx. rewrite (ce_mod _ _ E). apply W2. exact Hx.
  - intros g y Hg Hy. rewrite (ce_lst _ _ E) in Hg. rewrite (ce_mem _ _ E) in Hy.
    destruct (W3 g y Hg Hy) as [H|H]; [left|right; exact H]. unfold in_modelP in *. rewrite (ce_lst _ _ E). exact H.
Qed.
Lemma WInv_weaken : forall (P Q : ref -> Prop) s, (forall y, P y -> Q y) -> WInv P s -> WInv Q s.
Proof.
  intros P Q s H [W1 W2 W3]. constructor.
  - exact W1.
  - intros c x Hx. destruct (W2 c x Hx) as [A|A]; [left; exact A|right; apply H; exact A].
  - intros g y Hg Hy. destruct (W3 g y Hg Hy) as [A|A]; [left; exact A|right; apply H; exact A].
Qed.
