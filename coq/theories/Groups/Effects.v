(* What each operation of the groups kernel (repaired variant) changes, and that it changes nothing else. *)
From Coq Require Import ZArith List Bool Lia.
From Cobra.Groups Require Import Model Inv Proofs.
Import ListNotations.
Open Scope Z_scope.

(* ---------- Group.add_members / remove_members / kind ---------- *)
Lemma add_members_fold_In : forall l acc y,
  In y (fold_left (fun acc y => if memr y acc then acc else acc ++ [y]) l acc) <-> In y acc \/ In y l.
Proof.
  induction l as [|z l IH]; intros acc y; cbn [fold_left]; [cbn; tauto|].
  rewrite IH. destruct (memr z acc) eqn:E.
  - apply memr_In in E. cbn. split; [tauto|]. intros [H|[H|H]]; [tauto|subst; tauto|tauto].
  - rewrite in_app_iff. cbn. tauto.
Qed.

Theorem add_members_effect : forall g l s,
  let s' := add_members g l s in
  (forall y, In y (members s' g) <-> In y (members s g) \/ In y l) /\
  (forall g', g' <> g -> members s' g' = members s g') /\
  lst s' = lst s /\ oid s' = oid s /\ omod s' = omod s /\ kind s' = kind s /\
  sto s' = sto s /\ mback s' = mback s /\ rgenes s' = rgenes s /\ gback s' = gback s.
Proof.
  intros g l s. cbn zeta. unfold add_members. sproj. split; [|split].
  - intros y. rewrite updz_same. apply add_members_fold_In.
  - intros g' H. apply updz_other. exact H.
  - repeat split; reflexivity.
Qed.

Theorem remove_members_effect : forall g l s,
  let s' := remove_members g l s in
  (forall y, In y (members s' g) <-> In y (members s g) /\ ~ In y l) /\
  (forall g', g' <> g -> members s' g' = members s g') /\
  lst s' = lst s /\ oid s' = oid s /\ omod s' = omod s /\ kind s' = kind s /\
  sto s' = sto s /\ mback s' = mback s /\ rgenes s' = rgenes s /\ gback s' = gback s.
Proof.
  intros g l s. cbn zeta. unfold remove_members. sproj. split; [|split].
  - intros y. rewrite updz_same, filter_In, negb_true_iff, memr_false. reflexivity.
  - intros g' H. apply updz_other. exact H.
  - repeat split; reflexivity.
Qed.

Theorem set_kind_effect : forall g k s,
  let '(s', r) := set_kind_op g k s in
  (0 <= k <= 2 -> r = Ok /\ kind s' g = k /\ (forall g', g' <> g -> kind s' g' = kind s g') /\
     lst s' = lst s /\ oid s' = oid s /\ omod s' = omod s /\ members s' = members s /\
     sto s' = sto s /\ mback s' = mback s /\ rgenes s' = rgenes s /\ gback s' = gback s) /\
  (~ 0 <= k <= 2 -> r = RaiseValueError /\ s' = s).
Proof.
  intros g k s. unfold set_kind_op. destruct ((0 <=? k) && (k <=? 2)) eqn:E.
  - apply andb_true_iff in E. destruct E as [E1 E2]. apply Z.leb_le in E1, E2. split; [|lia].
    intros _. sproj. split; [reflexivity|]. split; [apply updz_same|]. split; [intros; apply updz_other; assumption|].
    repeat split; reflexivity.
  - split; [|intros _; split; reflexivity]. intros [H1 H2]. apply Z.leb_le in H1, H2. rewrite H1, H2 in E. discriminate.
Qed.

(* ---------- object.id = i ---------- *)
Lemma NoDup_map_inj : forall (f : Z -> Z) l a b, NoDup (map f l) -> In a l -> In b l -> f a = f b -> a = b.
Proof.
  intros f l. induction l as [|y l IH]; intros a b Hn Ha Hb E; [contradiction|].
  cbn in Hn. inversion Hn as [|? ? Hny Hnl]; subst.
  destruct Ha as [Ha|Ha]; destruct Hb as [Hb|Hb]; subst.
  - reflexivity.
  - exfalso. apply Hny. rewrite E. apply in_map. exact Hb.
  - exfalso. apply Hny. rewrite <- E. apply in_map. exact Ha.
  - apply IH; assumption.
Qed.

Definition solver_named (c : cls) : bool := match c with CR | CM => true | _ => false end.

Theorem set_id_effect : forall c x i s, Inv s ->
  let '(s', r) := set_id c x i s in
  (* the same identifier: nothing *)
  (i = oid s c x -> s' = s /\ r = Ok) /\
  (* not a string: TypeError, nothing changed *)
  (i <> oid s c x -> i = id_nonstr -> s' = s /\ r = RaiseTypeError) /\
  (* an object of a model: ValueError when the DictList has the identifier or the solver refuses the name; nothing changed *)
  (i <> oid s c x -> i <> id_nonstr -> omod s c x = true ->
     (In i (ids s c) \/ (solver_named c = true /\ bad_name i = true)) -> s' = s /\ r = RaiseValueError) /\
  (* otherwise exactly the identifier of this object changes; it stays where it is in its DictList, is found
     under the new identifier and nothing is found under the old one; every other object is found as before *)
  (i <> oid s c x -> i <> id_nonstr ->
     (omod s c x = true -> ~ In i (ids s c) /\ (solver_named c = true -> bad_name i = false)) ->
     r = Ok /\ oid s' c x = i /\ (forall c' x', (c', x') <> (c, x) -> oid s' c' x' = oid s c' x') /\
     lst s' = lst s /\ omod s' = omod s /\ members s' = members s /\ kind s' = kind s /\
     sto s' = sto s /\ mback s' = mback s /\ rgenes s' = rgenes s /\ gback s' = gback s /\
     (In x (lst s c) -> lookup s' c i = Some x /\ lookup s' c (oid s c x) = None) /\
     (forall y, In y (lst s c) -> y <> x -> lookup s' c (oid s c y) = Some y) /\
     Inv s').
Proof.
  intros c x i s W. pose proof (set_id_Inv c x i s W) as W'. unfold set_id in *.
  destruct (Z.eqb_spec i (oid s c x)) as [E0|E0]; cbv beta iota zeta.
  { split; [intros _; split; reflexivity|]. repeat split; intros; contradiction. }
  destruct (Z.eqb_spec i id_nonstr) as [E1|E1]; cbv beta iota zeta.
  { split; [intros; contradiction|]. split; [intros; split; reflexivity|]. split; intros; contradiction. }
  assert (Hchange : let s' := set_oid c x i s in Inv s' ->
     Ok = Ok /\ oid s' c x = i /\ (forall c' x', (c', x') <> (c, x) -> oid s' c' x' = oid s c' x') /\
     lst s' = lst s /\ omod s' = omod s /\ members s' = members s /\ kind s' = kind s /\
     sto s' = sto s /\ mback s' = mback s /\ rgenes s' = rgenes s /\ gback s' = gback s /\
     (In x (lst s c) -> lookup s' c i = Some x /\ lookup s' c (oid s c x) = None) /\
     (forall y, In y (lst s c) -> y <> x -> lookup s' c (oid s c y) = Some y) /\
     Inv s').
  { intros s' Ws'. assert (Ex : oid s' c x = i) by (unfold s'; sproj; rewrite updc_same, updz_same; reflexivity).
    assert (Eo : forall c' x', (c', x') <> (c, x) -> oid s' c' x' = oid s c' x').
    { intros c' x' Hne. unfold s'. sproj. unfold updc. destruct (cls_eqb c' c) eqn:Ec; [|reflexivity].
      apply cls_eqb_eq in Ec. subst c'. apply updz_other. intros Ex'. apply Hne. rewrite Ex'. reflexivity. }
    split; [reflexivity|]. split; [exact Ex|]. split; [exact Eo|].
    repeat (split; [reflexivity|]). split; [|split; [|exact Ws']].
    - intros Hx. split.
      + rewrite <- Ex. apply lookup_self; [apply (w_ids _ _ Ws')|exact Hx].
      + destruct (lookup s' c (oid s c x)) as [y|] eqn:El; [|reflexivity]. exfalso.
        apply lookup_Some in El. destruct El as [Hy Ey]. change (lst s' c) with (lst s c) in Hy.
        destruct (Z.eq_dec y x) as [Eyx|Eyx]; [subst y; rewrite Ex in Ey; contradiction|].
        rewrite Eo in Ey; [|intros H; inversion H; contradiction].
        apply Eyx. apply (NoDup_map_inj (oid s c) (lst s c)); [apply (w_ids _ _ W)|assumption|assumption|exact Ey].
    - intros y Hy Hne. rewrite <- (Eo c y); [|intros H; inversion H; contradiction].
      apply lookup_self; [apply (w_ids _ _ Ws')|exact Hy]. }
  change (match c with CR | CM => true | _ => false end) with (solver_named c) in *.
  destruct (omod s c x) eqn:Em; cbv beta iota zeta.
  - destruct (has_id s c i) eqn:Eh; cbv beta iota zeta.
    + split; [intros; contradiction|]. split; [intros; contradiction|].
      split; [intros; split; reflexivity|]. intros _ _ H. destruct (H eq_refl) as [H1 _]. exfalso. apply H1.
      apply has_id_In. exact Eh.
    + apply has_id_false in Eh.
      destruct (solver_named c && bad_name i) eqn:Eb; cbv beta iota zeta.
      * split; [intros; contradiction|]. split; [intros; contradiction|].
        split; [intros; split; reflexivity|]. intros _ _ H. destruct (H eq_refl) as [_ H2].
        apply andb_true_iff in Eb. destruct Eb as [B1 B2]. rewrite (H2 B1) in B2. discriminate.
      * split; [intros; contradiction|]. split; [intros; contradiction|]. split.
        { intros _ _ _ [H|[H1 H2]]; [contradiction|]. rewrite H1, H2 in Eb. discriminate. }
        intros _ _ _. apply Hchange. exact W'.
  - split; [intros; contradiction|]. split; [intros; contradiction|].
    split; [intros; discriminate|]. intros _ _ _. apply Hchange. exact W'.
Qed.

(* ---------- escape_ID: the identifier setter for every metabolite, reaction and gene of the model ---------- *)
Lemma set_id_frame : forall c x i s,
  let '(s', r) := set_id c x i s in
  lst s' = lst s /\ omod s' = omod s /\ members s' = members s /\ kind s' = kind s /\ sto s' = sto s /\
  rgenes s' = rgenes s /\ mback s' = mback s /\ gback s' = gback s /\
  (forall c' x', (c', x') <> (c, x) -> oid s' c' x' = oid s c' x') /\
  (r = Ok -> oid s' c x = i) /\ (r <> Ok -> s' = s).
Proof.
  intros c x i s. unfold set_id.
  assert (Hc : let s' := set_oid c x i s in
     lst s' = lst s /\ omod s' = omod s /\ members s' = members s /\ kind s' = kind s /\ sto s' = sto s /\
     rgenes s' = rgenes s /\ mback s' = mback s /\ gback s' = gback s /\
     (forall c' x', (c', x') <> (c, x) -> oid s' c' x' = oid s c' x') /\ (Ok = Ok -> oid s' c x = i) /\ (Ok <> Ok -> s' = s)).
  { cbn zeta. repeat (split; [reflexivity|]). split; [|split].
    - intros c' x' Hne. sproj. unfold updc. destruct (cls_eqb c' c) eqn:Ec; [|reflexivity].
      apply cls_eqb_eq in Ec. subst c'. apply updz_other. intros Ex. apply Hne. rewrite Ex. reflexivity.
    - intros _. sproj. rewrite updc_same, updz_same. reflexivity.
    - intros H. exfalso. apply H. reflexivity. }
  assert (Hr : forall r, r <> Ok ->
     lst s = lst s /\ omod s = omod s /\ members s = members s /\ kind s = kind s /\ sto s = sto s /\
     rgenes s = rgenes s /\ mback s = mback s /\ gback s = gback s /\
     (forall c' x', (c', x') <> (c, x) -> oid s c' x' = oid s c' x') /\ (r = Ok -> oid s c x = i) /\ (r <> Ok -> s = s)).
  { intros r Hne. repeat split; try reflexivity; intros; try reflexivity; contradiction. }
  destruct (Z.eqb_spec i (oid s c x)) as [E0|E0]; cbv beta iota zeta.
  { repeat split; try reflexivity; intros; try reflexivity. symmetry. exact E0. }
  destruct (i =? id_nonstr); cbv beta iota zeta; [apply Hr; discriminate|].
  destruct (omod s c x); cbv beta iota zeta; [|exact Hc].
  destruct (has_id s c i); cbv beta iota zeta; [apply Hr; discriminate|].
  destruct (_ && bad_name i); cbv beta iota zeta; [apply Hr; discriminate|exact Hc].
Qed.

Lemma escape_list_spec : forall f c l s, NoDup l ->
  let '(s', r) := escape_list f c l s in
  lst s' = lst s /\ omod s' = omod s /\ members s' = members s /\ kind s' = kind s /\ sto s' = sto s /\
  rgenes s' = rgenes s /\ mback s' = mback s /\ gback s' = gback s /\
  (forall c' x', c' <> c \/ ~ In x' l -> oid s' c' x' = oid s c' x') /\
  (r = Ok -> forall x, In x l -> oid s' c x = f (oid s c x)).
Proof.
  intros f c l. induction l as [|x l IH]; intros s Hn; cbn [escape_list].
  - repeat split; try reflexivity; intros; try reflexivity; contradiction.
  - inversion Hn as [|? ? Hx Hl]; subst.
    pose proof (set_id_frame c x (f (oid s c x)) s) as F.
    destruct (set_id c x (f (oid s c x)) s) as [s1 r1].
    destruct F as [F1 [F2 [F3 [F4 [F5 [F6 [F7 [F8 [F9 [F10 F11]]]]]]]]]].
    assert (Hfr : forall c' x', c' <> c \/ ~ In x' (x :: l) -> oid s1 c' x' = oid s c' x').
    { intros c' x' H. apply F9. intros E. inversion E; subst. destruct H as [H|H]; [apply H; reflexivity|apply H; left; reflexivity]. }
    destruct r1.
    + specialize (IH s1 Hl). destruct (escape_list f c l s1) as [s' r].
      destruct IH as [I1 [I2 [I3 [I4 [I5 [I6 [I7 [I8 [I9 I10]]]]]]]]].
      split; [congruence|]. split; [congruence|]. split; [congruence|]. split; [congruence|]. split; [congruence|].
      split; [congruence|]. split; [congruence|]. split; [congruence|]. split.
      * intros c' x' H. rewrite I9; [apply Hfr; exact H|]. destruct H as [H|H]; [left; exact H|right; intros Hi; apply H; right; exact Hi].
      * intros Er y [Hy|Hy].
        { subst y. rewrite I9; [apply F10; reflexivity|right; exact Hx]. }
        { rewrite (I10 Er y Hy). f_equal. apply F9. intros E. inversion E; subst. contradiction. }
    + repeat (split; [assumption|]). intros H; discriminate.
    + repeat (split; [assumption|]). intros H; discriminate.
    + repeat (split; [assumption|]). intros H; discriminate.
    + repeat (split; [assumption|]). intros H; discriminate.
Qed.

Theorem escape_ids_effect : forall tbl s, Inv s ->
  let f := fun i => assoc i tbl i in
  let '(s', r) := escape_ids tbl s in
  (* only identifiers of listed metabolites, reactions and genes change (and the back references are rebuilt);
     the DictLists - hence every position -, groups and their members, stoichiometry stay *)
  lst s' = lst s /\ omod s' = omod s /\ members s' = members s /\ kind s' = kind s /\ sto s' = sto s /\ rgenes s' = rgenes s /\
  (forall x, oid s' CP x = oid s CP x) /\ (forall c x, ~ In x (lst s c) -> oid s' c x = oid s c x) /\
  (* when no assignment is refused, every listed object has the escaped identifier and is found under it *)
  (r = Ok -> forall c x, c <> CP -> In x (lst s c) -> oid s' c x = f (oid s c x) /\ lookup s' c (f (oid s c x)) = Some x) /\
  Inv s'.
Proof.
  intros tbl s W. cbn zeta. pose proof (escape_ids_Inv tbl s W) as W'. unfold escape_ids in *.
  set (f := fun i => assoc i tbl i) in *.
  assert (N : forall c s0, Inv s0 -> NoDup (lst s0 c)) by (intros c s0 H; apply (NoDup_map_inv' (oid s0 c)), (w_ids _ _ H)).
  pose proof (escape_list_Inv f CM (lst s CM) s W) as W1.
  pose proof (escape_list_spec f CM (lst s CM) s (N CM s W)) as S1.
  destruct (escape_list f CM (lst s CM) s) as [s1 r1]. cbn [fst] in W1.
  destruct S1 as [A1 [A2 [A3 [A4 [A5 [A6 [_ [_ [A9 A10]]]]]]]]].
  assert (Stop1 : forall r, r <> Ok -> lst s1 = lst s /\ omod s1 = omod s /\ members s1 = members s /\ kind s1 = kind s /\ sto s1 = sto s /\
     rgenes s1 = rgenes s /\ (forall x, oid s1 CP x = oid s CP x) /\ (forall c x, ~ In x (lst s c) -> oid s1 c x = oid s c x) /\
     (r = Ok -> forall c x, c <> CP -> In x (lst s c) -> oid s1 c x = f (oid s c x) /\ lookup s1 c (f (oid s c x)) = Some x) /\ Inv s1).
  { intros r Hr. repeat (split; [assumption|]). split; [intros x; apply A9; left; discriminate|].
    split; [|split; [intros E; contradiction|exact W1]].
    intros c x Hx. apply A9. destruct c; try (left; discriminate). right. exact Hx. }
  destruct r1; try (apply Stop1; discriminate). clear Stop1.
  pose proof (escape_list_Inv f CR (lst s1 CR) s1 W1) as W2.
  pose proof (escape_list_spec f CR (lst s1 CR) s1 (N CR s1 W1)) as S2.
  destruct (escape_list f CR (lst s1 CR) s1) as [s2 r2]. cbn [fst] in W2.
  destruct S2 as [B1 [B2 [B3 [B4 [B5 [B6 [_ [_ [B9 B10]]]]]]]]].
  assert (L1 : forall c, lst s1 c = lst s c) by (intros c; rewrite A1; reflexivity).
  assert (L2 : forall c, lst s2 c = lst s c) by (intros c; rewrite B1; apply L1).
  assert (Stop2 : forall r, r <> Ok -> lst s2 = lst s /\ omod s2 = omod s /\ members s2 = members s /\ kind s2 = kind s /\ sto s2 = sto s /\
     rgenes s2 = rgenes s /\ (forall x, oid s2 CP x = oid s CP x) /\ (forall c x, ~ In x (lst s c) -> oid s2 c x = oid s c x) /\
     (r = Ok -> forall c x, c <> CP -> In x (lst s c) -> oid s2 c x = f (oid s c x) /\ lookup s2 c (f (oid s c x)) = Some x) /\ Inv s2).
  { intros r Hr. split; [congruence|]. split; [congruence|]. split; [congruence|]. split; [congruence|]. split; [congruence|].
    split; [congruence|]. split; [intros x; rewrite B9; [apply A9|]; left; discriminate|].
    split; [|split; [intros E; contradiction|exact W2]].
    intros c x Hx. rewrite B9.
    - apply A9. destruct c; try (left; discriminate). right. exact Hx.
    - destruct c; try (left; discriminate). right. rewrite L1. exact Hx. }
  destruct r2; try (apply Stop2; discriminate). clear Stop2.
  pose proof (escape_list_Inv f CG (lst s2 CG) s2 W2) as W3.
  pose proof (escape_list_spec f CG (lst s2 CG) s2 (N CG s2 W2)) as S3.
  destruct (escape_list f CG (lst s2 CG) s2) as [s3 r3]. cbn [fst] in W3.
  destruct S3 as [C1 [C2 [C3 [C4 [C5 [C6 [_ [_ [C9 C10]]]]]]]]].
  assert (L3 : forall c, lst s3 c = lst s c) by (intros c; rewrite C1; apply L2).
  assert (Frame : lst s3 = lst s /\ omod s3 = omod s /\ members s3 = members s /\ kind s3 = kind s /\ sto s3 = sto s /\
     rgenes s3 = rgenes s /\ (forall x, oid s3 CP x = oid s CP x) /\ (forall c x, ~ In x (lst s c) -> oid s3 c x = oid s c x)).
  { split; [congruence|]. split; [congruence|]. split; [congruence|]. split; [congruence|]. split; [congruence|].
    split; [congruence|]. split.
    - intros x. rewrite C9; [|left; discriminate]. rewrite B9; [apply A9|]; left; discriminate.
    - intros c x Hx. rewrite C9; [rewrite B9; [apply A9|]|].
      + destruct c; try (left; discriminate). right. exact Hx.
      + destruct c; try (left; discriminate). right. rewrite L1. exact Hx.
      + destruct c; try (left; discriminate). right. rewrite L2. exact Hx. }
  destruct Frame as [D1 [D2 [D3 [D4 [D5 [D6 [D7 D8]]]]]]].
  destruct r3.
  - (* nothing refused *)
    change (lst (repair_rel s3)) with (lst s3). change (omod (repair_rel s3)) with (omod s3).
    change (members (repair_rel s3)) with (members s3). change (kind (repair_rel s3)) with (kind s3).
    change (sto (repair_rel s3)) with (sto s3). change (rgenes (repair_rel s3)) with (rgenes s3).
    repeat (split; [assumption|]). split; [|exact W'].
    intros _ c x Hc Hx.
    assert (E : oid s3 c x = f (oid s c x)).
    { destruct c; [| | |contradiction].
      - (* reaction: renamed in the second loop *)
        rewrite C9; [|left; discriminate]. rewrite (B10 eq_refl x); [|rewrite L1; exact Hx]. f_equal. apply A9. left. discriminate.
      - rewrite C9; [|left; discriminate]. rewrite B9; [|left; discriminate]. apply (A10 eq_refl x Hx).
      - rewrite (C10 eq_refl x); [|rewrite L2; exact Hx]. f_equal. rewrite B9; [|left; discriminate]. apply A9. left. discriminate. }
    split; [exact E|]. change (lookup s3 c (f (oid s c x)) = Some x).
    rewrite <- E. apply lookup_self; [apply (w_ids _ _ W3)|rewrite L3; exact Hx].
  - repeat (split; [assumption|]). split; [intros E; discriminate|exact W3].
  - repeat (split; [assumption|]). split; [intros E; discriminate|exact W3].
  - repeat (split; [assumption|]). split; [intros E; discriminate|exact W3].
  - repeat (split; [assumption|]). split; [intros E; discriminate|exact W3].
Qed.

Theorem set_bounds_effect : forall r lb ub s,
  fst (set_bounds r lb ub s) = s /\ snd (set_bounds r lb ub s) = if ub <? lb then RaiseValueError else Ok.
Proof. intros. unfold set_bounds. destruct (ub <? lb); split; reflexivity. Qed.

(* ---------- Model.remove_groups (one group; a list is the loop over it) ---------- *)
Theorem remove_group_effect : forall g s, Inv s ->
  let '(s', r) := remove_groups vfix [g] s in
  (* the model has no group of that identifier: ignored *)
  (~ In (oid s CP g) (ids s CP) -> s' = s /\ r = Ok) /\
  (* another object has the identifier: ValueError (DictList.index), nothing changed *)
  (In (oid s CP g) (ids s CP) -> ~ In g (lst s CP) -> s' = s /\ r = RaiseValueError) /\
  (* a group of the model: it leaves, no longer points to the model, and the groups that list it forget it;
     its own members and everything else stay *)
  (In g (lst s CP) -> r = Ok /\ lst s' CP = rem g (lst s CP) /\ omod s' CP g = false /\
     (forall g', members s' g' = if memz g' (rem g (lst s CP)) then remr (CP, g) (members s g') else members s g') /\
     (forall c, c <> CP -> lst s' c = lst s c) /\ oid s' = oid s /\
     (forall c x, (c, x) <> (CP, g) -> omod s' c x = omod s c x) /\ kind s' = kind s /\
     sto s' = sto s /\ mback s' = mback s /\ rgenes s' = rgenes s /\ gback s' = gback s).
Proof.
  intros g s W. cbn [remove_groups]. destruct (lookup s CP (oid s CP g)) as [g'|] eqn:El.
  - apply lookup_Some in El. destruct El as [Hg' Eg'].
    assert (Hid : In (oid s CP g) (ids s CP)) by (rewrite <- Eg'; unfold ids; apply in_map; exact Hg').
    destruct (Z.eqb_spec g' g) as [E|E].
    + subst g'. cbn [fx_nested vfix]. split; [intros; contradiction|]. split; [intros; contradiction|].
      intros _. unfold ungroup. sproj. split; [reflexivity|]. split; [apply updc_same|].
      split; [rewrite updc_same; apply updz_same|]. split.
      { intros g0. rewrite updc_same. reflexivity. }
      split; [intros c Hc; apply updc_other; exact Hc|]. split; [reflexivity|]. split.
      { intros c x Hne. unfold updc. destruct (cls_eqb c CP) eqn:Ec; [|reflexivity]. apply cls_eqb_eq in Ec. subst c.
        apply updz_other. intros Ex. subst. apply Hne. reflexivity. }
      repeat split; reflexivity.
    + split; [intros; contradiction|]. split; [intros; split; reflexivity|].
      intros Hg. exfalso. apply E. apply (NoDup_map_inj (oid s CP) (lst s CP)); [apply (w_ids _ _ W)|assumption|assumption|exact Eg'].
  - apply lookup_None in El. split; [intros; split; reflexivity|]. split; [intros; contradiction|].
    intros Hg. exfalso. apply El. unfold ids. apply in_map. exact Hg.
Qed.

(* ---------- removals: what all of them leave alone ---------- *)
Record removal_frame (s s' : st) : Prop := mkRF {
  rf_groups : lst s' CP = lst s CP;                                      (* model.groups *)
  rf_oid : forall c x, oid s' c x = oid s c x;                           (* every identifier *)
  rf_kind : forall g, kind s' g = kind s g;
  rf_shrink : forall c x, In x (lst s' c) -> In x (lst s c);             (* nothing joins the model *)
  rf_members : forall g y, In y (members s' g) -> In y (members s g);    (* no group gains a member *)
  rf_stay : forall g y, In g (lst s CP) -> In y (members s g) -> in_modelP s' y -> In y (members s' g);
  rf_mod : forall c x, In x (lst s' c) -> omod s' c x = omod s c x }.

(* members are only taken out of groups of the model, and only those that leave the model *)
Definition keeps_members (s s' : st) : Prop :=
  forall g y, In y (members s g) -> (In g (lst s CP) -> in_modelP s' y) -> In y (members s' g).

Lemma keeps_refl : forall s, keeps_members s s.
Proof. intros s g y H _. exact H. Qed.
Lemma keeps_trans : forall a b c, shr a b -> shr b c -> keeps_members a b -> keeps_members b c -> keeps_members a c.
Proof.
  intros a b c S1 S2 K1 K2 g y Hy Hin. apply K2.
  - apply K1; [exact Hy|]. intros Hg. specialize (Hin Hg). destruct y as [k x]. unfold in_modelP in *. cbn [fst snd] in *.
    apply (shr_In _ _ _ _ S2). exact Hin.
  - intros Hg. apply Hin. rewrite <- (sh_cp _ _ S1). exact Hg.
Qed.
Lemma keeps_core : forall s s', core_eq s s' -> keeps_members s s'.
Proof. intros s s' E g y Hy _. rewrite (ce_mem _ _ E). exact Hy. Qed.
Lemma keeps_fold : forall (A : Type) (f : st -> A -> st) (l : list A),
  (forall s a, clean s (f s a) /\ keeps_members s (f s a)) -> forall s, keeps_members s (fold_left f l s).
Proof.
  intros A f l Hf. induction l as [|a l IH]; intros s; cbn [fold_left]; [apply keeps_refl|].
  eapply keeps_trans; [apply (proj1 (proj1 (Hf s a)))| |apply (proj2 (Hf s a))|apply IH].
  apply (proj1 (clean_fold A f l (fun s a => proj1 (Hf s a)) (f s a))).
Qed.
Lemma keeps_same_members : forall s s', (forall g, members s' g = members s g) -> keeps_members s s'.
Proof. intros s s' E g y Hy _. rewrite E. exact Hy. Qed.
Lemma keeps_ungroup : forall y s, ~ in_modelP s y -> keeps_members s (ungroup y s).
Proof.
  intros y s Hn g z Hz Hin. unfold ungroup. sproj. destruct (memz g (lst s CP)) eqn:Eg; [|exact Hz].
  apply remr_In. split; [exact Hz|]. intros E. subst z. apply Hn. apply memz_In in Eg.
  specialize (Hin Eg). exact Hin.
Qed.

Lemma remove_met_nd_keeps : forall m s, keeps_members s (remove_met_nd m s).
Proof.
  intros m s g y Hy Hin. unfold remove_met_nd in *. destruct (memz m (lst s CM)) eqn:Em; [|exact Hy].
  set (s1 := ungroup (CM, m) (set_omod CM m false s)) in *.
  set (s2 := fold_left (subtract m) (mback s m) s1) in *.
  assert (C2 : core_eq s1 s2) by (apply core_fold; intros; apply subtract_core).
  change (members (set_lst CM (rem m (lst s2 CM)) s2) g) with (members s2 g). rewrite (ce_mem _ _ C2).
  unfold s1, ungroup. sproj. destruct (memz g (lst s CP)) eqn:Eg; [|exact Hy].
  apply remr_In. split; [exact Hy|]. intros E. subst y. apply memz_In in Eg. specialize (Hin Eg).
  apply (drop_not_listed CM m s2). exact Hin.
Qed.
Lemma unlink_met_keeps : forall r orph s m, keeps_members s (unlink_met r orph s m).
Proof.
  intros r orph s m. unfold unlink_met. destruct (memz r (mback s m)); [|apply keeps_refl].
  set (s1 := set_mback m (rem r (mback s m)) s).
  destruct (orph && isnil (mback s1 m)); [|apply keeps_core, core_set_mback].
  eapply keeps_trans; [apply shr_core, core_set_mback|apply (proj1 (remove_met_nd_clean m s1))|
                       apply keeps_core, core_set_mback|apply remove_met_nd_keeps].
Qed.
Lemma unlink_gene_keeps : forall r orph s g, keeps_members s (unlink_gene vfix r orph s g).
Proof.
  intros r orph s g. unfold unlink_gene. destruct (memz r (gback s g)); [|apply keeps_refl].
  set (s1 := set_gback g (rem r (gback s g)) s).
  destruct (orph && isnil (gback s1 g)); [|apply keeps_core, core_set_gback].
  cbn [fx_orphan vfix]. intros p y Hy Hin.
  set (s2 := set_lst CG (rem g (lst s1 CG)) s1) in *.
  unfold ungroup. sproj. change (lst s2 CP) with (lst s CP). change (members s2 p) with (members s p).
  destruct (memz p (lst s CP)) eqn:Ep; [|exact Hy].
  apply remr_In. split; [exact Hy|]. intros E. subst y. apply memz_In in Ep. specialize (Hin Ep).
  apply (drop_not_listed CG g s1). exact Hin.
Qed.
Lemma remove_rxn_keeps : forall r orph s, keeps_members s (remove_rxn vfix r orph s).
Proof.
  intros r orph s. unfold remove_rxn. destruct (memz r (lst s CR)); [|apply keeps_refl].
  set (s0 := set_lst CR (rem r (lst s CR)) s).
  set (s1 := set_omod CR r false s0).
  set (s2 := fold_left (unlink_met r orph) (map fst (sto s r)) s1).
  set (s3 := fold_left (unlink_gene vfix r orph) (rgenes s r) s2).
  assert (C2 : clean s1 s2) by (apply clean_fold; intros; apply unlink_met_clean).
  assert (C3 : clean s2 s3) by (apply clean_fold; intros; apply unlink_gene_clean).
  assert (K2 : keeps_members s1 s2).
  { apply keeps_fold. intros. split; [apply unlink_met_clean|apply unlink_met_keeps]. }
  assert (K3 : keeps_members s2 s3).
  { apply keeps_fold. intros. split; [apply unlink_gene_clean|apply unlink_gene_keeps]. }
  assert (S01 : shr s s1).
  { eapply shr_trans; [apply (proj1 (prim_drop CR r s ltac:(discriminate)))|apply (proj1 (prim_mark CR r s0))]. }
  assert (S13 : shr s1 s3) by (eapply shr_trans; [apply (proj1 C2)|apply (proj1 C3)]).
  assert (K03 : keeps_members s s3).
  { eapply keeps_trans; [exact S01|exact S13|apply keeps_same_members; reflexivity|].
    eapply keeps_trans; [apply (proj1 C2)|apply (proj1 C3)|exact K2|exact K3]. }
  eapply keeps_trans; [eapply shr_trans; [exact S01|exact S13]|apply (proj1 (prim_ungroup (CR, r) s3))|exact K03|].
  apply keeps_ungroup. apply (shr_not_listed s0); [|apply drop_not_listed].
  eapply shr_trans; [apply (proj1 (prim_mark CR r s0))|exact S13].
Qed.
Lemma remove_met_keeps : forall m d s, keeps_members s (remove_met vfix m d s).
Proof.
  intros m d s. unfold remove_met. destruct d; [|apply remove_met_nd_keeps].
  destruct (memz m (lst s CM)); [|apply keeps_refl].
  set (s1 := ungroup (CM, m) (set_omod CM m false s)).
  set (s2 := fold_left (fun s r => remove_rxn vfix r false s) (mback s m) s1).
  assert (C2 : clean s1 s2) by (apply clean_fold; intros; apply remove_rxn_clean).
  assert (K2 : keeps_members s1 s2).
  { apply keeps_fold. intros. split; [apply remove_rxn_clean|apply remove_rxn_keeps]. }
  intros g y Hy Hin. change (members (set_lst CM (rem m (lst s2 CM)) s2) g) with (members s2 g).
  apply K2.
  - unfold s1, ungroup. sproj. destruct (memz g (lst s CP)) eqn:Eg; [|exact Hy].
    apply remr_In. split; [exact Hy|]. intros E. subst y. apply memz_In in Eg. specialize (Hin Eg).
    apply (drop_not_listed CM m s2). exact Hin.
  - intros Hg. assert (Hg0 : In g (lst s CP)) by exact Hg. specialize (Hin Hg0).
    destruct y as [c x]. unfold in_modelP in *. cbn [fst snd] in *.
    apply (shr_In _ _ _ _ (proj1 (prim_drop CM m s2 ltac:(discriminate)))). exact Hin.
Qed.

Lemma clean_frame : forall s s', clean s s' -> keeps_members s s' -> removal_frame s s'.
Proof.
  intros s s' [S [M G]] K. constructor.
  - apply (sh_cp _ _ S).
  - apply (sh_oid _ _ S).
  - apply (sh_kind _ _ S).
  - intros c x. apply (shr_In _ _ _ _ S).
  - apply (sh_mem _ _ S).
  - intros g y Hg Hy Hin. apply K; [exact Hy|intros _; exact Hin].
  - intros c x Hx. destruct (M c x Hx) as [E|[]]. exact E.
Qed.

(* ---------- Model.remove_reactions ---------- *)
Lemma unlink_met_false_core : forall r s m, core_eq s (unlink_met r false s m).
Proof.
  intros r s m. unfold unlink_met. destruct (memz r (mback s m)); [|apply core_eq_refl].
  cbn [andb]. apply core_set_mback.
Qed.
Lemma unlink_gene_false_core : forall v r s g, core_eq s (unlink_gene v r false s g).
Proof.
  intros v r s g. unfold unlink_gene. destruct (memz r (gback s g)); [|apply core_eq_refl].
  cbn [andb]. apply core_set_gback.
Qed.
Theorem remove_reactions_effect : forall r orph s, Inv s ->
  let s' := remove_rxn vfix r orph s in
  (* a reaction that is not in the model: a warning, nothing else *)
  (~ In r (lst s CR) -> s' = s) /\
  (In r (lst s CR) ->
     (* the reaction is gone from the model and from every group of the model ... *)
     ~ In r (lst s' CR) /\ (forall g, In g (lst s' CP) -> ~ In (CR, r) (members s' g)) /\
     (* ... model.groups, identifiers, kinds stay; nothing joins; a group loses a member only if that member left the
        model; listed objects keep their _model pointer ... *)
     removal_frame s s' /\
     (* ... and without remove_orphans nothing but the reaction leaves, and exactly (CR, r) leaves the groups *)
     (orph = false ->
        lst s' CR = rem r (lst s CR) /\ (forall c, c <> CR -> lst s' c = lst s c) /\
        (forall g, members s' g = if memz g (lst s CP) then remr (CR, r) (members s g) else members s g) /\
        omod s' CR r = false /\ (forall c x, (c, x) <> (CR, r) -> omod s' c x = omod s c x) /\
        sto s' = sto s /\ rgenes s' = rgenes s) /\
     Inv s').
Proof.
  intros r orph s W. cbn zeta. split.
  - intros Hn. unfold remove_rxn. apply memz_false in Hn. rewrite Hn. reflexivity.
  - intros Hr. pose proof (remove_rxn_clean r orph s) as C. pose proof (remove_rxn_keeps r orph s) as K.
    assert (Hmem : memz r (lst s CR) = true) by (apply memz_In; exact Hr).
    split; [|split; [|split; [apply clean_frame; assumption|split; [|apply (clean_WInv _ s); assumption]]]].
    + unfold remove_rxn. rewrite Hmem.
      match goal with |- ~ In r (lst (ungroup _ ?s3) CR) => change (lst (ungroup (CR, r) s3) CR) with (lst s3 CR) end.
      set (s0 := set_lst CR (rem r (lst s CR)) s).
      intros Hi. apply (drop_not_listed CR r s). fold s0.
      set (s1 := set_omod CR r false s0) in *.
      set (s2 := fold_left (unlink_met r orph) (map fst (sto s r)) s1) in *.
      set (s3 := fold_left (unlink_gene vfix r orph) (rgenes s r) s2) in *.
      assert (C2 : clean s1 s2) by (apply clean_fold; intros; apply unlink_met_clean).
      assert (C3 : clean s2 s3) by (apply clean_fold; intros; apply unlink_gene_clean).
      assert (S : shr s0 s3).
      { eapply shr_trans; [apply (proj1 (prim_mark CR r s0))|]. eapply shr_trans; [apply (proj1 C2)|apply (proj1 C3)]. }
      unfold in_modelP. cbn [fst snd]. apply (shr_In _ _ _ _ S). exact Hi.
    + unfold remove_rxn. rewrite Hmem. apply ungroup_gone.
    + intros Eo. subst orph. unfold remove_rxn. rewrite Hmem.
      set (s1 := set_omod CR r false (set_lst CR (rem r (lst s CR)) s)).
      set (s2 := fold_left (unlink_met r false) (map fst (sto s r)) s1).
      set (s3 := fold_left (unlink_gene vfix r false) (rgenes s r) s2).
      assert (C13 : core_eq s1 s3).
      { eapply core_eq_trans; [apply core_fold; intros; apply unlink_met_false_core|
                               apply core_fold; intros; apply unlink_gene_false_core]. }
      assert (Hsto : sto s3 = sto s /\ rgenes s3 = rgenes s).
      { assert (A : forall l s0, sto (fold_left (unlink_met r false) l s0) = sto s0 /\
                               rgenes (fold_left (unlink_met r false) l s0) = rgenes s0).
        { induction l as [|m l IH]; intros s0; cbn [fold_left]; [split; reflexivity|].
          destruct (IH (unlink_met r false s0 m)) as [A1 A2]. rewrite A1, A2. unfold unlink_met.
          destruct (memz r (mback s0 m)); split; reflexivity. }
        assert (B : forall l s0, sto (fold_left (unlink_gene vfix r false) l s0) = sto s0 /\
                               rgenes (fold_left (unlink_gene vfix r false) l s0) = rgenes s0).
        { induction l as [|g l IH]; intros s0; cbn [fold_left]; [split; reflexivity|].
          destruct (IH (unlink_gene vfix r false s0 g)) as [B1 B2]. rewrite B1, B2. unfold unlink_gene.
          destruct (memz r (gback s0 g)); split; reflexivity. }
        unfold s3, s2. destruct (B (rgenes s r) (fold_left (unlink_met r false) (map fst (sto s r)) s1)) as [B1 B2].
        destruct (A (map fst (sto s r)) s1) as [A1 A2]. rewrite B1, B2, A1, A2. split; reflexivity. }
      split.
      { change (lst (ungroup (CR, r) s3) CR) with (lst s3 CR). rewrite (ce_lst _ _ C13). unfold s1. sproj. apply updc_same. }
      split.
      { intros c Hc. change (lst (ungroup (CR, r) s3) c) with (lst s3 c). rewrite (ce_lst _ _ C13). unfold s1. sproj.
        apply updc_other. exact Hc. }
      split.
      { intros g. unfold ungroup. sproj. rewrite (ce_lst _ _ C13), (ce_mem _ _ C13). unfold s1. sproj.
        rewrite updc_other; [reflexivity|discriminate]. }
      split.
      { change (omod (ungroup (CR, r) s3) CR r) with (omod s3 CR r). rewrite (ce_mod _ _ C13). unfold s1. sproj.
        rewrite updc_same. apply updz_same. }
      split.
      { intros c x Hne. change (omod (ungroup (CR, r) s3) c x) with (omod s3 c x). rewrite (ce_mod _ _ C13).
        unfold s1. sproj. unfold updc. destruct (cls_eqb c CR) eqn:Ec; [|reflexivity]. apply cls_eqb_eq in Ec. subst c.
        apply updz_other. intros Ex. subst. apply Hne. reflexivity. }
      exact Hsto.
Qed.

(* ---------- Model.remove_metabolites ---------- *)
Theorem remove_metabolites_effect : forall m d s, Inv s ->
  let s' := remove_met vfix m d s in
  (~ In m (lst s CM) -> s' = s) /\
  (In m (lst s CM) ->
     (* the metabolite is gone from the model and from every group of the model, it no longer points to the model *)
     ~ In m (lst s' CM) /\ (forall g, In g (lst s' CP) -> ~ In (CM, m) (members s' g)) /\
     removal_frame s s' /\
     (* not destructive: nothing else leaves the model, exactly (CM, m) leaves the groups *)
     (d = false ->
        lst s' CM = rem m (lst s CM) /\ (forall c, c <> CM -> lst s' c = lst s c) /\
        (forall g, members s' g = if memz g (lst s CP) then remr (CM, m) (members s g) else members s g) /\
        omod s' CM m = false /\ (forall c x, (c, x) <> (CM, m) -> omod s' c x = omod s c x)) /\
     Inv s').
Proof.
  intros m d s W. cbn zeta. split.
  - intros Hn. apply memz_false in Hn. unfold remove_met, remove_met_nd. rewrite Hn. destruct d; reflexivity.
  - intros Hm. pose proof (remove_met_clean m d s) as C. pose proof (remove_met_keeps m d s) as K.
    assert (Hmem : memz m (lst s CM) = true) by (apply memz_In; exact Hm).
    split; [|split; [|split; [apply clean_frame; assumption|split; [|apply (clean_WInv _ s); assumption]]]].
    + unfold remove_met, remove_met_nd. rewrite Hmem. destruct d; apply (drop_not_listed CM m).
    + unfold remove_met, remove_met_nd. rewrite Hmem. destruct d.
      * set (s1 := ungroup (CM, m) (set_omod CM m false s)).
        set (s2 := fold_left (fun s r => remove_rxn vfix r false s) (mback s m) s1).
        apply (shr_not_member s1); [|apply ungroup_gone].
        assert (C2 : clean s1 s2) by (apply clean_fold; intros; apply remove_rxn_clean).
        eapply shr_trans; [apply (proj1 C2)|].
        apply (proj1 (prim_drop CM m s2 ltac:(discriminate))).
      * set (s1 := ungroup (CM, m) (set_omod CM m false s)).
        set (s2 := fold_left (subtract m) (mback s m) s1).
        apply (shr_not_member s1); [|apply ungroup_gone].
        eapply shr_trans; [apply shr_core, core_fold; intros; apply subtract_core|].
        apply (proj1 (prim_drop CM m s2 ltac:(discriminate))).
    + intros Ed. subst d. unfold remove_met, remove_met_nd. rewrite Hmem.
      set (s1 := ungroup (CM, m) (set_omod CM m false s)).
      set (s2 := fold_left (subtract m) (mback s m) s1).
      assert (C2 : core_eq s1 s2) by (apply core_fold; intros; apply subtract_core).
      set (s0 := set_omod CM m false s) in *.
      split.
      { sproj. rewrite updc_same. rewrite (ce_lst _ _ C2). reflexivity. }
      split.
      { intros c Hc. sproj. rewrite updc_other; [|exact Hc]. rewrite (ce_lst _ _ C2). reflexivity. }
      split.
      { intros g. change (members (set_lst CM (rem m (lst s2 CM)) s2) g) with (members s2 g). rewrite (ce_mem _ _ C2).
        reflexivity. }
      split.
      { change (omod (set_lst CM (rem m (lst s2 CM)) s2) CM m) with (omod s2 CM m). rewrite (ce_mod _ _ C2).
        unfold s1, ungroup, s0. sproj. rewrite updc_same. apply updz_same. }
      intros c x Hne. change (omod (set_lst CM (rem m (lst s2 CM)) s2) c x) with (omod s2 c x). rewrite (ce_mod _ _ C2).
      unfold s1, ungroup, s0. sproj. unfold updc.
      destruct (cls_eqb c CM) eqn:Ec; [|reflexivity]. apply cls_eqb_eq in Ec. subst c.
      apply updz_other. intros Ex. subst. apply Hne. reflexivity.
Qed.

(* ---------- remove_genes ---------- *)
Lemma drop_gene_keeps : forall s g, keeps_members s (drop_gene s g).
Proof.
  intros s g p y Hy Hin. unfold drop_gene in *. unfold ungroup. sproj.
  rewrite updc_other; [|discriminate].
  destruct (memz p (lst s CP)) eqn:Ep; [|exact Hy].
  apply remr_In. split; [exact Hy|]. intros E. subst y. apply memz_In in Ep. specialize (Hin Ep).
  apply (drop_not_listed CG g s). exact Hin.
Qed.
Lemma drop_genes_gone : forall gs s g, In g gs ->
  gone (fold_left drop_gene gs s) (CG, g).
Proof.
  induction gs as [|h gs IH]; intros s g Hg; [contradiction|]. cbn [fold_left].
  destruct (in_dec Z.eq_dec g gs) as [Hi|Hi]; [apply IH; exact Hi|].
  destruct Hg as [Hg|Hg]; [subst h|contradiction].
  assert (S : shr (drop_gene s g) (fold_left drop_gene gs (drop_gene s g))).
  { assert (C : clean (drop_gene s g) (fold_left drop_gene gs (drop_gene s g))) by (apply clean_fold; intros; apply drop_gene_clean).
    apply (proj1 C). }
  split.
  - apply (shr_not_listed (drop_gene s g)); [exact S|]. unfold drop_gene.
    apply (shr_not_listed (set_lst CG (rem g (lst s CG)) s)); [|apply drop_not_listed].
    eapply shr_trans; [apply (proj1 (prim_mark CG g _))|apply (proj1 (prim_ungroup (CG, g) _))].
  - apply (shr_not_member (drop_gene s g)); [exact S|]. unfold drop_gene. apply ungroup_gone.
Qed.

Theorem remove_genes_effect : forall l rr s, Inv s ->
  let '(s', r) := remove_genes vfix l rr s in
  (* an identifier the model does not have: KeyError before anything changes *)
  (lookup_all s CG l = None -> s' = s /\ r = RaiseKeyError) /\
  (forall gs, lookup_all s CG l = Some gs ->
     r = Ok /\
     (* the named genes are gone from the model and from every group of the model *)
     (forall g, In g gs -> ~ In g (lst s' CG) /\ forall p, In p (lst s' CP) -> ~ In (CG, g) (members s' p)) /\
     removal_frame s s' /\ Inv s').
Proof.
  intros l rr s W. pose proof (remove_genes_clean l rr s) as C. unfold remove_genes in *.
  destruct (lookup_all s CG l) as [gs|] eqn:El; cbn [fst] in C.
  - split; [intros; discriminate|]. intros gs' E. inversion E; subst gs'. split; [reflexivity|].
    set (s1 := fold_left drop_gene (dedup gs) s) in *.
    set (dead := fun r => rr && forallb (fun g => memz g gs) (rgenes s r)) in *.
    set (withrule := filter (fun r => negb (isnil (rgenes s r))) (lst s CR)) in *.
    set (s2 := fold_left (fun s r => remove_rxn vfix r false s) (filter dead withrule) s1) in *.
    set (s3 := fold_left (regene gs) (filter (fun r => negb (dead r)) withrule) s2) in *.
    assert (C1 : clean s s1) by (apply clean_fold; intros; apply drop_gene_clean).
    assert (C2 : clean s1 s2) by (apply clean_fold; intros; apply remove_rxn_clean).
    assert (E3 : core_eq s2 s3) by (apply core_fold; intros; apply regene_core).
    assert (S13 : shr s1 s3) by (eapply shr_trans; [apply (proj1 C2)|apply shr_core; exact E3]).
    split; [|split; [|apply (clean_WInv _ s); assumption]].
    + intros g Hg. assert (Hg' : In g (dedup gs)) by (unfold dedup; apply nodup_In; exact Hg).
      destruct (drop_genes_gone (dedup gs) s g Hg') as [G1 G2]. fold s1 in G1, G2. split.
      * intros Hi. apply (shr_not_listed s1 s3 (CG, g) S13 G1). exact Hi.
      * apply (shr_not_member s1 s3 (CG, g) S13 G2).
    + apply clean_frame; [exact C|].
      eapply keeps_trans; [apply (proj1 C1)|exact S13| |].
      * apply keeps_fold. intros. split; [apply drop_gene_clean|apply drop_gene_keeps].
      * eapply keeps_trans; [apply (proj1 C2)|apply shr_core; exact E3| |apply keeps_core; exact E3].
        apply keeps_fold. intros. split; [apply remove_rxn_clean|apply remove_rxn_keeps].
  - split; [intros _; split; reflexivity|]. intros gs E. discriminate.
Qed.

(* ---------- Model.add_groups ---------- *)
Lemma add_member_only : forall s y c x, In x (lst (add_member vfix s y) c) -> In x (lst s c) \/ y = (c, x).
Proof.
  intros s [k z] c x H. unfold add_member in H. cbn [fx_addgene vfix] in H. destruct k.
  - destruct (has_id s CR (oid s CR z)); [left; exact H|].
    rewrite (ce_lst _ _ (add_rxn_spec z s)) in H. apply push_In in H. destruct H as [H|[E1 E2]]; [left; exact H|subst; right; reflexivity].
  - destruct (has_id s CM (oid s CM z)); [left; exact H|]. unfold add_met in H.
    apply push_In in H. destruct H as [H|[E1 E2]]; [left; exact H|subst; right; reflexivity].
  - destruct (has_id s CG (oid s CG z)); [left; exact H|].
    apply push_In in H. destruct H as [H|[E1 E2]]; [left; exact H|subst; right; reflexivity].
  - left. exact H.
Qed.
Lemma add_members_only : forall l s c x, In x (lst (fold_left (add_member vfix) l s) c) -> In x (lst s c) \/ In (c, x) l.
Proof.
  induction l as [|y l IH]; intros s c x H; cbn [fold_left] in H; [left; exact H|].
  apply IH in H. destruct H as [H|H]; [|right; right; exact H].
  apply add_member_only in H. destruct H as [H|H]; [left; exact H|right; left; exact H].
Qed.

Theorem add_group_effect : forall s g, Inv s -> ~ In (oid s CP g) (ids s CP) ->
  members_okb (set_omod CP g true s) (members s g) = true ->
  let s' := add_group vfix s g in
  (* the group joins model.groups (at the end) and points to the model; its members that were outside join their
     DictLists; nothing else joins, nothing leaves; identifiers, members, kinds stay *)
  lst s' CP = lst s CP ++ [g] /\ omod s' CP g = true /\
  (forall c x, In x (lst s c) -> In x (lst s' c)) /\
  (forall c x, c <> CP -> In x (lst s' c) -> In x (lst s c) \/ In (c, x) (members s g)) /\
  (forall y, In y (members s g) -> in_modelP s' y) /\
  (forall c x, oid s' c x = oid s c x) /\ (forall p, members s' p = members s p) /\
  (forall p, kind s' p = kind s p) /\ (forall c x, omod s c x = true -> omod s' c x = true) /\ Inv s'.
Proof.
  intros s g W Hid Hok. cbn zeta.
  destruct (add_group_WInv _ s g W Hid Hok) as [W' _]. unfold add_group in *.
  set (s1 := set_omod CP g true s) in *.
  assert (W1 : Inv s1) by (apply set_omod_true_WInv; exact W).
  change (members s g) with (members s1 g) in Hok |- *.
  destruct (add_members_loop _ (members s1 g) s1 W1 Hok) as [W2 [G2 I2]].
  set (s2 := fold_left (add_member vfix) (members s1 g) s1) in *.
  assert (M01 : forall c x, omod s c x = true -> omod s1 c x = true).
  { intros c x H. unfold s1. sproj. unfold updc. destruct (cls_eqb c CP) eqn:Ec; [|exact H].
    apply cls_eqb_eq in Ec. subst c. unfold updz. destruct (x =? g); [reflexivity|exact H]. }
  split; [|split; [|split; [|split; [|split; [|split; [|split; [|split; [|split]]]]]]]].
  - unfold push. sproj. rewrite updc_same. rewrite (gr_cp _ _ G2). reflexivity.
  - change (omod (push CP g s2) CP g) with (omod s2 CP g). apply (gr_mod _ _ G2).
    unfold s1. sproj. rewrite updc_same, updz_same. reflexivity.
  - intros c x Hx. apply push_In. left. apply (gr_lst _ _ G2). exact Hx.
  - intros c x Hc Hx. apply push_In in Hx. destruct Hx as [Hx|[E _]]; [|contradiction].
    apply add_members_only in Hx. exact Hx.
  - intros y Hy. unfold in_modelP. apply push_In. left. apply (I2 y Hy).
  - intros c x. change (oid (push CP g s2) c x) with (oid s2 c x). apply (gr_oid _ _ G2).
  - intros p0. change (members (push CP g s2) p0) with (members s2 p0). apply (gr_mem _ _ G2).
  - intros p0. change (kind (push CP g s2) p0) with (kind s2 p0). apply (gr_kind _ _ G2).
  - intros c x H. change (omod (push CP g s2) c x) with (omod s2 c x). apply (gr_mod _ _ G2), M01, H.
  - exact W'.
Qed.

(* add_groups: the groups whose identifier the model has are ignored; two of the others sharing an identifier:
   ValueError, nothing changed; otherwise the loop above over the others, in order *)
Theorem add_groups_effect : forall l s,
  let pruned := filter (fun g => negb (has_id s CP (oid s CP g))) l in
  let '(s', r) := add_groups vfix l s in
  (nodupb (map (oid s CP) pruned) = false -> s' = s /\ r = RaiseValueError) /\
  (nodupb (map (oid s CP) pruned) = true -> s' = fold_left (add_group vfix) pruned s /\ r = Ok).
Proof.
  intros l s. cbn zeta. unfold add_groups. destruct (nodupb _); split; intros H; try discriminate; split; reflexivity.
Qed.
