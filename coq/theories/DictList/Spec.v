(* Abstract specification for C15: a plain Python list of elements with a uniqueness
   rule for identifiers.  No dictionary: every lookup is a search of the list.  Every
   raising case returns the list unchanged.                                            *)
From Coq Require Import ZArith List Bool Lia.
From Cobra.DictList Require Import Model.
Import ListNotations.
Open Scope Z_scope.

Inductive sout :=
| SNone | SInt (z : Z) | SBool (b : bool) | SElem (e : elem) | SList (l : list elem) | SRaise (x : exc).

Definition has (l : list elem) (k : Z) : bool := memz k (ids l).

Definition spec_index (l : list elem) (x : key) : option Z :=
  match x with
  | KId k => find_index k l
  | KObj e => match find_index (e_id e) l with
              | Some i => match znth l i with
                          | Some e' => if e_obj e' =? e_obj e then Some i else None
                          | None => None end
              | None => None end
  end.

Definition spec_extend (l es : list elem) : option (list elem) :=
  if existsb (fun e => has l (e_id e)) es || negb (nodupz (ids es)) then None else Some (l ++ es).

Definition spec_remove (l : list elem) (x : key) : option (list elem) :=
  match spec_index l x with
  | Some i => Some (remove_at (Z.to_nat i) l)
  | None => None
  end.

Fixpoint spec_removes (l : list elem) (xs : list key) : option (list elem) :=
  match xs with
  | [] => Some l
  | x :: r => match spec_remove l x with Some l' => spec_removes l' r | None => None end
  end.

Fixpoint spec_union (l es : list elem) : list elem :=
  match es with
  | [] => l
  | e :: r => if has l (e_id e) then spec_union l r else spec_union (l ++ [e]) r
  end.

Definition spec_step (l : list elem) (o : op) : list elem * sout :=
  let n := zlen l in
  match o with
  | Append e => if has l (e_id e) then (l, SRaise ValueError) else (l ++ [e], SNone)
  | Insert i e => if has l (e_id e) then (l, SRaise ValueError)
                  else (insert_at (Z.to_nat (clamp_insert n i)) e l, SNone)
  | Extend es | IAdd es =>
      match spec_extend l es with Some l' => (l', SNone) | None => (l, SRaise ValueError) end
  | Add e => match spec_extend l [e] with Some l' => (l', SNone) | None => (l, SRaise ValueError) end
  | Union es => (spec_union l es, SNone)
  | ISub xs => match spec_removes l xs with Some l' => (l', SNone) | None => (l, SRaise ValueError) end
  | SetItem i e =>
      match norm_index n i with
      | None => (l, SRaise IndexError)
      | Some p =>
          match find_index (e_id e) l with
          | Some q => if q =? p then (set_at (Z.to_nat p) e l, SNone) else (l, SRaise ValueError)
          | None => (set_at (Z.to_nat p) e l, SNone)
          end
      end
  | SetSlice s es =>
      if slice_step s =? 0 then (l, SRaise ValueError)
      else if existsb (fun e => has l (e_id e)) es || negb (nodupz (ids es)) then (l, SRaise ValueError)
      else if slice_step s =? 1 then
        let '(a, b) := slice_bounds1 s n in (firstn a l ++ es ++ skipn b l, SNone)
      else let ps := slice_positions s n in
           if zlen es =? zlen ps then (assign_positions l ps es, SNone) else (l, SRaise ValueError)
  | DelItem i =>
      match norm_index n i with
      | None => (l, SRaise IndexError)
      | Some p => (remove_at (Z.to_nat p) l, SNone)
      end
  | DelSlice s =>
      if slice_step s =? 0 then (l, SRaise ValueError)
      else (delete_positions l (slice_positions s n), SNone)
  | Pop None =>
      if n =? 0 then (l, SRaise IndexError)
      else match znth l (n - 1) with
           | Some e => (remove_at (Z.to_nat (n - 1)) l, SElem e) | None => (l, SRaise IndexError) end
  | Pop (Some i) =>
      match norm_index n i with
      | None => (l, SRaise IndexError)
      | Some p => match znth l p with
                  | Some e => (remove_at (Z.to_nat p) l, SElem e) | None => (l, SRaise IndexError) end
      end
  | Remove x => match spec_remove l x with Some l' => (l', SNone) | None => (l, SRaise ValueError) end
  | Sort rev => let s := sort_ids l in ((if rev then List.rev s else s), SNone)
  | Reverse => (List.rev l, SNone)
  | Copy => (l, SList l)
  | Pickle => (l, SList (map (fun e => mkE (e_id e) (-1)) l))
  | GetItem i =>
      match norm_index n i with
      | None => (l, SRaise IndexError)
      | Some p => match znth l p with Some e => (l, SElem e) | None => (l, SRaise IndexError) end
      end
  | GetSlice s =>
      if slice_step s =? 0 then (l, SRaise ValueError)
      else (l, SList (get_positions l (slice_positions s n)))
  | Query m => (l, SList (filter (fun e => memz (e_id e) m) l))
  | Plus es => match spec_extend l es with Some l' => (l, SList l') | None => (l, SRaise ValueError) end
  | Minus xs => match spec_removes l xs with Some l' => (l, SList l') | None => (l, SRaise ValueError) end
  | Index x => match spec_index l x with Some i => (l, SInt i) | None => (l, SRaise ValueError) end
  | Contains x => (l, SBool (has l (key_id x)))
  | HasId k => (l, SBool (has l k))
  | GetById k =>
      match find (fun e => e_id e =? k) l with
      | Some e => (l, SElem e) | None => (l, SRaise KeyError) end
  | Len => (l, SInt n)
  end.

(* relation between the outputs of the concrete and the abstract step; a freshly built
   DictList must itself be coherent and hold the specified elements                    *)
Definition out_rel (o : out) (s : sout) : Prop :=
  match o, s with
  | ONone, SNone => True
  | OInt a, SInt b => a = b
  | OBool a, SBool b => a = b
  | OElem a, SElem b => a = b
  | ODL d, SList l => items d = l /\ Coherent d
  | ORaise a, SRaise b => a = b
  | _, _ => False
  end.
