(* Correspondence + monitor functions evaluated (vm_compute) on the observations the
   harness took from the real DictList.  Nothing here is a theorem.                   *)
From Coq Require Import ZArith List Bool.
From Cobra.DictList Require Import Model.
Import ListNotations.
Open Scope Z_scope.

Inductive oout :=
| XNone | XInt (z : Z) | XBool (b : bool) | XElem (e : elem)
| XDL (l : list elem) (dct : list (Z * Z)) | XRaise (x : exc) | XOther.

Record obs := mkObs { o_items : list elem; o_dict : list (Z * Z); o_out : oout }.

Fixpoint assoc (k : Z) (l : list (Z * Z)) : option Z :=
  match l with [] => None | (a, b) :: r => if a =? k then Some b else assoc k r end.

Fixpoint list_eqb {A} (eq : A -> A -> bool) (a b : list A) : bool :=
  match a, b with
  | [], [] => true
  | x :: r, y :: s => eq x y && list_eqb eq r s
  | _, _ => false
  end.

Definition optz_eqb (a b : option Z) : bool :=
  match a, b with Some x, Some y => x =? y | None, None => true | _, _ => false end.

Definition dict_agrees (al : list Z) (f : Z -> option Z) (dct : list (Z * Z)) : bool :=
  forallb (fun k => optz_eqb (f k) (assoc k dct)) al &&
  forallb (fun kv => memz (fst kv) al) dct.

Definition exc_eqb (a b : exc) : bool :=
  match a, b with
  | ValueError, ValueError | IndexError, IndexError | KeyError, KeyError => true
  | _, _ => false end.

Definition out_agrees (al : list Z) (o : out) (x : oout) : bool :=
  match o, x with
  | ONone, XNone => true
  | OInt a, XInt b => a =? b
  | OBool a, XBool b => Bool.eqb a b
  | OElem a, XElem b => elem_eqb a b
  | ODL d, XDL l dct => list_eqb elem_eqb (items d) l && dict_agrees al (idx d) dct
  | ORaise a, XRaise b => exc_eqb a b
  | _, _ => false
  end.

(* the property itself, on what was observed of the implementation *)
Definition obs_coherent (al : list Z) (o : obs) : bool :=
  coherent_on al (o_items o) (fun k => assoc k (o_dict o)) &&
  forallb (fun kv => memz (fst kv) al) (o_dict o) &&
  match o_out o with
  | XDL l dct => coherent_on al l (fun k => assoc k dct) && forallb (fun kv => memz (fst kv) al) dct
  | _ => true end.

Definition obs_same (a b : obs) : bool :=
  list_eqb elem_eqb (o_items a) (o_items b) &&
  list_eqb (fun x y => (fst x =? fst y) && (snd x =? snd y)) (o_dict a) (o_dict b).

Definition is_raise (o : obs) : bool := match o_out o with XRaise _ | XOther => true | _ => false end.

(* codes: 1 = model and implementation differ, 2 = observed list not coherent,
          3 = an operation raised and changed the list                              *)
Fixpoint check_steps (al : list Z) (d : dl) (prev : obs) (steps : list (op * obs)) (n : nat)
  : list (nat * nat) :=
  match steps with
  | [] => []
  | (o, ob) :: r =>
      let '(d', out) := step d o in
      let c1 := list_eqb elem_eqb (items d') (o_items ob) && dict_agrees al (idx d') (o_dict ob)
                && out_agrees al out (o_out ob) in
      let c2 := obs_coherent al ob in
      let c3 := negb (is_raise ob) || obs_same prev ob in
      (if c1 then [] else [(n, 1%nat)]) ++ (if c2 then [] else [(n, 2%nat)]) ++
      (if c3 then [] else [(n, 3%nat)]) ++
      (* after a disagreement continue from the implementation's state *)
      check_steps al (if c1 then d' else mkDL (o_items ob) (fun k => assoc k (o_dict ob))) ob r (S n)
  end.

Definition check_case (c : list Z * list elem * obs * list (op * obs)) : list (nat * nat) :=
  let '(al, init, ob0, steps) := c in
  let d := fresh init in
  let c1 := list_eqb elem_eqb (items d) (o_items ob0) && dict_agrees al (idx d) (o_dict ob0) in
  (if c1 && obs_coherent al ob0 then [] else [(0%nat, 1%nat)]) ++
  check_steps al (mkDL (o_items ob0) (fun k => assoc k (o_dict ob0))) ob0 steps 1.

Definition failing (cases : list (Z * (list Z * list elem * obs * list (op * obs))))
  : list (Z * list (nat * nat)) :=
  filter (fun r => match snd r with [] => false | _ => true end)
         (map (fun c => (fst c, check_case (snd c))) cases).
