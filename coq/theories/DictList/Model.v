(* Executable model of cobra.core.dictlist.DictList  (property C15).

   The Python object is a list subclass plus a dictionary `_dict : id -> position`.
   The model keeps both: `items` is the Python list, `idx` the dictionary (a total
   function into `option Z`; it is only ever evaluated on finitely many identifiers).
   `step` mirrors the method bodies of /repo/src/cobra/core/dictlist.py statement by
   statement: lookups go through `idx` (as the code's go through `_dict`) and `idx` is
   maintained incrementally exactly where the code does so (append, extend, insert,
   pop, item assignment/deletion) and rebuilt (`mk_index` = `_generate_index`) exactly
   where the code rebuilds it (sort, reverse, slice assignment/deletion, unpickling).

   Identifiers are integers (the harness maps the id strings of a case onto 0,1,2,.. in
   string order, so that `sort` agrees); object identity is an integer tag.            *)
From Coq Require Import ZArith List Bool Lia.
Import ListNotations.
Open Scope Z_scope.

Record elem := mkE { e_id : Z; e_obj : Z }.

Definition elem_eqb (a b : elem) : bool := (e_id a =? e_id b) && (e_obj a =? e_obj b).

Definition dict := Z -> option Z.
Definition dempty : dict := fun _ => None.
Definition dset (d : dict) (k v : Z) : dict := fun k' => if k' =? k then Some v else d k'.
Definition dpop (d : dict) (k : Z) : dict := fun k' => if k' =? k then None else d k'.
Definition dmap (f : Z -> Z) (d : dict) : dict :=
  fun k => match d k with Some v => Some (f v) | None => None end.
Definition dhas (d : dict) (k : Z) : bool := match d k with Some _ => true | None => false end.

Record dl := mkDL { items : list elem; idx : dict }.

(* ---------- list helpers (positions are Z, Python style) ---------- *)

Definition zlen {A} (l : list A) : Z := Z.of_nat (length l).

Definition znth {A} (l : list A) (i : Z) : option A :=
  if i <? 0 then None else nth_error l (Z.to_nat i).

(* position of the first element with identifier k *)
Fixpoint find_from (k : Z) (l : list elem) (pos : Z) : option Z :=
  match l with
  | [] => None
  | e :: r => if e_id e =? k then Some pos else find_from k r (pos + 1)
  end.
Definition find_index (k : Z) (l : list elem) : option Z := find_from k l 0.

(* `_generate_index`: {v.id: k for k, v in enumerate(self)}; for a list with unique
   identifiers this is `find_index`.  Later entries overwrite earlier ones in Python;
   the model is only compared with the code on lists the code can reach, and the
   theorems carry uniqueness as part of `Coherent`.                                   *)
Fixpoint mk_from (l : list elem) (pos : Z) (d : dict) : dict :=
  match l with
  | [] => d
  | e :: r => mk_from r (pos + 1) (dset d (e_id e) pos)
  end.
Definition mk_index (l : list elem) : dict := mk_from l 0 dempty.

Definition insert_at {A} (n : nat) (x : A) (l : list A) : list A := firstn n l ++ x :: skipn n l.
Definition remove_at {A} (n : nat) (l : list A) : list A := firstn n l ++ skipn (S n) l.
Definition set_at {A} (n : nat) (x : A) (l : list A) : list A :=
  if Nat.ltb n (length l) then firstn n l ++ x :: skipn (S n) l else l.

Definition ids (l : list elem) : list Z := map e_id l.
Definition memz (k : Z) (l : list Z) : bool := existsb (Z.eqb k) l.
Fixpoint nodupz (l : list Z) : bool :=
  match l with [] => true | x :: r => negb (memz x r) && nodupz r end.

(* ---------- Python slices (PySlice_Unpack / PySlice_AdjustIndices) ---------- *)

Record pyslice := mkS { s_start : option Z; s_stop : option Z; s_step : option Z }.

Definition slice_step (s : pyslice) : Z := match s_step s with Some z => z | None => 1 end.

Definition adj (len step : Z) (v : option Z) (is_start : bool) : Z :=
  match v with
  | None => if step <? 0 then (if is_start then len - 1 else -1)
            else (if is_start then 0 else len)
  | Some v =>
      if v <? 0 then
        let v' := v + len in
        if v' <? 0 then (if step <? 0 then -1 else 0) else v'
      else if v >=? len then (if step <? 0 then len - 1 else len)
      else v
  end.

Definition slice_len (start stop step : Z) : Z :=
  if step <? 0 then (if stop <? start then (start - stop - 1) / (- step) + 1 else 0)
  else (if start <? stop then (stop - start - 1) / step + 1 else 0).

Fixpoint range_from (start step : Z) (n : nat) : list Z :=
  match n with O => [] | S m => start :: range_from (start + step) step m end.

(* the positions selected by slice s in a list of length len *)
Definition slice_positions (s : pyslice) (len : Z) : list Z :=
  let step := slice_step s in
  let start := adj len step (s_start s) true in
  let stop := adj len step (s_stop s) false in
  range_from start step (Z.to_nat (slice_len start stop step)).

Definition get_positions {A} (l : list A) (ps : list Z) : list A :=
  flat_map (fun p => match znth l p with Some x => [x] | None => [] end) ps.

(* extended-slice assignment: one element per position *)
Fixpoint assign_positions {A} (l : list A) (ps : list Z) (ys : list A) : list A :=
  match ps, ys with
  | p :: ps', y :: ys' => assign_positions (set_at (Z.to_nat p) y l) ps' ys'
  | _, _ => l
  end.

(* deletion of a set of positions: keep the elements whose position is not selected *)
Fixpoint delete_positions_from {A} (l : list A) (ps : list Z) (pos : Z) : list A :=
  match l with
  | [] => []
  | x :: r => if memz pos ps then delete_positions_from r ps (pos + 1)
              else x :: delete_positions_from r ps (pos + 1)
  end.
Definition delete_positions {A} (l : list A) (ps : list Z) : list A := delete_positions_from l ps 0.

(* contiguous bounds used by list_ass_slice when step = 1 *)
Definition slice_bounds1 (s : pyslice) (len : Z) : nat * nat :=
  let start := adj len 1 (s_start s) true in
  let stop := adj len 1 (s_stop s) false in
  let stop := if stop <? start then start else stop in
  (Z.to_nat start, Z.to_nat stop).

(* ---------- operations ---------- *)

Inductive key := KId (k : Z) | KObj (e : elem).
Definition key_id (x : key) : Z := match x with KId k => k | KObj e => e_id e end.

Inductive op :=
| Append (e : elem) | Insert (i : Z) (e : elem) | Extend (es : list elem) | IAdd (es : list elem)
| Add (e : elem) | Union (es : list elem) | ISub (xs : list key)
| SetItem (i : Z) (e : elem) | SetSlice (s : pyslice) (es : list elem)
| DelItem (i : Z) | DelSlice (s : pyslice)
| Pop (oi : option Z) | Remove (x : key) | Sort (rev : bool) | Reverse
| Copy | Pickle | GetItem (i : Z) | GetSlice (s : pyslice) | Query (matching : list Z)
| Plus (es : list elem) | Minus (xs : list key)
| Index (x : key) | Contains (x : key) | HasId (k : Z) | GetById (k : Z) | Len.

Inductive exc := ValueError | IndexError | KeyError.

Inductive out :=
| ONone | OInt (z : Z) | OBool (b : bool) | OElem (e : elem)
| ODL (d : dl)            (* a freshly built DictList *)
| ORaise (x : exc).

(* Python's index normalisation for item access: i in [-len, len) *)
Definition norm_index (len i : Z) : option Z :=
  if (i <? - len) || (i >=? len) then None else Some (if i <? 0 then i + len else i).

(* list.insert clamps instead of raising *)
Definition clamp_insert (len i : Z) : Z :=
  let i := if i <? 0 then i + len else i in
  if i <? 0 then 0 else if i >? len then len else i.

(* `index(x)`: by identifier through the dictionary; an object must also be the one stored *)
Definition index_of (d : dl) (x : key) : option Z :=
  match x with
  | KId k => idx d k
  | KObj e => match idx d (e_id e) with
              | Some i => match znth (items d) i with
                          | Some e' => if e_obj e' =? e_obj e then Some i else None
                          | None => None
                          end
              | None => None
              end
  end.

(* append, as in the code: _check, then _dict[id] = len(self), then list.append *)
Definition do_append (d : dl) (e : elem) : option dl :=
  if dhas (idx d) (e_id e) then None
  else Some (mkDL (items d ++ [e]) (dset (idx d) (e_id e) (zlen (items d)))).

(* extend (after the repair): all-or-nothing; the new identifiers are entered one by one *)
Fixpoint extend_idx (d : dict) (es : list elem) (pos : Z) : option dict :=
  match es with
  | [] => Some d
  | e :: r => if dhas d (e_id e) then None else extend_idx (dset d (e_id e) pos) r (pos + 1)
  end.
Definition do_extend (d : dl) (es : list elem) : option dl :=
  match extend_idx (idx d) es (zlen (items d)) with
  | Some d' => Some (mkDL (items d ++ es) d')
  | None => None
  end.

(* _extend_nocheck on a fresh DictList: list.extend, then _generate_index *)
Definition fresh (l : list elem) : dl := mkDL l (mk_index l).

(* pop at a normalised position p: list.pop, _dict.pop(id), shift the entries behind *)
Definition do_pop_at (d : dl) (p : Z) : dl * out :=
  match znth (items d) p with
  | None => (d, ORaise IndexError)
  | Some e =>
      match idx d (e_id e) with
      | None => (d, ORaise KeyError)        (* unreachable on coherent lists *)
      | Some index =>
          let d1 := dpop (idx d) (e_id e) in
          (mkDL (remove_at (Z.to_nat p) (items d))
                (dmap (fun j => if j >? index then j - 1 else j) d1), OElem e)
      end
  end.

Definition do_remove (d : dl) (x : key) : dl * out :=
  match index_of d x with
  | None => (d, ORaise ValueError)
  | Some i => do_pop_at d i
  end.

Fixpoint do_removes (d : dl) (xs : list key) : option dl :=
  match xs with
  | [] => Some d
  | x :: r => match do_remove d x with
              | (d', OElem _) => do_removes d' r
              | _ => None
              end
  end.

Fixpoint do_union (d : dl) (es : list elem) : dl :=
  match es with
  | [] => d
  | e :: r => match do_append d e with Some d' => do_union d' r | None => do_union d r end
  end.

(* sort by identifier (identifiers are unique on every list the theorems speak about,
   so stability is irrelevant): insertion sort                                         *)
Fixpoint ins_sorted (e : elem) (l : list elem) : list elem :=
  match l with
  | [] => [e]
  | x :: r => if e_id e <=? e_id x then e :: l else x :: ins_sorted e r
  end.
Definition sort_ids (l : list elem) : list elem := fold_right ins_sorted [] l.

Definition step (d : dl) (o : op) : dl * out :=
  let l := items d in
  let n := zlen l in
  match o with
  | Append e =>
      match do_append d e with Some d' => (d', ONone) | None => (d, ORaise ValueError) end
  | Insert i e =>
      if dhas (idx d) (e_id e) then (d, ORaise ValueError)
      else let p := clamp_insert n i in
           (mkDL (insert_at (Z.to_nat p) e l)
                 (dset (dmap (fun j => if j >=? p then j + 1 else j) (idx d)) (e_id e) p), ONone)
  | Extend es | IAdd es =>
      match do_extend d es with Some d' => (d', ONone) | None => (d, ORaise ValueError) end
  | Add e =>
      match do_extend d [e] with Some d' => (d', ONone) | None => (d, ORaise ValueError) end
  | Union es => (do_union d es, ONone)
  | ISub xs =>
      match do_removes d xs with Some d' => (d', ONone) | None => (d, ORaise ValueError) end
  | SetItem i e =>
      match norm_index n i with
      | None => (d, ORaise IndexError)
      | Some p =>
          match znth l p with
          | None => (d, ORaise IndexError)
          | Some old =>
              (* an identifier already present at another position is refused *)
              match idx d (e_id e) with
              | Some q => if q =? p
                          then (mkDL (set_at (Z.to_nat p) e l) (dset (idx d) (e_id e) p), ONone)
                          else (d, ORaise ValueError)
              | None =>
                  let d1 := match idx d (e_id old) with
                            | Some q => if q =? p then dpop (idx d) (e_id old) else idx d
                            | None => idx d end in
                  (mkDL (set_at (Z.to_nat p) e l) (dset d1 (e_id e) p), ONone)
              end
          end
      end
  | SetSlice s es =>
      if (slice_step s =? 0) then (d, ORaise ValueError)
      else if existsb (fun e => dhas (idx d) (e_id e)) es || negb (nodupz (ids es))
      then (d, ORaise ValueError)
      else if slice_step s =? 1 then
        let '(a, b) := slice_bounds1 s n in
        (fresh (firstn a l ++ es ++ skipn b l), ONone)
      else
        let ps := slice_positions s n in
        if zlen es =? zlen ps then (fresh (assign_positions l ps es), ONone)
        else (d, ORaise ValueError)
  | DelItem i =>
      match norm_index n i with
      | None => (d, ORaise IndexError)
      | Some p => match do_pop_at d p with (d', OElem _) => (d', ONone) | r => r end
      end
  | DelSlice s =>
      if (slice_step s =? 0) then (d, ORaise ValueError)
      else (fresh (delete_positions l (slice_positions s n)), ONone)
  | Pop None =>
      if n =? 0 then (d, ORaise IndexError) else do_pop_at d (n - 1)
  | Pop (Some i) =>
      match norm_index n i with
      | None => (d, ORaise IndexError)
      | Some p => do_pop_at d p
      end
  | Remove x => match do_remove d x with (d', OElem _) => (d', ONone) | r => r end
  | Sort rev =>
      let s := sort_ids l in
      (fresh (if rev then List.rev s else s), ONone)
  | Reverse => (fresh (List.rev l), ONone)
  | Copy => (d, ODL (mkDL l (idx d)))
  | Pickle => (d, ODL (fresh (map (fun e => mkE (e_id e) (-1)) l)))
  | GetItem i =>
      match norm_index n i with
      | None => (d, ORaise IndexError)
      | Some p => match znth l p with Some e => (d, OElem e) | None => (d, ORaise IndexError) end
      end
  | GetSlice s =>
      if (slice_step s =? 0) then (d, ORaise ValueError)
      else (d, ODL (fresh (get_positions l (slice_positions s n))))
  | Query m => (d, ODL (fresh (filter (fun e => memz (e_id e) m) l)))
  | Plus es =>
      match do_extend (fresh l) es with
      | Some d' => (d, ODL d') | None => (d, ORaise ValueError) end
  | Minus xs =>
      match do_removes (fresh l) xs with
      | Some d' => (d, ODL d') | None => (d, ORaise ValueError) end
  | Index x =>
      match index_of d x with Some i => (d, OInt i) | None => (d, ORaise ValueError) end
  | Contains x => (d, OBool (dhas (idx d) (key_id x)))
  | HasId k => (d, OBool (dhas (idx d) k))
  | GetById k =>
      match idx d k with
      | Some i => match znth l i with Some e => (d, OElem e) | None => (d, ORaise IndexError) end
      | None => (d, ORaise KeyError)
      end
  | Len => (d, OInt n)
  end.

Definition empty : dl := mkDL [] dempty.
Definition run (ops : list op) (d : dl) : dl := fold_left (fun d o => fst (step d o)) ops d.

(* ---------- the invariant, as a Prop and as the boolean the monitor evaluates ---------- *)

Definition Coherent (d : dl) : Prop :=
  NoDup (ids (items d)) /\ forall k, idx d k = find_index k (items d).

(* boolean version over a finite identifier alphabet `al` (must contain every identifier
   that ever occurred; the harness passes the alphabet of the case)                    *)
Definition coherent_on (al : list Z) (l : list elem) (f : Z -> option Z) : bool :=
  nodupz (ids l) &&
  forallb (fun k => match f k, find_index k l with
                    | Some a, Some b => a =? b
                    | None, None => true
                    | _, _ => false end) al.
