(* C15 proofs: every operation of the DictList model preserves coherence of the index,
   refines the abstract unique-id list, and leaves the list unchanged when it raises. *)
From Coq Require Import ZArith List Bool Lia Permutation.
From Cobra.DictList Require Import Model Spec Lemmas.
Import ListNotations.
Open Scope Z_scope.

Lemma coh_has d k : Coherent d -> dhas (idx d) k = has (items d) k.
Proof.
  intros [_ Hi]. unfold has. rewrite <- find_index_has. unfold dhas. rewrite Hi. reflexivity.
Qed.

Lemma has_In l k : has l k = true <-> In k (ids l).
Proof. apply memz_In. Qed.
Lemma has_false l k : has l k = false <-> ~ In k (ids l).
Proof. apply memz_false. Qed.

(* ---------- append ---------- *)

Lemma append_coherent d e :
  Coherent d -> has (items d) (e_id e) = false ->
  Coherent (mkDL (items d ++ [e]) (dset (idx d) (e_id e) (zlen (items d)))).
Proof.
  intros [Hnd Hi] Hf. apply has_false in Hf. split; cbn [items idx].
  - replace (items d ++ [e]) with (items d ++ e :: []) by reflexivity.
    apply NoDup_ids_insert; rewrite app_nil_r; assumption.
  - intros k. rewrite find_index_app, find_index_cons, find_index_nil. unfold dset.
    destruct (Z.eqb_spec k (e_id e)) as [->|Hne].
    + apply find_index_none in Hf. rewrite Hf, Z.eqb_refl. cbn [option_map]. f_equal. lia.
    + rewrite Hi. destruct (find_index k (items d)); [reflexivity|].
      destruct (Z.eqb_spec (e_id e) k); [congruence|reflexivity].
Qed.

Lemma do_append_ok d e :
  Coherent d ->
  match do_append d e with
  | Some d' => has (items d) (e_id e) = false /\ Coherent d' /\ items d' = items d ++ [e]
  | None => has (items d) (e_id e) = true
  end.
Proof.
  intros Hc. unfold do_append. rewrite (coh_has d _ Hc).
  destruct (has (items d) (e_id e)) eqn:E; [reflexivity|].
  split; [reflexivity|]. split; [apply append_coherent; assumption | reflexivity].
Qed.

(* ---------- extend ---------- *)

Lemma extend_idx_none dct es pos :
  extend_idx dct es pos = None <->
  existsb (fun e => dhas dct (e_id e)) es || negb (nodupz (ids es)) = true.
Proof.
  revert dct pos. induction es as [|e r IH]; intros dct pos; cbn [extend_idx existsb ids map nodupz].
  - cbn. split; discriminate.
  - fold (ids r). destruct (dhas dct (e_id e)) eqn:Eh; [cbn; tauto|].
    rewrite IH. cbn [orb].
    assert (Hex : existsb (fun e0 => dhas (dset dct (e_id e) pos) (e_id e0)) r =
                  existsb (fun e0 => dhas dct (e_id e0)) r || memz (e_id e) (ids r)).
    { clear. induction r as [|x r IH]; [reflexivity|].
      cbn [existsb ids map]. fold (ids r). rewrite IH. unfold memz. cbn [existsb].
      fold (memz (e_id e) (ids r)). unfold dhas at 1, dset.
      rewrite (Z.eqb_sym (e_id e) (e_id x)).
      generalize (existsb (fun e0 => dhas dct (e_id e0)) r) as A.
      generalize (memz (e_id e) (ids r)) as B. intros B A.
      unfold dhas. destruct (e_id x =? e_id e); destruct (dct (e_id x)); destruct A; destruct B; reflexivity. }
    rewrite Hex. generalize (existsb (fun e0 => dhas dct (e_id e0)) r) as A. intros A.
    destruct A; destruct (memz (e_id e) (ids r)); destruct (nodupz (ids r)); cbn; tauto.
Qed.

Lemma extend_idx_some dct es pos d' :
  extend_idx dct es pos = Some d' ->
  forall k, d' k = match find_index k es with Some j => Some (pos + j) | None => dct k end.
Proof.
  revert dct pos. induction es as [|e r IH]; intros dct pos; cbn [extend_idx].
  - intros H k. injection H as <-. reflexivity.
  - destruct (dhas dct (e_id e)) eqn:Eh; [discriminate|]. intros H k.
    rewrite (IH _ _ H k), find_index_cons.
    destruct (Z.eqb_spec (e_id e) k) as [Heq|Hne].
    + subst k. destruct (find_index (e_id e) r) as [j|] eqn:E.
      * exfalso. assert (Hn : extend_idx (dset dct (e_id e) pos) r (pos + 1) = None).
        { apply extend_idx_none. apply orb_true_iff. left. apply existsb_exists.
          destruct (find_index_nth _ _ _ E) as [x [Hx Hid]]. exists x. split.
          - unfold znth in Hx. destruct (j <? 0); [discriminate|]. eapply nth_error_In; eauto.
          - unfold dhas, dset. rewrite Hid, Z.eqb_refl. reflexivity. }
        congruence.
      * cbn [option_map]. unfold dset. rewrite Z.eqb_refl. f_equal. lia.
    + destruct (find_index k r); cbn [option_map]; [f_equal; lia|].
      unfold dset. destruct (Z.eqb_spec k (e_id e)); [congruence|reflexivity].
Qed.

Lemma NoDup_app_intro {A} (a b : list A) :
  NoDup a -> NoDup b -> (forall x, In x a -> ~ In x b) -> NoDup (a ++ b).
Proof.
  induction a as [|y a IH]; cbn [app]; intros Ha Hb H; [exact Hb|].
  inversion Ha as [|? ? Hnin Ha']; subst. constructor.
  - intros Hin. apply in_app_or in Hin as [Hin|Hin]; [contradiction|].
    apply (H y); [left; reflexivity | exact Hin].
  - apply IH; auto. intros x Hx. apply H. right. exact Hx.
Qed.

Lemma NoDup_ids_app l es :
  NoDup (ids l) -> NoDup (ids es) -> (forall e, In e es -> ~ In (e_id e) (ids l)) ->
  NoDup (ids (l ++ es)).
Proof.
  intros H1 H2 H3. rewrite ids_app. apply NoDup_app_intro; auto.
  intros x Hx Hin. apply in_map_iff in Hin as [e [He Hin]]. subst. apply (H3 e Hin Hx).
Qed.

Lemma spec_extend_some l es l' :
  spec_extend l es = Some l' ->
  l' = l ++ es /\ NoDup (ids es) /\ (forall e, In e es -> ~ In (e_id e) (ids l)).
Proof.
  unfold spec_extend. destruct (existsb _ es || negb (nodupz (ids es))) eqn:E; [discriminate|].
  intros H. injection H as <-. apply orb_false_iff in E as [E1 E2].
  split; [reflexivity|]. split.
  - apply nodupz_NoDup. apply negb_false_iff. exact E2.
  - intros e Hin. apply has_false.
    destruct (has l (e_id e)) eqn:Eh; [|reflexivity].
    assert (existsb (fun e => has l (e_id e)) es = true) by (apply existsb_exists; eauto).
    congruence.
Qed.

Lemma do_extend_ok d es :
  Coherent d ->
  match do_extend d es, spec_extend (items d) es with
  | Some d', Some l' => Coherent d' /\ items d' = l'
  | None, None => True
  | _, _ => False
  end.
Proof.
  intros Hc. unfold do_extend.
  assert (Hex : existsb (fun e => dhas (idx d) (e_id e)) es = existsb (fun e => has (items d) (e_id e)) es).
  { induction es as [|e r IH]; cbn [existsb]; [reflexivity|]. rewrite IH, (coh_has _ _ Hc). reflexivity. }
  destruct (extend_idx (idx d) es (zlen (items d))) as [d'|] eqn:E.
  - destruct (spec_extend (items d) es) as [l'|] eqn:Es.
    + apply spec_extend_some in Es as [-> [Hnd Hfresh]]. split; [|reflexivity].
      destruct Hc as [Hnd0 Hi]. split; cbn [items idx].
      * apply NoDup_ids_app; assumption.
      * intros k. rewrite (extend_idx_some _ _ _ _ E k), find_index_app, Hi.
        destruct (find_index k (items d)) as [i|] eqn:Ei.
        -- destruct (find_index k es) as [j|] eqn:Ej; [|reflexivity].
           exfalso. destruct (find_index_nth _ _ _ Ej) as [x [Hx Hid]].
           apply (Hfresh x).
           ++ unfold znth in Hx. destruct (j <? 0); [discriminate|]. eapply nth_error_In; eauto.
           ++ rewrite Hid. destruct (in_dec Z.eq_dec k (ids (items d))) as [Hin|Hnin]; [exact Hin|].
              apply find_index_none in Hnin. congruence.
        -- destruct (find_index k es); reflexivity.
    + unfold spec_extend in Es. rewrite <- Hex in Es.
      destruct (existsb _ es || negb (nodupz (ids es))) eqn:Eb; [|discriminate].
      apply (proj2 (extend_idx_none (idx d) es (zlen (items d)))) in Eb. rewrite Eb in E. discriminate.
  - apply extend_idx_none in E. unfold spec_extend. rewrite <- Hex, E. exact I.
Qed.

(* ---------- union ---------- *)

Lemma do_union_ok es : forall d,
  Coherent d -> Coherent (do_union d es) /\ items (do_union d es) = spec_union (items d) es.
Proof.
  induction es as [|e r IH]; intros d Hc; cbn [do_union spec_union].
  - split; [exact Hc | reflexivity].
  - pose proof (do_append_ok d e Hc) as Ha. destruct (do_append d e) as [d'|].
    + destruct Ha as [Hf [Hc' Hit]]. rewrite Hf. rewrite <- Hit. apply IH. exact Hc'.
    + rewrite Ha. apply IH. exact Hc.
Qed.

(* ---------- pop / remove ---------- *)

Lemma do_pop_at_ok d p e :
  Coherent d -> znth (items d) p = Some e ->
  exists d', do_pop_at d p = (d', OElem e) /\ Coherent d' /\ items d' = remove_at (Z.to_nat p) (items d).
Proof.
  intros [Hnd Hi] Hn. unfold do_pop_at. rewrite Hn.
  pose proof (find_index_unique _ _ _ Hnd Hn) as Hf. rewrite Hi, Hf.
  eexists. split; [reflexivity|]. split; [|reflexivity].
  destruct (split_at _ _ _ Hn) as [Hsplit Hlen].
  set (l1 := firstn (Z.to_nat p) (items d)) in *. set (l2 := skipn (S (Z.to_nat p)) (items d)) in *.
  unfold remove_at. fold l1 l2. rewrite Hsplit in Hnd. split; cbn [items idx].
  - eapply NoDup_ids_remove; eauto.
  - intros k. rewrite (find_index_remove k l1 e l2 Hnd). unfold dmap, dpop.
    destruct (Z.eqb_spec k (e_id e)); [reflexivity|].
    rewrite Hi, Hsplit at 1. rewrite Hlen. reflexivity.
Qed.

Lemma do_pop_at_none d p : znth (items d) p = None -> do_pop_at d p = (d, ORaise IndexError).
Proof. intros H. unfold do_pop_at. rewrite H. reflexivity. Qed.

Lemma index_of_ok d x : Coherent d -> index_of d x = spec_index (items d) x.
Proof.
  intros [_ Hi]. destruct x as [k|e]; cbn [index_of spec_index]; rewrite Hi; reflexivity.
Qed.

Lemma spec_index_nth l x i : spec_index l x = Some i -> exists e, znth l i = Some e.
Proof.
  destruct x as [k|e]; cbn [spec_index].
  - intros H. destruct (find_index_nth _ _ _ H) as [e [He _]]. eauto.
  - destruct (find_index (e_id e) l) as [j|] eqn:E; [|discriminate].
    destruct (znth l j) as [e'|] eqn:En; [|discriminate].
    destruct (e_obj e' =? e_obj e); [|discriminate]. intros H. injection H as <-. eauto.
Qed.

Lemma do_remove_ok d x :
  Coherent d ->
  match spec_remove (items d) x with
  | Some l' => exists d' e, do_remove d x = (d', OElem e) /\ Coherent d' /\ items d' = l'
  | None => do_remove d x = (d, ORaise ValueError)
  end.
Proof.
  intros Hc. unfold spec_remove, do_remove. rewrite (index_of_ok d x Hc).
  destruct (spec_index (items d) x) as [i|] eqn:E; [|reflexivity].
  destruct (spec_index_nth _ _ _ E) as [e He].
  destruct (do_pop_at_ok d i e Hc He) as [d' [H1 [H2 H3]]]. exists d', e. auto.
Qed.

Lemma do_removes_ok xs : forall d,
  Coherent d ->
  match spec_removes (items d) xs with
  | Some l' => exists d', do_removes d xs = Some d' /\ Coherent d' /\ items d' = l'
  | None => do_removes d xs = None
  end.
Proof.
  induction xs as [|x r IH]; intros d Hc; cbn [spec_removes do_removes].
  - exists d. auto.
  - pose proof (do_remove_ok d x Hc) as Hr. destruct (spec_remove (items d) x) as [l'|].
    + destruct Hr as [d' [e [H1 [H2 H3]]]]. rewrite H1. subst l'. apply IH. exact H2.
    + rewrite Hr. reflexivity.
Qed.

(* ---------- uniqueness is kept by the list surgery used for sort / reverse / slices ---------- *)

Lemma ins_sorted_perm e l : Permutation (ins_sorted e l) (e :: l).
Proof.
  induction l as [|x r IH]; cbn [ins_sorted]; [reflexivity|].
  destruct (e_id e <=? e_id x); [reflexivity|].
  rewrite IH. apply perm_swap.
Qed.

Lemma sort_ids_perm l : Permutation (sort_ids l) l.
Proof.
  induction l as [|x r IH]; cbn; [reflexivity|].
  rewrite ins_sorted_perm. constructor. exact IH.
Qed.

Lemma NoDup_ids_perm l l' : Permutation l l' -> NoDup (ids l) -> NoDup (ids l').
Proof. intros Hp. apply Permutation_NoDup. apply Permutation_map. exact Hp. Qed.

Lemma NoDup_ids_rev l : NoDup (ids l) -> NoDup (ids (rev l)).
Proof. apply NoDup_ids_perm. apply Permutation_rev. Qed.

Lemma NoDup_ids_filter f l : NoDup (ids l) -> NoDup (ids (filter f l)).
Proof.
  induction l as [|x r IH]; cbn [filter ids map]; [auto|].
  intros H. inversion H as [|? ? Hnin Hnd]; subst. destruct (f x); [|apply IH; exact Hnd].
  cbn [ids map]. constructor; [|apply IH; exact Hnd].
  intros Hin. apply Hnin. apply in_map_iff in Hin as [y [Hy Hin]].
  apply filter_In in Hin as [Hin _]. apply in_map_iff. eauto.
Qed.

Lemma NoDup_ids_pickle l : NoDup (ids l) -> NoDup (ids (map (fun e => mkE (e_id e) (-1)) l)).
Proof. unfold ids. rewrite map_map. cbn [e_id]. auto. Qed.

Lemma In_firstn {A} n (l : list A) x : In x (firstn n l) -> In x l.
Proof. intros H. rewrite <- (firstn_skipn n l). apply in_or_app. left. exact H. Qed.
Lemma In_skipn {A} n (l : list A) x : In x (skipn n l) -> In x l.
Proof. intros H. rewrite <- (firstn_skipn n l). apply in_or_app. right. exact H. Qed.

Lemma firstn_skipn_sub {A} (a b : nat) (l : list A) x :
  In x (firstn a l ++ skipn b l) -> In x l.
Proof.
  intros Hin. apply in_app_or in Hin as [H|H]; [eapply In_firstn | eapply In_skipn]; eauto.
Qed.

Lemma NoDup_skipn {A} n : forall (l : list A), NoDup l -> NoDup (skipn n l).
Proof.
  induction n as [|n IH]; intros [|x r] H; cbn [skipn]; auto.
  inversion H; subst. apply IH. assumption.
Qed.

Lemma NoDup_firstn_skipn {A} (l : list A) : forall (a b : nat),
  (a <= b)%nat -> NoDup l -> NoDup (firstn a l ++ skipn b l).
Proof.
  induction l as [|x r IH]; intros a b Hab Hnd.
  - rewrite firstn_nil, skipn_nil. constructor.
  - destruct a as [|a].
    + cbn [firstn app]. apply NoDup_skipn. exact Hnd.
    + destruct b as [|b]; [lia|]. cbn [firstn skipn app].
      inversion Hnd as [|? ? Hnin Hnd']; subst. constructor; [|apply IH; [lia|exact Hnd']].
      intros Hin. apply Hnin. eapply firstn_skipn_sub; eauto.
Qed.

Lemma NoDup_slice_assign1 (a b : nat) l es :
  (a <= b)%nat -> NoDup (ids l) -> NoDup (ids es) ->
  (forall e, In e es -> ~ In (e_id e) (ids l)) ->
  NoDup (ids (firstn a l ++ es ++ skipn b l)).
Proof.
  intros Hab Hnd Hes Hfresh.
  apply NoDup_ids_perm with (l := (firstn a l ++ skipn b l) ++ es).
  - rewrite <- app_assoc. apply Permutation_app_head. apply Permutation_app_comm.
  - apply NoDup_ids_app; [| exact Hes |].
    + rewrite ids_app. unfold ids. rewrite <- firstn_map, <- skipn_map.
      apply NoDup_firstn_skipn; assumption.
    + intros e He Hin. apply (Hfresh e He). apply in_map_iff in Hin as [x [Hx Hin]].
      apply in_map_iff. exists x. split; [exact Hx|]. eapply firstn_skipn_sub; eauto.
Qed.

Lemma set_at_fresh n y l :
  NoDup (ids l) -> ~ In (e_id y) (ids l) ->
  NoDup (ids (set_at n y l)) /\ (forall k, In k (ids (set_at n y l)) -> k = e_id y \/ In k (ids l)).
Proof.
  intros Hnd Hf. unfold set_at. destruct (Nat.ltb_spec n (length l)) as [Hlt|Hge]; [|auto].
  destruct (nth_error l n) as [x|] eqn:En; [|apply nth_error_None in En; lia].
  assert (Hsplit : l = firstn n l ++ x :: skipn (S n) l).
  { assert (Hz : znth l (Z.of_nat n) = Some x).
    { unfold znth. destruct (Z.ltb_spec (Z.of_nat n) 0); [lia|]. rewrite Nat2Z.id. exact En. }
    destruct (split_at _ _ _ Hz) as [Hs _]. rewrite Nat2Z.id in Hs. exact Hs. }
  set (l1 := firstn n l) in *. set (l2 := skipn (S n) l) in *.
  rewrite Hsplit in Hnd, Hf. split.
  - apply NoDup_ids_insert.
    + eapply NoDup_ids_remove; eauto.
    + intros Hin. apply Hf. rewrite ids_app in *. cbn [ids map].
      apply in_app_or in Hin as [H|H]; apply in_or_app; [left|right; right]; exact H.
  - intros k Hin. rewrite ids_app in Hin. cbn [ids map] in Hin.
    apply in_app_or in Hin as [H|[H|H]].
    + right. rewrite Hsplit, ids_app. apply in_or_app. left. exact H.
    + left. congruence.
    + right. rewrite Hsplit, ids_app. apply in_or_app. right. right. exact H.
Qed.

Lemma NoDup_assign_positions ps : forall l ys,
  NoDup (ids l) -> NoDup (ids ys) -> (forall e, In e ys -> ~ In (e_id e) (ids l)) ->
  NoDup (ids (assign_positions l ps ys)).
Proof.
  induction ps as [|p ps IH]; intros l ys Hnd Hys Hfresh; cbn [assign_positions]; [exact Hnd|].
  destruct ys as [|y ys]; [exact Hnd|].
  cbn [ids map] in Hys. inversion Hys as [|? ? Hnin Hys']; subst.
  destruct (set_at_fresh (Z.to_nat p) y l Hnd (Hfresh y (or_introl eq_refl))) as [H1 H2].
  apply IH; [exact H1 | exact Hys' |].
  intros e He Hin. destruct (H2 _ Hin) as [Heq|Hin'].
  - apply Hnin. rewrite <- Heq. apply in_map. exact He.
  - apply (Hfresh e (or_intror He) Hin').
Qed.

Lemma delete_positions_sub {A} ps : forall (l : list A) pos x,
  In x (delete_positions_from l ps pos) -> In x l.
Proof.
  intros l. induction l as [|y r IH]; intros pos x; cbn [delete_positions_from]; [auto|].
  destruct (memz pos ps); [intros H; right; eapply IH; eauto|].
  intros [H|H]; [left; exact H | right; eapply IH; eauto].
Qed.

Lemma delete_positions_map {A B} (f : A -> B) ps : forall (l : list A) pos,
  map f (delete_positions_from l ps pos) = delete_positions_from (map f l) ps pos.
Proof.
  intros l. induction l as [|y r IH]; intros pos; cbn [delete_positions_from map]; [reflexivity|].
  destruct (memz pos ps); [apply IH|]. cbn [map]. f_equal. apply IH.
Qed.

Lemma NoDup_delete_positions ps l : NoDup (ids l) -> NoDup (ids (delete_positions l ps)).
Proof.
  unfold delete_positions, ids. rewrite delete_positions_map. generalize (map e_id l) as zs.
  intros zs. generalize 0 as pos. induction zs as [|z r IH]; intros pos Hnd;
    cbn [delete_positions_from]; [constructor|].
  inversion Hnd as [|? ? Hnin Hnd']; subst.
  destruct (memz pos ps); [apply IH; exact Hnd'|].
  constructor; [|apply IH; exact Hnd'].
  intros Hin. apply Hnin. eapply delete_positions_sub; eauto.
Qed.

(* positions produced by a slice are pairwise distinct (step <> 0) *)
Lemma range_from_In start step n p :
  In p (range_from start step n) -> exists j, 0 <= j < Z.of_nat n /\ p = start + j * step.
Proof.
  revert start. induction n as [|n IH]; intros start; cbn [range_from]; [intros []|].
  intros [H|H].
  - exists 0. split; [lia|lia].
  - destruct (IH _ H) as [j [Hj Hp]]. exists (j + 1). split; [lia|]. lia.
Qed.

Lemma range_from_NoDup start step n : step <> 0 -> NoDup (range_from start step n).
Proof.
  intros Hs. revert start. induction n as [|n IH]; intros start; cbn [range_from]; constructor.
  - intros Hin. apply range_from_In in Hin as [j [Hj Hp]].
    assert (Hm : (j + 1) * step = 0) by lia. apply Z.mul_eq_0 in Hm. lia.
  - apply IH.
Qed.

Lemma NoDup_get_positions l ps :
  NoDup (ids l) -> NoDup ps -> NoDup (ids (get_positions l ps)).
Proof.
  intros Hnd. induction ps as [|p ps IH]; intros Hps; cbn [get_positions flat_map]; [constructor|].
  inversion Hps as [|? ? Hnin Hps']; subst. fold (get_positions l ps).
  destruct (znth l p) as [e|] eqn:En; cbn [app]; [|apply IH; exact Hps'].
  cbn [ids map]. constructor; [|apply IH; exact Hps'].
  intros Hin. apply in_map_iff in Hin as [x [Hid Hin]].
  unfold get_positions in Hin. apply in_flat_map in Hin as [q [Hq Hx]].
  destruct (znth l q) as [x'|] eqn:Eq; [|destruct Hx]. destruct Hx as [->|[]].
  pose proof (find_index_unique _ _ _ Hnd En) as F1.
  pose proof (find_index_unique _ _ _ Hnd Eq) as F2. rewrite Hid in F2.
  assert (p = q) by congruence. subst. contradiction.
Qed.

Lemma slice_positions_NoDup s n : slice_step s <> 0 -> NoDup (slice_positions s n).
Proof. intros H. unfold slice_positions. apply range_from_NoDup. exact H. Qed.

(* ---------- the combined one-step theorem ---------- *)

Definition out_coherent (o : out) : Prop := match o with ODL d => Coherent d | _ => True end.

Lemma set_item_same d p e old :
  Coherent d -> znth (items d) p = Some old -> e_id old = e_id e ->
  Coherent (mkDL (set_at (Z.to_nat p) e (items d)) (dset (idx d) (e_id e) p)).
Proof.
  intros [Hnd Hi] Hn Hid. destruct (split_at _ _ _ Hn) as [Hsplit Hlen].
  pose proof (znth_range _ _ _ Hn) as Hr. unfold set_at.
  destruct (Nat.ltb_spec (Z.to_nat p) (length (items d))) as [_|Hge]; [|unfold zlen in Hr; lia].
  set (l1 := firstn (Z.to_nat p) (items d)) in *. set (l2 := skipn (S (Z.to_nat p)) (items d)) in *.
  assert (Hnd' : NoDup (ids (l1 ++ old :: l2))) by (rewrite <- Hsplit; exact Hnd).
  assert (Hfresh : ~ In (e_id e) (ids (l1 ++ l2))).
  { rewrite <- Hid. rewrite !ids_app in *. cbn [ids map] in Hnd'. apply NoDup_remove_2 in Hnd'. exact Hnd'. }
  split; cbn [items idx].
  - apply NoDup_ids_insert; [eapply NoDup_ids_remove; eauto | exact Hfresh].
  - intros k. rewrite (find_index_replace k l1 old e l2 Hfresh Hnd'). unfold dset.
    rewrite Hlen. destruct (Z.eqb_spec k (e_id e)); [reflexivity|].
    destruct (Z.eqb_spec k (e_id old)); [congruence|]. rewrite Hi, Hsplit at 1. reflexivity.
Qed.

Lemma set_item_new d p e old :
  Coherent d -> znth (items d) p = Some old -> idx d (e_id e) = None ->
  Coherent (mkDL (set_at (Z.to_nat p) e (items d))
                 (dset (match idx d (e_id old) with
                        | Some q => if q =? p then dpop (idx d) (e_id old) else idx d
                        | None => idx d end) (e_id e) p)).
Proof.
  intros [Hnd Hi] Hn Hnone. destruct (split_at _ _ _ Hn) as [Hsplit Hlen].
  pose proof (znth_range _ _ _ Hn) as Hr. unfold set_at.
  destruct (Nat.ltb_spec (Z.to_nat p) (length (items d))) as [_|Hge]; [|unfold zlen in Hr; lia].
  rewrite (Hi (e_id old)), (find_index_unique _ _ _ Hnd Hn), Z.eqb_refl.
  set (l1 := firstn (Z.to_nat p) (items d)) in *. set (l2 := skipn (S (Z.to_nat p)) (items d)) in *.
  assert (Hnd' : NoDup (ids (l1 ++ old :: l2))) by (rewrite <- Hsplit; exact Hnd).
  assert (Hfresh : ~ In (e_id e) (ids (l1 ++ l2))).
  { rewrite Hi in Hnone. apply find_index_none in Hnone. rewrite Hsplit in Hnone.
    intros Hin. apply Hnone. rewrite !ids_app in *. cbn [ids map].
    apply in_app_or in Hin as [H|H]; apply in_or_app; [left|right; right]; exact H. }
  split; cbn [items idx].
  - apply NoDup_ids_insert; [eapply NoDup_ids_remove; eauto | exact Hfresh].
  - intros k. rewrite (find_index_replace k l1 old e l2 Hfresh Hnd'). unfold dset, dpop.
    rewrite Hlen. destruct (Z.eqb_spec k (e_id e)); [reflexivity|].
    destruct (Z.eqb_spec k (e_id old)); [reflexivity|]. rewrite Hi, Hsplit at 1. reflexivity.
Qed.

Lemma insert_coherent d i e :
  Coherent d -> has (items d) (e_id e) = false ->
  let p := clamp_insert (zlen (items d)) i in
  Coherent (mkDL (insert_at (Z.to_nat p) e (items d))
                 (dset (dmap (fun j => if j >=? p then j + 1 else j) (idx d)) (e_id e) p)).
Proof.
  intros [Hnd Hi] Hf p. apply has_false in Hf.
  assert (Hp : 0 <= p <= zlen (items d)).
  { unfold p, clamp_insert. pose proof (zlen_nonneg (items d)).
    destruct (i <? 0); [destruct (i + zlen (items d) <? 0) eqn:E1; [lia|];
      destruct (i + zlen (items d) >? zlen (items d)) eqn:E2; lia|].
    destruct (Z.ltb_spec i 0) as [?|?]; [lia|]. destruct (Z.gtb_spec i (zlen (items d))); lia. }
  unfold insert_at.
  set (l1 := firstn (Z.to_nat p) (items d)). set (l2 := skipn (Z.to_nat p) (items d)).
  assert (Hsplit : items d = l1 ++ l2) by (symmetry; apply firstn_skipn).
  assert (Hlen : zlen l1 = p) by (apply zlen_firstn; exact Hp).
  rewrite Hsplit in Hnd, Hf. split; cbn [items idx].
  - apply NoDup_ids_insert; assumption.
  - intros k. rewrite (find_index_insert k l1 e l2 Hf). unfold dset, dmap. rewrite Hlen.
    destruct (Z.eqb_spec k (e_id e)); [reflexivity|]. rewrite Hi, Hsplit at 1. reflexivity.
Qed.

Lemma norm_index_range n i p : norm_index n i = Some p -> 0 <= p < n.
Proof.
  unfold norm_index. destruct (Z.ltb_spec i (- n)) as [H1|H1]; destruct (Z.geb_spec i n) as [H2|H2];
    cbn [orb]; try discriminate. intros Hs. injection Hs as <-. destruct (Z.ltb_spec i 0); lia.
Qed.

Lemma slice_bounds1_le s n a b : slice_bounds1 s n = (a, b) -> (a <= b)%nat.
Proof.
  unfold slice_bounds1. intros Hs. injection Hs as <- <-.
  destruct (Z.ltb_spec (adj n 1 (s_stop s) false) (adj n 1 (s_start s) true)); lia.
Qed.

Lemma fresh_args_ok d es :
  Coherent d ->
  existsb (fun e => dhas (idx d) (e_id e)) es || negb (nodupz (ids es)) = false ->
  NoDup (ids es) /\ (forall e, In e es -> ~ In (e_id e) (ids (items d))).
Proof.
  intros Hc E. apply orb_false_iff in E as [E1 E2]. split.
  - apply nodupz_NoDup. apply negb_false_iff. exact E2.
  - intros e He. apply has_false. rewrite <- (coh_has d _ Hc).
    destruct (dhas (idx d) (e_id e)) eqn:Eh; [|reflexivity].
    assert (existsb (fun e => dhas (idx d) (e_id e)) es = true) by (apply existsb_exists; eauto).
    congruence.
Qed.

Lemma existsb_has_eq d es :
  Coherent d ->
  existsb (fun e => dhas (idx d) (e_id e)) es = existsb (fun e => has (items d) (e_id e)) es.
Proof.
  intros Hc. induction es as [|e r IH]; cbn [existsb]; [reflexivity|].
  rewrite IH, (coh_has _ _ Hc). reflexivity.
Qed.

Lemma find_by_id l k :
  NoDup (ids l) ->
  find (fun e => e_id e =? k) l = match find_index k l with Some i => znth l i | None => None end.
Proof.
  induction l as [|x r IH]; intros Hnd; cbn [find].
  - reflexivity.
  - rewrite find_index_cons. destruct (Z.eqb_spec (e_id x) k) as [Heq|Hne]; [reflexivity|].
    cbn [ids map] in Hnd. inversion Hnd; subst. rewrite IH by assumption.
    destruct (find_index k r) as [j|] eqn:E; cbn [option_map]; [|reflexivity].
    apply find_index_range in E. rewrite znth_cons.
    destruct (Z.eqb_spec (1 + j) 0); [lia|]. destruct (Z.ltb_spec (1 + j) 0); [lia|].
    f_equal. lia.
Qed.

Theorem step_ok d o :
  Coherent d ->
  Coherent (fst (step d o)) /\
  items (fst (step d o)) = fst (spec_step (items d) o) /\
  out_rel (snd (step d o)) (snd (spec_step (items d) o)).
Proof.
  intros Hc. pose proof Hc as [Hnd Hi].
  destruct o as [e|i e|es|es|e|es|xs|i e|s es|i|s|oi|x|rv| | | |i|s|m|es|xs|x|x|k|k| ];
    cbn [step spec_step].
  - (* Append *)
    pose proof (do_append_ok d e Hc) as Ha. destruct (do_append d e) as [d'|].
    + destruct Ha as [Hf [Hc' Hit]]. rewrite Hf. cbn. auto.
    + rewrite Ha. cbn. auto.
  - (* Insert *)
    rewrite (coh_has d _ Hc). destruct (has (items d) (e_id e)) eqn:E; cbn [fst snd out_rel]; [auto|].
    split; [apply insert_coherent; assumption | auto].
  - (* Extend *)
    pose proof (do_extend_ok d es Hc) as He.
    destruct (do_extend d es) as [d'|]; destruct (spec_extend (items d) es) as [l'|];
      try contradiction; cbn; [destruct He; auto | auto].
  - (* IAdd *)
    pose proof (do_extend_ok d es Hc) as He.
    destruct (do_extend d es) as [d'|]; destruct (spec_extend (items d) es) as [l'|];
      try contradiction; cbn; [destruct He; auto | auto].
  - (* Add *)
    pose proof (do_extend_ok d [e] Hc) as He.
    destruct (do_extend d [e]) as [d'|]; destruct (spec_extend (items d) [e]) as [l'|];
      try contradiction; cbn; [destruct He; auto | auto].
  - (* Union *)
    destruct (do_union_ok es d Hc) as [H1 H2]. cbn. auto.
  - (* ISub *)
    pose proof (do_removes_ok xs d Hc) as Hr. destruct (spec_removes (items d) xs) as [l'|].
    + destruct Hr as [d' [H1 [H2 H3]]]. rewrite H1. cbn. auto.
    + rewrite Hr. cbn. auto.
  - (* SetItem *)
    destruct (norm_index (zlen (items d)) i) as [p|] eqn:En; [|cbn; auto].
    apply norm_index_range in En. destruct (znth_some (items d) p En) as [old Hold].
    rewrite Hold. rewrite Hi.
    destruct (find_index (e_id e) (items d)) as [q|] eqn:Ef.
    + destruct (Z.eqb_spec q p) as [->|Hne]; [|cbn; auto]. cbn [fst snd out_rel].
      split; [|auto]. destruct (find_index_nth _ _ _ Ef) as [x [Hx Hid]].
      assert (x = old) by congruence. subst x.
      eapply set_item_same; eauto.
    + cbn [fst snd out_rel]. split; [|auto].
      rewrite <- Hi in Ef. eapply set_item_new; eauto.
  - (* SetSlice *)
    destruct (slice_step s =? 0) eqn:E0; [cbn; auto|].
    rewrite <- (existsb_has_eq d es Hc).
    destruct (existsb (fun e => dhas (idx d) (e_id e)) es || negb (nodupz (ids es))) eqn:Eb; [cbn; auto|].
    destruct (fresh_args_ok d es Hc Eb) as [Hes Hfresh].
    destruct (slice_step s =? 1).
    + destruct (slice_bounds1 s (zlen (items d))) as [a b] eqn:Esb. cbn [fst snd out_rel].
      split; [|auto]. apply fresh_coherent. apply NoDup_slice_assign1; auto.
      eapply slice_bounds1_le; eauto.
    + destruct (zlen es =? zlen (slice_positions s (zlen (items d)))); [|cbn; auto].
      cbn [fst snd out_rel]. split; [|auto]. apply fresh_coherent.
      apply NoDup_assign_positions; auto.
  - (* DelItem *)
    destruct (norm_index (zlen (items d)) i) as [p|] eqn:En; [|cbn; auto].
    apply norm_index_range in En. destruct (znth_some (items d) p En) as [old Hold].
    destruct (do_pop_at_ok d p old Hc Hold) as [d' [H1 [H2 H3]]]. rewrite H1. cbn. auto.
  - (* DelSlice *)
    destruct (slice_step s =? 0) eqn:E0; [cbn; auto|]. cbn [fst snd out_rel].
    split; [|auto]. apply fresh_coherent. apply NoDup_delete_positions. exact Hnd.
  - (* Pop *)
    destruct oi as [i|].
    + destruct (norm_index (zlen (items d)) i) as [p|] eqn:En; [|cbn; auto].
      apply norm_index_range in En. destruct (znth_some (items d) p En) as [old Hold].
      destruct (do_pop_at_ok d p old Hc Hold) as [d' [H1 [H2 H3]]]. rewrite H1, Hold. cbn. auto.
    + destruct (Z.eqb_spec (zlen (items d)) 0) as [E|E]; [cbn; auto|].
      pose proof (zlen_nonneg (items d)).
      destruct (znth_some (items d) (zlen (items d) - 1)) as [old Hold]; [lia|].
      destruct (do_pop_at_ok d _ old Hc Hold) as [d' [H1 [H2 H3]]]. rewrite H1, Hold. cbn. auto.
  - (* Remove *)
    pose proof (do_remove_ok d x Hc) as Hr. destruct (spec_remove (items d) x) as [l'|].
    + destruct Hr as [d' [e [H1 [H2 H3]]]]. rewrite H1. cbn. auto.
    + rewrite Hr. cbn. auto.
  - (* Sort *)
    cbn [fst snd out_rel]. split; [|auto]. apply fresh_coherent.
    destruct rv; [apply NoDup_ids_rev|]; eapply NoDup_ids_perm; try (symmetry; apply sort_ids_perm); exact Hnd.
  - (* Reverse *)
    cbn [fst snd out_rel]. split; [|auto]. apply fresh_coherent. apply NoDup_ids_rev. exact Hnd.
  - (* Copy *)
    cbn. repeat split; auto.
  - (* Pickle *)
    cbn [fst snd out_rel items]. repeat split; auto.
    + apply NoDup_ids_pickle. exact Hnd.
    + intros k. cbn. apply mk_index_spec. apply NoDup_ids_pickle. exact Hnd.
  - (* GetItem *)
    destruct (norm_index (zlen (items d)) i) as [p|]; [|cbn; auto].
    destruct (znth (items d) p); cbn; auto.
  - (* GetSlice *)
    destruct (Z.eqb_spec (slice_step s) 0) as [E0|E0]; [cbn; auto|]. cbn [fst snd out_rel items].
    repeat split; auto; try apply fresh_coherent;
      apply NoDup_get_positions; auto; apply slice_positions_NoDup; exact E0.
  - (* Query *)
    cbn [fst snd out_rel items]. repeat split; auto; try apply fresh_coherent;
      apply NoDup_ids_filter; exact Hnd.
  - (* Plus *)
    pose proof (do_extend_ok (fresh (items d)) es (fresh_coherent _ Hnd)) as He.
    cbn [items fresh] in He.
    destruct (do_extend (fresh (items d)) es) as [d'|]; destruct (spec_extend (items d) es) as [l'|];
      try contradiction; cbn; [destruct He; auto | auto].
  - (* Minus *)
    pose proof (do_removes_ok xs (fresh (items d)) (fresh_coherent _ Hnd)) as Hr.
    cbn [items fresh] in Hr. destruct (spec_removes (items d) xs) as [l'|].
    + destruct Hr as [d' [H1 [H2 H3]]]. rewrite H1. cbn. auto.
    + rewrite Hr. cbn. auto.
  - (* Index *)
    rewrite (index_of_ok d x Hc). destruct (spec_index (items d) x); cbn; auto.
  - (* Contains *)
    cbn. rewrite (coh_has d _ Hc). auto.
  - (* HasId *)
    cbn. rewrite (coh_has d _ Hc). auto.
  - (* GetById *)
    rewrite (find_by_id _ k Hnd), Hi. destruct (find_index k (items d)) as [i|] eqn:E; [|cbn; auto].
    destruct (find_index_nth _ _ _ E) as [e [He _]]. rewrite He. cbn. auto.
  - (* Len *)
    cbn. auto.
Qed.

(* an operation that raises leaves list and index untouched (true by construction of the
   repaired code; no coherence hypothesis is needed)                                   *)
Theorem step_raise_unchanged d o x : snd (step d o) = ORaise x -> fst (step d o) = d.
Proof.
  assert (Hpop : forall p y, snd (do_pop_at d p) = ORaise y -> fst (do_pop_at d p) = d).
  { intros p y. unfold do_pop_at. destruct (znth (items d) p); [|reflexivity].
    destruct (idx d (e_id e)); [discriminate|reflexivity]. }
  assert (Hrem : forall k y, snd (do_remove d k) = ORaise y -> fst (do_remove d k) = d).
  { intros k y. unfold do_remove. destruct (index_of d k); [apply Hpop|reflexivity]. }
  destruct o as [e|i e|es|es|e|es|xs|i e|s es|i|s|oi|k|rv| | | |i|s|m|es|xs|k|k|k|k| ];
    cbn [step].
  - destruct (do_append d e); [discriminate|reflexivity].
  - destruct (dhas (idx d) (e_id e)); [reflexivity|discriminate].
  - destruct (do_extend d es); [discriminate|reflexivity].
  - destruct (do_extend d es); [discriminate|reflexivity].
  - destruct (do_extend d [e]); [discriminate|reflexivity].
  - discriminate.
  - destruct (do_removes d xs); [discriminate|reflexivity].
  - destruct (norm_index _ i); [|reflexivity]. destruct (znth _ z); [|reflexivity].
    destruct (idx d (e_id e)); [destruct (z0 =? z); [discriminate|reflexivity]|discriminate].
  - destruct (slice_step s =? 0); [reflexivity|].
    destruct (_ || _); [reflexivity|]. destruct (slice_step s =? 1).
    + destruct (slice_bounds1 _ _). discriminate.
    + destruct (_ =? _); [discriminate|reflexivity].
  - destruct (norm_index _ i) as [p|]; [|reflexivity].
    specialize (Hpop p). destruct (do_pop_at d p) as [d' [ | | | | |y]]; cbn in *; try discriminate.
    intros _. eapply Hpop. reflexivity.
  - destruct (slice_step s =? 0); [reflexivity|discriminate].
  - destruct oi as [i|].
    + destruct (norm_index _ i) as [p|]; [apply Hpop|reflexivity].
    + destruct (_ =? 0); [reflexivity|apply Hpop].
  - specialize (Hrem k). destruct (do_remove d k) as [d' [ | | | | |y]]; cbn in *; try discriminate.
    intros _. eapply Hrem. reflexivity.
  - discriminate.
  - discriminate.
  - discriminate.
  - discriminate.
  - destruct (norm_index _ i); [|reflexivity]. destruct (znth _ z); reflexivity.
  - destruct (slice_step s =? 0); reflexivity.
  - reflexivity.
  - destruct (do_extend _ es); reflexivity.
  - destruct (do_removes _ xs); reflexivity.
  - destruct (index_of d k); reflexivity.
  - reflexivity.
  - reflexivity.
  - destruct (idx d k); [|reflexivity]. destruct (znth _ z); reflexivity.
  - reflexivity.
Qed.

Lemma empty_coherent : Coherent empty.
Proof. split; [constructor | reflexivity]. Qed.

Theorem run_coherent ops : forall d, Coherent d -> Coherent (run ops d).
Proof.
  unfold run. induction ops as [|o r IH]; intros d Hc; cbn [fold_left]; [exact Hc|].
  apply IH. apply step_ok. exact Hc.
Qed.

Theorem run_refines ops : forall d,
  Coherent d ->
  items (run ops d) = fold_left (fun l o => fst (spec_step l o)) ops (items d).
Proof.
  unfold run. induction ops as [|o r IH]; intros d Hc; cbn [fold_left]; [reflexivity|].
  destruct (step_ok d o Hc) as [H1 [H2 _]]. rewrite IH by exact H1. rewrite H2. reflexivity.
Qed.

(* what coherence means for the user: lookup by identifier finds the element at its
   actual position; membership and index agree with the contents; identifiers unique *)
Theorem coherent_meaning d :
  Coherent d ->
  NoDup (ids (items d)) /\
  (forall k i, idx d k = Some i <-> exists e, znth (items d) i = Some e /\ e_id e = k) /\
  (forall k, dhas (idx d) k = true <-> In k (ids (items d))) /\
  (forall i e, znth (items d) i = Some e ->
     snd (step d (Index (KObj e))) = OInt i /\ snd (step d (GetById (e_id e))) = OElem e /\
     snd (step d (Contains (KObj e))) = OBool true).
Proof.
  intros Hc. pose proof Hc as [Hnd Hi]. split; [exact Hnd|]. split; [|split].
  - intros k i. rewrite Hi. split.
    + apply find_index_nth.
    + intros [e [He Hk]]. subst k. apply find_index_unique; assumption.
  - intros k. rewrite (coh_has d k Hc). apply has_In.
  - intros i e He. pose proof (find_index_unique _ _ _ Hnd He) as Hf.
    cbn [step index_of]. rewrite !Hi, Hf, He, Z.eqb_refl. cbn [snd].
    repeat split. unfold dhas. cbn [key_id]. rewrite Hi, Hf. reflexivity.
Qed.

(* the boolean the monitor evaluates on an observed (list, _dict) pair is sound for the
   invariant on the identifiers of the alphabet                                        *)
Lemma coherent_on_sound al l f :
  coherent_on al l f = true ->
  NoDup (ids l) /\ forall k, In k al -> f k = find_index k l.
Proof.
  unfold coherent_on. rewrite andb_true_iff, nodupz_NoDup, forallb_forall.
  intros [H1 H2]. split; [exact H1|]. intros k Hk. specialize (H2 k Hk).
  destruct (f k), (find_index k l); try discriminate; [|reflexivity].
  apply Z.eqb_eq in H2. congruence.
Qed.
