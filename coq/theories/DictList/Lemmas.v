(* Basic facts about find_index / mk_index / list surgery used by the C15 proofs. *)
From Coq Require Import ZArith List Bool Lia Permutation.
From Cobra.DictList Require Import Model.
Import ListNotations.
Open Scope Z_scope.

Lemma zlen_app {A} (a b : list A) : zlen (a ++ b) = zlen a + zlen b.
Proof. unfold zlen. rewrite app_length. lia. Qed.
Lemma zlen_cons {A} (x : A) l : zlen (x :: l) = 1 + zlen l.
Proof. unfold zlen. cbn [length]. lia. Qed.
Lemma zlen_nonneg {A} (l : list A) : 0 <= zlen l.
Proof. unfold zlen. lia. Qed.
Lemma zlen_nil {A} : zlen (@nil A) = 0.
Proof. reflexivity. Qed.

Lemma memz_In k l : memz k l = true <-> In k l.
Proof.
  unfold memz. rewrite existsb_exists. split.
  - intros [x [Hin Heq]]. apply Z.eqb_eq in Heq. subst. exact Hin.
  - intros Hin. exists k. split; [exact Hin | apply Z.eqb_refl].
Qed.

Lemma memz_false k l : memz k l = false <-> ~ In k l.
Proof.
  rewrite <- memz_In. destruct (memz k l); intuition congruence.
Qed.

Lemma nodupz_NoDup l : nodupz l = true <-> NoDup l.
Proof.
  induction l as [|x r IH]; cbn [nodupz].
  - split; [constructor | reflexivity].
  - rewrite andb_true_iff, negb_true_iff, memz_false, IH. split.
    + intros [H1 H2]. constructor; assumption.
    + intros H. inversion H; subst. split; assumption.
Qed.

Lemma find_from_shift k l pos :
  find_from k l pos = option_map (Z.add pos) (find_from k l 0).
Proof.
  revert pos. induction l as [|e r IH]; intros pos; cbn [find_from].
  - reflexivity.
  - destruct (e_id e =? k).
    + cbn [option_map]. f_equal. lia.
    + rewrite (IH (pos + 1)), (IH (0 + 1)).
      destruct (find_from k r 0); cbn [option_map]; [f_equal; lia | reflexivity].
Qed.

Lemma find_index_nil k : find_index k [] = None.
Proof. reflexivity. Qed.

Lemma find_index_cons k e r :
  find_index k (e :: r) =
  if e_id e =? k then Some 0 else option_map (Z.add 1) (find_index k r).
Proof.
  unfold find_index. cbn [find_from]. destruct (e_id e =? k); [reflexivity|].
  rewrite find_from_shift. reflexivity.
Qed.

Lemma find_index_app k l1 l2 :
  find_index k (l1 ++ l2) =
  match find_index k l1 with
  | Some i => Some i
  | None => option_map (Z.add (zlen l1)) (find_index k l2)
  end.
Proof.
  induction l1 as [|e r IH].
  - cbn [app]. rewrite find_index_nil, zlen_nil.
    destruct (find_index k l2); cbn [option_map]; [f_equal; lia | reflexivity].
  - cbn [app]. rewrite !find_index_cons. destruct (e_id e =? k); [reflexivity|].
    rewrite IH. destruct (find_index k r); [reflexivity|].
    rewrite zlen_cons. destruct (find_index k l2); cbn [option_map]; [f_equal; lia | reflexivity].
Qed.

Lemma find_index_none k l : find_index k l = None <-> ~ In k (ids l).
Proof.
  induction l as [|e r IH].
  - rewrite find_index_nil. cbn. tauto.
  - rewrite find_index_cons. cbn [ids map In]. destruct (Z.eqb_spec (e_id e) k) as [Heq|Hne].
    + split; [discriminate | intros H; exfalso; apply H; left; exact Heq].
    + fold (ids r). destruct (find_index k r) eqn:E; cbn [option_map].
      * split; [discriminate|]. intros H. exfalso. apply H. right.
        destruct (in_dec Z.eq_dec k (ids r)) as [Hin|Hnin]; [exact Hin|].
        apply IH in Hnin. discriminate.
      * split; [|reflexivity]. intros _ [H|H]; [congruence|]. apply IH in H; [exact H|reflexivity].
Qed.

Lemma find_index_has k l : dhas (fun k => find_index k l) k = memz k (ids l).
Proof.
  unfold dhas. destruct (find_index k l) eqn:E.
  - symmetry. apply memz_In. destruct (in_dec Z.eq_dec k (ids l)) as [H|H]; [exact H|].
    apply find_index_none in H. congruence.
  - symmetry. apply memz_false. apply find_index_none. exact E.
Qed.

Lemma znth_nil {A} i : znth (@nil A) i = None.
Proof. unfold znth. destruct (i <? 0); [reflexivity|]. destruct (Z.to_nat i); reflexivity. Qed.

Lemma znth_cons {A} (x : A) l i :
  znth (x :: l) i = if i =? 0 then Some x else if i <? 0 then None else znth l (i - 1).
Proof.
  unfold znth. destruct (Z.ltb_spec i 0) as [Hlt|Hge].
  - destruct (Z.eqb_spec i 0); [lia|reflexivity].
  - destruct (Z.eqb_spec i 0) as [->|Hne]; [reflexivity|].
    destruct (Z.ltb_spec (i - 1) 0); [lia|].
    replace (Z.to_nat i) with (S (Z.to_nat (i - 1))) by lia. reflexivity.
Qed.

Lemma znth_range {A} (l : list A) i x : znth l i = Some x -> 0 <= i < zlen l.
Proof.
  unfold znth, zlen. destruct (Z.ltb_spec i 0) as [Hlt|Hge]; [discriminate|]. intros Hx.
  assert (Hn : (Z.to_nat i < length l)%nat) by (apply nth_error_Some; congruence). lia.
Qed.

Lemma znth_some {A} (l : list A) i : 0 <= i < zlen l -> exists x, znth l i = Some x.
Proof.
  unfold znth, zlen. intros Hr. destruct (Z.ltb_spec i 0) as [Hlt|Hge]; [lia|].
  destruct (nth_error l (Z.to_nat i)) eqn:E; [eauto|].
  apply nth_error_None in E. lia.
Qed.

Lemma find_index_nth k l i :
  find_index k l = Some i -> exists e, znth l i = Some e /\ e_id e = k.
Proof.
  revert i. induction l as [|e r IH]; intros i.
  - rewrite find_index_nil. discriminate.
  - rewrite find_index_cons. destruct (Z.eqb_spec (e_id e) k) as [Heq|Hne].
    + intros H. injection H as <-. exists e. split; [reflexivity | exact Heq].
    + destruct (find_index k r) as [j|] eqn:E; cbn [option_map]; [|discriminate].
      intros H. assert (Hi : i = 1 + j) by congruence. subst i. clear H.
      destruct (IH j eq_refl) as [e' [Hn He]].
      exists e'. split; [|exact He]. rewrite znth_cons.
      pose proof (znth_range _ _ _ Hn).
      destruct (Z.eqb_spec (1 + j) 0); [lia|]. destruct (Z.ltb_spec (1 + j) 0); [lia|].
      replace (1 + j - 1) with j by lia. exact Hn.
Qed.

Lemma find_index_range k l i : find_index k l = Some i -> 0 <= i < zlen l.
Proof. intros H. destruct (find_index_nth _ _ _ H) as [e [Hn _]]. eapply znth_range; eauto. Qed.

(* with unique identifiers, the position of an element is the index of its identifier *)
Lemma find_index_unique l i e :
  NoDup (ids l) -> znth l i = Some e -> find_index (e_id e) l = Some i.
Proof.
  revert i. induction l as [|x r IH]; intros i Hnd Hn.
  - rewrite znth_nil in Hn. discriminate.
  - cbn [ids map] in Hnd. inversion Hnd as [|? ? Hnin Hnd']; subst.
    rewrite znth_cons in Hn. rewrite find_index_cons.
    destruct (Z.eqb_spec i 0) as [->|Hne].
    + injection Hn as ->. rewrite Z.eqb_refl. reflexivity.
    + destruct (Z.ltb_spec i 0); [discriminate|].
      destruct (Z.eqb_spec (e_id x) (e_id e)) as [Heq|Hneq].
      * exfalso. apply Hnin. rewrite Heq.
        unfold znth in Hn. destruct (i - 1 <? 0); [discriminate|].
        apply nth_error_In in Hn. apply in_map. exact Hn.
      * rewrite (IH (i - 1) Hnd' Hn). cbn [option_map]. f_equal. lia.
Qed.

(* ---- mk_index ---- *)

Lemma mk_from_spec l : forall pos d k,
  NoDup (ids l) ->
  mk_from l pos d k = match find_from k l pos with Some v => Some v | None => d k end.
Proof.
  induction l as [|e r IH]; intros pos d k Hnd; cbn [mk_from find_from].
  - reflexivity.
  - cbn [ids map] in Hnd. inversion Hnd as [|? ? Hnin Hnd']; subst.
    rewrite IH by exact Hnd'. destruct (Z.eqb_spec (e_id e) k) as [Heq|Hne].
    + subst k. assert (E : find_from (e_id e) r (pos + 1) = None).
      { rewrite find_from_shift. change (find_from (e_id e) r 0) with (find_index (e_id e) r).
        apply find_index_none in Hnin. rewrite Hnin. reflexivity. }
      rewrite E. unfold dset. rewrite Z.eqb_refl. reflexivity.
    + destruct (find_from k r (pos + 1)); [reflexivity|].
      unfold dset. destruct (Z.eqb_spec k (e_id e)); [congruence|reflexivity].
Qed.

Lemma mk_index_spec l k : NoDup (ids l) -> mk_index l k = find_index k l.
Proof.
  intros Hnd. unfold mk_index, find_index. rewrite mk_from_spec by exact Hnd.
  destruct (find_from k l 0); reflexivity.
Qed.

Lemma fresh_coherent l : NoDup (ids l) -> Coherent (fresh l).
Proof. intros H. split; [exact H|]. intros k. cbn. apply mk_index_spec. exact H. Qed.

(* ---- surgery: l = l1 ++ e :: l2 ---- *)

Lemma split_at {A} (l : list A) (i : Z) x :
  znth l i = Some x ->
  l = firstn (Z.to_nat i) l ++ x :: skipn (S (Z.to_nat i)) l /\ zlen (firstn (Z.to_nat i) l) = i.
Proof.
  intros H. pose proof (znth_range _ _ _ H) as Hr. unfold znth in H.
  destruct (Z.ltb_spec i 0); [lia|]. unfold zlen in *.
  split.
  - rewrite <- (firstn_skipn (Z.to_nat i) l) at 1. f_equal.
    revert H. generalize (Z.to_nat i) as n. clear. intros n. revert l.
    induction n as [|n IH]; intros [|y r]; cbn; try discriminate.
    + intros H. injection H as ->. reflexivity.
    + intros H. apply IH. exact H.
  - rewrite firstn_length. lia.
Qed.

Lemma ids_app a b : ids (a ++ b) = ids a ++ ids b.
Proof. apply map_app. Qed.

Lemma NoDup_ids_remove l1 e l2 : NoDup (ids (l1 ++ e :: l2)) -> NoDup (ids (l1 ++ l2)).
Proof. rewrite !ids_app. cbn [ids map]. apply NoDup_remove_1. Qed.

Lemma NoDup_ids_insert l1 e l2 :
  NoDup (ids (l1 ++ l2)) -> ~ In (e_id e) (ids (l1 ++ l2)) -> NoDup (ids (l1 ++ e :: l2)).
Proof.
  rewrite !ids_app. cbn [ids map]. intros H1 H2.
  apply Permutation_NoDup with (l := e_id e :: map e_id l1 ++ map e_id l2).
  - apply Permutation_middle.
  - constructor; assumption.
Qed.

(* index after removing the element at the split point *)
Lemma find_index_remove k l1 e l2 :
  NoDup (ids (l1 ++ e :: l2)) ->
  find_index k (l1 ++ l2) =
  if k =? e_id e then None
  else match find_index k (l1 ++ e :: l2) with
       | Some j => Some (if j >? zlen l1 then j - 1 else j)
       | None => None end.
Proof.
  intros Hnd. rewrite !find_index_app, find_index_cons.
  rewrite ids_app in Hnd. cbn [ids map] in Hnd.
  assert (Hn1 : ~ In (e_id e) (map e_id l1)).
  { intros Hin. apply NoDup_remove_2 in Hnd. apply Hnd. apply in_or_app. left. exact Hin. }
  assert (Hn2 : ~ In (e_id e) (map e_id l2)).
  { intros Hin. apply NoDup_remove_2 in Hnd. apply Hnd. apply in_or_app. right. exact Hin. }
  destruct (Z.eqb_spec k (e_id e)) as [->|Hne].
  - apply find_index_none in Hn1. apply find_index_none in Hn2. rewrite Hn1, Hn2. reflexivity.
  - destruct (find_index k l1) as [i|] eqn:E1.
    + apply find_index_range in E1. destruct (Z.gtb_spec i (zlen l1)); [lia|reflexivity].
    + destruct (Z.eqb_spec (e_id e) k); [congruence|].
      destruct (find_index k l2) as [j|] eqn:E2; cbn [option_map]; [|reflexivity].
      apply find_index_range in E2. f_equal.
      destruct (Z.gtb_spec (zlen l1 + (1 + j)) (zlen l1)); lia.
Qed.

(* index after inserting a fresh element at the split point *)
Lemma find_index_insert k l1 e l2 :
  ~ In (e_id e) (ids (l1 ++ l2)) ->
  find_index k (l1 ++ e :: l2) =
  if k =? e_id e then Some (zlen l1)
  else match find_index k (l1 ++ l2) with
       | Some j => Some (if j >=? zlen l1 then j + 1 else j)
       | None => None end.
Proof.
  intros Hnin. rewrite !find_index_app, find_index_cons.
  rewrite ids_app in Hnin.
  destruct (Z.eqb_spec k (e_id e)) as [->|Hne].
  - assert (E1 : find_index (e_id e) l1 = None).
    { apply find_index_none. intros H. apply Hnin. apply in_or_app. left. exact H. }
    rewrite E1, Z.eqb_refl. cbn [option_map]. f_equal. lia.
  - destruct (find_index k l1) as [i|] eqn:E1.
    + apply find_index_range in E1. destruct (Z.geb_spec i (zlen l1)); [lia|reflexivity].
    + destruct (Z.eqb_spec (e_id e) k); [congruence|].
      destruct (find_index k l2) as [j|] eqn:E2; cbn [option_map]; [|reflexivity].
      apply find_index_range in E2. f_equal.
      destruct (Z.geb_spec (zlen l1 + j) (zlen l1)); lia.
Qed.

(* index after replacing the element at the split point *)
Lemma find_index_replace k l1 e e' l2 :
  ~ In (e_id e') (ids (l1 ++ l2)) -> NoDup (ids (l1 ++ e :: l2)) ->
  find_index k (l1 ++ e' :: l2) =
  if k =? e_id e' then Some (zlen l1)
  else if k =? e_id e then None else find_index k (l1 ++ e :: l2).
Proof.
  intros Hnin Hnd. rewrite (find_index_insert k l1 e' l2 Hnin).
  destruct (Z.eqb_spec k (e_id e')); [reflexivity|].
  rewrite (find_index_remove k l1 e l2 Hnd).
  destruct (Z.eqb_spec k (e_id e)); [reflexivity|].
  destruct (find_index k (l1 ++ e :: l2)) as [j|] eqn:E; [|reflexivity].
  f_equal.
  assert (j <> zlen l1).
  { intros ->. destruct (find_index_nth _ _ _ E) as [x [Hx Hid]].
    assert (Hx' : znth (l1 ++ e :: l2) (zlen l1) = Some e).
    { unfold znth, zlen. destruct (Z.ltb_spec (Z.of_nat (length l1)) 0); [lia|].
      rewrite Nat2Z.id, nth_error_app2 by lia. rewrite Nat.sub_diag. reflexivity. }
    congruence. }
  destruct (Z.gtb_spec j (zlen l1)); destruct (Z.geb_spec (j - 1) (zlen l1));
    destruct (Z.geb_spec j (zlen l1)); lia.
Qed.

Lemma insert_at_split {A} (n : nat) (x : A) l :
  insert_at n x l = firstn n l ++ x :: skipn n l.
Proof. reflexivity. Qed.

Lemma zlen_firstn {A} (l : list A) (p : Z) : 0 <= p <= zlen l -> zlen (firstn (Z.to_nat p) l) = p.
Proof. unfold zlen. intros H. rewrite firstn_length. lia. Qed.
