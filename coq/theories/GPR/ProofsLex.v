(* The tokenizer half of "reading back what to_string wrote": for token lists of the shape
   GPR._ast2str produces (atoms and operators alternate, parentheses around atoms) whose
   names are words,

     lex (render ts) = ts                                        (lex_render)
     escape_str (render ts) = render (ts with escaped names)     (escape_str_render)
     strip (render ts) = render ts, first character not blank, no call syntax.

   Everything is at the level of characters; the names are arbitrary (no bound on length). *)
From Coq Require Import ZArith List Bool Lia ZifyBool.
From Cobra.GPR Require Import Syntax Escape Proofs ProofsRepl.
Import ListNotations.
Open Scope Z_scope.

(* ------------------------------------------------------------ token lists *)
Definition ren (f : ident -> ident) (k : token) : token :=
  match k with TNAME w => TNAME (f w) | _ => k end.

(* st = true: an atom is expected; st = false: an atom has just been completed *)
Fixpoint alt (st : bool) (ts : list token) : bool :=
  match ts with
  | [] => negb st
  | k :: r =>
      if st then match k with TNAME _ => alt false r | TLP => alt true r | _ => false end
      else match k with TRP => alt false r | TAND | TOR | TAMP | TBAR => alt true r | _ => false end
  end.

Definition names_sat (Q : ident -> Prop) (ts : list token) : Prop := forall w, In (TNAME w) ts -> Q w.

Lemma names_sat_tail Q k r : names_sat Q (k :: r) -> names_sat Q r.
Proof. intros H w Hw. apply H. right. exact Hw. Qed.

Lemma names_sat_head Q w r : names_sat Q (TNAME w :: r) -> Q w.
Proof. intros H. apply H. left. reflexivity. Qed.

Lemma names_sat_ren (Q : ident -> Prop) f ts : names_sat (fun w => Q (f w)) ts -> names_sat Q (map (ren f) ts).
Proof.
  intros H w Hw. apply in_map_iff in Hw as [k [E Hk]]. destruct k; cbn in E; try discriminate.
  inversion E; subst. apply H. exact Hk.
Qed.

Lemma names_sat_impl (Q Q' : ident -> Prop) ts : (forall w, Q w -> Q' w) -> names_sat Q ts -> names_sat Q' ts.
Proof. intros I H w Hw. apply I, H, Hw. Qed.

Lemma alt_app st a b : alt st a = true -> alt st (a ++ b) = alt false b.
Proof.
  revert st. induction a as [|k a IH]; intros st H.
  - destruct st; [discriminate | reflexivity].
  - cbn [app]. destruct st, k; cbn [alt] in *; try discriminate; apply IH; exact H.
Qed.

Lemma alt_ren f st ts : alt st (map (ren f) ts) = alt st ts.
Proof.
  revert st. induction ts as [|k r IH]; intro st; [reflexivity|].
  cbn [map]. destruct st, k; cbn [alt ren]; try reflexivity; apply IH.
Qed.

Lemma alt_tail st k r : alt st (k :: r) = true ->
  exists st', alt st' r = true /\ match k with TNAME _ => st' = false | _ => True end.
Proof. destruct st, k; cbn [alt]; intro H; try discriminate; eauto. Qed.

Lemma alt_no_call st ts : alt st ts = true -> has_call ts = false.
Proof.
  revert st. induction ts as [|a r IH]; intros st H; [reflexivity|].
  destruct r as [|b r']; [reflexivity|].
  change (has_call (a :: b :: r')) with
    ((match a, b with TLP, TRP => true | _, TLP => ends_atom a | _, _ => false end) || has_call (b :: r')).
  destruct (alt_tail _ _ _ H) as [st' [H' _]]. rewrite (IH _ H'), orb_false_r.
  destruct st, a; cbn [alt] in H; try discriminate; destruct b; cbn [alt] in H; try discriminate; reflexivity.
Qed.

(* ------------------------------------------------------------ characters *)
Definition wordy (w : str) : Prop := w <> [] /\ forallb is_word w = true.
(* neither blank nor a parenthesis: every character of an identifier, escaped or not *)
Definition plain (x : Z) : bool := negb (is_ws x) && negb (x =? c_lp) && negb (x =? c_rp).
Definition plainw (w : str) : Prop := w <> [] /\ forallb plain w = true.
Definition nw_start (s : str) : bool := match s with [] => true | x :: _ => negb (is_word x) end.

Lemma word_plain x : is_word x = true -> plain x = true.
Proof. unfold is_word, is_digit, is_alpha, plain, is_ws, c_us, c_lp, c_rp. lia. Qed.

Lemma wordy_plainw w : wordy w -> plainw w.
Proof.
  intros [H1 H2]. split; [exact H1|]. apply forallb_forall. intros x Hx.
  rewrite forallb_forall in H2. apply word_plain, H2, Hx.
Qed.

Lemma render_cons k r : render (k :: r) = render_tok k ++ render r.
Proof. reflexivity. Qed.

Lemma render_after_atom r : alt false r = true -> nw_start (render r) = true.
Proof. destruct r as [|k r]; [reflexivity|]. destruct k; cbn [alt]; intro H; try discriminate; reflexivity. Qed.

(* first character of a text that begins where an atom is expected *)
Lemma first_char ts : alt true ts = true -> names_sat plainw ts ->
  exists x s, render ts = x :: s /\ is_ws x = false /\ (x =? c_rp) = false.
Proof.
  intros H Hn. destruct ts as [|k r]; [discriminate|]. destruct k; cbn [alt] in H; try discriminate.
  - exists c_lp, (render r). repeat split.
  - destruct (names_sat_head _ _ _ Hn) as [Hne Hp]. destruct w as [|x w']; [congruence|].
    exists x, (w' ++ render r). cbn [forallb] in Hp. apply andb_true_iff in Hp as [Hx _].
    unfold plain in Hx. repeat (apply andb_true_iff in Hx as [Hx ?]).
    repeat match goal with Hy : negb _ = true |- _ => apply negb_true_iff in Hy end.
    repeat split; assumption.
Qed.

Lemma last_char ts : forall st, alt st ts = true -> ts <> [] -> names_sat plainw ts ->
  exists x s, rev (render ts) = x :: s /\ is_ws x = false.
Proof.
  induction ts as [|a r IH]; intros st H Hne Hn; [congruence|].
  destruct r as [|b r'].
  - destruct st, a; cbn [alt] in H; try discriminate.
    + destruct (names_sat_head _ _ _ Hn) as [Hw Hp]. cbn [render flat_map render_tok]. rewrite app_nil_r.
      destruct (rev w) as [|x s] eqn:R.
      * exfalso. apply Hw. rewrite <- (rev_involutive w), R. reflexivity.
      * exists x, s. split; [reflexivity|]. rewrite forallb_forall in Hp.
        assert (Hx : plain x = true) by (apply Hp, in_rev; rewrite R; left; reflexivity).
        unfold plain in Hx. repeat (apply andb_true_iff in Hx as [Hx ?]). apply negb_true_iff. exact Hx.
    + exists c_rp, []. split; reflexivity.
  - destruct (alt_tail _ _ _ H) as [st' [H' _]].
    destruct (IH st' H' ltac:(discriminate) (names_sat_tail _ _ _ Hn)) as [x [s [E Hx]]].
    rewrite render_cons, rev_app_distr, E. exists x, (s ++ rev (render_tok a)). split; [reflexivity | exact Hx].
Qed.

Lemma drop_ws_id x s : is_ws x = false -> drop_ws (x :: s) = x :: s.
Proof. intro H. cbn [drop_ws]. rewrite H. reflexivity. Qed.

Lemma strip_render ts : alt true ts = true -> names_sat plainw ts -> strip (render ts) = render ts.
Proof.
  intros H Hn. unfold strip.
  destruct (first_char ts H Hn) as [x [s [E [Hx _]]]].
  assert (Hne : ts <> []) by (destruct ts; [discriminate | discriminate]).
  destruct (last_char ts true H Hne Hn) as [y [s' [E' Hy]]].
  rewrite E, (drop_ws_id x s Hx), <- E, E', (drop_ws_id y s' Hy), <- E'. apply rev_involutive.
Qed.

(* ------------------------------------------------------------ the replacement loop on a rendered text *)
Lemma sep_nonsource P T x : wf_tab P T = true ->
  is_word x || is_ws x || memz x [c_lp; c_rp; c_amp; c_bar] = true -> is_source T x = false.
Proof.
  intros Hwf Hx. destruct (is_source T x) eqn:E; [|reflexivity].
  apply is_source_in in E as [e Hin]. destruct (wf_tab_in P T _ _ Hwf Hin) as [c [Hc Hok]].
  inversion Hc; subst c. rewrite (eo_nonword _ _ Hok), (eo_nonws _ _ Hok), (eo_nonpunct _ _ Hok) in Hx.
  discriminate.
Qed.

Definition sepchar (x : Z) : bool := is_word x || is_ws x || memz x [c_lp; c_rp; c_amp; c_bar].

Lemma enc_seps P T s : wf_tab P T = true -> forallb sepchar s = true -> enc T s = s.
Proof.
  intros Hwf. induction s as [|x s IH]; [reflexivity|]. cbn [forallb]. intro H.
  apply andb_true_iff in H as [H1 H2]. rewrite enc_cons, (IH H2).
  rewrite (esc_of_nonsource T x (sep_nonsource P T x Hwf H1)). reflexivity.
Qed.

Lemma enc_render P T ts : wf_tab P T = true -> enc T (render ts) = render (map (ren (enc T)) ts).
Proof.
  intro Hwf. induction ts as [|k r IH]; [reflexivity|].
  cbn [map]. rewrite !render_cons, enc_app, IH. f_equal.
  destruct k; cbn [ren render_tok]; try (apply (enc_seps P T _ Hwf); reflexivity). reflexivity.
Qed.

(* ------------------------------------------------------------ words in a text *)
Lemma span_word_app w rest : forallb is_word w = true -> nw_start rest = true ->
  span_word (w ++ rest) = (w, rest).
Proof.
  intros Hw Hr. induction w as [|x w IH].
  - destruct rest as [|y r]; [reflexivity|]. cbn in *. apply negb_true_iff in Hr. rewrite Hr. reflexivity.
  - cbn [forallb] in Hw. apply andb_true_iff in Hw as [H1 H2]. cbn [app span_word]. rewrite H1, (IH H2). reflexivity.
Qed.

Section PrefixWords.
  Variable p : str -> bool.
  Variable P : str.

  Definition pre (w : str) : str := if p w then P ++ w else w.

  Lemma pw_nonword inw x s : is_word x = false ->
    prefix_words p P inw (x :: s) = x :: prefix_words p P false s.
  Proof. intro H. cbn [prefix_words]. rewrite H. reflexivity. Qed.

  Lemma pw_inw_irrel s : nw_start s = true -> prefix_words p P true s = prefix_words p P false s.
  Proof.
    destruct s as [|x s]; [reflexivity|]. cbn [nw_start]. intro H. apply negb_true_iff in H.
    rewrite !pw_nonword by exact H. reflexivity.
  Qed.

  Lemma pw_word_tail w rest : forallb is_word w = true ->
    prefix_words p P true (w ++ rest) = w ++ prefix_words p P true rest.
  Proof.
    induction w as [|x w IH]; [reflexivity|]. cbn [forallb]. intro H. apply andb_true_iff in H as [H1 H2].
    cbn [app prefix_words]. rewrite H1, (IH H2). reflexivity.
  Qed.

  Lemma pw_word w rest : wordy w -> nw_start rest = true ->
    prefix_words p P false (w ++ rest) = pre w ++ prefix_words p P false rest.
  Proof.
    intros [Hne Hw] Hr. destruct w as [|x w']; [congruence|].
    pose proof (span_word_app (x :: w') rest Hw Hr) as Sp.
    cbn [forallb] in Hw. apply andb_true_iff in Hw as [H1 H2].
    change ((x :: w') ++ rest) with (x :: (w' ++ rest)) in *. cbn [prefix_words]. rewrite H1, Sp. cbn [fst].
    rewrite (pw_word_tail w' rest H2), (pw_inw_irrel rest Hr). unfold pre.
    destruct (p (x :: w')); [rewrite <- app_assoc|]; reflexivity.
  Qed.

  Hypothesis p_and : p s_and = false.
  Hypothesis p_or : p s_or = false.

  Lemma pw_render ts : forall st, alt st ts = true -> names_sat wordy ts ->
    prefix_words p P false (render ts) = render (map (ren pre) ts).
  Proof.
    induction ts as [|k r IH]; intros st H Hn; [reflexivity|].
    destruct (alt_tail _ _ _ H) as [st' [H' Hk]]. specialize (IH st' H' (names_sat_tail _ _ _ Hn)).
    cbn [map]. rewrite !render_cons. destruct k; cbn [ren render_tok].
    - cbn [app]. rewrite pw_nonword by reflexivity. rewrite IH. reflexivity.
    - cbn [app]. rewrite pw_nonword by reflexivity. rewrite IH. reflexivity.
    - change (sep_chars And ++ render r) with (c_sp :: (s_and ++ (c_sp :: render r))).
      rewrite pw_nonword by reflexivity. rewrite pw_word; [|split; [discriminate | reflexivity] | reflexivity].
      unfold pre at 1. rewrite p_and. rewrite pw_nonword by reflexivity. rewrite IH. reflexivity.
    - change (sep_chars Or ++ render r) with (c_sp :: (s_or ++ (c_sp :: render r))).
      rewrite pw_nonword by reflexivity. rewrite pw_word; [|split; [discriminate | reflexivity] | reflexivity].
      unfold pre at 1. rewrite p_or. rewrite pw_nonword by reflexivity. rewrite IH. reflexivity.
    - cbn [app]. rewrite !pw_nonword by reflexivity. rewrite IH. reflexivity.
    - cbn [app]. rewrite !pw_nonword by reflexivity. rewrite IH. reflexivity.
    - subst st'. rewrite pw_word; [|exact (names_sat_head _ _ _ Hn) | exact (render_after_atom r H')].
      rewrite IH. reflexivity.
  Qed.
End PrefixWords.

(* ------------------------------------------------------------ "()" removal *)
Definition h_rp (s : str) : bool := match s with y :: _ => y =? c_rp | [] => false end.

Fixpoint unit_free (s : str) : bool :=
  match s with
  | [] => true
  | x :: r => negb ((x =? c_lp) && h_rp r) && unit_free r
  end.

Lemma replace_unit_free s : unit_free s = true -> replace [c_lp; c_rp] [] s = s.
Proof.
  unfold replace. induction s as [|x r IH]; [reflexivity|]. cbn [unit_free]. intro H.
  apply andb_true_iff in H as [H1 H2]. apply negb_true_iff in H1. cbn [replace_aux].
  assert (E : prefixb [c_lp; c_rp] (x :: r) = false).
  { cbn [prefixb]. rewrite (Z.eqb_sym c_lp x). destruct (x =? c_lp); [|reflexivity]. cbn [andb] in *.
    destruct r as [|y r']; [reflexivity|]. cbn [h_rp] in H1. rewrite (Z.eqb_sym c_rp y), H1. reflexivity. }
  rewrite E, (IH H2). reflexivity.
Qed.

Lemma unit_free_nolp a b : forallb (fun x => negb (x =? c_lp)) a = true -> unit_free (a ++ b) = unit_free b.
Proof.
  induction a as [|x a IH]; [reflexivity|]. cbn [forallb]. intro H. apply andb_true_iff in H as [H1 H2].
  cbn [app unit_free]. apply negb_true_iff in H1. rewrite H1, (IH H2). reflexivity.
Qed.

Lemma word_nolp w : forallb is_word w = true -> forallb (fun x => negb (x =? c_lp)) w = true.
Proof.
  intro H. apply forallb_forall. intros x Hx. rewrite forallb_forall in H. specialize (H x Hx).
  unfold is_word, is_digit, is_alpha, c_us, c_lp in *. lia.
Qed.

Lemma unit_free_render ts : forall st, alt st ts = true -> names_sat wordy ts -> unit_free (render ts) = true.
Proof.
  induction ts as [|k r IH]; intros st H Hn; [reflexivity|].
  destruct (alt_tail _ _ _ H) as [st' [H' Hk]]. specialize (IH st' H' (names_sat_tail _ _ _ Hn)).
  rewrite render_cons. destruct k; cbn [render_tok]; try (rewrite unit_free_nolp by reflexivity; exact IH).
  - (* "(" : the next character is not ")" *)
    destruct st; cbn [alt] in H; [|discriminate].
    destruct (first_char r H (names_sat_impl _ _ _ wordy_plainw (names_sat_tail _ _ _ Hn))) as [x [s [E [_ Hx]]]].
    cbn [app unit_free]. rewrite IH, E. cbn [h_rp]. rewrite Hx. reflexivity.
  - rewrite unit_free_nolp; [exact IH|]. apply word_nolp. exact (proj2 (names_sat_head _ _ _ Hn)).
Qed.

(* ------------------------------------------------------------ the lexer *)
Lemma lex_inw_irrel u s : nw_start s = true -> lex u true s = lex u false s.
Proof.
  destruct s as [|x s]; [reflexivity|]. cbn [nw_start]. intro H. apply negb_true_iff in H.
  cbn [lex]. rewrite H. reflexivity.
Qed.

Lemma lex_word_tail u w rest : forallb is_word w = true -> lex u true (w ++ rest) = lex u true rest.
Proof.
  induction w as [|x w IH]; [reflexivity|]. cbn [forallb]. intro H. apply andb_true_iff in H as [H1 H2].
  cbn [app lex]. rewrite H1. exact (IH H2).
Qed.

Lemma lex_word u w rest : wordy w -> nw_start rest = true ->
  lex u false (w ++ rest) =
  match lex u false rest with Some ts => Some (word_token u w :: ts) | None => None end.
Proof.
  intros [Hne Hw] Hr. destruct w as [|x w']; [congruence|].
  pose proof (span_word_app (x :: w') rest Hw Hr) as Sp.
  cbn [forallb] in Hw. apply andb_true_iff in Hw as [H1 H2].
  change ((x :: w') ++ rest) with (x :: (w' ++ rest)) in *. cbn [lex]. rewrite H1, Sp. cbn [fst].
  rewrite (lex_word_tail u w' rest H2), (lex_inw_irrel u rest Hr). reflexivity.
Qed.

Definition one (k : token) (o : option (list token)) : option (list token) :=
  match o with Some ts => Some (k :: ts) | None => None end.

Lemma lex_sp u inw s : lex u inw (c_sp :: s) = lex u false s.
Proof. reflexivity. Qed.
Lemma lex_lp u inw s : lex u inw (c_lp :: s) = one TLP (lex u false s).
Proof. reflexivity. Qed.
Lemma lex_rp u inw s : lex u inw (c_rp :: s) = one TRP (lex u false s).
Proof. reflexivity. Qed.
Lemma lex_amp u inw s : lex u inw (c_amp :: s) = one TAMP (lex u false s).
Proof. reflexivity. Qed.
Lemma lex_bar u inw s : lex u inw (c_bar :: s) = one TBAR (lex u false s).
Proof. reflexivity. Qed.

(* a word that is a name for the lexer *)
Definition lexname (w : str) : Prop := wordy w /\ w <> s_and /\ w <> s_or.

Lemma word_token_name w : w <> s_and -> w <> s_or -> word_token false w = TNAME w.
Proof.
  intros H1 H2. unfold word_token.
  destruct (str_eqb w s_and) eqn:E1; [apply str_eqb_eq in E1; contradiction|].
  destruct (str_eqb w s_or) eqn:E2; [apply str_eqb_eq in E2; contradiction|]. reflexivity.
Qed.

Theorem lex_render ts : forall st, alt st ts = true -> names_sat lexname ts ->
  lex false false (render ts) = Some ts.
Proof.
  induction ts as [|k r IH]; intros st H Hn; [reflexivity|].
  destruct (alt_tail _ _ _ H) as [st' [H' Hk]]. specialize (IH st' H' (names_sat_tail _ _ _ Hn)).
  rewrite render_cons. destruct k; cbn [render_tok].
  - cbn [app]. rewrite lex_lp, IH. reflexivity.
  - cbn [app]. rewrite lex_rp, IH. reflexivity.
  - change (sep_chars And ++ render r) with (c_sp :: (s_and ++ (c_sp :: render r))).
    rewrite lex_sp, lex_word; [|split; [discriminate | reflexivity] | reflexivity].
    rewrite lex_sp, IH. reflexivity.
  - change (sep_chars Or ++ render r) with (c_sp :: (s_or ++ (c_sp :: render r))).
    rewrite lex_sp, lex_word; [|split; [discriminate | reflexivity] | reflexivity].
    rewrite lex_sp, IH. reflexivity.
  - cbn [app]. rewrite lex_sp, lex_amp, lex_sp, IH. reflexivity.
  - cbn [app]. rewrite lex_sp, lex_bar, lex_sp, IH. reflexivity.
  - subst st'. destruct (names_sat_head _ _ _ Hn) as [Hw [Na No]].
    rewrite lex_word; [|exact Hw | exact (render_after_atom r H')].
    rewrite IH, (word_token_name w Na No). reflexivity.
Qed.

(* ------------------------------------------------------------ escape_str on a rendered text *)
Definition idchars (T : table) (w : str) : Prop :=
  w <> [] /\ forallb (fun c => is_word c || is_source T c) w = true.

Lemma enc_wordy P T w : wf_tab P T = true -> idchars T w -> wordy (enc T w).
Proof.
  intros Hwf [Hne Hch]. split.
  - destruct w as [|x w]; [congruence|]. cbn [forallb] in Hch. apply andb_true_iff in Hch as [H1 _].
    rewrite enc_cons. destruct (esc_of_cases T x) as [[_ E]|Hin]; [rewrite E; discriminate|].
    destruct (wf_tab_in P T _ _ Hwf Hin) as [c [_ Hok]]. destruct (eo_first _ _ Hok) as [h [t [E _]]].
    rewrite E. discriminate.
  - clear Hne. induction w as [|x w IH]; [reflexivity|]. cbn [forallb] in Hch.
    apply andb_true_iff in Hch as [H1 H2]. rewrite enc_cons, forallb_app, (IH H2), andb_true_r.
    destruct (esc_of_cases T x) as [[Hs E]|Hin].
    + rewrite E. rewrite Hs, orb_false_r in H1. cbn. rewrite H1. reflexivity.
    + destruct (wf_tab_in P T _ _ Hwf Hin) as [c [_ Hok]]. exact (eo_word _ _ Hok).
Qed.

Lemma pre_wordy p P w : forallb is_word P = true -> wordy w -> wordy (pre p P w).
Proof.
  intros HP [Hne Hw]. unfold pre. destruct (p w); [|split; assumption]. split.
  - destruct P; [exact Hne | discriminate].
  - rewrite forallb_app, HP, Hw. reflexivity.
Qed.

Lemma escape_word_pre P0 T kws P w : wf_tab P0 T = true ->
  escape_word T kws P w = pre starts_digit P (pre (fun v => mem v kws) P (enc T w)).
Proof. intro Hwf. unfold escape_word, pre. rewrite (apply_repl_enc P0 T Hwf). reflexivity. Qed.

Lemma map_ren_ren f g ts : map (ren g) (map (ren f) ts) = map (ren (fun w => g (f w))) ts.
Proof. rewrite map_map. apply map_ext. intro k. destruct k; reflexivity. Qed.

Theorem escape_str_render T kws P ts : wf_repl T P = true -> wf_kws kws = true ->
  alt true ts = true -> names_sat (idchars T) ts ->
  escape_str T kws P (render ts) = render (map (ren (escape_word T kws P)) ts) /\
  names_sat wordy (map (ren (escape_word T kws P)) ts).
Proof.
  intros Hwf Hk Ha Hn. pose proof (wf_repl_tab T P Hwf) as Ht.
  assert (HPw : forallb is_word P = true).
  { unfold wf_repl in Hwf. repeat (apply andb_true_iff in Hwf as [Hwf ?]). assumption. }
  assert (Kand : mem s_and kws = false /\ mem s_or kws = false).
  { unfold wf_kws in Hk. repeat (apply andb_true_iff in Hk as [Hk ?]).
    split; apply negb_true_iff; assumption. }
  destruct Kand as [Kand Kor].
  set (f1 := enc T). set (f2 := pre (fun v => mem v kws) P). set (f3 := pre starts_digit P).
  assert (N1 : names_sat wordy (map (ren f1) ts)).
  { apply names_sat_ren. intros w Hw. apply (enc_wordy P T w Ht). apply Hn. exact Hw. }
  assert (N2 : names_sat wordy (map (ren f2) (map (ren f1) ts))).
  { apply names_sat_ren. intros w Hw. apply pre_wordy; [exact HPw | apply N1; exact Hw]. }
  assert (N3 : names_sat wordy (map (ren f3) (map (ren f2) (map (ren f1) ts)))).
  { apply names_sat_ren. intros w Hw. apply pre_wordy; [exact HPw | apply N2; exact Hw]. }
  assert (E : map (ren f3) (map (ren f2) (map (ren f1) ts)) = map (ren (escape_word T kws P)) ts).
  { rewrite !map_ren_ren. apply map_ext. intro k. destruct k; try reflexivity. cbn [ren].
    rewrite (escape_word_pre P T kws P w Ht). reflexivity. }
  split; [|rewrite <- E; exact N3].
  unfold escape_str. rewrite (apply_repl_enc P T Ht), (enc_render P T ts Ht). fold f1.
  rewrite (pw_render (fun v => mem v kws) P Kand Kor (map (ren f1) ts) true); [|rewrite alt_ren; exact Ha | exact N1].
  fold f2.
  rewrite (pw_render starts_digit P eq_refl eq_refl (map (ren f2) (map (ren f1) ts)) true);
    [|rewrite !alt_ren; exact Ha | exact N2].
  fold f3. rewrite replace_unit_free; [rewrite E; reflexivity|].
  apply (unit_free_render _ true); [rewrite !alt_ren; exact Ha | exact N3].
Qed.
