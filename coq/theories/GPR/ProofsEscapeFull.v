(* The general escaping theorem: for ANY replacement table, keyword list and prefix satisfying
   the decidable side conditions (wf_repl, wf_kws, wf_prefix) and EVERY admissible identifier
   (no bound on its length), un-escaping the escaped identifier gives the identifier back and
   the escaped identifier is a Python name that is not a keyword. *)
From Coq Require Import ZArith List Bool Lia.
From Cobra.GPR Require Import Syntax Escape Proofs ProofsRepl ProofsEscape.
Import ListNotations.
Open Scope Z_scope.

Lemma esc_of_ok P T x : wf_tab P T = true -> is_word x || is_source T x = true ->
  forallb is_word (esc_of T x) = true /\ esc_of T x <> [].
Proof.
  intros Hwf Hx. destruct (esc_of_cases T x) as [[Hs E]|Hin].
  - rewrite E. rewrite Hs, orb_false_r in Hx. cbn. rewrite Hx. split; [reflexivity | discriminate].
  - destruct (wf_tab_in P T _ _ Hwf Hin) as [c [_ Hok]]. split; [exact (eo_word _ _ Hok)|].
    destruct (eo_first _ _ Hok) as [h [t [E _]]]. rewrite E. discriminate.
Qed.

Lemma enc_all_word P T w : wf_tab P T = true ->
  forallb (fun c => is_word c || is_source T c) w = true -> forallb is_word (enc T w) = true.
Proof.
  intros Hwf. induction w as [|x w IH]; [reflexivity|]. cbn [forallb]. intro H.
  apply andb_true_iff in H as [H1 H2]. rewrite enc_cons, forallb_app, (IH H2).
  rewrite (proj1 (esc_of_ok P T x Hwf H1)). reflexivity.
Qed.

Lemma enc_nonempty P T w : wf_tab P T = true ->
  forallb (fun c => is_word c || is_source T c) w = true -> w <> [] -> enc T w <> [].
Proof.
  intros Hwf H Hne. destruct w as [|x w]; [congruence|]. cbn [forallb] in H.
  apply andb_true_iff in H as [H1 _]. rewrite enc_cons.
  destruct (esc_of_ok P T x Hwf H1) as [_ N]. destruct (esc_of T x); [congruence | discriminate].
Qed.

(* an escaped character leaves the first letter of the reserved word in the text *)
Lemma source_marks P T w x : wf_tab P T = true -> In x w -> is_source T x = true -> In 67 (enc T w).
Proof.
  intros Hwf Hin Hs. unfold enc. apply in_flat_map. exists x. split; [exact Hin|].
  destruct (esc_of_cases T x) as [[Hs' _]|Hin']; [congruence|].
  destruct (wf_tab_in P T _ _ Hwf Hin') as [c [_ Hok]].
  pose proof (eo_at _ _ Hok) as A. apply prefixb_iff in A as [r Hr].
  rewrite <- (firstn_skipn anchor_off (esc_of T x)), Hr. apply in_or_app. right. left. reflexivity.
Qed.

(* a replaced identifier without that letter is the identifier itself *)
Lemma enc_unmarked P T w : wf_tab P T = true ->
  forallb (fun c => is_word c || is_source T c) w = true -> ~ In 67 (enc T w) -> enc T w = w.
Proof.
  intros Hwf H Hn. apply (enc_words P T w Hwf). apply forallb_forall. intros x Hx.
  rewrite forallb_forall in H. specialize (H x Hx). destruct (is_word x) eqn:E; [reflexivity|].
  cbn in H. exfalso. apply Hn. exact (source_marks P T w x Hwf Hx H).
Qed.

Lemma forallb_word_app a b : forallb is_word a = true -> forallb is_word b = true -> forallb is_word (a ++ b) = true.
Proof. intros Ha Hb. rewrite forallb_app, Ha, Hb. reflexivity. Qed.

Lemma str_eqb_false a b : a <> b -> str_eqb a b = false.
Proof. intro H. destruct (str_eqb a b) eqn:E; [apply str_eqb_eq in E; contradiction | reflexivity]. Qed.

(* a prefixed word is a Python name *)
Lemma prefixed_py_name kws P v : wf_prefix P kws = true ->
  P <> [] -> forallb is_word P = true -> starts_digit P = false -> forallb is_word v = true ->
  is_py_name kws (P ++ v) = true.
Proof.
  intros Hp HP HPw HPd Hv. unfold wf_prefix in Hp. cbn [forallb] in Hp.
  apply andb_true_iff in Hp as [Hand Hp]. apply andb_true_iff in Hp as [Hor Hk].
  apply negb_true_iff in Hand. apply negb_true_iff in Hor.
  unfold is_py_name. rewrite (forallb_word_app P v HPw Hv), (starts_digit_app P v HP), HPd.
  assert (N1 : mem (P ++ v) kws = false).
  { apply mem_false. intro Hin. rewrite forallb_forall in Hk. specialize (Hk _ Hin).
    rewrite prefixb_refl_app in Hk. discriminate. }
  assert (N2 : str_eqb (P ++ v) s_and = false).
  { apply str_eqb_false. intro E. rewrite <- E, prefixb_refl_app in Hand. discriminate. }
  assert (N3 : str_eqb (P ++ v) s_or = false).
  { apply str_eqb_false. intro E. rewrite <- E, prefixb_refl_app in Hor. discriminate. }
  rewrite N1, N2, N3. destruct P; [congruence | reflexivity].
Qed.

Theorem escape_ok T kws P : wf_repl T P = true -> wf_kws kws = true -> wf_prefix P kws = true ->
  forall w, id_okb T P w = true -> escape_ok_at T kws P w = true.
Proof.
  intros Hwf Hk Hp w Hid. unfold escape_ok_at. apply andb_true_iff. split.
  - rewrite (escape_reduce T kws P w Hwf Hid). apply str_eqb_eq. apply (repl_roundtrip T P w Hwf).
    unfold id_okb in Hid. repeat (apply andb_true_iff in Hid as [Hid ?]).
    match goal with Hx : negb (containsb anchor w) = true |- _ => apply negb_true_iff in Hx; exact Hx end.
  - pose proof (wf_repl_tab T P Hwf) as Ht.
    unfold wf_repl in Hwf. repeat (apply andb_true_iff in Hwf as [Hwf ?]).
    assert (HP : P <> []) by (destruct P; [discriminate | discriminate]).
    assert (HPd : starts_digit P = false) by (apply negb_true_iff; assumption).
    assert (HPw : forallb is_word P = true) by assumption.
    unfold id_okb in Hid. repeat (apply andb_true_iff in Hid as [Hid ?]).
    assert (Hne : w <> []) by (destruct w; [discriminate | discriminate]).
    assert (Hch : forallb (fun c => is_word c || is_source T c) w = true) by assumption.
    assert (Hand : w <> s_and).
    { intro E. subst w. cbn in *. discriminate. }
    assert (Hor : w <> s_or).
    { intro E. subst w. cbn in *. discriminate. }
    unfold escape_word. rewrite (apply_repl_enc P T Ht).
    pose proof (enc_all_word P T w Ht Hch) as Hw2. pose proof (enc_nonempty P T w Ht Hch Hne) as Hn2.
    set (w2 := enc T w) in *.
    assert (Plain : mem w2 kws = false -> starts_digit w2 = false -> is_py_name kws w2 = true).
    { intros M D. unfold is_py_name. rewrite Hw2, D, M.
      assert (N2 : str_eqb w2 s_and = false).
      { apply str_eqb_false. intro E. apply Hand. rewrite <- E. symmetry. apply (enc_unmarked P T w Ht Hch).
        fold w2. rewrite E. cbn. intuition discriminate. }
      assert (N3 : str_eqb w2 s_or = false).
      { apply str_eqb_false. intro E. apply Hor. rewrite <- E. symmetry. apply (enc_unmarked P T w Ht Hch).
        fold w2. rewrite E. cbn. intuition discriminate. }
      rewrite N2, N3. destruct w2; [congruence | reflexivity]. }
    destruct (mem w2 kws) eqn:M.
    + rewrite (starts_digit_app P w2 HP), HPd. apply prefixed_py_name; assumption.
    + destruct (starts_digit w2) eqn:D; [apply prefixed_py_name; assumption | apply Plain; reflexivity].
Qed.

(* Why `wf_prefix` had to be added to the side conditions: with wf_repl and wf_kws alone the
   statement is false for a keyword list that contains a prefixed keyword. *)
Example escape_ok_needs_wf_prefix :
  exists T kws P w, wf_repl T P = true /\ wf_kws kws = true /\ id_okb T P w = true /\
                    escape_ok_at T kws P w = false.
Proof.
  exists [], [[105; 102]; [112; 105; 102]], [112], [105; 102].   (* kws = if, pif; P = p; w = if *)
  vm_compute. repeat split; reflexivity.
Qed.
