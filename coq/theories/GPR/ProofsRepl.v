(* The `replacements` loop of GPR.from_string and its inverse in GPRCleaner.visit_Name, for ANY
   table satisfying the decidable side condition `wf_repl` and identifiers of ANY length:

     apply_repl T w = enc T w                 (the loop is a character-wise substitution)
     undo_repl T (enc T w) = w                 whenever the reserved word COBRA does not occur in w

   The argument: every escape carries the reserved word exactly once, at offset 2, and neither
   its first nor its last character belongs to the reserved word; so in the escaped text the
   reserved word occurs exactly at offset 2 of every escape and nowhere else -- in particular
   never across a boundary between characters of the identifier.  `str.replace(escaped, char)`
   therefore finds exactly the escapes of `char` (two escapes are never a prefix of one another). *)
From Coq Require Import ZArith List Bool Lia.
From Cobra.GPR Require Import Syntax Escape Proofs.
Import ListNotations.
Open Scope Z_scope.

(* ------------------------------------------------------------ prefixes, skipn *)
Lemma prefixb_iff p s : prefixb p s = true <-> exists r, s = p ++ r.
Proof.
  revert s. induction p as [|x p IH]; intro s.
  - cbn. split; [intros _; exists s; reflexivity | intros _; reflexivity].
  - destruct s as [|y s]; cbn.
    + split; [discriminate | intros [r H]; discriminate].
    + rewrite andb_true_iff, Z.eqb_eq, IH. split.
      * intros [Hx [r Hr]]. subst. exists r. reflexivity.
      * intros [r H]. inversion H; subst. split; [reflexivity | exists r; reflexivity].
Qed.

Lemma prefixb_refl_app p s : prefixb p (p ++ s) = true.
Proof. apply prefixb_iff. exists s. reflexivity. Qed.

Lemma prefixb_nil_r p : prefixb p [] = true -> p = [].
Proof. destruct p; [reflexivity | discriminate]. Qed.

(* a prefix of t ++ r that is not longer than t is a prefix of t *)
Lemma prefixb_app_long a t r : (length a <= length t)%nat -> prefixb a (t ++ r) = prefixb a t.
Proof.
  revert t. induction a as [|x a IH]; intros t Hl; [reflexivity|].
  destruct t as [|y t]; [cbn in Hl; lia|]. cbn in *. rewrite IH by lia. reflexivity.
Qed.

(* ... and one that is at least as long as t covers t *)
Lemma prefixb_cover a t r : prefixb a (t ++ r) = true -> (length t <= length a)%nat ->
  forall x, In x t -> memz x a = true.
Proof.
  revert a. induction t as [|y t IH]; intros a H Hl x Hx; [destruct Hx|].
  destruct a as [|h a]; [cbn in Hl; lia|]. cbn in H. apply andb_true_iff in H as [H1 H2].
  apply Z.eqb_eq in H1. subst h. unfold memz. cbn [existsb]. destruct Hx as [Hx|Hx].
  - subst. rewrite Z.eqb_refl. reflexivity.
  - apply orb_true_iff. right. apply (IH a H2); [cbn in Hl; lia | exact Hx].
Qed.

(* a prefix of b ++ r is comparable with b *)
Lemma prefixb_app_cmp a b r : prefixb a (b ++ r) = true -> prefixb a b = true \/ prefixb b a = true.
Proof.
  revert b. induction a as [|x a IH]; intros b H; [left; reflexivity|].
  destruct b as [|y b]; [right; reflexivity|]. cbn in *.
  apply andb_true_iff in H as [H1 H2]. rewrite H1. rewrite Z.eqb_sym in H1. rewrite H1. cbn.
  apply IH. exact H2.
Qed.

Lemma prefixb_weaken a s r : prefixb a s = true -> prefixb a (s ++ r) = true.
Proof. intro H. apply prefixb_iff in H as [q Hq]. subst. rewrite <- app_assoc. apply prefixb_refl_app. Qed.

Lemma skipn_skipn' {A} i j (s : list A) : skipn i (skipn j s) = skipn (j + i) s.
Proof.
  revert s. induction j as [|j IH]; intro s; [reflexivity|].
  destruct s as [|x s]; [cbn; rewrite skipn_nil; reflexivity|]. cbn. apply IH.
Qed.

Lemma skipn_app_le {A} k (q r : list A) : (k <= length q)%nat -> skipn k (q ++ r) = skipn k q ++ r.
Proof.
  intro H. rewrite skipn_app. replace (k - length q)%nat with 0%nat by lia. reflexivity.
Qed.

Lemma skipn_app_ge {A} k (q r : list A) : (length q <= k)%nat -> skipn k (q ++ r) = skipn (k - length q) r.
Proof.
  intro H. rewrite skipn_app. rewrite skipn_all2 by lia. reflexivity.
Qed.

(* ------------------------------------------------------------ str.replace *)
Lemma replace_aux_skip old new q r : replace_aux old new (length q) (q ++ r) = replace_aux old new 0 r.
Proof. induction q as [|x q IH]; [reflexivity|]. cbn. exact IH. Qed.

Lemma replace_aux_match old new r : old <> [] ->
  replace_aux old new 0 (old ++ r) = new ++ replace_aux old new 0 r.
Proof.
  destruct old as [|x o]; [congruence|]. intros _.
  change ((x :: o) ++ r) with (x :: (o ++ r)). cbn [replace_aux].
  change (x :: o ++ r) with ((x :: o) ++ r). rewrite prefixb_refl_app.
  cbn [length]. replace (S (length o) - 1)%nat with (length o) by lia.
  rewrite replace_aux_skip. reflexivity.
Qed.

Lemma replace_aux_nomatch old new q r :
  (forall k, (k < length q)%nat -> prefixb old (skipn k q ++ r) = false) ->
  replace_aux old new 0 (q ++ r) = q ++ replace_aux old new 0 r.
Proof.
  induction q as [|x q IH]; intro H; [reflexivity|].
  change ((x :: q) ++ r) with (x :: (q ++ r)). cbn [replace_aux].
  pose proof (H 0%nat ltac:(cbn; lia)) as H0. cbn [skipn] in H0.
  change ((x :: q) ++ r) with (x :: (q ++ r)) in H0. rewrite H0.
  cbn [app]. f_equal. apply IH. intros k Hk. apply (H (S k)). cbn. lia.
Qed.

Lemma replace_single c new w :
  replace [c] new w = flat_map (fun x => if x =? c then new else [x]) w.
Proof.
  unfold replace. induction w as [|x w IH]; [reflexivity|].
  cbn [replace_aux prefixb flat_map length Nat.sub]. rewrite Z.eqb_sym.
  destruct (x =? c); cbn [andb]; rewrite IH; reflexivity.
Qed.

(* ------------------------------------------------------------ the reserved word *)
Lemma anchor_len : length anchor = 5%nat.
Proof. reflexivity. Qed.

Lemma occ_ge_skipn a : a <> [] -> forall i s, prefixb a (skipn i s) = true ->
  (1 + occ a (skipn (S i) s) <= occ a s)%nat.
Proof.
  intros Ha. induction i as [|i IH]; intros s H.
  - destruct s as [|x r]; [apply prefixb_nil_r in H; contradiction|].
    cbn [skipn] in *. cbn [occ]. rewrite H. lia.
  - destruct s as [|x r]; [cbn in H; apply prefixb_nil_r in H; contradiction|].
    cbn [skipn] in H. specialize (IH r H). cbn [occ]. cbn [skipn] in *.
    destruct (prefixb a (x :: r)); lia.
Qed.

Lemma occ_unique a s i j : a <> [] -> occ a s = 1%nat ->
  prefixb a (skipn i s) = true -> prefixb a (skipn j s) = true -> i = j.
Proof.
  intros Ha H1 Hi Hj.
  assert (L : forall i j, (i < j)%nat -> prefixb a (skipn i s) = true -> prefixb a (skipn j s) = true -> False).
  { clear i j Hi Hj. intros i j Hij Hi Hj.
    pose proof (occ_ge_skipn a Ha i s Hi) as G1.
    replace j with (S i + (j - S i))%nat in Hj by lia.
    rewrite <- skipn_skipn' in Hj.
    pose proof (occ_ge_skipn a Ha _ _ Hj) as G2. lia. }
  destruct (Nat.lt_trichotomy i j) as [Q|[Q|Q]]; [exfalso; eapply L; eauto | exact Q | exfalso; eapply L; eauto].
Qed.

Lemma occ_zero_prefix a s : a <> [] -> occ a s = 0%nat -> prefixb a s = false.
Proof.
  intro Ha. destruct s as [|x r]; cbn [occ].
  - intros _. destruct a; [congruence | reflexivity].
  - destruct (prefixb a (x :: r)); [lia | reflexivity].
Qed.

(* ------------------------------------------------------------ the side condition, unpacked *)
Definition wf_tab (P : str) (T : table) : bool :=
  forallb (wf_entry P) T &&
  pairwise (fun a b => negb (str_eqb (fst a) (fst b))) T &&
  pairwise (fun a b => negb (prefixb (snd a) (snd b))) T.

Lemma wf_repl_tab T P : wf_repl T P = true -> wf_tab P T = true.
Proof.
  unfold wf_repl, wf_tab. intro H. repeat (apply andb_true_iff in H as [H ?]).
  repeat (apply andb_true_iff; split); assumption.
Qed.

Lemma wf_tab_tail P ce T : wf_tab P (ce :: T) = true -> wf_tab P T = true.
Proof.
  unfold wf_tab. cbn [forallb pairwise]. intro H. repeat (apply andb_true_iff in H as [H ?]).
  repeat match goal with Hx : (_ && _) = true |- _ => apply andb_true_iff in Hx as [? ?] end.
  repeat (apply andb_true_iff; split); assumption.
Qed.

Record entry_ok (c : Z) (e : str) : Prop := {
  eo_nonword : is_word c = false;
  eo_nonws : is_ws c = false;
  eo_nonpunct : memz c [c_lp; c_rp; c_amp; c_bar] = false;
  eo_word : forallb is_word e = true;
  eo_once : occ anchor e = 1%nat;
  eo_at : prefixb anchor (skipn anchor_off e) = true;
  eo_first : exists h t, e = h :: t /\ memz h anchor = false;
  eo_last : exists b l, e = b ++ [l] /\ memz l anchor = false
}.

Lemma wf_entry_ok P s e : wf_entry P (s, e) = true -> exists c, s = [c] /\ entry_ok c e.
Proof.
  unfold wf_entry. intro H. repeat (apply andb_true_iff in H as [H ?]).
  destruct s as [|c [|c' s']]; try discriminate. exists c. split; [reflexivity|].
  repeat (apply andb_true_iff in H as [H ?]).
  repeat match goal with Hx : negb _ = true |- _ => apply negb_true_iff in Hx end.
  split; try assumption.
  - apply Nat.eqb_eq. assumption.
  - destruct e as [|h t]; [discriminate|]. exists h, t. split; [reflexivity|].
    match goal with Hx : negb (memz h anchor) = true |- _ => apply negb_true_iff in Hx; exact Hx end.
  - destruct (rev e) as [|l b] eqn:R; [discriminate|]. exists (rev b), l. split.
    + rewrite <- (rev_involutive e), R. reflexivity.
    + match goal with Hx : negb (memz l anchor) = true |- _ => apply negb_true_iff in Hx; exact Hx end.
Qed.

Lemma wf_tab_in P T s e : wf_tab P T = true -> In (s, e) T -> exists c, s = [c] /\ entry_ok c e.
Proof.
  unfold wf_tab. intros H Hin. repeat (apply andb_true_iff in H as [H ?]).
  rewrite forallb_forall in H. apply (wf_entry_ok P). apply H. exact Hin.
Qed.

Lemma wf_tab_head P s e T : wf_tab P ((s, e) :: T) = true ->
  forall s' e', In (s', e') T ->
    str_eqb s s' = false /\ prefixb e e' = false /\ prefixb e' e = false.
Proof.
  unfold wf_tab. cbn [forallb pairwise]. intros H s' e' Hin.
  repeat (apply andb_true_iff in H as [H ?]).
  repeat match goal with Hx : (_ && _) = true |- _ => apply andb_true_iff in Hx as [? ?] end.
  repeat match goal with Hx : forallb _ T = true |- _ => rewrite forallb_forall in Hx; specialize (Hx _ Hin); cbn [fst snd] in Hx end.
  repeat match goal with Hx : (_ && _) = true |- _ => apply andb_true_iff in Hx as [? ?] end.
  repeat match goal with Hx : negb _ = true |- _ => apply negb_true_iff in Hx end.
  repeat split; assumption.
Qed.

(* ------------------------------------------------------------ the loop as a substitution *)
Fixpoint esc_of (T : table) (c : Z) : str :=
  match T with
  | [] => [c]
  | (s, e) :: T' => if str_eqb s [c] then e else esc_of T' c
  end.
Definition enc (T : table) (w : str) : str := flat_map (esc_of T) w.

Lemma enc_cons T x w : enc T (x :: w) = esc_of T x ++ enc T w.
Proof. reflexivity. Qed.

Lemma enc_nil w : enc [] w = w.
Proof. induction w as [|x w IH]; [reflexivity|]. rewrite enc_cons, IH. reflexivity. Qed.

Lemma enc_app T a b : enc T (a ++ b) = enc T a ++ enc T b.
Proof. apply flat_map_app. Qed.

Lemma esc_of_cases T x :
  (is_source T x = false /\ esc_of T x = [x]) \/ In ([x], esc_of T x) T.
Proof.
  induction T as [|[s e] T IH]; [left; split; reflexivity|].
  cbn [esc_of is_source existsb fst]. destruct (str_eqb s [x]) eqn:E.
  - right. left. apply str_eqb_eq in E. subst. reflexivity.
  - destruct IH as [[I1 I2]|I]; [left; split; [exact I1 | exact I2] | right; right; exact I].
Qed.

Lemma esc_of_nonsource T x : is_source T x = false -> esc_of T x = [x].
Proof.
  induction T as [|[s e] T IH]; [reflexivity|]. cbn [esc_of is_source existsb fst].
  intro H. apply orb_false_iff in H as [H1 H2]. rewrite H1. apply IH. exact H2.
Qed.

Lemma is_source_in T x : is_source T x = true -> exists e, In ([x], e) T.
Proof.
  unfold is_source. rewrite existsb_exists. intros [[s e] [Hin E]]. cbn in E.
  apply str_eqb_eq in E. subst. exists e. exact Hin.
Qed.

Lemma word_nonsource P T x : wf_tab P T = true -> is_word x = true -> is_source T x = false.
Proof.
  intros Hwf Hx. destruct (is_source T x) eqn:E; [|reflexivity].
  apply is_source_in in E as [e Hin]. destruct (wf_tab_in P T _ _ Hwf Hin) as [c [Hc Hok]].
  inversion Hc; subst. rewrite (eo_nonword _ _ Hok) in Hx. discriminate.
Qed.

Lemma enc_words P T e : wf_tab P T = true -> forallb is_word e = true -> enc T e = e.
Proof.
  intros Hwf. induction e as [|x e IH]; [reflexivity|]. cbn [forallb]. intro H.
  apply andb_true_iff in H as [H1 H2]. rewrite enc_cons, IH by exact H2.
  rewrite (esc_of_nonsource T x (word_nonsource P T x Hwf H1)). reflexivity.
Qed.

Lemma flat_map_flat_map {A B C} (f : A -> list B) (g : B -> list C) l :
  flat_map g (flat_map f l) = flat_map (fun x => flat_map g (f x)) l.
Proof. induction l as [|x l IH]; [reflexivity|]. cbn. rewrite flat_map_app, IH. reflexivity. Qed.

Theorem apply_repl_enc P T : wf_tab P T = true -> forall w, apply_repl T w = enc T w.
Proof.
  induction T as [|[s e] T IH]; intros Hwf w.
  - rewrite enc_nil. reflexivity.
  - pose proof (wf_tab_tail P _ _ Hwf) as Hwf'.
    destruct (wf_tab_in P _ s e Hwf (or_introl eq_refl)) as [c [Hc Hok]]. subst s.
    change (apply_repl (([c], e) :: T) w) with (apply_repl T (replace [c] e w)).
    rewrite (IH Hwf'), replace_single. unfold enc. rewrite flat_map_flat_map.
    apply flat_map_ext. intro x. cbn [esc_of str_eqb]. rewrite (Z.eqb_sym c x).
    destruct (x =? c); cbn [andb].
    + apply (enc_words P T e Hwf' (eo_word _ _ Hok)).
    + cbn. rewrite app_nil_r. reflexivity.
Qed.

(* ------------------------------------------------------------ where the reserved word can occur *)
Definition noanch (w : str) : Prop := occ anchor w = 0%nat.

Lemma noanch_tail x w : noanch (x :: w) -> noanch w.
Proof. unfold noanch. cbn [occ]. lia. Qed.

Lemma noanch_head w : noanch w -> prefixb anchor w = false.
Proof. apply occ_zero_prefix. discriminate. Qed.

(* no anchor at offsets 0 and 1 *)
Definition quiet (r : str) : Prop :=
  prefixb anchor r = false /\ prefixb anchor (skipn 1 r) = false.

(* a (suffix of the) reserved word read in the escaped text was read in the identifier *)
Lemma prefix_enc_back P T : wf_tab P T = true -> forall a w,
  (forall x, In x a -> memz x anchor = true) ->
  prefixb a (enc T w) = true -> prefixb a w = true.
Proof.
  intros Hwf. induction a as [|h a IH]; intros w Ha H; [reflexivity|].
  destruct w as [|y w]; [cbn in H; discriminate|]. rewrite enc_cons in H.
  destruct (esc_of_cases T y) as [[_ E]|Hin].
  - rewrite E in H. cbn in H. apply andb_true_iff in H as [H1 H2]. cbn. rewrite H1. cbn.
    apply IH; [intros x Hx; apply Ha; right; exact Hx | exact H2].
  - destruct (wf_tab_in P T _ _ Hwf Hin) as [c [_ Hok]].
    destruct (eo_first _ _ Hok) as [f [t [Ee Hf]]]. rewrite Ee in H. cbn in H.
    apply andb_true_iff in H as [H1 _]. apply Z.eqb_eq in H1. subst f.
    rewrite (Ha h (or_introl eq_refl)) in Hf. discriminate.
Qed.

Lemma anchor_self x : In x anchor -> memz x anchor = true.
Proof. intro H. unfold memz. apply existsb_exists. exists x. split; [exact H | apply Z.eqb_refl]. Qed.

(* inside escape ++ quiet text the reserved word is read at offset 2 only *)
Lemma anchor_pos c e r j : entry_ok c e -> quiet r -> (j < length e + 2)%nat ->
  prefixb anchor (skipn j (e ++ r)) = true -> j = anchor_off.
Proof.
  intros Hok [Q0 Q1] Hj H.
  assert (Hle : (j + 5 <= length e \/ (j < length e /\ length e < j + 5) \/ j = length e \/ j = S (length e))%nat) by lia.
  destruct Hle as [L|[[L1 L2]|[L|L]]].
  - rewrite skipn_app_le in H by lia.
    rewrite prefixb_app_long in H by (rewrite skipn_length, anchor_len; lia).
    apply (occ_unique anchor e j anchor_off); [discriminate | exact (eo_once _ _ Hok) | exact H | exact (eo_at _ _ Hok)].
  - exfalso. rewrite skipn_app_le in H by lia.
    destruct (eo_last _ _ Hok) as [b [l [Ee Hl]]].
    assert (Hin : In l (skipn j e)).
    { rewrite Ee. rewrite Ee, app_length in L1. cbn [length] in L1. rewrite skipn_app_le by lia.
      apply in_or_app. right. left. reflexivity. }
    rewrite (prefixb_cover anchor (skipn j e) r H) in Hl; [discriminate | | exact Hin].
    rewrite skipn_length, anchor_len. lia.
  - exfalso. subst j. rewrite skipn_app_ge in H by lia. rewrite Nat.sub_diag in H. cbn [skipn] in H.
    rewrite Q0 in H. discriminate.
  - exfalso. subst j. rewrite skipn_app_ge in H by lia.
    replace (S (length e) - length e)%nat with 1%nat in H by lia. rewrite Q1 in H. discriminate.
Qed.

Lemma quiet_enc P T : wf_tab P T = true -> forall w, noanch w -> quiet (enc T w).
Proof.
  intros Hwf. induction w as [|x w IH]; intro Hn; [split; reflexivity|].
  specialize (IH (noanch_tail _ _ Hn)). rewrite enc_cons.
  destruct (esc_of_cases T x) as [[_ E]|Hin].
  - rewrite E. split.
    + destruct (prefixb anchor ([x] ++ enc T w)) eqn:H; [|reflexivity].
      change ([x] ++ enc T w) with (enc [] [x] ++ enc T w) in H.
      assert (H' : prefixb anchor (enc T (x :: w)) = true) by (rewrite enc_cons, E; exact H).
      apply (prefix_enc_back P T Hwf) in H'; [|intros y Hy; apply anchor_self; exact Hy].
      rewrite (noanch_head _ Hn) in H'. discriminate.
    + cbn [app skipn]. destruct (prefixb anchor (enc T w)) eqn:H; [|reflexivity].
      apply (prefix_enc_back P T Hwf) in H; [|intros y Hy; apply anchor_self; exact Hy].
      rewrite (noanch_head _ (noanch_tail _ _ Hn)) in H. discriminate.
  - destruct (wf_tab_in P T _ _ Hwf Hin) as [c [_ Hok]]. set (e := esc_of T x) in *. split.
    + destruct (prefixb anchor (e ++ enc T w)) eqn:H; [|reflexivity].
      pose proof (anchor_pos c e (enc T w) 0 Hok IH ltac:(lia) H) as Q. discriminate.
    + destruct (prefixb anchor (skipn 1 (e ++ enc T w))) eqn:H; [|reflexivity].
      pose proof (anchor_pos c e (enc T w) 1 Hok IH ltac:(lia) H) as Q. discriminate.
Qed.

(* an occurrence of an escape puts the reserved word two characters further *)
Lemma escape_anchor c e u : entry_ok c e -> prefixb e u = true -> prefixb anchor (skipn anchor_off u) = true.
Proof.
  intros Hok H. apply prefixb_iff in H as [r Hr]. subst u.
  pose proof (eo_at _ _ Hok) as A.
  assert (L : (anchor_off <= length e)%nat).
  { destruct (Nat.le_gt_cases anchor_off (length e)) as [Q|Q]; [exact Q|].
    rewrite skipn_all2 in A by lia. discriminate. }
  rewrite skipn_app_le by exact L. apply prefixb_weaken. exact A.
Qed.

(* ------------------------------------------------------------ undoing one entry *)
Lemma undo_head P c e T : wf_tab P (([c], e) :: T) = true -> forall w, noanch w ->
  replace e [c] (enc (([c], e) :: T) w) = enc T w.
Proof.
  intros Hwf. pose proof (wf_tab_tail P _ _ Hwf) as Hwf'.
  destruct (wf_tab_in P _ [c] e Hwf (or_introl eq_refl)) as [c0 [Hc Hok]].
  inversion Hc; subst c0; clear Hc.
  assert (Hne : e <> []) by (destruct (eo_first _ _ Hok) as [h [t [E _]]]; rewrite E; discriminate).
  assert (R : forall s, replace e [c] s = replace_aux e [c] 0 s) by (intro s; destruct e; [congruence | reflexivity]).
  set (T1 := ([c], e) :: T) in *.
  induction w as [|x w IH]; intro Hn; [rewrite R; reflexivity|].
  specialize (IH (noanch_tail _ _ Hn)). rewrite R in *. rewrite !enc_cons.
  pose proof (quiet_enc P T1 Hwf w (noanch_tail _ _ Hn)) as Q.
  unfold T1 at 1. cbn [esc_of str_eqb]. destruct (c =? x) eqn:Ecx; cbn [andb].
  - apply Z.eqb_eq in Ecx. subst x. rewrite replace_aux_match by exact Hne. rewrite IH.
    assert (Hs : is_source T c = false).
    { destruct (is_source T c) eqn:Es; [|reflexivity]. apply is_source_in in Es as [e' Hin].
      destruct (wf_tab_head P _ _ _ Hwf _ _ Hin) as [D _]. rewrite str_eqb_refl in D. discriminate. }
    rewrite (esc_of_nonsource T c Hs). reflexivity.
  - rewrite replace_aux_nomatch; [rewrite IH; reflexivity|].
    intros k Hk. destruct (prefixb e (skipn k (esc_of T x) ++ enc T1 w)) eqn:H; [exfalso|reflexivity].
    pose proof (escape_anchor c e _ Hok H) as A.
    destruct (esc_of_cases T x) as [[_ E]|Hin].
    + rewrite E in *. cbn [length] in Hk. assert (k = 0%nat) by lia. subst k.
      destruct Q as [_ Q1]. change (skipn anchor_off (skipn 0 [x] ++ enc T1 w)) with (skipn 1 (enc T1 w)) in A.
      rewrite Q1 in A. discriminate.
    + destruct (wf_tab_in P T _ _ Hwf' Hin) as [c' [_ Hok']]. set (e' := esc_of T x) in *. clearbody e'.
      assert (Hk' : (k <= length e')%nat) by (clear - Hk; lia).
      rewrite <- (skipn_app_le k e' (enc T1 w) Hk') in A. rewrite skipn_skipn' in A.
      assert (Hj : (k + anchor_off < length e' + 2)%nat) by (unfold anchor_off; lia).
      pose proof (anchor_pos c' e' (enc T1 w) _ Hok' Q Hj A) as Ek.
      assert (k = 0%nat) by (unfold anchor_off in Ek; lia). subst k. cbn [skipn] in H.
      destruct (wf_tab_head P _ _ _ Hwf _ _ Hin) as [_ [D1 D2]].
      apply prefixb_app_cmp in H as [H|H]; congruence.
Qed.

(* ------------------------------------------------------------ the round trip *)
Theorem undo_enc P T : wf_tab P T = true -> forall w, noanch w -> undo_repl T (enc T w) = w.
Proof.
  induction T as [|[s e] T IH]; intros Hwf w Hn.
  - rewrite enc_nil. reflexivity.
  - destruct (wf_tab_in P _ s e Hwf (or_introl eq_refl)) as [c [Hc _]]. subst s.
    change (undo_repl (([c], e) :: T) (enc (([c], e) :: T) w))
      with (undo_repl T (replace e [c] (enc (([c], e) :: T) w))).
    rewrite (undo_head P c e T Hwf w Hn). apply IH; [exact (wf_tab_tail P _ _ Hwf) | exact Hn].
Qed.

Theorem repl_roundtrip T P w : wf_repl T P = true -> containsb anchor w = false ->
  undo_repl T (apply_repl T w) = w.
Proof.
  intros Hwf Hc. apply wf_repl_tab in Hwf. rewrite (apply_repl_enc P T Hwf).
  apply (undo_enc P T Hwf). unfold noanch. unfold containsb in Hc.
  apply negb_false_iff, Nat.eqb_eq in Hc. exact Hc.
Qed.
