(* GPR.from_string: identifier escaping, lexing, parsing, un-escaping (GPRCleaner.visit_Name).
   Executable model, parameterised by the tables regenerated from gene.py
   (Gen/GprTables.v): T = `replacements`, kws = the keyword list, P = "__cobra_escape__".

   What is *modelled, not verified*: CPython's tokenizer/parser and `re`.  The two regexes
       keyword_re      = (?=\b(kw1|kw2|...)\b)      number_start_re = (?=\b[0-9])
   are read at the level of maximal runs of word characters: `sub` inserts the prefix in front
   of every whole word that is a keyword, resp. that starts with a digit.                     *)
From Coq Require Import ZArith List Bool.
From Cobra.GPR Require Import Syntax.
Import ListNotations.
Open Scope Z_scope.

Definition is_digit (c : Z) : bool := (48 <=? c) && (c <=? 57).
Definition is_alpha (c : Z) : bool := ((65 <=? c) && (c <=? 90)) || ((97 <=? c) && (c <=? 122)).
Definition is_word (c : Z) : bool := is_digit c || is_alpha c || (c =? c_us).
Definition is_ws (c : Z) : bool := (c =? 32) || (c =? 9).

Fixpoint prefixb (p s : str) : bool :=
  match p, s with
  | [], _ => true
  | x :: p', y :: s' => (x =? y) && prefixb p' s'
  | _ :: _, [] => false
  end.

(* Python str.replace(old, new) for non-empty old: leftmost, non-overlapping occurrences.
   `skip` = characters of the current occurrence still to be dropped.                       *)
Fixpoint replace_aux (old new : str) (skip : nat) (s : str) : str :=
  match s with
  | [] => []
  | x :: r =>
      match skip with
      | S k => replace_aux old new k r
      | O => if prefixb old s
             then new ++ replace_aux old new (length old - 1) r
             else x :: replace_aux old new 0 r
      end
  end.
Definition replace (old new s : str) : str :=
  match old with [] => s | _ => replace_aux old new 0 s end.

Fixpoint drop_ws (s : str) : str :=
  match s with x :: r => if is_ws x then drop_ws r else s | [] => [] end.
Definition strip (s : str) : str := rev (drop_ws (rev (drop_ws s))).

Definition table := list (str * str).

(* for char, escaped in replacements: s = s.replace(char, escaped) *)
Definition apply_repl (T : table) (s : str) : str :=
  fold_left (fun s ce => replace (fst ce) (snd ce) s) T s.
(* for char, escaped in replacements: id = id.replace(escaped, char) *)
Definition undo_repl (T : table) (s : str) : str :=
  fold_left (fun s ce => replace (snd ce) (fst ce) s) T s.

Fixpoint span_word (s : str) : str * str :=
  match s with
  | x :: r => if is_word x then let (w, r') := span_word r in (x :: w, r') else ([], s)
  | [] => ([], [])
  end.

(* regex.sub(P, s) for a zero-width pattern that matches in front of the words selected by `p` *)
Fixpoint prefix_words (p : str -> bool) (P : str) (inw : bool) (s : str) : str :=
  match s with
  | [] => []
  | x :: r =>
      if is_word x then
        if inw then x :: prefix_words p P true r
        else (if p (fst (span_word s)) then P else []) ++ x :: prefix_words p P true r
      else x :: prefix_words p P false r
  end.

Definition starts_digit (w : str) : bool := match w with c :: _ => is_digit c | [] => false end.

Definition escape_str (T : table) (kws : list str) (P : str) (s : str) : str :=
  let s2 := apply_repl T s in
  let s3 := prefix_words (fun w => mem w kws) P false s2 in
  let s3' := prefix_words starts_digit P false s3 in
  replace [c_lp; c_rp] [] s3'.

(* the word-level view used by the identifier theorem *)
Definition escape_word (T : table) (kws : list str) (P : str) (w : str) : str :=
  let w2 := apply_repl T w in
  let w3 := if mem w2 kws then P ++ w2 else w2 in
  if starts_digit w3 then P ++ w3 else w3.

(* GPRCleaner.visit_Name *)
Definition unescape_name (T : table) (P : str) (nstrip : nat) (w : str) : str :=
  undo_repl T (if prefixb P w then skipn nstrip w else w).

Definition word_token (upper : bool) (w : str) : token :=
  if str_eqb w s_and then TAND
  else if str_eqb w s_or then TOR
  else if upper && str_eqb w s_AND then TAND
  else if upper && str_eqb w s_OR then TOR
  else TNAME w.

(* None = a character outside the modelled token language *)
Fixpoint lex (upper : bool) (inw : bool) (s : str) : option (list token) :=
  match s with
  | [] => Some []
  | x :: r =>
      if is_word x then
        if inw then lex upper true r
        else match lex upper true r with
             | Some ts => Some (word_token upper (fst (span_word s)) :: ts)
             | None => None
             end
      else
        let one (k : token) := match lex upper false r with Some ts => Some (k :: ts) | None => None end in
        if x =? c_lp then one TLP
        else if x =? c_rp then one TRP
        else if x =? c_amp then one TAMP
        else if x =? c_bar then one TBAR
        else if is_ws x then lex upper false r
        else None
  end.

(* Call syntax `f (x)` and the empty tuple `( )` are valid Python but not gene rules; they
   are recognised so that the model can say "outside" exactly when CPython would build such a
   node.  `decall` turns them into shapes of the call-free grammar with the same validity.   *)
Definition ends_atom (k : token) : bool := match k with TNAME _ | TRP => true | _ => false end.
Fixpoint has_call (ts : list token) : bool :=
  match ts with
  | a :: ((b :: _) as r) =>
      (match a, b with TLP, TRP => true | _, TLP => ends_atom a | _, _ => false end) || has_call r
  | _ => false
  end.
Fixpoint decall (ts : list token) : list token :=
  match ts with
  | a :: ((b :: _) as r) =>
      match a, b with
      | TLP, TRP => a :: TNAME [] :: decall r
      | _, TLP => if ends_atom a then a :: TAMP :: decall r else a :: decall r
      | _, _ => a :: decall r
      end
  | _ => ts
  end.

Fixpoint map_names (f : ident -> ident) (t : gpr) : gpr :=
  match t with
  | Gene g => Gene (f g)
  | Bool o l => Bool o (map (map_names f) l)
  end.

Inductive outcome :=
| Parsed (r : rule)          (* a GPR object; None = empty body (blank or malformed text) *)
| Outside.                   (* input outside the modelled language *)

Inductive attempt := AOk (t : gpr) | ASyntax | AOutside.

Definition try_parse (indent : bool) (ots : option (list token)) : attempt :=
  match ots with
  | None => AOutside
  | Some ts =>
      if indent then ASyntax
      else if has_call ts then match parse (decall ts) with Some _ => AOutside | None => ASyntax end
      else match parse ts with Some t => AOk t | None => ASyntax end
  end.

Definition from_string (T : table) (kws : list str) (P : str) (nstrip : nat) (s : str) : outcome :=
  let s1 := strip s in
  match s1 with
  | [] => Parsed None
  | _ =>
      let s4 := escape_str T kws P s1 in
      let indent := match s4 with c :: _ => is_ws c | [] => false end in
      let fin t := Parsed (Some (map_names (unescape_name T P nstrip) t)) in
      match try_parse indent (lex false false s4) with
      | AOk t => fin t
      | AOutside => Outside
      | ASyntax =>
          (* except SyntaxError: AND/OR as whole words become and/or, second attempt *)
          match try_parse indent (lex true false s4) with
          | AOk t => fin t
          | AOutside => Outside
          | ASyntax => Parsed None
          end
      end
  end.

(* ------------------------------------------------------------ side conditions (decidable) *)
Definition anchor : str := [67; 79; 66; 82; 65].       (* "COBRA": occurs in every escape *)
Definition anchor_off : nat := 2%nat.

Fixpoint occ (p s : str) : nat :=
  match s with
  | [] => 0%nat
  | _ :: r => ((if prefixb p s then 1 else 0) + occ p r)%nat
  end.
Definition containsb (p s : str) : bool := negb (Nat.eqb (occ p s) 0).
Definition memz (c : Z) (s : str) : bool := existsb (Z.eqb c) s.
Definition agree (a b : str) : bool := prefixb a b || prefixb b a.

Fixpoint tails (s : str) : list str := match s with [] => [] | _ :: r => s :: tails r end.
Fixpoint pairwise {A} (f : A -> A -> bool) (l : list A) : bool :=
  match l with [] => true | x :: r => forallb (fun y => f x y && f y x) r && pairwise f r end.

Definition is_source (T : table) (c : Z) : bool := existsb (fun ce => str_eqb (fst ce) [c]) T.

(* identifiers the escaping is claimed for: word characters and table characters, not containing
   the reserved word, whose replaced form does not begin with the reserved prefix *)
Definition id_okb (T : table) (P : str) (w : str) : bool :=
  negb (match w with [] => true | _ => false end) &&
  forallb (fun c => is_word c || is_source T c) w &&
  negb (containsb anchor w) && negb (prefixb P (apply_repl T w)) &&
  negb (str_eqb w s_and) && negb (str_eqb w s_or).

Definition wf_entry (P : str) (ce : str * str) : bool :=
  let (c, e) := ce in
  match c with
  | [x] => negb (is_word x) && negb (is_ws x) && negb (memz x [c_lp; c_rp; c_amp; c_bar])
  | _ => false
  end &&
  forallb is_word e &&
  Nat.eqb (occ anchor e) 1 && prefixb anchor (skipn anchor_off e) &&
  match e with x :: _ => negb (memz x anchor) | [] => false end &&
  match rev e with x :: _ => negb (memz x anchor) | [] => false end.

Definition wf_repl (T : table) (P : str) : bool :=
  forallb (wf_entry P) T &&
  pairwise (fun a b => negb (str_eqb (fst a) (fst b))) T &&
  pairwise (fun a b => negb (prefixb (snd a) (snd b))) T &&
  negb (match P with [] => true | _ => false end) && forallb is_word P && negb (starts_digit P).

Definition wf_kws (kws : list str) : bool :=
  forallb (fun k => forallb is_word k && negb (starts_digit k) && negb (containsb anchor k)
                    && negb (match k with [] => true | _ => false end)) kws &&
  negb (mem s_and kws) && negb (mem s_or kws).

(* a Python identifier that is not a keyword *)
Definition is_py_name (kws : list str) (w : str) : bool :=
  negb (match w with [] => true | _ => false end) && forallb is_word w && negb (starts_digit w) &&
  negb (mem w kws) && negb (str_eqb w s_and) && negb (str_eqb w s_or).

(* the reserved prefix does not begin a keyword (nor and/or): a prefixed word is never a keyword *)
Definition wf_prefix (P : str) (kws : list str) : bool :=
  forallb (fun k => negb (prefixb P k)) (s_and :: s_or :: kws).
