(* Proofs about the gene-rule model: semantics of eval/genes, monotonicity, _GeneRemover,
   the symbolic normal form and `==`. *)
From Coq Require Import ZArith List Bool Lia.
From Cobra.GPR Require Import Syntax Remover.
Import ListNotations.
Open Scope Z_scope.

(* ------------------------------------------------------------ induction principle *)
Section Ind.
  Variable P : gpr -> Prop.
  Hypothesis Hg : forall g, P (Gene g).
  Hypothesis Hb : forall o l, Forall P l -> P (Bool o l).
  Fixpoint gpr_ind' (t : gpr) : P t :=
    match t with
    | Gene g => Hg g
    | Bool o l =>
        Hb o l ((fix go (l : list gpr) : Forall P l :=
                   match l with
                   | [] => Forall_nil P
                   | x :: r => Forall_cons x (gpr_ind' x) (go r)
                   end) l)
    end.
End Ind.

(* ------------------------------------------------------------ identifiers *)
Lemma str_eqb_eq a b : str_eqb a b = true <-> a = b.
Proof.
  revert b. induction a as [|x a IH]; destruct b as [|y b]; cbn; split; intro H; try discriminate; auto.
  - apply andb_true_iff in H as [H1 H2]. apply Z.eqb_eq in H1. apply IH in H2. congruence.
  - inversion H; subst. rewrite Z.eqb_refl. cbn. apply IH. reflexivity.
Qed.

Lemma str_eqb_refl a : str_eqb a a = true.
Proof. apply str_eqb_eq. reflexivity. Qed.

Lemma mem_In g l : mem g l = true <-> In g l.
Proof.
  unfold mem. rewrite existsb_exists. split.
  - intros [x [Hx He]]. apply str_eqb_eq in He. subst. exact Hx.
  - intro H. exists g. split; [exact H | apply str_eqb_refl].
Qed.

Lemma mem_false g l : mem g l = false <-> ~ In g l.
Proof. rewrite <- mem_In. destruct (mem g l); split; intro H; try discriminate; auto. exfalso; apply H; reflexivity. Qed.

Lemma uniq_In g l : In g (uniq l) <-> In g l.
Proof.
  induction l as [|x l IH]; cbn; [tauto|].
  destruct (mem x l) eqn:E.
  - rewrite IH. split; [tauto|]. intros [H|H]; [subst; apply mem_In; exact E | exact H].
  - cbn. rewrite IH. tauto.
Qed.

(* ------------------------------------------------------------ semantics *)
(* "g occurs in t" and "t holds when the genes in K are absent", stated without reference to
   the evaluator *)
Inductive occurs (g : ident) : gpr -> Prop :=
| occ_gene : occurs g (Gene g)
| occ_bool o l x : In x l -> occurs g x -> occurs g (Bool o l).

Inductive holds (K : ident -> bool) : gpr -> Prop :=
| h_gene g : K g = false -> holds K (Gene g)
| h_and l : Forall (holds K) l -> holds K (Bool And l)
| h_or l : Exists (holds K) l -> holds K (Bool Or l).

Theorem genes_sem t g : In g (genes t) <-> occurs g t.
Proof.
  induction t as [h|o l IH] using gpr_ind'; cbn.
  - split; [intros [H|[]]; subst; constructor | intro H; inversion H; auto].
  - rewrite in_flat_map. rewrite Forall_forall in IH. split.
    + intros [x [Hx Hg]]. apply (occ_bool g o l x Hx). apply IH; assumption.
    + intro H. inversion H; subst. exists x. split; [assumption|]. apply IH; assumption.
Qed.

Theorem eval_sem K t : eval K t = true <-> holds K t.
Proof.
  induction t as [h|o l IH] using gpr_ind'.
  - cbn. rewrite negb_true_iff. split; [intro H; constructor; exact H | intro H; inversion H; auto].
  - rewrite Forall_forall in IH. destruct o; cbn.
    + rewrite forallb_forall. split.
      * intro H. constructor. apply Forall_forall. intros x Hx. apply IH; auto.
      * intro H. inversion H; subst. rewrite Forall_forall in H1. intros x Hx. apply IH; auto.
    + rewrite existsb_exists. split.
      * intros [x [Hx He]]. constructor. apply Exists_exists. exists x. split; [exact Hx|]. apply IH; auto.
      * intro H. inversion H; subst. apply Exists_exists in H1 as [x [Hx He]]. exists x. split; [exact Hx|].
        apply IH; auto.
Qed.

Lemma forallb_ext_in {A} (f g : A -> bool) l : (forall x, In x l -> f x = g x) -> forallb f l = forallb g l.
Proof. induction l; cbn; intro H; [reflexivity|]. rewrite H by (left; reflexivity). rewrite IHl; [reflexivity | intros; apply H; right; assumption]. Qed.
Lemma existsb_ext_in {A} (f g : A -> bool) l : (forall x, In x l -> f x = g x) -> existsb f l = existsb g l.
Proof. induction l; cbn; intro H; [reflexivity|]. rewrite H by (left; reflexivity). rewrite IHl; [reflexivity | intros; apply H; right; assumption]. Qed.

Lemma forallb_map' {A B} (f : A -> B) p l : forallb p (map f l) = forallb (fun x => p (f x)) l.
Proof. induction l; cbn; [reflexivity | rewrite IHl; reflexivity]. Qed.
Lemma existsb_map' {A B} (f : A -> B) p l : existsb p (map f l) = existsb (fun x => p (f x)) l.
Proof. induction l; cbn; [reflexivity | rewrite IHl; reflexivity]. Qed.

(* the value depends only on the genes that occur *)
Theorem eval_ext K K' t : (forall g, In g (genes t) -> K g = K' g) -> eval K t = eval K' t.
Proof.
  induction t as [h|o l IH] using gpr_ind'; cbn; intro H.
  - rewrite H by (left; reflexivity). reflexivity.
  - rewrite Forall_forall in IH.
    assert (E : forall x, In x l -> eval K x = eval K' x).
    { intros x Hx. apply IH; [exact Hx|]. intros g Hg. apply H. apply in_flat_map. exists x. auto. }
    destruct o; [apply forallb_ext_in | apply existsb_ext_in]; exact E.
Qed.

(* rules are monotone: knocking out more genes never turns a rule on *)
Theorem eval_mono K K' t :
  (forall g, K g = true -> K' g = true) -> eval K' t = true -> eval K t = true.
Proof.
  intro Hsub. induction t as [h|o l IH] using gpr_ind'; cbn.
  - rewrite !negb_true_iff. intro H. destruct (K h) eqn:E; [apply Hsub in E; congruence | reflexivity].
  - rewrite Forall_forall in IH. destruct o.
    + rewrite !forallb_forall. intros H x Hx. apply IH; auto.
    + rewrite !existsb_exists. intros [x [Hx He]]. exists x. split; auto.
Qed.

Lemma eval_all_present t : wf t = true -> eval (fun _ => false) t = true.
Proof.
  induction t as [h|o l IH] using gpr_ind'; cbn; [reflexivity|].
  intro H. apply andb_true_iff in H as [Hne Hall]. rewrite Forall_forall in IH.
  rewrite forallb_forall in Hall. destruct o.
  - apply forallb_forall. intros x Hx. apply IH; auto.
  - destruct l as [|x r]; [discriminate|]. cbn. rewrite IH; [reflexivity | left; reflexivity | apply Hall; left; reflexivity].
Qed.

(* ------------------------------------------------------------ _GeneRemover *)
Definition kunion (A K : ident -> bool) : ident -> bool := fun g => A g || K g.

Definition remove_spec (K : ident -> bool) (t : gpr) (r : option gpr) : Prop :=
  match r with
  | None => forall A, (forall g, K g = true -> A g = true) -> eval A t = false
  | Some t' =>
      (forall A, eval A t' = eval (kunion A K) t) /\
      (forall g, In g (genes t') -> K g = false /\ In g (genes t)) /\
      wf t' = true
  end.

Section Remove.
  Variable K : ident -> bool.
  Let R (x : gpr) : Prop := remove_spec K x (remove K x).

  Lemma kunion_sup A : forall g, K g = true -> kunion A K g = true.
  Proof. intros g H. unfold kunion. rewrite H. apply orb_true_r. Qed.

  Lemma omap_len (l : list gpr) : (length (omap (remove K) l) <= length l)%nat.
  Proof. induction l as [|x l IH]; cbn; [lia|]. destruct (remove K x); cbn; lia. Qed.

  Lemma omap_exists l : Forall R l -> forall A,
    existsb (eval A) (omap (remove K) l) = existsb (eval (kunion A K)) l.
  Proof.
    induction 1 as [|x l Hx Hl IH]; intro A; cbn; [reflexivity|].
    unfold R, remove_spec in Hx. destruct (remove K x) as [x'|]; cbn.
    - destruct Hx as [Hx _]. rewrite Hx, IH. reflexivity.
    - rewrite (Hx _ (kunion_sup A)). cbn. apply IH.
  Qed.

  Lemma omap_forall_eq l : Forall R l -> length (omap (remove K) l) = length l -> forall A,
    forallb (eval A) (omap (remove K) l) = forallb (eval (kunion A K)) l.
  Proof.
    induction 1 as [|x l Hx Hl IH]; intros Hlen A; cbn in *; [reflexivity|].
    unfold R, remove_spec in Hx. destruct (remove K x) as [x'|]; cbn in *.
    - destruct Hx as [Hx _]. rewrite Hx, IH by lia. reflexivity.
    - pose proof (omap_len l). lia.
  Qed.

  Lemma omap_lt_false l : Forall R l -> (length (omap (remove K) l) < length l)%nat ->
    forall A, (forall g, K g = true -> A g = true) -> forallb (eval A) l = false.
  Proof.
    induction 1 as [|x l Hx Hl IH]; intros Hlen A HA; cbn in *; [lia|].
    unfold R, remove_spec in Hx. destruct (remove K x) as [x'|]; cbn in *.
    - rewrite IH by (auto; lia). apply andb_false_r.
    - rewrite (Hx A HA). reflexivity.
  Qed.

  Lemma omap_nil_exists l : Forall R l -> omap (remove K) l = [] ->
    forall A, (forall g, K g = true -> A g = true) -> existsb (eval A) l = false.
  Proof.
    induction 1 as [|x l Hx Hl IH]; intros Hnil A HA; cbn in *; [reflexivity|].
    unfold R, remove_spec in Hx. destruct (remove K x) as [x'|]; [discriminate|].
    rewrite (Hx A HA). cbn. apply IH; auto.
  Qed.

  Lemma omap_genes l : Forall R l -> forall g, In g (flat_map genes (omap (remove K) l)) ->
    K g = false /\ In g (flat_map genes l).
  Proof.
    induction 1 as [|x l Hx Hl IH]; intros g Hg; cbn in *; [contradiction|].
    unfold R, remove_spec in Hx. destruct (remove K x) as [x'|]; cbn in *.
    - destruct Hx as [_ [Hx _]]. apply in_app_or in Hg as [Hg|Hg].
      + destruct (Hx g Hg). split; [assumption|]. apply in_or_app. left; assumption.
      + destruct (IH g Hg). split; [assumption|]. apply in_or_app. right; assumption.
    - destruct (IH g Hg). split; [assumption|]. apply in_or_app. right; assumption.
  Qed.

  Lemma omap_wf l : Forall R l -> forallb wf (omap (remove K) l) = true.
  Proof.
    induction 1 as [|x l Hx Hl IH]; cbn; [reflexivity|].
    unfold R, remove_spec in Hx. destruct (remove K x) as [x'|]; cbn; [|exact IH].
    destruct Hx as [_ [_ Hx]]. rewrite Hx, IH. reflexivity.
  Qed.

  Theorem remove_ok t : wf t = true -> remove_spec K t (remove K t).
  Proof.
    induction t as [h|o l IH] using gpr_ind'; intro Hwf.
    - cbn. destruct (K h) eqn:E; cbn.
      + intros A HA. rewrite (HA h E). reflexivity.
      + split; [|split]; [| |reflexivity].
        * intro A. cbn. unfold kunion. rewrite E, orb_false_r. reflexivity.
        * intros g [Hg|[]]. subst. auto.
    - cbn in Hwf. apply andb_true_iff in Hwf as [Hne Hall].
      assert (HR : Forall R l).
      { rewrite Forall_forall in *. rewrite forallb_forall in Hall. intros x Hx. apply IH; auto. }
      clear IH. cbn [remove].
      pose proof (omap_len l) as Hlen.
      destruct (omap (remove K) l) as [|y ys] eqn:El.
      + (* nothing left *)
        cbn. intros A HA. destruct o; cbn.
        * destruct l as [|x r]; [discriminate|].
          apply (omap_lt_false _ HR); [rewrite El; cbn; lia | exact HA].
        * apply (omap_nil_exists _ HR El A HA).
      + rewrite <- El.
        destruct (Nat.ltb (length (omap (remove K) l)) (length l) && bop_eqb o And) eqn:Ecut.
        * apply andb_true_iff in Ecut as [Hlt Ho]. apply Nat.ltb_lt in Hlt.
          destruct o; [|discriminate]. cbn. intros A HA. apply (omap_lt_false _ HR Hlt A HA).
        * (* the node survives, possibly collapsed to its only child *)
          assert (Hev : forall A, eval A (Bool o (omap (remove K) l)) = eval (kunion A K) (Bool o l)).
          { intro A. destruct o; cbn.
            - apply omap_forall_eq; [exact HR|]. cbn in Ecut. rewrite andb_true_r in Ecut.
              apply Nat.ltb_ge in Ecut. pose proof (omap_len l). lia.
            - apply omap_exists; exact HR. }
          assert (Hgs : forall g, In g (genes (Bool o (omap (remove K) l))) -> K g = false /\ In g (genes (Bool o l))).
          { cbn. apply omap_genes; exact HR. }
          assert (Hw : wf (Bool o (omap (remove K) l)) = true).
          { change (negb (match omap (remove K) l with [] => true | _ => false end)
                    && forallb wf (omap (remove K) l) = true).
            rewrite (omap_wf _ HR), El. reflexivity. }
          rewrite El in *. destruct ys as [|z zs].
          -- unfold remove_spec. split; [|split].
             ++ intro A. rewrite <- Hev. destruct o; cbn; [rewrite andb_true_r | rewrite orb_false_r]; reflexivity.
             ++ intros g Hg. apply Hgs. cbn. rewrite app_nil_r. exact Hg.
             ++ cbn in Hw. rewrite andb_true_r in Hw. exact Hw.
          -- unfold remove_spec. split; [|split]; [exact Hev | exact Hgs | exact Hw].
  Qed.
End Remove.

(* the statement in the form of DESIGN 3.2 *)
Theorem remove_sem K t : wf t = true ->
  match remove K t with
  | None => forall A, (forall g, K g = true -> A g = true) -> eval A t = false
  | Some t' => (forall A, eval A t' = eval (fun g => A g || K g) t) /\
               (forall g, In g (genes t') -> K g = false /\ In g (genes t))
  end.
Proof.
  intro H. pose proof (remove_ok K t H) as R. unfold remove_spec in R.
  destruct (remove K t); [|exact R]. destruct R as [R1 [R2 _]]. split; assumption.
Qed.

(* the reaction "can still be catalysed" exactly when the remover leaves something *)
Theorem remove_none_iff K t : wf t = true -> (remove K t = None <-> eval K t = false).
Proof.
  intro H. pose proof (remove_ok K t H) as R. unfold remove_spec in R.
  destruct (remove K t) as [t'|]; split; intro E; try discriminate; try reflexivity.
  - destruct R as [R1 [_ R3]]. pose proof (eval_all_present t' R3) as Ht. rewrite R1 in Ht.
    rewrite (eval_ext _ K) in Ht; [congruence|]. intros g _. reflexivity.
  - apply R. auto.
Qed.

(* ------------------------------------------------------------ symbolic normal form *)
Definition same_genes (a b : gpr) : Prop := forall g, In g (genes a) <-> In g (genes b).
Definition same_sem (a b : gpr) : Prop := (forall K, eval K a = eval K b) /\ same_genes a b.

Lemma existsb_incl {A} (f : A -> bool) l l' :
  (forall x, In x l -> exists y, In y l' /\ f x = f y) -> existsb f l = true -> existsb f l' = true.
Proof.
  intros H E. apply existsb_exists in E as [x [Hx Hf]]. destruct (H x Hx) as [y [Hy Hxy]].
  apply existsb_exists. exists y. split; congruence.
Qed.

Lemma forallb_incl {A} (f : A -> bool) l l' :
  (forall y, In y l' -> exists x, In x l /\ f x = f y) -> forallb f l = true -> forallb f l' = true.
Proof.
  intros H E. rewrite forallb_forall in *. intros y Hy. destruct (H y Hy) as [x [Hx Hxy]].
  rewrite <- Hxy. apply E. exact Hx.
Qed.

Lemma bool_eq_iff (a b : bool) : (a = true <-> b = true) -> a = b.
Proof. destruct a, b; intros [H1 H2]; try reflexivity; [symmetry; apply H1; reflexivity | apply H2; reflexivity]. Qed.

Lemma sym_eqb_sound a : forall b, sym_eqb a b = true -> same_sem a b.
Proof.
  induction a as [g|o l IH] using gpr_ind'; intros [h|o' l'] H; cbn in H; try discriminate.
  - apply str_eqb_eq in H. subst. split; [reflexivity | intro; reflexivity].
  - apply andb_true_iff in H as [H H4]. apply andb_true_iff in H as [H H3].
    apply andb_true_iff in H as [H1 H2].
    assert (o' = o) by (destruct o, o'; cbn in H1; congruence). subst o'.
    rewrite Forall_forall in IH. rewrite forallb_forall in H3, H4.
    assert (F : forall x, In x l -> exists y, In y l' /\ same_sem x y).
    { intros x Hx. specialize (H3 x Hx). apply existsb_exists in H3 as [y [Hy E]]. exists y. split; auto. }
    assert (G : forall y, In y l' -> exists x, In x l /\ same_sem x y).
    { intros y Hy. specialize (H4 y Hy). apply existsb_exists in H4 as [x [Hx E]]. exists x. split; auto. }
    split.
    + intro K. destruct o; cbn; apply bool_eq_iff; split.
      * apply forallb_incl. intros y Hy. destruct (G y Hy) as [x [Hx [E _]]]. exists x. auto.
      * apply forallb_incl. intros x Hx. destruct (F x Hx) as [y [Hy [E _]]]. exists y. auto.
      * apply existsb_incl. intros x Hx. destruct (F x Hx) as [y [Hy [E _]]]. exists y. auto.
      * apply existsb_incl. intros y Hy. destruct (G y Hy) as [x [Hx [E _]]]. exists x. auto.
    + intro g. cbn. rewrite !in_flat_map. split.
      * intros [x [Hx Hg]]. destruct (F x Hx) as [y [Hy [_ E]]]. exists y. split; [exact Hy | apply E; exact Hg].
      * intros [y [Hy Hg]]. destruct (G y Hy) as [x [Hx [_ E]]]. exists x. split; [exact Hx | apply E; exact Hg].
Qed.

Lemma dedupe_sem l :
  (forall K, existsb (eval K) (dedupe l) = existsb (eval K) l) /\
  (forall K, forallb (eval K) (dedupe l) = forallb (eval K) l) /\
  (forall g, In g (flat_map genes (dedupe l)) <-> In g (flat_map genes l)).
Proof.
  induction l as [|x l [IH1 [IH2 IH3]]]; cbn; [repeat split; auto|].
  destruct (existsb (sym_eqb x) (dedupe l)) eqn:E.
  - apply existsb_exists in E as [y [Hy E]]. apply sym_eqb_sound in E as [Ev Eg].
    repeat split.
    + intro K. rewrite IH1. destruct (eval K x) eqn:Ex; [|reflexivity]. cbn.
      rewrite <- IH1. apply existsb_exists. exists y. split; [exact Hy | rewrite <- Ev; exact Ex].
    + intro K. rewrite IH2. destruct (eval K x) eqn:Ex; [reflexivity|]. cbn.
      rewrite <- IH2. apply not_true_is_false. intro F. rewrite forallb_forall in F.
      specialize (F y Hy). rewrite <- Ev in F. congruence.
    + intro H. apply in_or_app. right. apply IH3. exact H.
    + intro H. apply in_app_or in H as [H|H]; [|apply IH3; exact H].
      apply in_flat_map. exists y. split; [exact Hy | apply Eg; exact H].
  - cbn. repeat split.
    + intro K. rewrite IH1. reflexivity.
    + intro K. rewrite IH2. reflexivity.
    + intro H. apply in_app_or in H as [H|H]; apply in_or_app; [left; exact H | right; apply IH3; exact H].
    + intro H. apply in_app_or in H as [H|H]; apply in_or_app; [left; exact H | right; apply IH3; exact H].
Qed.

Lemma splice_sem o l :
  (forall K, eval K (Bool o (flat_map (splice o) l)) = eval K (Bool o l)) /\
  (forall g, In g (flat_map genes (flat_map (splice o) l)) <-> In g (flat_map genes l)).
Proof.
  induction l as [|x l [IH1 IH2]]; cbn [flat_map]; [split; [reflexivity | tauto]|].
  assert (Hx : (forall K, eval K (Bool o (splice o x)) = eval K x) /\
               (forall g, In g (flat_map genes (splice o x)) <-> In g (genes x))).
  { destruct x as [g|o' l']; cbn.
    - split; [intro K; destruct o; cbn; [apply andb_true_r | apply orb_false_r] | intro; try rewrite app_nil_r; tauto].
    - destruct (bop_eqb o o') eqn:E.
      + assert (o' = o) by (destruct o, o'; cbn in E; congruence). subst. split; [reflexivity | tauto].
      + cbn. split; [intro K; destruct o; cbn; [apply andb_true_r | apply orb_false_r] | intro; try rewrite app_nil_r; tauto]. }
  destruct Hx as [Hx1 Hx2]. split.
  - intro K. specialize (IH1 K). specialize (Hx1 K). destruct o; cbn in *.
    + rewrite forallb_app, Hx1, IH1. reflexivity.
    + rewrite existsb_app, Hx1, IH1. reflexivity.
  - intro g. rewrite flat_map_app, !in_app_iff, Hx2, IH2. tauto.
Qed.

Theorem norm_sem t : same_sem (norm t) t.
Proof.
  induction t as [g|o l IH] using gpr_ind'.
  - split; [reflexivity | intro; reflexivity].
  - cbn [norm].
    set (l1 := map norm l). set (l2 := flat_map (splice o) l1). set (l3 := dedupe l2).
    assert (H1 : same_sem (Bool o l1) (Bool o l)).
    { rewrite Forall_forall in IH. split.
      - intro K. unfold l1. destruct o; cbn.
        + rewrite forallb_map'. apply forallb_ext_in. intros x Hx. apply IH; exact Hx.
        + rewrite existsb_map'. apply existsb_ext_in. intros x Hx. apply IH; exact Hx.
      - intro g. cbn. unfold l1. rewrite !in_flat_map. split.
        + intros [y [Hy Hg]]. apply in_map_iff in Hy as [x [Ex Hx]]. subst y. exists x. split; [exact Hx|].
          apply (IH x Hx); exact Hg.
        + intros [x [Hx Hg]]. exists (norm x). split; [apply in_map; exact Hx | apply (IH x Hx); exact Hg]. }
    assert (H2 : same_sem (Bool o l2) (Bool o l1)).
    { destruct (splice_sem o l1) as [A B]. split; [exact A | exact B]. }
    assert (H3 : same_sem (Bool o l3) (Bool o l2)).
    { destruct (dedupe_sem l2) as [A [B C]]. split; [|exact C]. intro K. destruct o; cbn; [apply B | apply A]. }
    assert (H4 : same_sem (Bool o l3) (Bool o l)).
    { destruct H1 as [A1 B1], H2 as [A2 B2], H3 as [A3 B3]. split.
      - intro K. rewrite A3, A2, A1. reflexivity.
      - intro g. rewrite (B3 g), (B2 g), (B1 g). tauto. }
    destruct l3 as [|x [|y r]]; try exact H4.
    destruct H4 as [A B]. split.
    + intro K. rewrite <- A. destruct o; cbn; [rewrite andb_true_r | rewrite orb_false_r]; reflexivity.
    + intro g. rewrite <- (B g). cbn. rewrite app_nil_r. tauto.
Qed.

(* ------------------------------------------------------------ == *)
Lemma filter_in_sublists {A} (f : A -> bool) l : In (filter f l) (sublists l).
Proof.
  induction l as [|x l IH]; cbn; [left; reflexivity|].
  apply in_or_app. destruct (f x); [left; apply in_map; exact IH | right; exact IH].
Qed.

Lemma eval_restrict K t (u : list ident) :
  (forall g, In g (genes t) -> In g u) ->
  eval K t = eval (in_set (filter K u)) t.
Proof.
  intro H. apply eval_ext. intros g Hg. unfold in_set.
  destruct (K g) eqn:E.
  - symmetry. apply mem_In. apply filter_In. split; [apply H; exact Hg | exact E].
  - symmetry. apply mem_false. intro F. apply filter_In in F as [_ F]. congruence.
Qed.

Lemma same_table_sound a b :
  set_eqb (genes a) (genes b) = true -> same_table a b = true -> forall K, eval K a = eval K b.
Proof.
  intros Hs Ht K. unfold set_eqb, subset in Hs. apply andb_true_iff in Hs as [_ Hba].
  rewrite forallb_forall in Hba. unfold same_table in Ht. rewrite forallb_forall in Ht.
  set (u := uniq (genes a)).
  rewrite (eval_restrict K a u) by (intros g Hg; apply uniq_In; exact Hg).
  rewrite (eval_restrict K b u) by (intros g Hg; apply uniq_In; apply mem_In; apply Hba; exact Hg).
  apply eqb_prop. apply Ht. apply filter_in_sublists.
Qed.

Theorem eq_sound a b : gpr_eq a b = true -> forall K, eval_rule K a = eval_rule K b.
Proof.
  destruct a as [x|], b as [y|]; cbn; try discriminate; [|reflexivity].
  intros H K. destruct (norm_sem x) as [Ex _], (norm_sem y) as [Ey _].
  rewrite <- Ex, <- Ey.
  destruct (norm x) as [g|o l] eqn:Nx, (norm y) as [h|o' l'] eqn:Ny; try discriminate.
  - apply str_eqb_eq in H. subst. reflexivity.
  - apply andb_true_iff in H as [H1 H2]. apply same_table_sound; assumption.
Qed.

Theorem eq_same_genes a b : gpr_eq a b = true -> forall g, In g (genes_rule a) <-> In g (genes_rule b).
Proof.
  destruct a as [x|], b as [y|]; cbn; try discriminate; [|tauto].
  intros H g. destruct (norm_sem x) as [_ Gx], (norm_sem y) as [_ Gy].
  rewrite <- (Gx g), <- (Gy g).
  destruct (norm x) as [g1|o l] eqn:Nx, (norm y) as [h|o' l'] eqn:Ny; try discriminate.
  - apply str_eqb_eq in H. subst. tauto.
  - apply andb_true_iff in H as [H1 _]. unfold set_eqb, subset in H1. apply andb_true_iff in H1 as [A B].
    rewrite forallb_forall in A, B. split; intro Hg; apply mem_In; [apply A | apply B]; exact Hg.
Qed.
