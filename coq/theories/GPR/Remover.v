(* cobra.manipulation.delete._GeneRemover (an ast.NodeTransformer) and the symbolic form
   (as_symbolic / from_symbolic / __eq__).  Executable model only.                        *)
From Coq Require Import ZArith List Bool.
From Cobra.GPR Require Import Syntax.
Import ListNotations.
Open Scope Z_scope.

Section Omap.
  Context {A B : Type} (f : A -> option B).
  Fixpoint omap (l : list A) : list B :=
    match l with
    | [] => []
    | x :: r => match f x with Some y => y :: omap r | None => omap r end
    end.
End Omap.

(* visit_Name: None if the id is a target.
   visit_BoolOp: n = len(values); generic_visit drops the children that became None;
     no child left -> None; an And that lost a child -> None; one child left -> that child. *)
Fixpoint remove (K : ident -> bool) (t : gpr) : option gpr :=
  match t with
  | Gene g => if K g then None else Some (Gene g)
  | Bool o l =>
      let l' := omap (remove K) l in
      match l' with
      | [] => None
      | _ =>
          if (Nat.ltb (length l') (length l)) && bop_eqb o And then None
          else match l' with [x] => Some x | _ => Some (Bool o l') end
      end
  end.

(* remover.visit(rxn.gpr): the body is deleted when the whole tree goes;
   remove_genes then sets body = None (an empty rule).                                   *)
Definition remove_rule (K : ident -> bool) (r : rule) : rule :=
  match r with None => None | Some t => remove K t end.

(* ------------------------------------------------------------------ symbolic form *)
(* sympy's And/Or constructors flatten nested applications of the same operator, drop
   duplicate arguments (arguments are a set; equality is structural up to argument order)
   and return the argument itself when only one is left.  Argument *order* is sympy's own
   canonical order and is not modelled: results are compared up to `sym_eqb`.            *)

Fixpoint sym_eqb (a b : gpr) : bool :=
  match a, b with
  | Gene x, Gene y => str_eqb x y
  | Bool o l, Bool o' l' =>
      bop_eqb o o' && Nat.eqb (length l) (length l') &&
      forallb (fun x => existsb (fun y => sym_eqb x y) l') l &&
      forallb (fun y => existsb (fun x => sym_eqb x y) l) l'
  | _, _ => false
  end.

Fixpoint dedupe (l : list gpr) : list gpr :=
  match l with
  | [] => []
  | x :: r => let r' := dedupe r in if existsb (sym_eqb x) r' then r' else x :: r'
  end.

Definition splice (o : bop) (t : gpr) : list gpr :=
  match t with
  | Bool o' l => if bop_eqb o o' then l else [t]
  | _ => [t]
  end.

Fixpoint norm (t : gpr) : gpr :=
  match t with
  | Gene g => Gene g
  | Bool o l =>
      let l' := dedupe (flat_map (splice o) (map norm l)) in
      match l' with [x] => x | _ => Bool o l' end
  end.

(* from_symbolic(as_symbolic(r)) *)
Definition sym_roundtrip_rule (r : rule) : rule :=
  match r with None => None | Some t => Some (norm t) end.

Fixpoint sublists {A} (l : list A) : list (list A) :=
  match l with
  | [] => [[]]
  | x :: r => let s := sublists r in map (cons x) s ++ s
  end.

Definition subset (a b : list ident) : bool := forallb (fun g => mem g b) a.
Definition set_eqb (a b : list ident) : bool := subset a b && subset b a.
Definition in_set (l : list ident) : ident -> bool := fun g => mem g l.

Definition same_table (a b : gpr) : bool :=
  forallb (fun k => Bool.eqb (eval (in_set k) a) (eval (in_set k) b)) (sublists (uniq (genes a))).

(* GPR.__eq__: both empty; Symbol == Symbol; Symbol vs compound -> False;
   otherwise sympy `equals` = same atoms and same truth table.                           *)
Definition gpr_eq (a b : rule) : bool :=
  match a, b with
  | None, None => true
  | Some x, Some y =>
      match norm x, norm y with
      | Gene g, Gene h => str_eqb g h
      | Gene _, _ | _, Gene _ => false
      | x', y' => set_eqb (genes x') (genes y') && same_table x' y'
      end
  | _, _ => false
  end.
