(* Gene rules (cobra.core.gene.GPR): syntax tree, evaluation, gene set, text form.
   Executable model only; proofs are in Proofs*.v.

   Python side: the body of a GPR is an `ast` expression made of `Name(id)` and
   `BoolOp(And()/Or(), values)` nodes; an empty rule has `body = None`.          *)
From Coq Require Import ZArith List Bool.
Import ListNotations.
Open Scope Z_scope.

Definition str := list Z.            (* a Python str as its list of code points *)
Definition ident := str.

Fixpoint str_eqb (a b : str) : bool :=
  match a, b with
  | [], [] => true
  | x :: r, y :: s => (x =? y) && str_eqb r s
  | _, _ => false
  end.

Definition mem (g : ident) (l : list ident) : bool := existsb (str_eqb g) l.

Fixpoint uniq (l : list ident) : list ident :=
  match l with
  | [] => []
  | x :: r => if mem x r then uniq r else x :: uniq r
  end.

Inductive bop := And | Or.
Definition bop_eqb (a b : bop) : bool :=
  match a, b with And, And | Or, Or => true | _, _ => false end.

(* ast.Name / ast.BoolOp *)
Inductive gpr := Gene (g : ident) | Bool (o : bop) (args : list gpr).
Definition rule := option gpr.       (* None = empty rule (body None) = always true *)

(* GPR._eval_gpr: Name -> id not in knockouts; Or -> any(...); And -> all(...)
   (so an And without children is True and an Or without children is False).      *)
Fixpoint eval (K : ident -> bool) (t : gpr) : bool :=
  match t with
  | Gene g => negb (K g)
  | Bool And l => forallb (eval K) l
  | Bool Or l => existsb (eval K) l
  end.

Definition eval_rule (K : ident -> bool) (r : rule) : bool :=
  match r with None => true | Some t => eval K t end.

(* GPRWalker: every Name id met in the tree (a set on the Python side) *)
Fixpoint genes (t : gpr) : list ident :=
  match t with
  | Gene g => [g]
  | Bool _ l => flat_map genes l
  end.

Definition genes_rule (r : rule) : list ident :=
  match r with None => [] | Some t => genes t end.

Fixpoint size (t : gpr) : nat :=
  match t with
  | Gene _ => 1%nat
  | Bool _ l => S (fold_right (fun x n => (size x + n)%nat) 0%nat l)
  end.

(* every BoolOp has at least one child (what parsing can produce has >= 2) *)
Fixpoint wf (t : gpr) : bool :=
  match t with
  | Gene _ => true
  | Bool _ l => negb (match l with [] => true | _ => false end) && forallb wf l
  end.

Fixpoint wf2 (t : gpr) : bool :=
  match t with
  | Gene _ => true
  | Bool _ l => (2 <=? Z.of_nat (length l)) && forallb wf2 l
  end.

Fixpoint gpr_eqb (a b : gpr) : bool :=
  match a, b with
  | Gene x, Gene y => str_eqb x y
  | Bool o l, Bool o' l' =>
      bop_eqb o o' &&
      (fix go (l : list gpr) (l' : list gpr) : bool :=
         match l, l' with
         | [], [] => true
         | x :: r, y :: s => gpr_eqb x y && go r s
         | _, _ => false
         end) l l'
  | _, _ => false
  end.

Definition rule_eqb (a b : rule) : bool :=
  match a, b with
  | None, None => true
  | Some x, Some y => gpr_eqb x y
  | _, _ => false
  end.

(* single-child BoolOps disappear when a rule is written to text and read back
   ("(a)" parses to a) *)
Fixpoint collapse (t : gpr) : gpr :=
  match t with
  | Gene g => Gene g
  | Bool o l =>
      match l with
      | [x] => collapse x
      | _ => Bool o (map collapse l)
      end
  end.

(* ---------------------------------------------------------------- text form *)

Inductive token := TLP | TRP | TAND | TOR | TAMP | TBAR | TNAME (w : ident).

Definition tok_eqb (a b : token) : bool :=
  match a, b with
  | TLP, TLP | TRP, TRP | TAND, TAND | TOR, TOR | TAMP, TAMP | TBAR, TBAR => true
  | TNAME x, TNAME y => str_eqb x y
  | _, _ => false
  end.

Definition op_tok (o : bop) : token := match o with And => TAND | Or => TOR end.

Fixpoint join {A} (sep : list A) (l : list (list A)) : list A :=
  match l with
  | [] => []
  | [x] => x
  | x :: r => x ++ sep ++ join sep r
  end.

(* GPR._ast2str as a token list: children printed at level+1, parentheses iff level > 0 *)
Fixpoint print_toks (lvl : bool) (t : gpr) : list token :=
  match t with
  | Gene g => [TNAME g]
  | Bool o l =>
      let body := join [op_tok o] (map (print_toks true) l) in
      if lvl then TLP :: body ++ [TRP] else body
  end.

Definition c_sp := 32.  Definition c_lp := 40.  Definition c_rp := 41.
Definition c_amp := 38. Definition c_bar := 124. Definition c_us := 95.
Definition s_and : str := [97; 110; 100].       (* "and" *)
Definition s_or : str := [111; 114].            (* "or" *)
Definition s_AND : str := [65; 78; 68].
Definition s_OR : str := [79; 82].

Definition sep_chars (o : bop) : str :=
  match o with And => c_sp :: s_and ++ [c_sp] | Or => c_sp :: s_or ++ [c_sp] end.

(* GPR._ast2str as text *)
Fixpoint print (lvl : bool) (t : gpr) : str :=
  match t with
  | Gene g => g
  | Bool o l =>
      let body := join (sep_chars o) (map (print true) l) in
      if lvl then c_lp :: body ++ [c_rp] else body
  end.

Definition to_string (r : rule) : str :=
  match r with None => [] | Some t => print false t end.

Definition render_tok (k : token) : str :=
  match k with
  | TLP => [c_lp] | TRP => [c_rp]
  | TAND => sep_chars And | TOR => sep_chars Or
  | TAMP => [c_sp; c_amp; c_sp] | TBAR => [c_sp; c_bar; c_sp]
  | TNAME w => w
  end.
Definition render (ts : list token) : str := flat_map render_tok ts.

(* -------------------------------------------------------------------- parser *)
(* Python's expression grammar restricted to the tokens above:
     or_test := and_test ('or' and_test)*      -> one flat BoolOp(Or)
     and_test := bor ('and' bor)*              -> one flat BoolOp(And)
     bor := band ('|' band)*                   -> left-nested BinOp, rewritten by
     band := atom ('&' atom)*                     GPRCleaner.visit_BinOp to 2-child BoolOps
     atom := NAME | '(' or_test ')'                                                  *)
Inductive lev := LOr | LAnd | LBar | LAmp | LAtom.
Definition next (l : lev) : lev :=
  match l with LOr => LAnd | LAnd => LBar | LBar => LAmp | LAmp => LAtom | LAtom => LAtom end.
Definition lev_tok (l : lev) : token :=
  match l with LOr => TOR | LAnd => TAND | LBar => TBAR | _ => TAMP end.

Definition build (l : lev) (xs : list gpr) : gpr :=
  match xs with
  | [] => Bool Or []                 (* never produced *)
  | [x] => x
  | x :: r =>
      match l with
      | LOr => Bool Or xs
      | LAnd => Bool And xs
      | LBar => fold_left (fun a t => Bool Or [a; t]) r x
      | _ => fold_left (fun a t => Bool And [a; t]) r x
      end
  end.

Fixpoint p_expr (n : nat) (l : lev) (ts : list token) {struct n} : option (gpr * list token) :=
  match n with
  | O => None
  | S n =>
      match l with
      | LAtom =>
          match ts with
          | TNAME w :: r => Some (Gene w, r)
          | TLP :: r =>
              match p_expr n LOr r with
              | Some (t, TRP :: r') => Some (t, r')
              | _ => None
              end
          | _ => None
          end
      | _ =>
          match p_list n l ts with
          | Some (xs, r) => Some (build l xs, r)
          | None => None
          end
      end
  end
with p_list (n : nat) (l : lev) (ts : list token) {struct n} : option (list gpr * list token) :=
  match n with
  | O => None
  | S n =>
      match p_expr n (next l) ts with
      | Some (t, r) =>
          match r with
          | k :: r' =>
              if tok_eqb k (lev_tok l)
              then match p_list n l r' with
                   | Some (xs, r'') => Some (t :: xs, r'')
                   | None => None
                   end
              else Some ([t], r)
          | [] => Some ([t], r)
          end
      | None => None
      end
  end.

Definition parse_fuel (ts : list token) : nat := (20 * length ts + 20)%nat.

(* ast.parse(..., "eval"): the whole input must be one expression *)
Definition parse (ts : list token) : option gpr :=
  match p_expr (parse_fuel ts) LOr ts with
  | Some (t, []) => Some t
  | _ => None
  end.
