(* Character-level "reading back what to_string wrote": for ANY tables satisfying the decidable
   side conditions and every rule tree whose BoolOps have at least one child and whose gene
   identifiers are admissible,

       from_string (print t) = the rule `collapse t`.

   Composition of: print = render . print_toks (ProofsParse), the shape of printed token lists
   (atoms and operators alternate), escape_str / lex on rendered token lists (ProofsLex), the
   token-level parser theorem parse (print_toks t) = collapse t (ProofsParse), and the general
   escaping theorem (ProofsEscapeFull). *)
From Coq Require Import ZArith List Bool Lia.
From Cobra.GPR Require Import Syntax Escape Proofs ProofsParse ProofsRepl ProofsEscape ProofsEscapeFull ProofsLex.
Import ListNotations.
Open Scope Z_scope.

(* ------------------------------------------------------------ renaming the genes of a tree *)
Lemma map_join {A B} (g : A -> B) sep ls : map g (join sep ls) = join (map g sep) (map (map g) ls).
Proof.
  induction ls as [|x ls IH]; [reflexivity|]. destruct ls as [|y r]; [reflexivity|].
  change (join sep (x :: y :: r)) with (x ++ sep ++ join sep (y :: r)).
  change (map (map g) (x :: y :: r)) with (map g x :: map (map g) (y :: r)).
  change (map (map g) (y :: r)) with (map g y :: map (map g) r) in *.
  change (join (map g sep) (map g x :: map g y :: map (map g) r))
    with (map g x ++ map g sep ++ join (map g sep) (map g y :: map (map g) r)).
  rewrite !map_app, IH. reflexivity.
Qed.

Lemma print_toks_map_names f t : forall lvl, print_toks lvl (map_names f t) = map (ren f) (print_toks lvl t).
Proof.
  induction t as [g|o l IH] using gpr_ind'; intro lvl; [reflexivity|].
  rewrite Forall_forall in IH.
  assert (B : join [op_tok o] (map (print_toks true) (map (map_names f) l))
              = map (ren f) (join [op_tok o] (map (print_toks true) l))).
  { rewrite map_join, !map_map. replace (map (ren f) [op_tok o]) with [op_tok o] by (destruct o; reflexivity).
    f_equal. apply map_ext_in. intros x Hx. apply IH. exact Hx. }
  change (print_toks lvl (map_names f (Bool o l))) with
    (if lvl then TLP :: join [op_tok o] (map (print_toks true) (map (map_names f) l)) ++ [TRP]
     else join [op_tok o] (map (print_toks true) (map (map_names f) l))).
  change (print_toks lvl (Bool o l)) with
    (if lvl then TLP :: join [op_tok o] (map (print_toks true) l) ++ [TRP]
     else join [op_tok o] (map (print_toks true) l)).
  rewrite B. destruct lvl; [|reflexivity]. cbn [map]. rewrite map_app. reflexivity.
Qed.

Lemma collapse_map_names f t : collapse (map_names f t) = map_names f (collapse t).
Proof.
  induction t as [g|o l IH] using gpr_ind'; [reflexivity|]. rewrite Forall_forall in IH.
  destruct l as [|x [|y r]]; [reflexivity | apply (IH x); left; reflexivity |].
  change (collapse (map_names f (Bool o (x :: y :: r))))
    with (Bool o (map collapse (map (map_names f) (x :: y :: r)))).
  change (map_names f (collapse (Bool o (x :: y :: r))))
    with (Bool o (map (map_names f) (map collapse (x :: y :: r)))).
  rewrite !map_map. f_equal. apply map_ext_in. intros z Hz. apply IH. exact Hz.
Qed.

Lemma wf_map_names f t : wf (map_names f t) = wf t.
Proof.
  induction t as [g|o l IH] using gpr_ind'; [reflexivity|]. rewrite Forall_forall in IH.
  cbn [map_names wf]. rewrite forallb_map'. rewrite (forallb_ext_in _ _ l IH).
  destruct l; reflexivity.
Qed.

Lemma map_names_comp f g t : map_names g (map_names f t) = map_names (fun w => g (f w)) t.
Proof.
  induction t as [h|o l IH] using gpr_ind'; [reflexivity|]. rewrite Forall_forall in IH.
  cbn [map_names]. rewrite map_map. f_equal. apply map_ext_in. exact IH.
Qed.

Lemma map_names_id f t : (forall g, In g (genes t) -> f g = g) -> map_names f t = t.
Proof.
  induction t as [h|o l IH] using gpr_ind'; intro H.
  - cbn. rewrite H by (left; reflexivity). reflexivity.
  - rewrite Forall_forall in IH. cbn [map_names]. f_equal. rewrite <- (map_id l) at 2.
    apply map_ext_in. intros x Hx. apply IH; [exact Hx|]. intros g Hg. apply H.
    cbn [genes]. apply in_flat_map. exists x. split; assumption.
Qed.

Lemma genes_collapse t g : In g (genes (collapse t)) -> In g (genes t).
Proof.
  induction t as [h|o l IH] using gpr_ind'; [exact (fun H => H)|]. rewrite Forall_forall in IH.
  destruct l as [|x [|y r]].
  - exact (fun H => H).
  - intro H. cbn [genes flat_map]. rewrite app_nil_r. apply IH; [left; reflexivity | exact H].
  - change (collapse (Bool o (x :: y :: r))) with (Bool o (map collapse (x :: y :: r))).
    cbn [genes]. rewrite !in_flat_map. intros [z [Hz Hg]]. apply in_map_iff in Hz as [z0 [E Hz0]]. subst z.
    exists z0. split; [exact Hz0 | apply IH; assumption].
Qed.

(* ------------------------------------------------------------ the shape of a printed token list *)
Lemma alt_join o l : l <> [] -> (forall x, In x l -> alt true (print_toks true x) = true) ->
  alt true (join [op_tok o] (map (print_toks true) l)) = true.
Proof.
  induction l as [|x l IH]; [congruence|]. intros _ H. destruct l as [|y r].
  - apply H. left. reflexivity.
  - change (join [op_tok o] (map (print_toks true) (x :: y :: r)))
      with (print_toks true x ++ [op_tok o] ++ join [op_tok o] (map (print_toks true) (y :: r))).
    rewrite alt_app by (apply H; left; reflexivity).
    replace (alt false ([op_tok o] ++ join [op_tok o] (map (print_toks true) (y :: r))))
      with (alt true (join [op_tok o] (map (print_toks true) (y :: r)))) by (destruct o; reflexivity).
    apply IH; [discriminate|]. intros z Hz. apply H. right. exact Hz.
Qed.

Lemma alt_print t : wf t = true -> forall lvl, alt true (print_toks lvl t) = true.
Proof.
  induction t as [g|o l IH] using gpr_ind'; intros Hwf lvl; [reflexivity|].
  destruct (wf_bool o l Hwf) as [Hne Hch]. rewrite Forall_forall in IH.
  assert (B : alt true (join [op_tok o] (map (print_toks true) l)) = true).
  { apply alt_join; [exact Hne|]. intros x Hx. apply IH; [exact Hx | apply Hch; exact Hx]. }
  change (print_toks lvl (Bool o l)) with
    (if lvl then TLP :: join [op_tok o] (map (print_toks true) l) ++ [TRP]
     else join [op_tok o] (map (print_toks true) l)).
  destruct lvl; [|exact B]. cbn [alt]. rewrite alt_app by exact B. reflexivity.
Qed.

Lemma in_join_name w o ls : In (TNAME w) (join [op_tok o] ls) -> exists x, In x ls /\ In (TNAME w) x.
Proof.
  induction ls as [|x ls IH]; [intros []|]. destruct ls as [|y r].
  - intro H. exists x. split; [left; reflexivity | exact H].
  - change (join [op_tok o] (x :: y :: r)) with (x ++ [op_tok o] ++ join [op_tok o] (y :: r)).
    intro H. apply in_app_or in H as [H|H]; [exists x; split; [left; reflexivity | exact H]|].
    apply in_app_or in H as [H|H].
    + destruct H as [H|[]]. destruct o; discriminate.
    + destruct (IH H) as [z [Hz Hw]]. exists z. split; [right; exact Hz | exact Hw].
Qed.

Lemma names_print t : forall lvl w, In (TNAME w) (print_toks lvl t) -> In w (genes t).
Proof.
  induction t as [g|o l IH] using gpr_ind'; intros lvl w H.
  - destruct H as [H|[]]. inversion H. left. reflexivity.
  - rewrite Forall_forall in IH.
    assert (B : In (TNAME w) (join [op_tok o] (map (print_toks true) l))).
    { change (print_toks lvl (Bool o l)) with
        (if lvl then TLP :: join [op_tok o] (map (print_toks true) l) ++ [TRP]
         else join [op_tok o] (map (print_toks true) l)) in H.
      destruct lvl; [|exact H]. destruct H as [H|H]; [discriminate|].
      apply in_app_or in H as [H|H]; [exact H|]. destruct H as [H|[]]. discriminate. }
    apply in_join_name in B as [ts [Hts Hw]]. apply in_map_iff in Hts as [x [E Hx]]. subst ts.
    cbn [genes]. apply in_flat_map. exists x. split; [exact Hx | apply (IH x Hx true w Hw)].
Qed.

(* ------------------------------------------------------------ admissible identifiers *)
Lemma id_ok_idchars T P w : id_okb T P w = true -> idchars T w.
Proof.
  unfold id_okb. intro H. repeat (apply andb_true_iff in H as [H ?]). split; [|assumption].
  destruct w; [discriminate | discriminate].
Qed.

Lemma idchars_plainw P T w : wf_tab P T = true -> idchars T w -> plainw w.
Proof.
  intros Hwf [Hne Hch]. split; [exact Hne|]. apply forallb_forall. intros x Hx.
  rewrite forallb_forall in Hch. specialize (Hch x Hx). destruct (is_word x) eqn:Ew; [apply word_plain; exact Ew|].
  cbn [orb] in Hch. apply is_source_in in Hch as [e Hin].
  destruct (wf_tab_in P T _ _ Hwf Hin) as [c [Hc Hok]]. inversion Hc; subst c.
  pose proof (eo_nonws _ _ Hok) as W. pose proof (eo_nonpunct _ _ Hok) as Q.
  unfold memz in Q. cbn [existsb] in Q. apply orb_false_iff in Q as [Q1 Q]. apply orb_false_iff in Q as [Q2 _].
  unfold plain. rewrite W, Q1, Q2. reflexivity.
Qed.

Lemma py_name_lexname kws w : is_py_name kws w = true -> lexname w.
Proof.
  unfold is_py_name. intro H. repeat (apply andb_true_iff in H as [H ?]).
  repeat match goal with Hx : negb _ = true |- _ => apply negb_true_iff in Hx end.
  split; [split; [destruct w; [discriminate | discriminate] | assumption]|].
  split; intro E; subst w; discriminate.
Qed.

(* ------------------------------------------------------------ from_string on a well-behaved text *)
Lemma from_string_ok T kws P n s ts' t' : strip s = s -> s <> [] ->
  match escape_str T kws P s with c :: _ => is_ws c | [] => false end = false ->
  lex false false (escape_str T kws P s) = Some ts' -> has_call ts' = false -> parse ts' = Some t' ->
  from_string T kws P n s = Parsed (Some (map_names (unescape_name T P n) t')).
Proof.
  intros Hs Hne Hi Hl Hc Hp. unfold from_string. rewrite Hs. destruct s as [|x s0]; [congruence|].
  cbv zeta. rewrite Hi, Hl. unfold try_parse. rewrite Hc, Hp. reflexivity.
Qed.

Theorem reparse T kws P t : wf_repl T P = true -> wf_kws kws = true -> wf_prefix P kws = true ->
  wf t = true -> (forall g, In g (genes t) -> id_okb T P g = true) ->
  from_string T kws P (length P) (print false t) = Parsed (Some (collapse t)).
Proof.
  intros Hwf Hk Hp Ht Hg. pose proof (wf_repl_tab T P Hwf) as Htab.
  rewrite print_render. set (ts := print_toks false t).
  set (esc := escape_word T kws P).
  assert (Ha : alt true ts = true) by (apply alt_print; exact Ht).
  assert (Hn : names_sat (fun w => id_okb T P w = true) ts).
  { intros w Hw. apply Hg. exact (names_print t false w Hw). }
  assert (Hn1 : names_sat (idchars T) ts) by (exact (names_sat_impl _ _ _ (id_ok_idchars T P) Hn)).
  assert (Hn2 : names_sat plainw ts) by (exact (names_sat_impl _ _ _ (fun w => idchars_plainw P T w Htab) Hn1)).
  assert (Hok : forall w, id_okb T P w = true -> escape_ok_at T kws P w = true)
    by (intros w Hw; apply escape_ok; assumption).
  destruct (escape_str_render T kws P ts Hwf Hk Ha Hn1) as [E Nw]. fold esc in E, Nw.
  assert (Ets : map (ren esc) ts = print_toks false (map_names esc t))
    by (symmetry; apply print_toks_map_names).
  assert (Ha' : alt true (map (ren esc) ts) = true) by (rewrite alt_ren; exact Ha).
  assert (Nl : names_sat lexname (map (ren esc) ts)).
  { apply names_sat_ren. intros w Hw. specialize (Hok w (Hn w Hw)). unfold escape_ok_at in Hok.
    apply andb_true_iff in Hok as [_ Hpy]. exact (py_name_lexname kws _ Hpy). }
  rewrite (from_string_ok T kws P (length P) (render ts) (map (ren esc) ts) (collapse (map_names esc t))).
  - rewrite collapse_map_names, map_names_comp. f_equal. f_equal. apply map_names_id.
    intros g Hgc. apply genes_collapse in Hgc. specialize (Hok g (Hg g Hgc)). unfold escape_ok_at in Hok.
    apply andb_true_iff in Hok as [Hrt _]. apply str_eqb_eq in Hrt. exact Hrt.
  - apply strip_render; assumption.
  - destruct (first_char ts Ha Hn2) as [x [s [Ex _]]]. rewrite Ex. discriminate.
  - rewrite E. destruct (first_char _ Ha' (names_sat_impl _ _ _ wordy_plainw Nw)) as [x [s [Ex [Hx _]]]].
    rewrite Ex. exact Hx.
  - rewrite E. apply (lex_render _ true Ha' Nl).
  - apply (alt_no_call true). exact Ha'.
  - rewrite Ets. apply parse_print_toks. rewrite wf_map_names. exact Ht.
Qed.
