(* Identifier escaping: statement for every table satisfying the decidable side condition
   (proved in ProofsRepl.v / ProofsEscapeFull.v), the instance checked by computation over the
   generated tables on a finite family of identifiers covering every character class and every
   keyword (kept as an independent cross-check), and the reduction to the replacement loop. *)
From Coq Require Import ZArith List Bool.
From Cobra.GPR Require Import Syntax Escape.
From Cobra.Gen Require Import GprTables.
Import ListNotations.
Open Scope Z_scope.

Definition escape_ok_at (T : table) (kws : list str) (P : str) (w : str) : bool :=
  str_eqb (unescape_name T P (length P) (escape_word T kws P w)) w &&
  is_py_name kws (escape_word T kws P w).

(* PROVED in ProofsEscapeFull.v (`escape_ok`).  `wf_prefix` (the prefix does not begin a keyword)
   was added to the side conditions: without it the statement is false for a keyword list that
   contains a prefixed keyword (`escape_ok_needs_wf_prefix`). *)
Definition escape_ok_statement : Prop :=
  forall T kws P, wf_repl T P = true -> wf_kws kws = true -> wf_prefix P kws = true ->
  forall w, id_okb T P w = true -> escape_ok_at T kws P w = true.

(* all words of length <= n over an alphabet *)
Fixpoint words (al : list Z) (n : nat) : list str :=
  match n with
  | O => [[]]
  | S k => [] :: flat_map (fun w => map (fun c => c :: w) al) (words al k)
  end.

(* a, C, O, 1, _, and every source character of the table *)
Definition small_alphabet : list Z := [97; 67; 79; 49; 95] ++ flat_map fst repl_table.

Definition family : list str :=
  words small_alphabet 3 ++ kw_list ++
  flat_map (fun k => flat_map (fun c => [k ++ [c]; c :: k; k ++ c :: k]) small_alphabet) kw_list.

Definition escape_ok_on_family : bool :=
  forallb (fun w => negb (id_okb repl_table esc_prefix_kw w) ||
                    escape_ok_at repl_table kw_list esc_prefix_kw w) family.

Lemma escape_ok_family : escape_ok_on_family = true.
Proof. vm_compute. reflexivity. Qed.

Lemma family_nontrivial :
  (1000 <=? Z.of_nat (length (filter (id_okb repl_table esc_prefix_kw) family))) = true.
Proof. vm_compute. reflexivity. Qed.

(* ------------------------------------------------------------ general part: the prefix *)
(* For ANY table with the side condition and ANY admissible identifier, stripping the prefix undoes
   adding it, so the identifier round trip reduces to the replacement round trip
   `undo_repl T (apply_repl T w) = w`. *)
Lemma prefixb_app p s : prefixb p (p ++ s) = true.
Proof. induction p as [|x p IH]; cbn; [reflexivity|]. rewrite Z.eqb_refl, IH. reflexivity. Qed.

Lemma skipn_app_len {A} (p s : list A) : skipn (length p) (p ++ s) = s.
Proof. induction p; cbn; auto. Qed.

Lemma starts_digit_app p s : p <> [] -> starts_digit (p ++ s) = starts_digit p.
Proof. destruct p; [congruence | reflexivity]. Qed.

Theorem escape_reduce T kws P w : wf_repl T P = true -> id_okb T P w = true ->
  unescape_name T P (length P) (escape_word T kws P w) = undo_repl T (apply_repl T w).
Proof.
  intros Hwf Hid. unfold wf_repl in Hwf. repeat (apply andb_true_iff in Hwf as [Hwf ?]).
  assert (HP : P <> []) by (destruct P; [discriminate | discriminate]).
  assert (HD : starts_digit P = false) by (apply negb_true_iff; assumption).
  unfold id_okb in Hid. repeat (apply andb_true_iff in Hid as [Hid ?]).
  assert (HN : prefixb P (apply_repl T w) = false).
  { match goal with Hx : negb (prefixb P (apply_repl T w)) = true |- _ => apply negb_true_iff in Hx; exact Hx end. }
  unfold unescape_name, escape_word. set (w2 := apply_repl T w) in *.
  assert (Pre : unescape_name T P (length P) (P ++ w2) = undo_repl T w2).
  { unfold unescape_name. rewrite prefixb_app, skipn_app_len. reflexivity. }
  unfold unescape_name in Pre.
  destruct (mem w2 kws).
  - rewrite (starts_digit_app P w2 HP), HD. exact Pre.
  - destruct (starts_digit w2); [exact Pre|]. rewrite HN. reflexivity.
Qed.
