(* Identifier escaping: statement for every table satisfying the decidable side condition, and
   the part proved so far (by computation, over the generated tables, on a finite family of
   identifiers covering every character class and every keyword). *)
From Coq Require Import ZArith List Bool.
From Cobra.GPR Require Import Syntax Escape.
From Cobra.Gen Require Import GprTables.
Import ListNotations.
Open Scope Z_scope.

Definition escape_ok_at (T : table) (kws : list str) (P : str) (w : str) : bool :=
  str_eqb (unescape_name T P (length P) (escape_word T kws P w)) w &&
  is_py_name kws (escape_word T kws P w).

Definition escape_ok_statement : Prop :=
  forall T kws P, wf_repl T P = true -> wf_kws kws = true ->
  forall w, id_okb T P w = true -> escape_ok_at T kws P w = true.

(* all words of length <= n over an alphabet *)
Fixpoint words (al : list Z) (n : nat) : list str :=
  match n with
  | O => [[]]
  | S k => [] :: flat_map (fun w => map (fun c => c :: w) al) (words al k)
  end.

(* a, C, O, 1, _, and every source character of the table *)
Definition small_alphabet : list Z := [97; 67; 79; 49; 95] ++ flat_map fst repl_table.

Definition family : list str :=
  words small_alphabet 3 ++ kw_list ++
  flat_map (fun k => flat_map (fun c => [k ++ [c]; c :: k; k ++ c :: k]) small_alphabet) kw_list.

Definition escape_ok_on_family : bool :=
  forallb (fun w => negb (id_okb repl_table esc_prefix_kw w) ||
                    escape_ok_at repl_table kw_list esc_prefix_kw w) family.

Lemma escape_ok_family : escape_ok_on_family = true.
Proof. vm_compute. reflexivity. Qed.

Lemma family_nontrivial :
  (1000 <=? Z.of_nat (length (filter (id_okb repl_table esc_prefix_kw) family))) = true.
Proof. vm_compute. reflexivity. Qed.
