(* C08 correspondence + monitor, evaluated by vm_compute on the observations the harness took
   from the real cobra.core.gene.GPR / _GeneRemover / remove_genes.  Nothing here is a theorem. *)
From Coq Require Import ZArith List Bool.
From Cobra.GPR Require Import Syntax Escape Remover.
From Cobra.Gen Require Import GprTables.
Import ListNotations.
Open Scope Z_scope.

Definition from_string_cur (s : str) : outcome :=
  from_string repl_table kw_list esc_prefix_kw (Z.to_nat esc_prefix_striplen) s.

Inductive orule := OTree (r : rule) | OExc.

Inductive item :=
| IGenes (l : list ident)                       (* gpr.genes *)
| IToString (s : str)                           (* gpr.to_string() *)
| IStr (s : str)                                (* str(gpr) *)
| IEval (K : list ident) (b : bool)             (* gpr.eval(K) *)
| ISame (kind : nat) (r : rule) (gs : list ident) (eq : bool)
     (* 0 from_string(to_string()), 1 copy, 2 pickle, 3 pickle of a Reaction carrying the rule,
        4 from_symbolic(as_symbolic()); the tree, its .genes and `original == it` *)
| IRemove (K : list ident) (r : rule) (gs : list ident)
     (* _GeneRemover(K).visit(copy) as remove_genes uses it; tree left and .genes afterwards *)
| IRemoveM (rr : bool) (K : list ident) (kept : bool) (r : rule) (gs : list ident) (mg : list ident)
     (* remove_genes(model, K, remove_reactions=rr): reaction still in the model?, its rule,
        reaction.genes, model.genes *)
| IEq (other : rule) (b : bool)                 (* gpr == other *)
| IRaised.                                      (* the observation raised an exception *)

Definition case := (str * option rule * orule * list item)%type.

Definition union (a b : list ident) : list ident := a ++ b.
Definition disjoint (a b : list ident) : bool := forallb (fun g => negb (mem g b)) a.
Definition minus (a b : list ident) : list ident := filter (fun g => negb (mem g b)) a.

(* same gene set and same truth table (over every subset of the genes) *)
Definition equiv_rule (a b : rule) : bool :=
  set_eqb (genes_rule a) (genes_rule b) &&
  forallb (fun k => Bool.eqb (eval_rule (in_set k) a) (eval_rule (in_set k) b)) (sublists (uniq (genes_rule a))).

Definition sym_rule_eqb (a b : rule) : bool :=
  match a, b with Some x, Some y => sym_eqb x y | None, None => true | _, _ => false end.

(* "rule r' is rule r with the genes K absent" *)
Definition removed_ok (K : list ident) (r r' : rule) : bool :=
  match r with
  | None => rule_eqb r' None
  | Some t =>
      match r' with
      | None => negb (eval (in_set K) t)
      | Some t' =>
          disjoint (genes t') K &&
          forallb (fun a => Bool.eqb (eval (in_set a) t') (eval (in_set (union a K)) t)) (sublists (uniq (genes t)))
      end
  end.

Definition code (ok : bool) (n : nat) : list nat := if ok then [] else [n].

(* m = the model's rule for the text, ob = the implementation's rule for the text *)
Definition check_item (m ob : rule) (intended : option rule) (it : item) : list nat :=
  match it with
  | IGenes l =>
      code (set_eqb l (genes_rule m)) 1 ++ code (set_eqb l (genes_rule ob)) 3 ++
      match intended with Some r0 => code (set_eqb l (genes_rule r0)) 3 | None => [] end
  | IToString s => code (str_eqb s (to_string m)) 1
  | IStr s => code (str_eqb s (to_string m)) 1
  | IEval K b =>
      code (Bool.eqb b (eval_rule (in_set K) m)) 1 ++
      match intended with Some r0 => code (Bool.eqb b (eval_rule (in_set K) r0)) 2 | None => [] end
  | ISame kind r gs eq =>
      let expect :=
        match kind with
        | 0%nat | 3%nat => match from_string_cur (to_string m) with Parsed r' => rule_eqb r r' | Outside => false end
        | 4%nat => sym_rule_eqb (sym_roundtrip_rule m) r
        | _ => rule_eqb r m
        end in
      code expect 1 ++ code (Bool.eqb eq (gpr_eq m r)) 1 ++
      code (equiv_rule ob r && eq && set_eqb gs (genes_rule r)) 4
  | IRemove K r gs =>
      code (rule_eqb r (remove_rule (in_set K) m) && set_eqb gs (genes_rule (remove_rule (in_set K) m))) 1 ++
      code (removed_ok K ob r) 5 ++ code (set_eqb gs (genes_rule r)) 6
  | IRemoveM rr K kept r gs mg =>
      let keep := negb rr || match m with None => true | Some t => eval (in_set K) t end in
      let r' := remove_rule (in_set K) m in
      code (Bool.eqb kept keep &&
            (negb keep || (rule_eqb r r' && set_eqb gs (genes_rule r'))) &&
            set_eqb mg (minus (genes_rule m) K)) 1 ++
      code (negb kept || removed_ok K ob r) 5 ++
      code (Bool.eqb kept (negb rr || eval_rule (in_set K) ob)) 5 ++
      code (negb kept || set_eqb gs (genes_rule r)) 6 ++
      code (disjoint mg K) 6
  | IEq other b =>
      code (Bool.eqb b (gpr_eq m other)) 1 ++
      code (negb b || equiv_rule ob other) 7
  | IRaised => [1%nat; 8%nat]
  end.

Fixpoint check_items (m ob : rule) (intended : option rule) (its : list item) (n : nat) : list (nat * nat) :=
  match its with
  | [] => []
  | it :: r => map (fun c => (n, c)) (check_item m ob intended it) ++ check_items m ob intended r (S n)
  end.

(* codes: 1 model and implementation differ; 2 truth value differs from the Boolean value of the
   intended expression; 3 reported genes are not the occurring genes; 4 a round trip changed the
   rule or does not compare equal; 5 rule after gene removal is not the old rule with the genes
   absent; 6 genes reported after removal are not the occurring genes / removed gene still there;
   7 rules compare equal but are not equivalent; 9 input outside the modelled language (no claim) *)
Definition check_case (c : case) : list (nat * nat) :=
  let '(text, intended, op, its) := c in
  match from_string_cur text, op with
  | Outside, _ => [(0%nat, 9%nat)]
  | Parsed m, OExc => [(0%nat, 1%nat)]
  | Parsed m, OTree ob =>
      (if rule_eqb m ob then [] else [(0%nat, 1%nat)]) ++
      match intended with
      | Some r0 => if equiv_rule ob r0 then [] else [(0%nat, 2%nat)]
      | None => []
      end ++
      check_items m ob intended its 1
  end.

Fixpoint failing (cs : list (Z * case)) : list (Z * list (nat * nat)) :=
  match cs with
  | [] => []
  | (i, c) :: r =>
      match check_case c with
      | [] => failing r
      | l => (i, l) :: failing r
      end
  end.
