(* The general theorems instantiated with the tables REGENERATED from gene.py in this run.  The
   side conditions are taken from `tables_wf` (Tables.v), which is re-proved by computation on
   every run: a source change that breaks a side condition breaks that proof, not these. *)
From Coq Require Import ZArith List Bool Lia.
From Cobra.GPR Require Import Syntax Escape Proofs ProofsEscape ProofsEscapeFull ProofsReparse Tables Check.
From Cobra.Gen Require Import GprTables.
Import ListNotations.
Open Scope Z_scope.

Lemma tables_wf_parts : tables_wf = true ->
  wf_repl repl_table esc_prefix_kw = true /\ wf_kws kw_list = true /\
  wf_prefix esc_prefix_kw kw_list = true /\ Z.to_nat esc_prefix_striplen = length esc_prefix_kw.
Proof.
  unfold tables_wf. intro H. repeat (apply andb_true_iff in H as [H ?]).
  split; [assumption|]. split; [assumption|]. split; [assumption|].
  match goal with Hs : str_eqb esc_prefix_kw esc_prefix_strip = true |- _ => apply str_eqb_eq in Hs; rewrite Hs end.
  match goal with Hl : (esc_prefix_striplen =? _) = true |- _ => apply Z.eqb_eq in Hl; rewrite Hl end.
  apply Nat2Z.id.
Qed.

Theorem escape_ok_current : forall w, id_okb repl_table esc_prefix_kw w = true ->
  escape_ok_at repl_table kw_list esc_prefix_kw w = true.
Proof.
  destruct (tables_wf_parts tables_wf_current) as [H1 [H2 [H3 _]]]. exact (escape_ok _ _ _ H1 H2 H3).
Qed.

Theorem reparse_current : forall t, wf t = true ->
  (forall g, In g (genes t) -> id_okb repl_table esc_prefix_kw g = true) ->
  from_string_cur (print false t) = Parsed (Some (collapse t)).
Proof.
  destruct (tables_wf_parts tables_wf_current) as [H1 [H2 [H3 H4]]]. intros t Ht Hg.
  unfold from_string_cur. rewrite H4. exact (reparse _ _ _ t H1 H2 H3 Ht Hg).
Qed.

(* on the trees the parser produces (every BoolOp >= 2 children) the round trip is the identity *)
Theorem reparse_exact_current : forall t, wf2 t = true ->
  (forall g, In g (genes t) -> id_okb repl_table esc_prefix_kw g = true) ->
  from_string_cur (to_string (Some t)) = Parsed (Some t).
Proof.
  intros t Ht Hg. cbn [to_string]. rewrite (reparse_current t (ProofsParse.wf2_wf t Ht) Hg).
  rewrite (ProofsParse.collapse_id t Ht). reflexivity.
Qed.
