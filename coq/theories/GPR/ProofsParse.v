(* parse (print t) = collapse t : the recursive-descent parser inverts GPR._ast2str on every
   well-formed tree, with an explicit fuel bound. *)
From Coq Require Import ZArith List Bool Lia.
From Cobra.GPR Require Import Syntax Proofs.
Import ListNotations.
Local Open Scope nat_scope.

(* ------------------------------------------------------------ unfolding equations *)
Lemma p_expr_atom n ts :
  p_expr (S n) LAtom ts =
  match ts with
  | TNAME w :: r => Some (Gene w, r)
  | TLP :: r => match p_expr n LOr r with Some (t, TRP :: r') => Some (t, r') | _ => None end
  | _ => None
  end.
Proof. reflexivity. Qed.

Lemma p_expr_lev n l ts : l <> LAtom ->
  p_expr (S n) l ts = match p_list n l ts with Some (xs, r) => Some (build l xs, r) | None => None end.
Proof. destruct l; intro H; try reflexivity. contradiction. Qed.

Lemma p_list_S n l ts :
  p_list (S n) l ts =
  match p_expr n (next l) ts with
  | Some (t, r) =>
      match r with
      | k :: r' =>
          if tok_eqb k (lev_tok l)
          then match p_list n l r' with Some (xs, r'') => Some (t :: xs, r'') | None => None end
          else Some ([t], r)
      | [] => Some ([t], r)
      end
  | None => None
  end.
Proof. reflexivity. Qed.

(* more fuel never changes a successful parse *)
Lemma p_mono n :
  (forall l ts r, p_expr n l ts = Some r -> forall m, (n <= m)%nat -> p_expr m l ts = Some r) /\
  (forall l ts r, p_list n l ts = Some r -> forall m, (n <= m)%nat -> p_list m l ts = Some r).
Proof.
  induction n as [|n [IHe IHl]]; split; intros l ts r H m Hm; try (cbn in H; discriminate).
  - destruct m as [|m]; [lia|]. assert (Hnm : (n <= m)%nat) by lia.
    assert (D : l = LAtom \/ l <> LAtom) by (destruct l; auto; right; discriminate).
    destruct D as [D|D].
    + subst l. rewrite p_expr_atom in *. destruct ts as [|k r0]; [discriminate|].
      destruct k; try discriminate; [|exact H].
      destruct (p_expr n LOr r0) as [[t r']|] eqn:E; [|discriminate].
      rewrite (IHe _ _ _ E m Hnm). exact H.
    + rewrite p_expr_lev in * by exact D.
      destruct (p_list n l ts) as [[xs r']|] eqn:E; [|discriminate].
      rewrite (IHl _ _ _ E m Hnm). exact H.
  - destruct m as [|m]; [lia|]. assert (Hnm : (n <= m)%nat) by lia.
    rewrite p_list_S in *.
    destruct (p_expr n (next l) ts) as [[t r0]|] eqn:E; [|discriminate].
    rewrite (IHe _ _ _ E m Hnm). destruct r0 as [|k r']; [exact H|].
    destruct (tok_eqb k (lev_tok l)); [|exact H].
    destruct (p_list n l r') as [[xs r'']|] eqn:E2; [|discriminate].
    rewrite (IHl _ _ _ E2 m Hnm). exact H.
Qed.

Theorem parse_fuel_mono n m l ts r : p_expr n l ts = Some r -> (n <= m)%nat -> p_expr m l ts = Some r.
Proof. intros H Hm. exact (proj1 (p_mono n) l ts r H m Hm). Qed.

(* ------------------------------------------------------------ lifting an atom through the levels *)
Definition nostart (lv : lev) (r : list token) : Prop :=
  match r with k :: _ => tok_eqb k (lev_tok lv) = false | [] => True end.

(* the next token is not an operator of level lv or tighter *)
Definition head_ok (lv : lev) (r : list token) : Prop :=
  match r with
  | [] => True
  | k :: _ =>
      match lv, k with
      | LOr, (TOR | TAND | TBAR | TAMP) => False
      | LAnd, (TAND | TBAR | TAMP) => False
      | LBar, (TBAR | TAMP) => False
      | LAmp, TAMP => False
      | _, _ => True
      end
  end.

Lemma lift1 lv ts x r N : lv <> LAtom -> nostart lv r ->
  (forall n, (N <= n)%nat -> p_expr n (next lv) ts = Some (x, r)) ->
  forall n, (N + 2 <= n)%nat -> p_expr n lv ts = Some (x, r).
Proof.
  intros Hl Hr H n Hn. destruct n as [|[|n]]; try lia.
  rewrite p_expr_lev by exact Hl. rewrite p_list_S. rewrite H by lia.
  destruct r as [|k r']; [reflexivity|]. cbn in Hr. rewrite Hr. reflexivity.
Qed.

Ltac ns r H := destruct r as [|[] ?]; cbn in *; try exact I; try reflexivity; try contradiction.

Lemma lift lv ts x r N : head_ok lv r ->
  (forall n, (N <= n)%nat -> p_expr n LAtom ts = Some (x, r)) ->
  forall n, (N + 8 <= n)%nat -> p_expr n lv ts = Some (x, r).
Proof.
  intros Hh H.
  assert (A : lv = LAtom \/ lv = LAmp \/ lv = LBar \/ lv = LAnd \/ lv = LOr) by (destruct lv; auto).
  assert (Pamp : nostart LAmp r -> forall n, (N + 2 <= n)%nat -> p_expr n LAmp ts = Some (x, r)).
  { intro Q. apply lift1; [discriminate | exact Q | exact H]. }
  assert (Pbar : nostart LAmp r -> nostart LBar r -> forall n, (N + 4 <= n)%nat -> p_expr n LBar ts = Some (x, r)).
  { intros Q1 Q2 n Hn. apply (lift1 LBar ts x r (N + 2)); [discriminate | exact Q2 | apply Pamp; exact Q1 | lia]. }
  assert (Pand : nostart LAmp r -> nostart LBar r -> nostart LAnd r ->
                 forall n, (N + 6 <= n)%nat -> p_expr n LAnd ts = Some (x, r)).
  { intros Q1 Q2 Q3 n Hn. apply (lift1 LAnd ts x r (N + 4)); [discriminate | exact Q3 | apply Pbar; assumption | lia]. }
  destruct A as [A|[A|[A|[A|A]]]]; subst lv; intros n Hn.
  - apply H. lia.
  - apply Pamp; [ns r Hh | lia].
  - apply Pbar; [ns r Hh | ns r Hh | lia].
  - apply Pand; [ns r Hh | ns r Hh | ns r Hh | lia].
  - apply (lift1 LOr ts x r (N + 6)); [discriminate | ns r Hh | | lia].
    apply Pand; ns r Hh.
Qed.

(* ------------------------------------------------------------ operator-separated lists *)
Definition lev_of (o : bop) : lev := match o with And => LAnd | Or => LOr end.

Fixpoint fu (t : gpr) : nat :=
  match t with
  | Gene _ => 1
  | Bool _ l => 12 + fold_right (fun x a => fu x + 9 + a) 0 l
  end.

Lemma plist_join o l : l <> [] ->
  (forall x, In x l -> forall rest n, (fu x <= n)%nat ->
     p_expr n LAtom (print_toks true x ++ rest) = Some (collapse x, rest)) ->
  forall rest', head_ok LOr rest' ->
  forall n, (fold_right (fun x a => fu x + 9 + a) 0 l <= n)%nat ->
  p_list n (lev_of o) (join [op_tok o] (map (print_toks true) l) ++ rest') = Some (map collapse l, rest').
Proof.
  induction l as [|x l IH]; [congruence|]. intros _ Hx rest' Hr n Hn.
  destruct l as [|y l'].
  - cbn [map join fold_right] in *. destruct n as [|n]; [lia|]. rewrite p_list_S.
    rewrite (lift (next (lev_of o)) _ (collapse x) rest' (fu x)).
    + destruct rest' as [|k r']; [reflexivity|].
      replace (tok_eqb k (lev_tok (lev_of o))) with false; [reflexivity|].
      destruct k, o; cbn in *; try contradiction; reflexivity.
    + destruct rest' as [|k r']; [exact I|]. destruct k, o; cbn in *; try contradiction; exact I.
    + intros m Hm. apply Hx; [left; reflexivity | exact Hm].
    + lia.
  - change (join [op_tok o] (map (print_toks true) (x :: y :: l')))
      with (print_toks true x ++ [op_tok o] ++ join [op_tok o] (map (print_toks true) (y :: l'))).
    rewrite <- app_assoc. cbn [app]. try (rewrite <- app_assoc; cbn [app]).
    cbn [fold_right] in Hn. destruct n as [|n]; [lia|]. rewrite p_list_S.
    rewrite (lift (next (lev_of o)) _ (collapse x)
               (op_tok o :: join [op_tok o] (map (print_toks true) (y :: l')) ++ rest') (fu x)).
    + replace (tok_eqb (op_tok o) (lev_tok (lev_of o))) with true by (destruct o; reflexivity).
      rewrite IH.
      * reflexivity.
      * discriminate.
      * intros z Hz. apply Hx. right. exact Hz.
      * exact Hr.
      * cbn [fold_right]. lia.
    + destruct o; exact I.
    + intros m Hm. apply Hx; [left; reflexivity | exact Hm].
    + lia.
Qed.

Lemma build_collapse o l : l <> [] -> build (lev_of o) (map collapse l) = collapse (Bool o l).
Proof. destruct l as [|x [|y r]]; [congruence| |]; destruct o; reflexivity. Qed.

Lemma body_ok o l : l <> [] ->
  (forall x, In x l -> forall rest n, (fu x <= n)%nat ->
     p_expr n LAtom (print_toks true x ++ rest) = Some (collapse x, rest)) ->
  forall rest', head_ok LOr rest' ->
  forall n, (fu (Bool o l) - 1 <= n)%nat ->
  p_expr n LOr (join [op_tok o] (map (print_toks true) l) ++ rest') = Some (collapse (Bool o l), rest').
Proof.
  intros Hne Hx rest' Hr n Hn. cbn [fu] in Hn.
  set (S := fold_right (fun x a => fu x + 9 + a) 0 l) in *.
  set (ts := join [op_tok o] (map (print_toks true) l) ++ rest').
  assert (Hl : forall m, (S + 1 <= m)%nat -> p_expr m (lev_of o) ts = Some (collapse (Bool o l), rest')).
  { intros m Hm. destruct m as [|m]; [lia|]. rewrite p_expr_lev by (destruct o; discriminate).
    unfold ts. rewrite (plist_join o l Hne Hx rest' Hr) by (fold S; lia).
    rewrite build_collapse by exact Hne. reflexivity. }
  destruct o.
  - apply (lift1 LOr ts _ rest' (S + 1)); [discriminate | | exact Hl | lia].
    destruct rest' as [|[] ?]; cbn in *; try exact I; try reflexivity; contradiction.
  - apply Hl. lia.
Qed.

Lemma wf_bool o l : wf (Bool o l) = true -> l <> [] /\ forall x, In x l -> wf x = true.
Proof.
  cbn. intro H. apply andb_true_iff in H as [H1 H2]. split.
  - destruct l; [discriminate | discriminate].
  - apply forallb_forall. exact H2.
Qed.

Theorem atom_ok t : wf t = true -> forall rest n, (fu t <= n)%nat ->
  p_expr n LAtom (print_toks true t ++ rest) = Some (collapse t, rest).
Proof.
  induction t as [g|o l IH] using gpr_ind'; intros Hwf rest n Hn.
  - destruct n as [|n]; [cbn in Hn; lia|]. reflexivity.
  - destruct (wf_bool o l Hwf) as [Hne Hch]. rewrite Forall_forall in IH.
    change (print_toks true (Bool o l)) with (TLP :: join [op_tok o] (map (print_toks true) l) ++ [TRP]).
    cbn [app]. rewrite <- app_assoc. cbn [app].
    destruct n as [|n]; [cbn in Hn; lia|]. rewrite p_expr_atom.
    rewrite (body_ok o l Hne).
    + reflexivity.
    + intros x Hx. apply IH; [exact Hx | apply Hch; exact Hx].
    + exact I.
    + lia.
Qed.

(* ------------------------------------------------------------ fuel bound in terms of the input length *)
Lemma join_len {A} (k : A) ls : ls <> [] ->
  (length (join [k] ls) + 1 = fold_right (fun x a => length x + 1 + a) 0 ls)%nat.
Proof.
  induction ls as [|x ls IH]; [congruence|]. intros _. destruct ls as [|y r].
  - cbn. lia.
  - change (join [k] (x :: y :: r)) with (x ++ [k] ++ join [k] (y :: r)).
    rewrite !app_length. cbn [length fold_right] in *. specialize (IH ltac:(discriminate)). lia.
Qed.

Lemma fu_len t : wf t = true -> (fu t + 19 <= 20 * length (print_toks true t))%nat.
Proof.
  induction t as [g|o l IH] using gpr_ind'; intro Hwf; [cbn; lia|].
  destruct (wf_bool o l Hwf) as [Hne Hch]. rewrite Forall_forall in IH.
  change (print_toks true (Bool o l)) with (TLP :: join [op_tok o] (map (print_toks true) l) ++ [TRP]).
  cbn [length]. rewrite app_length. cbn [length fu].
  pose proof (join_len (op_tok o) (map (print_toks true) l)) as J.
  assert (Hm : map (print_toks true) l <> []) by (destruct l; [congruence | discriminate]).
  specialize (J Hm).
  assert (Q : (fold_right (fun x a => fu x + 9 + a) 0 l + 30 * length l
               <= 20 * fold_right (fun x a => length x + 1 + a) 0 (map (print_toks true) l))%nat).
  { clear J Hm Hne Hwf. induction l as [|x l IHl]; [cbn; lia|].
    cbn [fold_right map length].
    assert (Hx : (fu x + 19 <= 20 * length (print_toks true x))%nat)
      by (apply IH; [left; reflexivity | apply Hch; left; reflexivity]).
    assert (Hr : (fold_right (fun x a => fu x + 9 + a) 0 l + 30 * length l
                  <= 20 * fold_right (fun x a => length x + 1 + a) 0 (map (print_toks true) l))%nat).
    { apply IHl; [intros z Hz Hw; apply IH; [right; exact Hz | exact Hw] | intros z Hz; apply Hch; right; exact Hz]. }
    lia. }
  assert (Hlen : (1 <= length l)%nat) by (destruct l; [congruence | cbn; lia]).
  lia.
Qed.

Theorem parse_print_toks t : wf t = true -> parse (print_toks false t) = Some (collapse t).
Proof.
  intro Hwf. destruct t as [g|o l]; [reflexivity|].
  destruct (wf_bool o l Hwf) as [Hne Hch].
  change (print_toks false (Bool o l)) with (join [op_tok o] (map (print_toks true) l)).
  unfold parse.
  rewrite <- (app_nil_r (join [op_tok o] (map (print_toks true) l))) at 2.
  rewrite (body_ok o l Hne).
  - reflexivity.
  - intros x Hx rest n Hn. apply atom_ok; [apply Hch; exact Hx | exact Hn].
  - exact I.
  - pose proof (fu_len (Bool o l) Hwf) as F.
    change (print_toks true (Bool o l)) with (TLP :: join [op_tok o] (map (print_toks true) l) ++ [TRP]) in F.
    cbn [length] in F. rewrite app_length in F. cbn [length] in F. unfold parse_fuel. lia.
Qed.

(* parsing what was printed gives a tree that prints the same and parses to itself *)
Lemma collapse_wf2 t : wf t = true -> wf2 (collapse t) = true.
Proof.
  induction t as [g|o l IH] using gpr_ind'; intro Hwf; [reflexivity|].
  destruct (wf_bool o l Hwf) as [Hne Hch]. rewrite Forall_forall in IH.
  destruct l as [|x [|y r]]; [congruence| |].
  - cbn. apply IH; [left; reflexivity | apply Hch; left; reflexivity].
  - change (collapse (Bool o (x :: y :: r))) with (Bool o (map collapse (x :: y :: r))).
    cbn [wf2]. rewrite map_length. apply andb_true_iff. split; [apply Z.leb_le; cbn [length]; lia|].
    rewrite forallb_map'. apply forallb_forall. intros z Hz. apply IH; [exact Hz | apply Hch; exact Hz].
Qed.

Lemma collapse_id t : wf2 t = true -> collapse t = t.
Proof.
  induction t as [g|o l IH] using gpr_ind'; intro H; [reflexivity|].
  cbn [wf2] in H. apply andb_true_iff in H as [H1 H2]. rewrite Forall_forall in IH.
  rewrite forallb_forall in H2.
  destruct l as [|x [|y r]]; [cbn in H1; discriminate | cbn in H1; discriminate |].
  change (collapse (Bool o (x :: y :: r))) with (Bool o (map collapse (x :: y :: r))).
  f_equal. rewrite <- (map_id (x :: y :: r)) at 2. apply map_ext_in. intros z Hz. apply IH; [exact Hz | apply H2; exact Hz].
Qed.

Lemma wf2_wf t : wf2 t = true -> wf t = true.
Proof.
  induction t as [g|o l IH] using gpr_ind'; intro H; [reflexivity|].
  cbn [wf2] in H. apply andb_true_iff in H as [H1 H2]. rewrite Forall_forall in IH.
  rewrite forallb_forall in H2. cbn [wf]. apply andb_true_iff. split.
  - destruct l; [cbn in H1; discriminate | reflexivity].
  - apply forallb_forall. intros z Hz. apply IH; [exact Hz | apply H2; exact Hz].
Qed.

(* on the trees the parser produces (every BoolOp >= 2 children) print and parse are inverse *)
Theorem parse_print_exact t : wf2 t = true -> parse (print_toks false t) = Some t.
Proof. intro H. rewrite parse_print_toks by (apply wf2_wf; exact H). rewrite collapse_id by exact H. reflexivity. Qed.

(* ------------------------------------------------------------ text = rendered tokens *)
Lemma render_app a b : render (a ++ b) = render a ++ render b.
Proof. unfold render. apply flat_map_app. Qed.

Lemma render_join o l :
  Forall (fun x => print true x = render (print_toks true x)) l ->
  render (join [op_tok o] (map (print_toks true) l)) = join (sep_chars o) (map (print true) l).
Proof.
  induction 1 as [|x l Hx Hl IH]; [reflexivity|].
  destruct l as [|y r].
  - cbn [map join]. symmetry. exact Hx.
  - change (join [op_tok o] (map (print_toks true) (x :: y :: r)))
      with (print_toks true x ++ [op_tok o] ++ join [op_tok o] (map (print_toks true) (y :: r))).
    change (join (sep_chars o) (map (print true) (x :: y :: r)))
      with (print true x ++ sep_chars o ++ join (sep_chars o) (map (print true) (y :: r))).
    rewrite !render_app, IH, <- Hx. f_equal. f_equal.
    destruct o; cbn; reflexivity.
Qed.

Theorem print_render lvl t : print lvl t = render (print_toks lvl t).
Proof.
  revert lvl. induction t as [g|o l IH] using gpr_ind'; intro lvl.
  - cbn. rewrite app_nil_r. reflexivity.
  - assert (H : Forall (fun x => print true x = render (print_toks true x)) l).
    { rewrite Forall_forall in *. intros x Hx. apply IH. exact Hx. }
    pose proof (render_join o l H) as J.
    change (print lvl (Bool o l)) with
      (if lvl then c_lp :: join (sep_chars o) (map (print true) l) ++ [c_rp]
       else join (sep_chars o) (map (print true) l)).
    change (print_toks lvl (Bool o l)) with
      (if lvl then TLP :: join [op_tok o] (map (print_toks true) l) ++ [TRP]
       else join [op_tok o] (map (print_toks true) l)).
    destruct lvl; [|symmetry; exact J].
    change (render (TLP :: join [op_tok o] (map (print_toks true) l) ++ [TRP]))
      with ([c_lp] ++ render (join [op_tok o] (map (print_toks true) l) ++ [TRP])).
    rewrite render_app, J. reflexivity.
Qed.
