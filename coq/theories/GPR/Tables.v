(* Side conditions of the C08 theorems, decided on the tables REGENERATED from gene.py
   (Gen/GprTables.v) on every run: a source change that breaks them breaks this file. *)
From Coq Require Import ZArith List Bool String Ascii.
From Cobra.GPR Require Import Syntax Escape.
From Cobra.Gen Require Import GprTables.
Import ListNotations.
Open Scope Z_scope.

Definition zs (s : string) : str := map (fun a => Z.of_nat (nat_of_ascii a)) (list_ascii_of_string s).

Fixpoint zlist_eqb (a b : list Z) : bool :=
  match a, b with [], [] => true | x :: r, y :: s => (x =? y) && zlist_eqb r s | _, _ => false end.

Definition tables_wf : bool :=
  (* the two regexes are the ones the word-level model reads *)
  str_eqb keyword_re_src (zs "(?=\b(" ++ join (zs "|") kw_list ++ zs ")\b)") &&
  str_eqb number_start_re_src (zs "(?=\b[0-9])") &&
  (* one and the same prefix is inserted twice and stripped, with the right length *)
  str_eqb esc_prefix_kw esc_prefix_num && str_eqb esc_prefix_kw esc_prefix_strip &&
  (esc_prefix_striplen =? Z.of_nat (List.length esc_prefix_strip)) &&
  str_eqb unit_old [c_lp; c_rp] && str_eqb unit_new [] &&
  str_eqb upper_and_re_src (zs "\bAND\b") && str_eqb upper_or_re_src (zs "\bOR\b") &&
  str_eqb upper_and_new s_and && str_eqb upper_or_new s_or &&
  (* order of the steps in from_string / visit_Name *)
  zlist_eqb from_string_steps [1; 2; 3; 4; 5; 6] && zlist_eqb unescape_steps [1; 2] &&
  wf_repl repl_table esc_prefix_kw && wf_kws kw_list && wf_prefix esc_prefix_kw kw_list.

Example tables_wf_current : tables_wf = true.
Proof. vm_compute. reflexivity. Qed.
