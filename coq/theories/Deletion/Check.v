(* Correspondence + monitor functions for C06 (deletion analyses), evaluated by vm_compute on the observations
   the harness took from the real single/double deletion functions and find_essential_*.  Nothing here is a theorem.

   code 9 : an exact-oracle certificate was rejected (harness fault)
   code 1 : the set of rows of the result frame differs from the modelled set of combinations
   code 2 : status of a row contradicts the exact verdict for the knocked-out model
   code 3 : growth of a row is not the certified optimum (fba) / NaN-ness wrong
   code 4 : duplicated row, or a row that is not a requested combination
   code 5 : linear MOMA: the reported growth is not the old objective at any minimal-adjustment solution
   code 6 : find_essential_* returned a wrong set
   code 7 : the `knockout` accessor did not return the row of a requested combination                  *)
From Coq Require Import QArith List Bool ZArith.
From Cobra.LP Require Import Defs Cert Fba.
From Cobra.Optimize Require Import Model.
From Cobra.Secondary Require Import Aux Pfba AuxLp Moma.
From Cobra.Deletion Require Import Model.
From Cobra.Gen Require Import DelTables.
Import ListNotations.
Open Scope Q_scope.

Definition tol : Q := 1 # 1000000.
Inductive oracle := OOpt (x y : vec) | OInf (y : vec) | OUnb (x r : vec) | ONone.
Inductive entity := EGene | ERxn.
Inductive method := MFba | MMoma.

Record obsrow := mkObs {
  o_ids : list nat; o_growth : option Q; o_status : status;
  o_oracle : oracle;      (* fba: exact verdict of the knocked-out model; moma: certificate for moma_lp (ko model) ref *)
  o_band : oracle }.      (* moma: certificate for the same LP with moma_old_objective confined to growth +- 1e-6 *)

Record delcase := mkDel {
  dc_m : fbamodel; dc_rules : list rule; dc_ngenes : nat;
  dc_entity : entity; dc_method : method;
  dc_l1 : option (list nat); dc_rest : list (option (list nat));
  dc_ref : vec;
  dc_rows : list obsrow;
  dc_accessor_ok : bool }.

Definition n_entities (m : fbamodel) (ngenes : nat) (e : entity) : nat :=
  match e with EGene => ngenes | ERxn => length (rxns m) end.

Definition knocked (m : fbamodel) (rules : list rule) (e : entity) (ids : list nat) : fbamodel :=
  match e with ERxn => reaction_deletion m ids | EGene => gene_deletion rules m ids end.

Definition subsetb (a b : list (list nat)) : bool := forallb (fun x => existsb (list_eqb x) b) a.
Fixpoint nodupb (l : list (list nat)) : bool :=
  match l with [] => true | x :: l' => negb (existsb (list_eqb x) l') && nodupb l' end.

Definition moma_band_lp (m : fbamodel) (ref : vec) (lo hi : Q) : lp :=
  let a := moma_aux m ref in aux_lp m (mkAux (Fin lo, Fin hi) (ax_vb a) (ax_up a) (ax_lo a)).

Definition row_checks (c : delcase) (r : obsrow) : list nat :=
  let mk := knocked (dc_m c) (dc_rules c) (dc_entity c) (o_ids r) in
  match dc_method c with
  | MFba =>
      match o_oracle r with
      | OOpt x y =>
          if negb (check_opt (net_lp mk) x y) then [9%nat] else
          (if status_eqb (o_status r) Optimal then [] else [2%nat]) ++
          match o_growth r with Some g => if close tol g (dot (raw_obj mk) x) then [] else [3%nat] | None => [3%nat] end
      | OInf y =>
          if negb (check_infeasible (net_lp mk) y) then [9%nat] else
          (if status_eqb (o_status r) Infeasible then [] else [2%nat]) ++
          match o_growth r with None => [] | Some _ => [3%nat] end
      | OUnb x d =>
          if negb (check_unbounded (net_lp mk) x d) then [9%nat] else
          (if status_eqb (o_status r) Unbounded then [] else [2%nat]) ++
          match o_growth r with None => [] | Some _ => [3%nat] end
      | ONone => [9%nat]
      end
  | MMoma =>
      let p := moma_lp mk (dc_ref c) in
      match o_oracle r with
      | OOpt x y =>
          if negb (check_opt p x y) then [9%nat] else
          (if status_eqb (o_status r) Optimal then [] else [2%nat]) ++
          match o_growth r with
          | Some g =>
              let d := tol * Qmax' 1 (Qabs' g) in
              let pb := moma_band_lp mk (dc_ref c) (g - d) (g + d) in
              match o_band r with
              | OOpt xb yb => if negb (check_opt pb xb yb) then [9%nat]
                              else if close (1 # 1000000000) (value pb xb) (value p x) then [] else [5%nat]
              | OInf yb => if check_infeasible pb yb then [5%nat] else [9%nat]
              | _ => [9%nat]
              end
          | None => [3%nat]
          end
      | OInf y =>
          if negb (check_infeasible p y) then [9%nat] else
          (if status_eqb (o_status r) Infeasible then [] else [2%nat])
      | _ => [9%nat]
      end
  end.

Definition del_checks (c : delcase) : list nat :=
  let m := dc_m c in
  if negb (valid_model_b m) then [9%nat] else
  let all := seq 0 (n_entities m (dc_ngenes c) (dc_entity c)) in
  let want := combos (element_lists all (dc_l1 c) (dc_rest c)) in
  let got := map o_ids (dc_rows c) in
  (if subsetb want got && subsetb got want && Nat.eqb (length want) (length got) then [] else [1%nat]) ++
  (* the property on the observation itself: one row per distinct unordered requested combination *)
  (if nodupb got && forallb (fun ids => list_eqb ids (canon ids)) got &&
      subsetb got (map canon (product (element_lists all (dc_l1 c) (dc_rest c)))) &&
      subsetb (map canon (product (element_lists all (dc_l1 c) (dc_rest c)))) got then [] else [4%nat]) ++
  flat_map (row_checks c) (dc_rows c) ++
  (if dc_accessor_ok c then [] else [7%nat]).

(* ---------------- find_essential_* ---------------- *)
Record esscase := mkEss {
  es_m : fbamodel; es_rules : list rule; es_ngenes : nat; es_entity : entity;
  es_thr : option Q;                 (* threshold= argument *)
  es_wt : oracle;                    (* exact FBA of the model (for the default threshold) *)
  es_kos : list oracle;              (* exact verdict of every single knock-out, in entity order *)
  es_obs : list nat }.               (* returned set, as sorted positions *)

(* exact growth of a knock-out: None = no optimum *)
Definition exact_growth (mk : fbamodel) (o : oracle) : option (option Q) :=
  match o with
  | OOpt x y => if check_opt (net_lp mk) x y then Some (Some (dot (raw_obj mk) x)) else None
  | OInf y => if check_infeasible (net_lp mk) y then Some None else None
  | OUnb x d => if check_unbounded (net_lp mk) x d then Some None else None
  | ONone => None
  end.

Definition ess_checks (c : esscase) : list nat :=
  let m := es_m c in
  if negb (valid_model_b m) then [9%nat] else
  match exact_growth m (es_wt c) with
  | Some (Some opt) =>
      let thr := match es_thr c with Some t => t | None => default_threshold essential_factor opt end in
      let e := tol * Qmax' 1 (Qabs' thr) in
      let n := n_entities m (es_ngenes c) (es_entity c) in
      if negb (Nat.eqb (length (es_kos c)) n) then [9%nat] else
      flat_map (fun ko =>
        let i := fst ko in
        match exact_growth (knocked m (es_rules c) (es_entity c) [i]) (snd ko) with
        | None => [9%nat]
        | Some g =>
            let reported := memb i (es_obs c) in
            (* the model's verdict with the exact growth, essential_row; within the tolerance of the threshold either
               answer is accepted (envelope rule, DESIGN 2.3) *)
            let surely_ess := essential_row (thr - e) (mkRow' [i] g Optimal) in
            let surely_not := negb (essential_row (thr + e) (mkRow' [i] g Optimal)) in
            if surely_ess && negb reported then [6%nat]
            else if surely_not && reported then [6%nat] else []
        end) (combine (seq 0 n) (es_kos c)) ++
      (if forallb (fun i => Nat.ltb i n) (es_obs c) then [] else [6%nat])
  | _ => [9%nat]
  end.

Inductive c06case := CDel (c : delcase) | CEss (c : esscase).
Definition checks (c : c06case) : list nat := match c with CDel d => del_checks d | CEss e => ess_checks e end.

Fixpoint dedup_nat (l : list nat) : list nat :=
  match l with [] => [] | x :: l' => if existsb (Nat.eqb x) l' then dedup_nat l' else x :: dedup_nat l' end.

Definition failing (cases : list (Z * c06case)) : list (Z * list (nat * nat)) :=
  filter (fun r => match snd r with [] => false | _ => true end)
         (map (fun c => (fst c, map (fun k => (0%nat, k)) (dedup_nat (checks (snd c))))) cases).
