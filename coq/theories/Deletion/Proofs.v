(* Proofs for C06: rows, growth, essential sets, linear-MOMA growth. *)
From Coq Require Import QArith List Bool Lia Lqa.
From Cobra.LP Require Import Defs Cert Fba.
From Cobra.Optimize Require Import Model.
From Cobra.Secondary Require Import Aux Pfba AuxLp Moma MomaProofs.
From Cobra.Deletion Require Import Model.
Import ListNotations.
Open Scope Q_scope.

(* ---------------- frozenset(comb) as a sorted duplicate-free list ---------------- *)
Lemma In_insert_uniq x y l : In y (insert_uniq x l) <-> y = x \/ In y l.
Proof.
  induction l as [|z l IH]; cbn [insert_uniq].
  - cbn. intuition.
  - destruct (Nat.ltb x z) eqn:E1; [cbn; intuition|]. destruct (Nat.eqb x z) eqn:E2.
    + apply Nat.eqb_eq in E2. subst. cbn. intuition.
    + cbn [In]. rewrite IH. intuition.
Qed.

Lemma In_canon x l : In x (canon l) <-> In x l.
Proof.
  induction l as [|y l IH]; cbn [canon fold_right]; [tauto|].
  fold (canon l). rewrite In_insert_uniq, IH. cbn. intuition.
Qed.

Definition lt_all (x : nat) (l : list nat) : Prop := forall y, In y l -> (x < y)%nat.
Fixpoint ssorted (l : list nat) : Prop :=
  match l with [] => True | x :: l' => lt_all x l' /\ ssorted l' end.

Lemma insert_uniq_sorted x l : ssorted l -> ssorted (insert_uniq x l).
Proof.
  induction l as [|z l IH]; intros H; cbn [insert_uniq].
  - cbn. split; [intros y []|exact I].
  - destruct H as [Hz Hs]. destruct (Nat.ltb x z) eqn:E1.
    + apply Nat.ltb_lt in E1. split; [|split; assumption].
      intros y [<-|Hy]; [exact E1|]. specialize (Hz y Hy). lia.
    + apply Nat.ltb_ge in E1. destruct (Nat.eqb x z) eqn:E2; [split; assumption|].
      apply Nat.eqb_neq in E2. split; [|apply IH; exact Hs].
      intros y Hy. apply In_insert_uniq in Hy as [->|Hy]; [lia|apply Hz; exact Hy].
Qed.

Lemma canon_sorted l : ssorted (canon l).
Proof. induction l as [|x l IH]; cbn [canon fold_right]; [exact I|]. apply insert_uniq_sorted. exact IH. Qed.

(* two strictly sorted lists with the same elements are equal *)
Lemma ssorted_ext a : forall b, ssorted a -> ssorted b -> (forall x, In x a <-> In x b) -> a = b.
Proof.
  induction a as [|x a IH]; intros [|y b] Ha Hb H.
  - reflexivity.
  - exfalso. apply (proj2 (H y)). left. reflexivity.
  - exfalso. apply (proj1 (H x)). left. reflexivity.
  - destruct Ha as [Hx Ha], Hb as [Hy Hb].
    assert (x = y).
    { destruct (proj1 (H x) (or_introl eq_refl)) as [E|E]; [auto|].
      destruct (proj2 (H y) (or_introl eq_refl)) as [E'|E']; [auto|].
      specialize (Hx y E'). specialize (Hy x E). lia. }
    subst y. f_equal. apply IH; try assumption.
    intros z. split; intros Hz.
    + destruct (proj1 (H z) (or_intror Hz)) as [E|E]; [|exact E]. subst z. specialize (Hx x Hz). lia.
    + destruct (proj2 (H z) (or_intror Hz)) as [E|E]; [|exact E]. subst z. specialize (Hy x Hz). lia.
Qed.

(* the key of a row identifies the unordered combination *)
Theorem canon_eq_iff a b : canon a = canon b <-> (forall x, In x a <-> In x b).
Proof.
  split.
  - intros E x. rewrite <- (In_canon x a), <- (In_canon x b), E. tauto.
  - intros H. apply ssorted_ext; try apply canon_sorted. intros x. rewrite !In_canon. apply H.
Qed.

Lemma list_eqb_ok a : forall b, list_eqb a b = true <-> a = b.
Proof.
  induction a as [|x a IH]; intros [|y b]; cbn; split; try discriminate; try reflexivity.
  - rewrite andb_true_iff, Nat.eqb_eq, IH. intros [-> ->]. reflexivity.
  - intros E. injection E as -> ->. rewrite andb_true_iff, Nat.eqb_eq, IH. tauto.
Qed.

Lemma existsb_list_eqb x l : existsb (list_eqb x) l = true <-> In x l.
Proof.
  rewrite existsb_exists. split.
  - intros [y [Hy E]]. apply list_eqb_ok in E. subst. exact Hy.
  - intros H. exists x. split; [exact H|apply list_eqb_ok; reflexivity].
Qed.

Lemma In_dedup x l : In x (dedup l) <-> In x l.
Proof.
  induction l as [|y l IH]; cbn [dedup]; [tauto|].
  destruct (existsb (list_eqb y) l) eqn:E.
  - rewrite IH. apply existsb_list_eqb in E. cbn. intuition. subst. exact E.
  - cbn [In]. rewrite IH. tauto.
Qed.

Lemma NoDup_dedup l : NoDup (dedup l).
Proof.
  induction l as [|y l IH]; cbn [dedup]; [constructor|].
  destruct (existsb (list_eqb y) l) eqn:E; [exact IH|].
  constructor; [|exact IH]. rewrite In_dedup. intros H. apply existsb_list_eqb in H. congruence.
Qed.

(* exactly one row (task) per distinct unordered combination of the element lists *)
Theorem deletion_rows ls :
  NoDup (combos ls) /\
  (forall c, In c (product ls) -> In (canon c) (combos ls)) /\
  (forall r, In r (combos ls) -> exists c, In c (product ls) /\ r = canon c) /\
  (forall c c', In c (product ls) -> In c' (product ls) ->
     (canon c = canon c' <-> forall x, In x c <-> In x c')).
Proof.
  unfold combos. split; [apply NoDup_dedup|]. split; [|split].
  - intros c H. apply In_dedup, in_map, H.
  - intros r H. apply In_dedup, in_map_iff in H as [c [<- Hc]]. exists c. tauto.
  - intros c c' _ _. apply canon_eq_iff.
Qed.

(* product really is itertools.product: one element from each list, in order *)
Theorem In_product ls : forall c, In c (product ls) <-> Forall2 (fun x l => In x l) c ls.
Proof.
  induction ls as [|l ls IH]; intros c; cbn [product].
  - split; [intros [<-|[]]; constructor|intros H; inversion H; left; reflexivity].
  - rewrite in_flat_map. split.
    + intros [x [Hx Hc]]. apply in_map_iff in Hc as [c' [<- Hc']]. constructor; [exact Hx|apply IH; exact Hc'].
    + intros H. inversion H as [|x l' c' ls' Hx Hc']; subst. exists x. split; [exact Hx|].
      apply in_map. apply IH. exact Hc'.
Qed.

(* ---------------- growth (method fba) ---------------- *)
Theorem get_growth_fba_spec sr :
  (sr_status sr = Optimal -> get_growth_fba sr = (Some (sr_obj sr), Optimal)) /\
  (sr_status sr <> Optimal -> get_growth_fba sr = (None, sr_status sr)).
Proof.
  unfold get_growth_fba, slim_optimize. split.
  - intros H. rewrite H. reflexivity.
  - intros H. destruct (sr_status sr); try congruence; reflexivity.
Qed.

(* if what the solver holds is optimal for cobrapy's LP of the knocked-out model, the reported growth is the true
   optimum of that model's flux-balance problem *)
Theorem deletion_growth mk sr :
  valid_model mk -> sr_status sr = Optimal ->
  is_opt (split_lp mk) (flat (sr_primal sr)) ->
  sr_obj sr == dot (raw_obj mk) (nets (sr_primal sr)) ->
  exists g v, get_growth_fba sr = (Some g, Optimal) /\ is_opt (net_lp mk) v /\ g == dot (raw_obj mk) v.
Proof.
  intros Hv Hs Hopt Hobj. exists (sr_obj sr), (nets (sr_primal sr)).
  split; [apply get_growth_fba_spec; exact Hs|]. split; [apply split_opt_is_net_opt; assumption|exact Hobj].
Qed.

(* ---------------- essential sets ---------------- *)
Theorem essential_spec thr rows x :
  In x (essential thr rows) <->
  exists r, In r rows /\ In x (d_ids r) /\
            (d_growth r = None \/ exists g, d_growth r = Some g /\ g < thr).
Proof.
  unfold essential. rewrite In_canon, in_flat_map. split.
  - intros [r [Hr Hx]]. apply filter_In in Hr as [Hr He]. exists r. split; [exact Hr|]. split; [exact Hx|].
    unfold essential_row in He. destruct (d_growth r) as [g|]; [right|left; reflexivity].
    exists g. split; [reflexivity|]. apply negb_true_iff in He.
    destruct (Qlt_le_dec g thr) as [L|L]; [exact L|]. apply Qle_bool_iff in L. congruence.
  - intros [r [Hr [Hx Hg]]]. exists r. split; [|exact Hx]. apply filter_In. split; [exact Hr|].
    unfold essential_row. destruct Hg as [->|[g [-> L]]]; [reflexivity|].
    apply negb_true_iff. destruct (Qle_bool thr g) eqn:E; [|reflexivity]. apply Qle_bool_iff in E. lra.
Qed.

(* ---------------- linear MOMA growth ---------------- *)
(* the primal of moma_old_objective at an optimum of the MOMA problem of the knocked-out model is the original
   objective's value at SOME flux vector of minimal summed distance to the reference *)
Theorem moma_growth_char mk ref sr zs w ds :
  valid_model mk -> length zs = length (rxns mk) ->
  is_opt (moma_lp mk ref) (flat zs ++ w :: ds) ->
  get_growth_moma sr w = (Some w, sr_status sr) /\
  exists v, moma_opt mk ref v /\ w == dot (raw_obj mk) v.
Proof.
  intros Hv Hz Hopt. destruct (moma_lp_equiv mk ref zs w ds Hv Hz Hopt) as [A [_ [_ D]]].
  split; [reflexivity|]. exists (nets zs). split; assumption.
Qed.
