(* Knock-outs (C06): sequential Reaction.knock_out / Gene.knock_out calls produce exactly the model in which the
   named reactions - for genes, the reactions whose rule is false without those genes - have bounds (0, 0),
   in whatever order the frozenset is iterated; such a model forces those fluxes to zero and changes nothing else. *)
From Coq Require Import QArith List Bool Lia Lqa.
From Cobra.LP Require Import Defs Cert Fba.
From Cobra.Deletion Require Import Model.
Import ListNotations.
Open Scope Q_scope.

Fixpoint mapi_from {A B} (k : nat) (f : nat -> A -> B) (l : list A) : list B :=
  match l with [] => [] | a :: l' => f k a :: mapi_from (S k) f l' end.

Lemma mapi_from_ext {A B} (f g : nat -> A -> B) l : forall k,
  (forall i a, (k <= i < k + length l)%nat -> f i a = g i a) -> mapi_from k f l = mapi_from k g l.
Proof.
  induction l as [|a l IH]; intros k H; cbn [mapi_from]; [reflexivity|].
  f_equal; [apply H; cbn; lia|]. apply IH. intros i b Hi. apply H. cbn. lia.
Qed.

Lemma mapi_from_id {A} (l : list A) : forall k, mapi_from k (fun _ a => a) l = l.
Proof. induction l as [|a l IH]; intros k; cbn; [reflexivity|]. rewrite IH. reflexivity. Qed.

Lemma ko_from_mapi ids rs : forall k, ko_from k ids rs = mapi_from k (fun k r => if memb k ids then ko_rxn r else r) rs.
Proof. induction rs as [|r rs IH]; intros k; cbn; [reflexivity|]. rewrite IH. reflexivity. Qed.

Lemma ko_rxn_idem r : ko_rxn (ko_rxn r) = ko_rxn r.
Proof. reflexivity. Qed.

Lemma memb_app x a b : memb x (a ++ b) = memb x a || memb x b.
Proof. unfold memb. apply existsb_app. Qed.

Lemma memb_In x l : memb x l = true <-> In x l.
Proof.
  unfold memb. rewrite existsb_exists. split.
  - intros [y [Hy E]]. apply Nat.eqb_eq in E. subst. exact Hy.
  - intros H. exists x. split; [exact H|apply Nat.eqb_refl].
Qed.

Lemma memb_ext a b : (forall x, In x a <-> In x b) -> forall x, memb x a = memb x b.
Proof.
  intros H x. destruct (memb x a) eqn:A, (memb x b) eqn:B; try reflexivity.
  - apply memb_In, H, memb_In in A. congruence.
  - apply memb_In, H, memb_In in B. congruence.
Qed.

(* ---------------- reactions ---------------- *)
Lemma ko_from_compose a b rs : forall k, ko_from k a (ko_from k b rs) = ko_from k (a ++ b) rs.
Proof.
  induction rs as [|r rs IH]; intros k; cbn [ko_from]; [reflexivity|]. rewrite IH, memb_app. f_equal.
  destruct (memb k a), (memb k b); reflexivity.
Qed.

Lemma ko_from_ext a b rs : (forall x, memb x a = memb x b) -> forall k, ko_from k a rs = ko_from k b rs.
Proof. intros H. induction rs as [|r rs IH]; intros k; cbn [ko_from]; [reflexivity|]. rewrite IH, H. reflexivity. Qed.

Lemma ko_from_nil rs : forall k, ko_from k [] rs = rs.
Proof. induction rs as [|r rs IH]; intros k; cbn; [reflexivity|]. rewrite IH. reflexivity. Qed.

Lemma fold_ko ids : forall m acc,
  fold_left (fun m' i => ko_reactions m' [i]) ids (ko_reactions m acc) = ko_reactions m (rev ids ++ acc).
Proof.
  induction ids as [|i ids IH]; intros m acc; cbn [fold_left rev app]; [reflexivity|].
  assert (E : ko_reactions (ko_reactions m acc) [i] = ko_reactions m (i :: acc)).
  { unfold ko_reactions. cbn [nmets rxns maximize]. rewrite ko_from_compose. reflexivity. }
  rewrite E, IH, <- app_assoc. reflexivity.
Qed.

(* _reaction_deletion: knocking the listed reactions out one after the other, in any order and with repeats, gives
   the model whose listed reactions have bounds (0, 0) *)
Theorem reaction_deletion_spec m ids : reaction_deletion m ids = ko_reactions m ids.
Proof.
  unfold reaction_deletion.
  assert (E : m = ko_reactions m []) by (destruct m; unfold ko_reactions; cbn; rewrite ko_from_nil; reflexivity).
  rewrite E at 1. rewrite fold_ko. unfold ko_reactions. f_equal.
  apply ko_from_ext. apply memb_ext. intros x. rewrite app_nil_r, <- in_rev. tauto.
Qed.

(* what bounds (0,0) mean for the flux-balance problem: the stoichiometric rows and the objective are untouched, the
   knocked-out fluxes are zero, every other flux keeps its own bounds *)
Lemma ko_from_cols ids rs : forall k i, met_row (ko_from k ids rs) i = met_row rs i.
Proof.
  induction rs as [|r rs IH]; intros k i; cbn; [reflexivity|]. f_equal; [destruct (memb k ids); reflexivity|apply IH].
Qed.
Lemma ko_from_obj ids rs s : forall k, map (fun r => s * rx_obj r) (ko_from k ids rs) = map (fun r => s * rx_obj r) rs.
Proof.
  induction rs as [|r rs IH]; intros k; cbn; [reflexivity|]. f_equal; [destruct (memb k ids); reflexivity|apply IH].
Qed.

Lemma ko_bounds ids rs : forall k v,
  Forall2 inb (map (fun r => (rx_lb r, rx_ub r)) (ko_from k ids rs)) v <->
  Forall2 (fun p x => if memb (fst p) ids then x == 0 else inb (rx_lb (snd p), rx_ub (snd p)) x)
          (combine (seq k (length rs)) rs) v.
Proof.
  induction rs as [|r rs IH]; intros k v; cbn [ko_from map length seq combine].
  - split; intros H; inversion H; constructor.
  - split; intros H; inversion H as [|b x bs v' Hb H']; subst; constructor.
    + cbn [fst snd]. destruct (memb k ids); [|exact Hb]. destruct Hb as [A B]. cbn in A, B. lra.
    + apply IH. exact H'.
    + cbn [fst snd] in Hb. destruct (memb k ids); [|exact Hb]. split; cbn; lra.
    + apply IH. exact H'.
Qed.

Theorem ko_feasible_iff m ids v :
  feasible (net_lp (ko_reactions m ids)) v <->
  Forall2 (fun p x => if memb (fst p) ids then x == 0 else inb (rx_lb (snd p), rx_ub (snd p)) x)
          (combine (seq 0 (length (rxns m))) (rxns m)) v /\
  Forall (row_ok v) (rows (net_lp m)).
Proof.
  unfold feasible, net_lp, ko_reactions. cbn [vbounds rows rxns nmets].
  rewrite ko_bounds.
  assert (E : map (fun i => zero_row (met_row (ko_from 0 ids (rxns m)) i)) (seq 0 (nmets m)) =
              map (fun i => zero_row (met_row (rxns m) i)) (seq 0 (nmets m)))
    by (apply map_ext; intros i; rewrite ko_from_cols; reflexivity).
  rewrite E. tauto.
Qed.

Theorem ko_objective m ids : obj (net_lp (ko_reactions m ids)) = obj (net_lp m).
Proof. unfold net_lp, net_obj, ko_reactions, sgn. cbn [obj rxns maximize]. apply ko_from_obj. Qed.

(* ---------------- genes ---------------- *)
Lemma reval_nil r : reval [] r = true.
Proof. induction r as [|g|a IHa b IHb|a IHa b IHb]; cbn; try reflexivity; rewrite IHa, IHb; reflexivity. Qed.

(* knocking out more genes never makes a rule true *)
Lemma reval_mono g K r : reval (g :: K) r = true -> reval K r = true.
Proof.
  induction r as [|h|a IHa b IHb|a IHa b IHb]; cbn [reval]; intros H.
  - reflexivity.
  - cbn in H. apply negb_true_iff in H. apply orb_false_iff in H as [_ H]. apply negb_true_iff. exact H.
  - apply andb_true_iff in H as [Ha Hb]. rewrite IHa, IHb by assumption. reflexivity.
  - apply orb_true_iff in H as [Ha|Hb]; [rewrite IHa by assumption; reflexivity|].
    rewrite IHb by assumption. apply orb_true_r.
Qed.

(* a gene the rule does not mention does not matter *)
Lemma reval_notin g K r : memb g (rgenes r) = false -> reval (g :: K) r = reval K r.
Proof.
  induction r as [|h|a IHa b IHb|a IHa b IHb]; cbn [reval rgenes]; intros H; try reflexivity.
  - unfold memb in *. cbn [existsb rgenes] in *. apply orb_false_iff in H as [H _].
    rewrite (Nat.eqb_sym h g), H. reflexivity.
  - rewrite memb_app in H. apply orb_false_iff in H as [Ha Hb]. rewrite IHa, IHb by assumption. reflexivity.
  - rewrite memb_app in H. apply orb_false_iff in H as [Ha Hb]. rewrite IHa, IHb by assumption. reflexivity.
Qed.

Lemma reval_ext K K' r : (forall x, memb x K = memb x K') -> reval K r = reval K' r.
Proof.
  intros H. induction r as [|h|a IHa b IHb|a IHa b IHb]; cbn [reval]; try reflexivity.
  - rewrite H. reflexivity.
  - rewrite IHa, IHb. reflexivity.
  - rewrite IHa, IHb. reflexivity.
Qed.

Definition gene_view (rules : list rule) (K : list nat) (k : nat) (r : rxn) : rxn :=
  if reval K (nth k rules RTrue) then r else ko_rxn r.

Lemma gene_ko_from_mapi K g rules (F : nat -> rxn -> rxn) rs0 : forall k,
  gene_ko_from k K g rules (mapi_from k F rs0) =
  mapi_from k (fun k r => let rl := nth k rules RTrue in
                          if memb g (rgenes rl) && negb (reval K rl) then ko_rxn (F k r) else F k r) rs0.
Proof. induction rs0 as [|r rs IH]; intros k; cbn [mapi_from gene_ko_from]; [reflexivity|]. rewrite IH. reflexivity. Qed.

(* one Gene.knock_out keeps the invariant "reaction k is knocked out iff its rule is false without the genes so far" *)
Lemma gene_step rules K g rs0 :
  gene_ko_from 0 (g :: K) g rules (mapi_from 0 (gene_view rules K) rs0) = mapi_from 0 (gene_view rules (g :: K)) rs0.
Proof.
  rewrite gene_ko_from_mapi. apply mapi_from_ext. intros k r _. cbv zeta. unfold gene_view.
  set (rl := nth k rules RTrue).
  destruct (reval (g :: K) rl) eqn:E1.
  - rewrite (reval_mono g K rl E1). rewrite andb_false_r. reflexivity.
  - cbn [negb]. rewrite andb_true_r. destruct (memb g (rgenes rl)) eqn:E2.
    + destruct (reval K rl); reflexivity.
    + rewrite <- (reval_notin g K rl E2), E1. reflexivity.
Qed.

Lemma gene_fold rules rs0 nm mx : forall gs K,
  fold_left (gene_knock_out rules) gs (K, mkFba nm (mapi_from 0 (gene_view rules K) rs0) mx) =
  (rev gs ++ K, mkFba nm (mapi_from 0 (gene_view rules (rev gs ++ K)) rs0) mx).
Proof.
  induction gs as [|g gs IH]; intros K; cbn [fold_left rev app]; [reflexivity|].
  unfold gene_knock_out at 2. cbn [fst snd nmets rxns maximize]. rewrite gene_step, IH, <- app_assoc. reflexivity.
Qed.

Lemma memb_false_rules K rules : forall n k0 k,
  memb k (false_rules_from k0 K rules n) =
  (Nat.leb k0 k && Nat.ltb k (k0 + n) && negb (reval K (nth k rules RTrue)))%bool.
Proof.
  induction n as [|n IH]; intros k0 k; cbn [false_rules_from].
  - replace (k0 + 0)%nat with k0 by lia. unfold memb. cbn [existsb].
    destruct (Nat.leb k0 k) eqn:A; destruct (Nat.ltb k k0) eqn:B; try reflexivity.
    exfalso. apply Nat.leb_le in A. apply Nat.ltb_lt in B. lia.
  - rewrite memb_app, IH.
    destruct (Nat.eq_dec k k0) as [->|N].
    + assert (A1 : Nat.leb k0 k0 = true) by (apply Nat.leb_le; lia).
      assert (A2 : Nat.ltb k0 (k0 + S n) = true) by (apply Nat.ltb_lt; lia).
      assert (A3 : Nat.leb (S k0) k0 = false) by (apply Nat.leb_gt; lia).
      rewrite A1, A2, A3. cbn [andb]. destruct (reval K (nth k0 rules RTrue)); cbn; [reflexivity|].
      rewrite Nat.eqb_refl. reflexivity.
    + assert (A0 : memb k (if reval K (nth k0 rules RTrue) then [] else [k0]) = false).
      { destruct (reval K (nth k0 rules RTrue)); cbn; [reflexivity|]. apply Nat.eqb_neq in N. rewrite N. reflexivity. }
      rewrite A0. cbn [orb]. replace (S k0 + n)%nat with (k0 + S n)%nat by lia.
      destruct (Nat.leb k0 k) eqn:B1, (Nat.leb (S k0) k) eqn:B2; try reflexivity.
      * apply Nat.leb_le in B1. apply Nat.leb_gt in B2. lia.
      * apply Nat.leb_gt in B1. apply Nat.leb_le in B2. lia.
Qed.

(* _gene_deletion: calling Gene.knock_out for the listed genes one after the other - in any order, with repeats -
   leaves exactly the reactions whose rule evaluates to false without those genes with bounds (0,0) *)
Theorem gene_deletion_spec rules m gs :
  gene_deletion rules m gs = ko_reactions m (disabled rules m gs).
Proof.
  unfold gene_deletion. destruct m as [nm rs mx].
  assert (E : rs = mapi_from 0 (gene_view rules []) rs).
  { rewrite <- (mapi_from_id rs 0) at 1. apply mapi_from_ext. intros k r _. unfold gene_view. rewrite reval_nil. reflexivity. }
  rewrite E at 1. rewrite gene_fold. cbn [snd]. unfold ko_reactions, disabled. cbn [nmets rxns maximize]. f_equal.
  rewrite ko_from_mapi. apply mapi_from_ext. intros k r Hk. unfold gene_view.
  rewrite memb_false_rules.
  assert (A1 : Nat.leb 0 k = true) by (apply Nat.leb_le; lia).
  assert (A2 : Nat.ltb k (0 + length rs) = true) by (apply Nat.ltb_lt; lia).
  rewrite A1, A2. cbn [andb].
  rewrite (reval_ext (rev gs ++ []) gs).
  - destruct (reval gs (nth k rules RTrue)); reflexivity.
  - apply memb_ext. intros x. rewrite app_nil_r, <- in_rev. tauto.
Qed.

(* the set of disabled reactions is, by definition, the set of positions whose rule is false *)
Theorem disabled_spec rules m gs k :
  In k (disabled rules m gs) <-> (k < length (rxns m))%nat /\ reval gs (nth k rules RTrue) = false.
Proof.
  rewrite <- memb_In. unfold disabled. rewrite memb_false_rules.
  rewrite !andb_true_iff, Nat.leb_le, Nat.ltb_lt, negb_true_iff. split; [intros [[_ A] B]|intros [A B]]; repeat split; lia || assumption.
Qed.

(* order and repeats do not matter *)
Corollary gene_deletion_order rules m gs gs' :
  (forall x, In x gs <-> In x gs') -> gene_deletion rules m gs = gene_deletion rules m gs'.
Proof.
  intros H. rewrite !gene_deletion_spec. unfold ko_reactions. f_equal. apply ko_from_ext. apply memb_ext.
  intros k. rewrite !disabled_spec. rewrite (reval_ext gs gs' _ (memb_ext _ _ H)). tauto.
Qed.
