(* Executable model of cobra.flux_analysis.deletion and of find_essential_genes / find_essential_reactions
   (variability.py), property C06.

   Entities (genes, reactions) are identified by their position in model.genes / model.reactions.
   Gene rules: a small self-contained evaluator for the and/or trees that decide Reaction.functional
   (GPR.eval: a gene is true unless knocked out, `and` = all, `or` = any, an empty rule is true).     *)
From Coq Require Import QArith List Bool Lia Lqa.
From Cobra.LP Require Import Defs Cert Fba.
From Cobra.Optimize Require Import Model.
Import ListNotations.
Open Scope Q_scope.

(* ---------------- gene rules ---------------- *)
Inductive rule := RTrue | RGene (g : nat) | RAnd (a b : rule) | ROr (a b : rule).

Definition memb (x : nat) (l : list nat) : bool := existsb (Nat.eqb x) l.

(* Reaction.functional with the genes `ko` non-functional *)
Fixpoint reval (ko : list nat) (r : rule) : bool :=
  match r with
  | RTrue => true
  | RGene g => negb (memb g ko)
  | RAnd a b => reval ko a && reval ko b
  | ROr a b => reval ko a || reval ko b
  end.
Fixpoint rgenes (r : rule) : list nat :=
  match r with
  | RTrue => []
  | RGene g => [g]
  | RAnd a b | ROr a b => rgenes a ++ rgenes b
  end.

(* ---------------- knock-outs ---------------- *)
(* Reaction.knock_out: bounds = (0, 0) *)
Definition ko_rxn (r : rxn) : rxn := mkRxn (rx_col r) (Fin 0) (Fin 0) (rx_obj r).
Fixpoint ko_from (k : nat) (ids : list nat) (rs : list rxn) : list rxn :=
  match rs with
  | [] => []
  | r :: rs' => (if memb k ids then ko_rxn r else r) :: ko_from (S k) ids rs'
  end.
Definition ko_reactions (m : fbamodel) (ids : list nat) : fbamodel :=
  mkFba (nmets m) (ko_from 0 ids (rxns m)) (maximize m).

(* _reaction_deletion: `for rxn_id in reaction_ids: model.reactions.get_by_id(rxn_id).knock_out()` *)
Definition reaction_deletion (m : fbamodel) (ids : list nat) : fbamodel :=
  fold_left (fun m' i => ko_reactions m' [i]) ids m.

(* Gene.knock_out: functional = False; every reaction OF THIS GENE whose rule is now false gets bounds (0,0).
   State: the genes knocked out so far and the model. *)
Fixpoint gene_ko_from (k : nat) (ko : list nat) (g : nat) (rules : list rule) (rs : list rxn) : list rxn :=
  match rs with
  | [] => []
  | r :: rs' =>
      let rl := nth k rules RTrue in
      (if memb g (rgenes rl) && negb (reval ko rl) then ko_rxn r else r) :: gene_ko_from (S k) ko g rules rs'
  end.
Definition gene_knock_out (rules : list rule) (st : list nat * fbamodel) (g : nat) : list nat * fbamodel :=
  let ko := g :: fst st in
  (ko, mkFba (nmets (snd st)) (gene_ko_from 0 ko g rules (rxns (snd st))) (maximize (snd st))).
(* _gene_deletion: `for gene_id in gene_ids: model.genes.get_by_id(gene_id).knock_out()` *)
Definition gene_deletion (rules : list rule) (m : fbamodel) (genes : list nat) : fbamodel :=
  snd (fold_left (gene_knock_out rules) genes ([], m)).

(* what the property says a gene deletion is: exactly the reactions whose rule is false without those genes *)
Fixpoint false_rules_from (k : nat) (ko : list nat) (rules : list rule) (n : nat) : list nat :=
  match n with
  | O => []
  | S n' => (if reval ko (nth k rules RTrue) then [] else [k]) ++ false_rules_from (S k) ko rules n'
  end.
Definition disabled (rules : list rule) (m : fbamodel) (genes : list nat) : list nat :=
  false_rules_from 0 genes rules (length (rxns m)).

(* ---------------- argument normalisation and the set of combinations ---------------- *)
(* _element_lists(entities, STAR ids): the first list defaults to all entities, every later list to the list
   BEFORE it (not to all entities) *)
Definition element_lists (all : list nat) (l1 : option (list nat)) (rest : list (option (list nat))) : list (list nat) :=
  let first := match l1 with Some l => l | None => all end in
  first :: snd (fold_left (fun acc o => let l := match o with Some l => l | None => fst acc end in (l, snd acc ++ [l]))
                          rest (first, [])).

(* frozenset(comb): sorted, duplicate-free list *)
Fixpoint insert_uniq (x : nat) (l : list nat) : list nat :=
  match l with
  | [] => [x]
  | y :: l' => if Nat.ltb x y then x :: l else if Nat.eqb x y then l else y :: insert_uniq x l'
  end.
Definition canon (l : list nat) : list nat := fold_right insert_uniq [] l.

Fixpoint list_eqb (a b : list nat) : bool :=
  match a, b with
  | [], [] => true
  | x :: a', y :: b' => Nat.eqb x y && list_eqb a' b'
  | _, _ => false
  end.
Fixpoint dedup (l : list (list nat)) : list (list nat) :=
  match l with
  | [] => []
  | x :: l' => if existsb (list_eqb x) l' then dedup l' else x :: dedup l'
  end.

(* itertools.product *)
Fixpoint product (ls : list (list nat)) : list (list nat) :=
  match ls with
  | [] => [[]]
  | l :: ls' => flat_map (fun x => map (cons x) (product ls')) l
  end.

(* args = {frozenset(comb) for comb in product(STAR element_lists)} : one task, hence one row, per element *)
Definition combos (ls : list (list nat)) : list (list nat) := dedup (map canon (product ls)).

(* ---------------- _get_growth ---------------- *)
(* fba: growth = model.slim_optimize() (nan unless optimal); status = model.solver.status *)
Definition get_growth_fba (sr : sresult) : option Q * status :=
  match slim_optimize [] sr true with SlimValue v => (Some v, sr_status sr) | _ => (None, sr_status sr) end.
(* moma: model.slim_optimize(); growth = moma_old_objective.primal (whatever the solver holds) *)
Definition get_growth_moma (sr : sresult) (w : Q) : option Q * status := (Some w, sr_status sr).

(* ---------------- find_essential_genes / find_essential_reactions ---------------- *)
Record drow := mkRow' { d_ids : list nat; d_growth : option Q; d_status : status }.

(* deletions.loc[deletions["growth"].isna() | (deletions["growth"] < threshold)].ids, flattened into a set *)
Definition essential_row (thr : Q) (r : drow) : bool :=
  match d_growth r with None => true | Some g => negb (Qle_bool thr g) end.
Definition essential (thr : Q) (rows : list drow) : list nat :=
  canon (flat_map d_ids (filter (essential_row thr) rows)).
(* threshold=None: model.slim_optimize(error_value=None) * factor, factor from the source (Gen/DelTables.v) *)
Definition default_threshold (factor opt : Q) : Q := opt * factor.
