(* C03: undo lemmas of Model.remove_metabolites inside a block, both modes.
   Non-destructive: the metabolite re-joins, then every reaction that listed it gets its coefficient back
   (one USubSt closure per reaction: the universe of reaction identifiers must be duplicate-free, otherwise
   the model would register - and replay - the same closure twice).
   Destructive: the metabolite re-joins, then the reactions that left come back one by one; each step is
   the undo of a single remove_reactions (remove_rxn_undone) on the state with fewer reactions.       *)
From Coq Require Import ZArith QArith Qcanon List Bool Lia FunctionalExtensionality.
From Cobra.Core Require Import Model Inv Preserve RestoreBase RestoreOps RestoreStruct RestoreSt RestoreImul.
Import ListNotations.
Open Scope Z_scope.
Local Arguments Z.eqb : simpl never.
Local Arguments memz : simpl never.

Lemma memz_notin k l : ~ In k l -> memz k l = false.
Proof. intros H. destruct (memz k l) eqn:E; [|reflexivity]. apply memz_In in E. contradiction. Qed.

Lemma memz_rxns_of s m r : Inv s -> memz r (rxns_of s m) = back s m r.
Proof.
  intros HI. unfold rxns_of. destruct (back s m r) eqn:Eb.
  - apply memz_In, filter_In. split; [apply (u_rxns s HI m r Eb)|exact Eb].
  - apply memz_notin. intros H. apply filter_In in H as [_ H]. congruence.
Qed.

(* ================= non-destructive ================= *)

(* the state after the metabolite re-joined the model and got its (empty) row back *)
Definition nd_mid (m : Z) (s : st) : st :=
  mkSt (rin s) (lb s) (ub s)
       (fun r m' => if (m' =? m) && back s m r then q0 else sto s r m')
       (upd (upd (min s) m false) m true)
       (upd (back s) m (fun _ => false))
       (vin s) (vlb s) (vub s)
       (upd (upd (cin s) m false) m true)
       (upd (co s) m (fun _ => q0))
       (oc s) (odir s) [] (rids s) (mids s).

Ltac fieldsm := cbn [rin lb ub sto min back vin vlb vub cin co oc odir ctx rids mids
  set_rin set_lbub set_sto set_min set_back set_vin set_vb set_cin set_co set_oc set_odir set_ctx set_ids body
  solver_remove_cons solver_add_cons solver_remove_var solver_add_var var_set_bounds row_set run_undo nd_mid add_st_content].

Lemma nd_mid_eq m s :
  run_undo (USolverAddCons m) (run_undo (UMetsIAdd m) (body (remove_met_nd_content m s))) = nd_mid m s.
Proof. unfold remove_met_nd_content. apply st_ext; fieldsm; intros; triv. Qed.

Lemma nd_mid_Inv m s : Inv s -> min s m = true -> Inv (nd_mid m s).
Proof.
  intros [A B B' C D E G H I J K] Em. unfold nd_mid. constructor; fieldsm; try assumption.
  - intros m0. unfold upd. destruct (m0 =? m); [reflexivity|apply C].
  - intros m0 r. destruct (Z.eqb_spec m0 m) as [E0|Hne]; [subst m0|].
    + rewrite !upd_same. cbn [andb]. rewrite andb_true_r.
      destruct (rin s r) eqn:Er; [|tauto].
      destruct (back s m r) eqn:Eb; [rewrite opp_q0; tauto|].
      destruct (isz (sto s r m)) eqn:Ez.
      * apply isz_true in Ez. rewrite Ez, opp_q0. tauto.
      * apply isz_false in Ez. destruct (G r m Er Ez). congruence.
    + rewrite !upd_other by exact Hne. cbn [andb]. apply D.
  - intros r m0 Hr Hs. destruct (Z.eqb_spec m0 m) as [E0|Hne]; [subst m0|].
    + cbn [andb] in Hs. destruct (back s m r) eqn:Eb; [congruence|]. destruct (G r m Hr Hs). congruence.
    + cbn [andb] in Hs. rewrite !upd_other by exact Hne. apply (G r m0 Hr Hs).
  - intros m0 r Hb. destruct (Z.eqb_spec m0 m) as [E0|Hne]; [subst m0; rewrite upd_same in Hb; discriminate|].
    rewrite upd_other in Hb by exact Hne. rewrite !upd_other by exact Hne. cbn [andb]. apply (H m0 r Hb).
  - intros r m0 Hs. apply (I r m0). destruct ((m0 =? m) && back s m r); [congruence|exact Hs].
  - intros m0 r Hb. destruct (Z.eqb_spec m0 m) as [E0|Hne]; [subst m0; rewrite upd_same in Hb; discriminate|].
    rewrite upd_other in Hb by exact Hne. apply (J m0 r Hb).
Qed.

Lemma add_st_noctx r l c x : ctx x = [] -> rin x r = true ->
  fst (add_st r l c false x) = body (add_st_content r l c x).
Proof.
  intros Hx Hr. rewrite <- (body_id _ (ctx_add_st_nil r l c false x Hx)). apply body_add_st. exact Hr.
Qed.

Definition resub (s : st) (m : Z) (L : list Z) : list undo :=
  map (fun r => USubSt r [(m, (- sto s r m)%Qc)]) L.

Lemma resub_loop s m : Inv s -> forall L t,
  NoDup L -> Inv t -> ctx t = [] -> min t m = true -> mids t = mids s ->
  (forall r, In r L -> rin t r = true /\ sto t r m = q0 /\ sto s r m <> q0) ->
  Inv (reset_from (resub s m L) t) /\ ctx (reset_from (resub s m L) t) = [] /\
  rin (reset_from (resub s m L) t) = rin t /\ lb (reset_from (resub s m L) t) = lb t /\
  ub (reset_from (resub s m L) t) = ub t /\ oc (reset_from (resub s m L) t) = oc t /\
  odir (reset_from (resub s m L) t) = odir t /\ rids (reset_from (resub s m L) t) = rids t /\
  mids (reset_from (resub s m L) t) = mids t /\
  (forall m', min (reset_from (resub s m L) t) m' = min t m') /\
  (forall r m', sto (reset_from (resub s m L) t) r m' = if (m' =? m) && memz r L then sto s r m else sto t r m') /\
  (forall m' r, back (reset_from (resub s m L) t) m' r = if (m' =? m) && memz r L then true else back t m' r).
Proof.
  intros HI. induction L as [|a L IH]; intros t Hnd It Ht Hmin Hmids Hall.
  - cbn [resub map reset_from fold_left]. split; [exact It|]. split; [exact Ht|].
    repeat (split; [reflexivity|]). split; intros; rewrite memz_nil, andb_false_r; reflexivity.
  - inversion Hnd as [|a' L' Ha HL]; subst a' L'.
    destruct (Hall a (or_introl eq_refl)) as [Ra [Za Na]].
    cbn [resub map]. fold (resub s m L). rewrite reset_cons. cbn [run_undo neg_list map fst snd].
    set (l1 := [(m, (- - sto s a m)%Qc)]).
    assert (I1 : Inv (fst (add_st a l1 true false t))).
    { apply add_st_Inv; [exact It|]. intros m0 Hm0. unfold l1, touched in Hm0. cbn [map fst In] in Hm0.
      destruct Hm0 as [<-|[]]. rewrite Hmids. apply (u_mets s HI a m Na). }
    rewrite (add_st_noctx a l1 true t Ht Ra) in *.
    set (t1 := body (add_st_content a l1 true t)) in *.
    assert (Hnews : news_of t a l1 = []).
    { unfold news_of, l1, touched. cbn [map fst filter]. rewrite Hmin. reflexivity. }
    assert (Hmin1 : forall m', min t1 m' = min t m').
    { intros m'. unfold t1. fieldsm. rewrite Hnews, memz_nil. apply orb_false_r. }
    assert (Hst1 : forall r m', sto t1 r m' = if (m' =? m) && (r =? a) then sto s a m else sto t r m').
    { intros r m'. unfold t1. fieldsm. unfold upd. destruct (Z.eqb_spec r a) as [->|Hne]; [|rewrite andb_false_r; reflexivity].
      rewrite andb_true_r. unfold st_after, l1. cbn [assoc_q]. rewrite (Z.eqb_sym m m').
      destruct (Z.eqb_spec m' m) as [->|Hne]; [|reflexivity].
      unfold new_coef. rewrite Za. unfold q0. ring. }
    assert (Hbk1 : forall m' r, back t1 m' r = if (m' =? m) && (r =? a) then true else back t m' r).
    { intros m' r. unfold t1. fieldsm. unfold l1 at 1. unfold touched. cbn [map fst]. rewrite memz_cons, memz_nil, orb_false_r.
      rewrite (andb_comm (r =? a)).
      destruct (Z.eqb_spec m' m) as [->|Hne]; cbn [andb]; [|reflexivity].
      destruct (Z.eqb_spec r a) as [->|Hne]; [|reflexivity].
      pose proof (Hst1 a m) as X. unfold t1 in X. cbn [body set_ctx sto add_st_content] in X. rewrite upd_same in X.
      rewrite X, !Z.eqb_refl. cbn [andb].
      assert (Z1 : isz (sto s a m) = false) by (apply isz_false; exact Na).
      assert (Z2 : isz (sto t a m) = true) by (apply isz_true; exact Za).
      rewrite Z1, Z2. reflexivity. }
    assert (Hall1 : forall r, In r L -> rin t1 r = true /\ sto t1 r m = q0 /\ sto s r m <> q0).
    { intros r Hr. destruct (Hall r (or_intror Hr)) as [X [Y Z]]. split; [exact X|]. split; [|exact Z].
      rewrite Hst1. assert (Hne : r <> a) by (intros ->; contradiction).
      apply Z.eqb_neq in Hne. rewrite Hne, andb_false_r. exact Y. }
    assert (Hm1 : min t1 m = true) by (rewrite Hmin1; exact Hmin).
    destruct (IH t1 HL I1 eq_refl Hm1 Hmids Hall1) as [J1 [J2 [J3 [J4 [J5 [J6 [J7 [J8 [J9 [J10 [J11 J12]]]]]]]]]]].
    split; [exact J1|]. split; [exact J2|].
    split; [rewrite J3; reflexivity|]. split; [rewrite J4; reflexivity|]. split; [rewrite J5; reflexivity|].
    split; [rewrite J6; reflexivity|]. split; [rewrite J7; reflexivity|]. split; [rewrite J8; reflexivity|].
    split; [rewrite J9; reflexivity|].
    split; [intros m'; rewrite J10; apply Hmin1|].
    assert (Hma : memz a L = false) by (apply memz_notin; exact Ha).
    split.
    + intros r m'. rewrite J11, Hst1, memz_cons.
      destruct (Z.eqb_spec m' m) as [->|Hne]; cbn [andb]; [|reflexivity].
      destruct (Z.eqb_spec r a) as [->|Hne]; cbn [orb]; [rewrite Hma; reflexivity|reflexivity].
    + intros m' r. rewrite J12, Hbk1, memz_cons.
      destruct (Z.eqb_spec m' m) as [->|Hne]; cbn [andb]; [|reflexivity].
      destruct (Z.eqb_spec r a) as [->|Hne]; cbn [orb]; [rewrite Hma; reflexivity|reflexivity].
Qed.

Lemma remove_met_nd_undone s m : Inv s -> NoDup (rids s) -> undone s (remove_met_nd m s).
Proof.
  intros HI Hnd h rest Hc. unfold remove_met_nd. destruct (min s m) eqn:Em; cbn [negb]; [|exists []; split; [exact Hc|reflexivity]].
  exists (rev (map (fun r => USubSt r [(m, (- sto s r m)%Qc)]) (rxns_of s m) ++ drop_records m)).
  split; [apply ctx_record_all; exact Hc|].
  rewrite body_record_all, rev_app_distr. unfold drop_records. cbn [rev app]. rewrite <- map_rev.
  rewrite !reset_cons, nd_mid_eq. fold (resub s m (rev (rxns_of s m))).
  assert (Hmem : forall r, memz r (rev (rxns_of s m)) = back s m r).
  { intros r. rewrite memz_rev. apply memz_rxns_of. exact HI. }
  destruct (resub_loop s m HI (rev (rxns_of s m)) (nd_mid m s)) as [J1 [J2 [J3 [J4 [J5 [J6 [J7 [J8 [J9 [J10 [J11 J12]]]]]]]]]]].
  - apply NoDup_rev. apply NoDup_filter. exact Hnd.
  - apply nd_mid_Inv; assumption.
  - reflexivity.
  - unfold nd_mid. fieldsm. apply upd_same.
  - reflexivity.
  - intros r Hr. apply in_rev, filter_In in Hr as [_ Hb]. destruct (w_back s HI m r Hb) as [_ [X Y]].
    unfold nd_mid. fieldsm. rewrite Z.eqb_refl, Hb. cbn [andb]. tauto.
  - apply Inv_ext; [exact J1|apply Inv_body; exact HI| | | | | | | | | | |].
    + intros r. rewrite J3. reflexivity.
    + intros r. rewrite J4. reflexivity.
    + intros r. rewrite J5. reflexivity.
    + intros r m'. rewrite J11, Hmem. unfold nd_mid. fieldsm.
      destruct (Z.eqb_spec m' m) as [->|Hne]; cbn [andb]; [|reflexivity]. destruct (back s m r); reflexivity.
    + intros m'. rewrite J10. unfold nd_mid. fieldsm. unfold upd. destruct (Z.eqb_spec m' m) as [->|Hne]; [symmetry; exact Em|reflexivity].
    + intros m' r. rewrite J12, Hmem. unfold nd_mid. fieldsm. unfold upd.
      destruct (Z.eqb_spec m' m) as [->|Hne]; cbn [andb]; [|reflexivity]. destruct (back s m r); reflexivity.
    + intros n. rewrite J6. reflexivity.
    + rewrite J7. reflexivity.
    + rewrite J2. reflexivity.
    + rewrite J8. reflexivity.
    + rewrite J9. reflexivity.
Qed.

(* ================= destructive ================= *)

(* the model without the reactions of L (each removed by remove_reactions, remove_orphans=False) *)
Definition stripped (L : list Z) (s : st) : st :=
  mkSt (fun r => rin s r && negb (memz r L)) (lb s) (ub s) (sto s) (min s)
       (fun m' r => if memz r L && negb (isz (sto s r m')) then false else back s m' r)
       (fun n => vin s n && negb (memz (fst n) L))
       (fun n => if memz (fst n) L then NInf else vlb s n)
       (fun n => if memz (fst n) L then PInf else vub s n)
       (cin s)
       (fun m' n => if memz (fst n) L then q0 else co s m' n)
       (fun n => if memz (fst n) L then q0 else oc s n)
       (odir s) [] (rids s) (mids s).

Ltac fieldss := cbn [rin lb ub sto min back vin vlb vub cin co oc odir ctx rids mids
  set_rin set_lbub set_sto set_min set_back set_vin set_vb set_cin set_co set_oc set_odir set_ctx set_ids body
  solver_remove_cons solver_add_cons solver_remove_var solver_add_var var_set_bounds row_set run_undo stripped].

Lemma stripped_nil s : stripped [] s = body s.
Proof.
  apply st_ext; fieldss; intros; triv; rewrite ?memz_nil; cbn [negb andb]; rewrite ?andb_true_r; reflexivity.
Qed.

Lemma stripped_step L r s : body (remove_rxn_content r false (stripped L s)) = stripped (r :: L) s.
Proof.
  unfold remove_rxn_content. apply st_ext; fieldss; cbn [andb negb]; intros; triv;
    rewrite ?memz_cons, ?andb_true_r, ?orb_false_r; unfold upd; triv.
  - destruct (Z.eqb_spec r0 r); subst; cbn [orb negb]; rewrite ?andb_false_r; reflexivity.
  - destruct (Z.eqb_spec r0 r); subst; cbn [orb andb]; [|reflexivity].
    destruct (negb (isz (sto s r m))); [reflexivity|]. rewrite andb_false_r. reflexivity.
  - destruct (Z.eqb_spec (fst n) r); cbn [orb negb]; rewrite ?andb_false_r; reflexivity.
  - destruct (Z.eqb_spec (fst n) r); cbn [orb negb]; reflexivity.
  - destruct (Z.eqb_spec (fst n) r); cbn [orb negb]; reflexivity.
  - destruct (Z.eqb_spec (fst n) r); cbn [orb negb]; reflexivity.
  - destruct (Z.eqb_spec (fst n) r); cbn [orb negb]; reflexivity.
Qed.

(* the replay inside remove_rxn_undone, stated without a context *)
Lemma remove_rxn_replay u r o : Inv u -> rin u r = true ->
  reset_from (rev (removal_records u r o)) (body (remove_rxn_content r o u)) = body u.
Proof.
  intros Iu Hr.
  destruct (remove_rxn_undone (set_ctx u [[]]) r o (Inv_ctx u [[]] Iu) [] [] eq_refl) as [new [C Rr]].
  unfold remove_rxn in C, Rr. cbn [rin set_ctx] in C, Rr. rewrite Hr in C, Rr. cbn [negb] in C, Rr.
  rewrite (ctx_record_all (removal_records (set_ctx u [[]]) r o) (remove_rxn_content r o (set_ctx u [[]])) [] [] eq_refl) in C. injection C as C. rewrite !app_nil_r in C. subst new.
  rewrite body_record_all in Rr. exact Rr.
Qed.

Lemma stripped_rin L s r : rin s r = true -> ~ In r L -> rin (stripped L s) r = true.
Proof. intros Hr Hn. fieldss. rewrite Hr, (memz_notin r L Hn). reflexivity. Qed.

Lemma stripped_Inv s : Inv s -> forall L, NoDup L -> (forall r, In r L -> rin s r = true) -> Inv (stripped L s).
Proof.
  intros HI. induction L as [|r L IH]; intros Hnd Hall.
  - rewrite stripped_nil. apply Inv_body. exact HI.
  - inversion Hnd as [|a' L' Ha HL]; subst a' L'. rewrite <- stripped_step.
    assert (Iu : Inv (stripped L s)) by (apply IH; [exact HL|intros r0 H0; apply Hall; right; exact H0]).
    assert (Hr : rin (stripped L s) r = true) by (apply stripped_rin; [apply Hall; left; reflexivity|exact Ha]).
    pose proof (remove_rxn_Inv (stripped L s) r false Iu) as X. unfold remove_rxn in X. rewrite Hr in X. cbn [negb] in X.
    apply Inv_body in X. rewrite body_record_all in X. exact X.
Qed.

Lemma removal_records_stripped L s r : ~ In r L -> removal_records (stripped L s) r false = removal_records s r false.
Proof.
  intros Hn. pose proof (memz_notin r L Hn) as Hm.
  unfold removal_records, mets_of. cbn [oc back sto mids stripped fst F andb]. rewrite Hm. cbn [andb]. reflexivity.
Qed.

Lemma restore_loop s : Inv s -> forall L, NoDup L -> (forall r, In r L -> rin s r = true) ->
  reset_from (flat_map (fun r => rev (removal_records s r false)) L) (stripped L s) = body s.
Proof.
  intros HI. induction L as [|r L IH]; intros Hnd Hall.
  - cbn [flat_map reset_from fold_left]. apply stripped_nil.
  - inversion Hnd as [|a' L' Ha HL]; subst a' L'. cbn [flat_map]. rewrite reset_app, <- stripped_step.
    assert (HallL : forall r0, In r0 L -> rin s r0 = true) by (intros r0 H0; apply Hall; right; exact H0).
    rewrite <- (removal_records_stripped L s r Ha).
    rewrite remove_rxn_replay.
    + change (body (stripped L s)) with (stripped L s). apply IH; assumption.
    + apply stripped_Inv; assumption.
    + apply stripped_rin; [apply Hall; left; reflexivity|exact Ha].
Qed.

Lemma remove_met_d_undone s m : Inv s -> NoDup (rids s) -> undone s (remove_met_d m s).
Proof.
  intros HI Hnd h rest Hc. unfold remove_met_d. destruct (min s m) eqn:Em; cbn [negb]; [|exists []; split; [exact Hc|reflexivity]].
  set (L := filter (rin s) (rxns_of s m)).
  exists (rev (flat_map (fun r => removal_records s r false) L ++ drop_records m)).
  split; [apply ctx_record_all; exact Hc|].
  rewrite body_record_all, rev_app_distr, rev_flat_map_gen. unfold drop_records. cbn [rev app]. rewrite !reset_cons.
  assert (Hmem : forall r, memz r (rev L) = back s m r && rin s r).
  { intros r. rewrite memz_rev. unfold L. destruct (back s m r && rin s r) eqn:E.
    - apply andb_true_iff in E as [E1 E2]. apply memz_In, filter_In. split; [|exact E2].
      apply memz_In. rewrite memz_rxns_of by exact HI. exact E1.
    - apply memz_notin. intros H. apply filter_In in H as [H1 H2]. apply memz_In in H1.
      rewrite memz_rxns_of in H1 by exact HI. rewrite H1, H2 in E. discriminate. }
  assert (E0 : run_undo (USolverAddCons m) (run_undo (UMetsIAdd m) (body (remove_met_d_content m s))) = stripped (rev L) s).
  { unfold remove_met_d_content. apply st_ext; fieldss; intros; triv; rewrite ?Hmem; try reflexivity.
    - unfold upd. destruct (Z.eqb_spec m0 m) as [->|Hne]; [symmetry; exact Em|reflexivity].
    - unfold upd. destruct (Z.eqb_spec m0 m) as [->|Hne]; [rewrite (i_rows s HI m); symmetry; exact Em|reflexivity].
    - destruct (back s m (fst n) && rin s (fst n)) eqn:Ed; [rewrite orb_true_r; reflexivity|]. rewrite orb_false_r.
      destruct (Z.eqb_spec m0 m) as [->|Hne]; [|reflexivity]. symmetry.
      destruct n as [r0 b0]. cbn [fst] in Ed.
      assert (Hz : (if rin s r0 && min s m then sto s r0 m else q0) = q0 /\
                   (if rin s r0 && min s m then (- sto s r0 m)%Qc else q0) = q0).
      { destruct (rin s r0) eqn:Er; cbn [andb]; [|tauto]. rewrite andb_true_r in Ed.
        destruct (isz (sto s r0 m)) eqn:Ez.
        - apply isz_true in Ez. rewrite Ez, opp_q0, !if_same. tauto.
        - apply isz_false in Ez. destruct (w_fwd s HI r0 m Er Ez). congruence. }
      destruct (i_co s HI m r0) as [D1 D2]. unfold F, R in D1, D2. destruct Hz as [Z1 Z2].
      destruct b0; [rewrite D2, Z2|rewrite D1, Z1]; reflexivity. }
  rewrite E0. apply restore_loop.
  - exact HI.
  - apply NoDup_rev. unfold L, rxns_of. apply NoDup_filter, NoDup_filter. exact Hnd.
  - intros r Hr. apply in_rev in Hr. unfold L in Hr. apply filter_In in Hr as [_ Hr]. exact Hr.
Qed.

(* bounds are not touched *)
Lemma remove_met_nd_bounds m s : lb (remove_met_nd m s) = lb s /\ ub (remove_met_nd m s) = ub s.
Proof. unfold remove_met_nd. destruct (negb (min s m)); [split; reflexivity|]. rewrite lb_record_all, ub_record_all. split; reflexivity. Qed.
Lemma remove_met_d_bounds m s : lb (remove_met_d m s) = lb s /\ ub (remove_met_d m s) = ub s.
Proof. unfold remove_met_d. destruct (negb (min s m)); [split; reflexivity|]. rewrite lb_record_all, ub_record_all. split; reflexivity. Qed.
