(* Correspondence and monitor functions for C01 / C02 / C03, evaluated by vm_compute on what the
   harness observed of the real cobra Model after every operation.  Nothing here is a theorem. *)
From Coq Require Import ZArith QArith Qcanon List Bool.
From Cobra.Core Require Import Model.
Import ListNotations.
Open Scope Z_scope.

Record robs := mkR { ro_id : Z; ro_in : bool; ro_lb : eb; ro_ub : eb; ro_st : list (Z * Qc) }.
Record mobs := mkM { mo_id : Z; mo_in : bool; mo_back : list Z }.
Record vobs := mkV { vo_name : name; vo_lb : eb; vo_ub : eb; vo_obj : Qc }.
Record cobs := mkC { co_id : Z; co_coefs : list (name * Qc) }.
Record obs := mkO {
  o_rx : list robs; o_mt : list mobs;        (* every reaction / metabolite object of the case *)
  o_vars : list vobs; o_cons : list cobs;    (* the raw GLPK problem: columns and rows by name *)
  o_dir : bool; o_depth : Z;
  o_shape_ok : bool;     (* no unnamed/extra column or row, rows are [0,0], columns continuous, optlang view = GLPK *)
  o_res : res }.

Fixpoint assq (k : Z) (l : list (Z * Qc)) : Qc :=
  match l with [] => q0 | (a, b) :: r => if a =? k then b else assq k r end.
Fixpoint assn (k : name) (l : list (name * Qc)) : Qc :=
  match l with [] => q0 | (a, b) :: r => if name_eqb a k then b else assn k r end.
Fixpoint find_var (k : name) (l : list vobs) : option vobs :=
  match l with [] => None | v :: r => if name_eqb (vo_name v) k then Some v else find_var k r end.
Fixpoint find_con (k : Z) (l : list cobs) : option cobs :=
  match l with [] => None | c :: r => if co_id c =? k then Some c else find_con k r end.
Definition res_eqb (a b : res) : bool :=
  match a, b with Ok, Ok | RaiseValueError, RaiseValueError | RaiseKeyError, RaiseKeyError | RaiseOther, RaiseOther => true
  | _, _ => false end.

(* ---- code 1: the model's state and the observed implementation state agree ---- *)
Definition agree (s : st) (o : obs) : bool :=
  let rs := map ro_id (o_rx o) in let ms := map mo_id (o_mt o) in
  let names := flat_map (fun r => [F r; R r]) rs in
  forallb (fun x => Bool.eqb (rin s (ro_id x)) (ro_in x) && eb_eqb (lb s (ro_id x)) (ro_lb x) &&
                    eb_eqb (ub s (ro_id x)) (ro_ub x) &&
                    forallb (fun m => qeqb (sto s (ro_id x) m) (assq m (ro_st x))) ms) (o_rx o) &&
  forallb (fun x => Bool.eqb (min s (mo_id x)) (mo_in x) &&
                    (negb (mo_in x) || forallb (fun r => Bool.eqb (back s (mo_id x) r) (memz r (mo_back x))) rs)) (o_mt o) &&
  forallb (fun n => match find_var n (o_vars o) with
                    | Some v => vin s n && eb_eqb (vlb s n) (vo_lb v) && eb_eqb (vub s n) (vo_ub v) && qeqb (oc s n) (vo_obj v)
                    | None => negb (vin s n) end) names &&
  forallb (fun m => match find_con m (o_cons o) with
                    | Some c => cin s m && forallb (fun n => qeqb (co s m n) (assn n (co_coefs c))) names
                    | None => negb (cin s m) end) ms &&
  Bool.eqb (odir s) (o_dir o) && (Z.of_nat (length (ctx s)) =? o_depth o).

(* ---- code 2 (C01): the observed solver problem is exactly the FBA problem of the observed content ---- *)
Definition lp_sync_b (o : obs) : bool :=
  let inmodel := filter ro_in (o_rx o) in
  o_shape_ok o &&
  (* exactly the variables of the reactions in the model, with the bounds of update_variable_bounds *)
  forallb (fun x =>
     let '((fl, fu), (rl, ru)) := split_bounds (ro_lb x) (ro_ub x) in
     match find_var (F (ro_id x)) (o_vars o), find_var (R (ro_id x)) (o_vars o) with
     | Some f, Some r => eb_eqb (vo_lb f) fl && eb_eqb (vo_ub f) fu && eb_eqb (vo_lb r) rl && eb_eqb (vo_ub r) ru &&
                         qeqb (vo_obj r) (- vo_obj f)%Qc
     | _, _ => false end) inmodel &&
  (Z.of_nat (length (o_vars o)) =? 2 * Z.of_nat (length inmodel)) &&
  (* exactly one row per metabolite in the model, with the current stoichiometry *)
  forallb (fun x => match find_con (mo_id x) (o_cons o) with
     | Some c => mo_in x &&
         forallb (fun rx => if ro_in rx
                            then qeqb (assn (F (ro_id rx)) (co_coefs c)) (assq (mo_id x) (ro_st rx)) &&
                                 qeqb (assn (R (ro_id rx)) (co_coefs c)) (- assq (mo_id x) (ro_st rx))%Qc
                            else qeqb (assn (F (ro_id rx)) (co_coefs c)) q0 && qeqb (assn (R (ro_id rx)) (co_coefs c)) q0)
                 (o_rx o)
     | None => negb (mo_in x) end) (o_mt o) &&
  (Z.of_nat (length (o_cons o)) =? Z.of_nat (length (filter mo_in (o_mt o)))).

(* ---- code 3 (C02): cross references of the observed object graph ---- *)
Definition find_r (k : Z) (l : list robs) : option robs :=
  find (fun x => ro_id x =? k) l.
Definition find_m (k : Z) (l : list mobs) : option mobs :=
  find (fun x => mo_id x =? k) l.
Definition wf_b (o : obs) : bool :=
  forallb (fun x => negb (ro_in x) ||
     forallb (fun mc => negb (qeqb (snd mc) q0) &&
                match find_m (fst mc) (o_mt o) with
                | Some m => mo_in m && memz (ro_id x) (mo_back m) | None => false end) (ro_st x)) (o_rx o) &&
  forallb (fun m => negb (mo_in m) ||
     forallb (fun r => match find_r r (o_rx o) with
                | Some x => ro_in x && negb (qeqb (assq (mo_id m) (ro_st x)) q0) | None => false end) (mo_back m)) (o_mt o).

(* ---- code 4 (C03): the observation after leaving a context equals the one at entry ---- *)
Definition rsame (a b : robs) : bool :=
  (ro_id a =? ro_id b) && Bool.eqb (ro_in a) (ro_in b) && eb_eqb (ro_lb a) (ro_lb b) && eb_eqb (ro_ub a) (ro_ub b) &&
  forallb (fun mc => qeqb (snd mc) (assq (fst mc) (ro_st b))) (ro_st a) &&
  forallb (fun mc => qeqb (snd mc) (assq (fst mc) (ro_st a))) (ro_st b).
Definition msame (a b : mobs) : bool :=
  (mo_id a =? mo_id b) && Bool.eqb (mo_in a) (mo_in b) &&
  forallb (fun r => memz r (mo_back b)) (mo_back a) && forallb (fun r => memz r (mo_back a)) (mo_back b).
Fixpoint all2 {A} (f : A -> A -> bool) (l m : list A) : bool :=
  match l, m with [], [] => true | a :: l', b :: m' => f a b && all2 f l' m' | _, _ => false end.
Definition vsame (a : list vobs) (b : list vobs) : bool :=
  (Nat.eqb (length a) (length b)) &&
  forallb (fun v => match find_var (vo_name v) b with
     | Some w => eb_eqb (vo_lb v) (vo_lb w) && eb_eqb (vo_ub v) (vo_ub w) && qeqb (vo_obj v) (vo_obj w)
     | None => false end) a.
Definition csame (a b : list cobs) : bool :=
  (Nat.eqb (length a) (length b)) &&
  forallb (fun c => match find_con (co_id c) b with
     | Some d => forallb (fun nc => qeqb (snd nc) (assn (fst nc) (co_coefs d))) (co_coefs c) &&
                 forallb (fun nc => qeqb (snd nc) (assn (fst nc) (co_coefs c))) (co_coefs d)
     | None => false end) a.
(* content of the model only: objects that are in the model at either end, and the whole solver *)
Definition restored (a b : obs) : bool :=
  all2 (fun x y => if ro_in x || ro_in y then rsame x y else true) (o_rx a) (o_rx b) &&
  all2 (fun x y => if mo_in x || mo_in y then msame x y else true) (o_mt a) (o_mt b) &&
  vsame (o_vars a) (o_vars b) && csame (o_cons a) (o_cons b) && Bool.eqb (o_dir a) (o_dir b) &&
  (o_depth a =? o_depth b).

Definition is_exit (o : op) : bool := match o with Exit => true | _ => false end.
Definition is_enter (o : op) : bool := match o with Enter => true | _ => false end.

(* state reconstructed from an observation is not possible (undo histories are invisible), so
   after a disagreement the remaining steps of the case are only monitored, not compared.    *)
Fixpoint check_steps (s : st) (synced : bool) (stack : list obs) (prev : obs) (steps : list (op * obs)) (n : nat)
  : list (nat * nat) :=
  match steps with
  | [] => []
  | (o, ob) :: rest =>
      let '(s', r) := step s o in
      let c1 := negb synced || (agree s' ob && res_eqb r (o_res ob)) in
      let c2 := lp_sync_b ob in
      let c3 := wf_b ob in
      let '(c4, stack') :=
        if is_enter o then (true, prev :: stack)
        else if is_exit o then
          match stack with
          | e :: st' => (restored e ob, st')
          | [] => (true, [])
          end
        else (true, stack) in
      let c5 := negb (is_exit o) || negb (0 <? o_depth prev) || res_eqb (o_res ob) Ok in
      (if c1 then [] else [(n, 1%nat)]) ++ (if c2 then [] else [(n, 2%nat)]) ++
      (if c3 then [] else [(n, 3%nat)]) ++ (if c4 then [] else [(n, 4%nat)]) ++
      (if c5 then [] else [(n, 5%nat)]) ++
      check_steps s' (synced && c1) stack' ob rest (S n)
  end.

Definition check_case (c : obs * list (op * obs)) : list (nat * nat) :=
  let '(ob0, steps) := c in
  let s0 := init_u (map ro_id (o_rx ob0)) (map mo_id (o_mt ob0)) in
  (if agree s0 ob0 && lp_sync_b ob0 && wf_b ob0 then [] else [(0%nat, 1%nat)]) ++
  check_steps s0 true [] ob0 steps 1.

Definition failing (cases : list (Z * (obs * list (op * obs)))) : list (Z * list (nat * nat)) :=
  filter (fun r => match snd r with [] => false | _ => true end)
         (map (fun c => (fst c, check_case (snd c))) cases).
