(* Invariants of the Core model: the solver mirrors the content (C01), cross references are
   consistent (C02); basic lemmas about the map updates.                                  *)
From Coq Require Import ZArith QArith Qcanon List Bool Lia.
From Cobra.Core Require Import Model.
Import ListNotations.
Open Scope Z_scope.

(* ---------- reflection of the boolean tests ---------- *)
Lemma qeqb_true a b : qeqb a b = true <-> a = b.
Proof.
  unfold qeqb. rewrite Qeq_bool_iff. split.
  - intros H. apply Qc_is_canon. exact H.
  - intros ->. reflexivity.
Qed.
Lemma qeqb_false a b : qeqb a b = false <-> a <> b.
Proof.
  split.
  - intros H E. apply qeqb_true in E. congruence.
  - intros H. destruct (qeqb a b) eqn:E; [apply qeqb_true in E; contradiction|reflexivity].
Qed.
Lemma qeqb_refl a : qeqb a a = true.
Proof. apply qeqb_true. reflexivity. Qed.

Lemma name_eqb_true a b : name_eqb a b = true <-> a = b.
Proof.
  unfold name_eqb. destruct a as [r1 b1], b as [r2 b2]; cbn. rewrite andb_true_iff, Z.eqb_eq, eqb_true_iff.
  split; [intros [-> ->]; reflexivity|intros H; injection H; auto].
Qed.
Lemma name_eqb_refl a : name_eqb a a = true.
Proof. apply name_eqb_true. reflexivity. Qed.
Lemma name_eqb_false a b : name_eqb a b = false <-> a <> b.
Proof.
  split.
  - intros H E. apply name_eqb_true in E. congruence.
  - intros H. destruct (name_eqb a b) eqn:E; [apply name_eqb_true in E; contradiction|reflexivity].
Qed.
Lemma name_FR r r' : name_eqb (F r) (R r') = false.
Proof. unfold name_eqb, F, R; cbn. apply andb_false_r. Qed.
Lemma name_RF r r' : name_eqb (R r) (F r') = false.
Proof. unfold name_eqb, F, R; cbn. apply andb_false_r. Qed.
Lemma name_FF r r' : name_eqb (F r) (F r') = (r =? r').
Proof. unfold name_eqb, F; cbn. apply andb_true_r. Qed.
Lemma name_RR r r' : name_eqb (R r) (R r') = (r =? r').
Proof. unfold name_eqb, R; cbn. apply andb_true_r. Qed.

Lemma upd_same {A} (f : Z -> A) k v : upd f k v k = v.
Proof. unfold upd. rewrite Z.eqb_refl. reflexivity. Qed.
Lemma upd_other {A} (f : Z -> A) k v k' : k' <> k -> upd f k v k' = f k'.
Proof. unfold upd. intros H. destruct (Z.eqb_spec k' k); [contradiction|reflexivity]. Qed.
Lemma updn_same {A} (f : name -> A) k v : updn f k v k = v.
Proof. unfold updn. rewrite name_eqb_refl. reflexivity. Qed.
Lemma updn_other {A} (f : name -> A) k v k' : k' <> k -> updn f k v k' = f k'.
Proof. unfold updn. intros H. apply name_eqb_false in H. rewrite H. reflexivity. Qed.

Lemma eb_eqb_true a b : eb_eqb a b = true <-> a = b.
Proof.
  destruct a, b; cbn; split; intros H; try discriminate; try reflexivity.
  - apply qeqb_true in H. congruence.
  - injection H as ->. apply qeqb_refl.
Qed.

(* ---------- the invariant ---------- *)
Record Inv (s : st) : Prop := mkInv {
  i_vars : forall r, vin s (F r) = rin s r /\ vin s (R r) = rin s r;
  i_vb : forall r, rin s r = true ->
         (vlb s (F r), vub s (F r), (vlb s (R r), vub s (R r))) = split_bounds (lb s r) (ub s r);
  i_vabs : forall n, vin s n = false -> vlb s n = NInf /\ vub s n = PInf;
  i_rows : forall m, cin s m = min s m;
  i_co : forall m r, co s m (F r) = (if rin s r && min s m then sto s r m else q0) /\
                     co s m (R r) = (if rin s r && min s m then (- sto s r m)%Qc else q0);
  i_oc : forall r, oc s (R r) = (- oc s (F r))%Qc /\ (rin s r = false -> oc s (F r) = q0);
  w_fwd : forall r m, rin s r = true -> sto s r m <> q0 -> min s m = true /\ back s m r = true;
  w_back : forall m r, back s m r = true -> min s m = true /\ rin s r = true /\ sto s r m <> q0;
  u_mets : forall r m, sto s r m <> q0 -> In m (mids s);
  u_rxns : forall m r, back s m r = true -> In r (rids s);
  u_rin : forall r, rin s r = true -> In r (rids s)
}.

(* the solver problem part alone (what C01 states), and the cross references alone (C02) *)
Definition LPSync (s : st) : Prop :=
  (forall r, vin s (F r) = rin s r /\ vin s (R r) = rin s r) /\
  (forall r, rin s r = true ->
     (vlb s (F r), vub s (F r), (vlb s (R r), vub s (R r))) = split_bounds (lb s r) (ub s r)) /\
  (forall m, cin s m = min s m) /\
  (forall m r, co s m (F r) = (if rin s r && min s m then sto s r m else q0) /\
               co s m (R r) = (if rin s r && min s m then (- sto s r m)%Qc else q0)) /\
  (forall r, oc s (R r) = (- oc s (F r))%Qc /\ (rin s r = false -> oc s (F r) = q0)).
Definition WF (s : st) : Prop :=
  (forall r m, rin s r = true -> sto s r m <> q0 -> min s m = true /\ back s m r = true) /\
  (forall m r, back s m r = true -> min s m = true /\ rin s r = true /\ sto s r m <> q0).

Lemma Inv_LPSync s : Inv s -> LPSync s.
Proof. intros [A B _ C D E _ _ _ _ _]. repeat split; try apply A; try apply C; try apply D; try apply E; auto. Qed.
Lemma Inv_WF s : Inv s -> WF s.
Proof. intros [_ _ _ _ _ _ A B _ _ _]. split; assumption. Qed.

Lemma init_Inv rs ms : Inv (init_u rs ms).
Proof.
  constructor; cbn; intros; try tauto; try discriminate; try (split; reflexivity); try contradiction;
    try (exfalso; match goal with H : _ <> _ |- _ => apply H; reflexivity end).
Qed.

(* the context stack plays no role in the invariant *)
Lemma Inv_ctx s c : Inv s -> Inv (set_ctx s c).
Proof. intros [A B B' C D E G H I J K]. constructor; cbn; assumption. Qed.
Lemma Inv_record s u : Inv s -> Inv (record u s).
Proof. intros H. unfold record. destruct (ctx s); [exact H|apply Inv_ctx, H]. Qed.
