(* Every operation of the kernel (other than leaving a context) preserves the invariant. *)
From Coq Require Import ZArith QArith Qcanon List Bool Lia.
From Cobra.Core Require Import Model Inv.
Import ListNotations.
Open Scope Z_scope.

Ltac names := unfold updn; rewrite ?name_FF, ?name_RR, ?name_FR, ?name_RF.
Ltac zcase a b := destruct (Z.eqb_spec a b); subst.

Lemma raw_set_bounds_Inv s r l u : Inv s -> Inv (raw_set_bounds r l u s).
Proof.
  intros [A B B' C D E G H I J K]. unfold raw_set_bounds, update_variable_bounds. cbn [rin set_lbub].
  destruct (rin s r) eqn:Er.
  - cbn [lb ub set_lbub]. rewrite !upd_same.
    destruct (split_bounds l u) as [[fl fu] [rl ru]] eqn:Es.
    constructor; cbn; try assumption.
    + intros r0 H0. names. zcase r0 r.
      * unfold upd. rewrite Z.eqb_refl. rewrite Es. reflexivity.
      * rewrite !upd_other by assumption. apply B. exact H0.
    + intros n Hn. unfold updn.
      destruct (name_eqb n (R r)) eqn:E1; [apply name_eqb_true in E1; subst; destruct (A r); congruence|].
      destruct (name_eqb n (F r)) eqn:E2; [apply name_eqb_true in E2; subst; destruct (A r); congruence|].
      apply B'. exact Hn.
  - constructor; cbn; try assumption.
    intros r0 H0. zcase r0 r; [congruence|]. rewrite !upd_other by assumption. apply B. exact H0.
Qed.

Lemma set_bounds_Inv s r l u : Inv s -> Inv (fst (set_bounds r l u s)).
Proof.
  intros HI. unfold set_bounds.
  destruct (rctx s r && eb_eqb (lb s r) l && eb_eqb (ub s r) u); [exact HI|].
  set (s1 := if rctx s r then record (USetBounds r (lb s r) (ub s r)) s else s).
  assert (Inv s1) by (unfold s1; destruct (rctx s r); [apply Inv_record|]; exact HI).
  destruct (eb_gt l u); cbn; [assumption|apply raw_set_bounds_Inv; assumption].
Qed.
Lemma set_lb_Inv s r l : Inv s -> Inv (fst (set_lb r l s)).
Proof.
  intros HI. unfold set_lb.
  destruct (rctx s r && eb_eqb (lb s r) l); [exact HI|].
  set (s1 := if rctx s r then record (USetLb r (lb s r)) s else s).
  assert (Inv s1) by (unfold s1; destruct (rctx s r); [apply Inv_record|]; exact HI).
  destruct (eb_gt l (ub s r)); cbn; [assumption|apply raw_set_bounds_Inv; assumption].
Qed.
Lemma set_ub_Inv s r u : Inv s -> Inv (fst (set_ub r u s)).
Proof.
  intros HI. unfold set_ub.
  destruct (rctx s r && eb_eqb (ub s r) u); [exact HI|].
  set (s1 := if rctx s r then record (USetUb r (ub s r)) s else s).
  assert (Inv s1) by (unfold s1; destruct (rctx s r); [apply Inv_record|]; exact HI).
  destruct (eb_gt (lb s r) u); cbn; [assumption|apply raw_set_bounds_Inv; assumption].
Qed.

Lemma set_odir_Inv s d : Inv s -> Inv (set_odir s d).
Proof. intros [A B B' C D E G H I J K]. constructor; cbn; assumption. Qed.
Lemma set_dir_Inv s d : Inv s -> Inv (set_dir d s).
Proof.
  intros HI. unfold set_dir. destruct (in_ctx s && Bool.eqb (odir s) d); [exact HI|].
  apply set_odir_Inv. destruct (in_ctx s); [apply Inv_record|]; exact HI.
Qed.

Lemma opp_q0 : (- q0)%Qc = q0.
Proof. apply Qc_is_canon. reflexivity. Qed.

Lemma set_oc_zero_Inv s : Inv s -> Inv (set_oc s (fun _ => q0)).
Proof.
  intros [A B B' C D E G H I J K]. constructor; cbn; try assumption.
  intros r. split; [symmetry; apply opp_q0|reflexivity].
Qed.

Lemma set_obj_loop_Inv l : forall s, Inv s -> Inv (fst (set_obj_loop l s)).
Proof.
  induction l as [|[r c] l IH]; intros s HI; cbn [set_obj_loop]; [exact HI|].
  destruct (rin s r) eqn:Er; [|exact HI].
  apply IH. destruct HI as [A B B' C D E G H I J K]. constructor; cbn; try assumption.
  intros r0. names. destruct (Z.eqb_spec r0 r) as [->|Hne].
  - split; [reflexivity|congruence].
  - apply E.
Qed.

Lemma set_obj_Inv l a s : Inv s -> Inv (fst (set_obj l a s)).
Proof.
  intros HI. unfold set_obj. apply set_obj_loop_Inv.
  set (s0 := if in_ctx s then record (UObjective (oc s) (odir s)) s else s).
  assert (Inv s0) by (unfold s0; destruct (in_ctx s); [apply Inv_record|]; exact HI).
  destruct a; [assumption|apply set_oc_zero_Inv; assumption].
Qed.

(* ---------- helpers about lists ---------- *)
Lemma memz_In k l : memz k l = true <-> In k l.
Proof.
  unfold memz. rewrite existsb_exists. split.
  - intros [x [Hx E]]. apply Z.eqb_eq in E. subst. exact Hx.
  - intros H. exists k. split; [exact H|apply Z.eqb_refl].
Qed.
Lemma assoc_None m l : assoc_q m l = None <-> memz m (touched l) = false.
Proof.
  induction l as [|[a c] l IH]; cbn; [tauto|].
  rewrite (Z.eqb_sym m a). destruct (a =? m); cbn; [split; discriminate|exact IH].
Qed.
Lemma isz_true q : isz q = true <-> q = q0.
Proof. apply qeqb_true. Qed.
Lemma isz_false q : isz q = false <-> q <> q0.
Proof. apply qeqb_false. Qed.
Lemma Inv_record_all us : forall s, Inv s -> Inv (record_all us s).
Proof. induction us as [|u us IH]; intros s H; cbn; [exact H|]. apply IH, Inv_record, H. Qed.

Lemma st_after_untouched s r l c m : memz m (touched l) = false -> st_after s r l c m = sto s r m.
Proof. intros H. unfold st_after. apply assoc_None in H. rewrite H. reflexivity. Qed.

Lemma news_of_spec s r l m :
  memz m (news_of s r l) = true <-> memz m (touched l) = true /\ min s m = false /\ sto s r m = q0.
Proof.
  unfold news_of. rewrite memz_In, filter_In, <- memz_In, andb_true_iff, negb_true_iff, isz_true. tauto.
Qed.

(* ---------- the content of a state (everything but the context stack) ---------- *)
Definition content (s : st) : st := set_ctx s [].
Lemma content_record u s : content (record u s) = content s.
Proof. unfold record. destruct (ctx s); reflexivity. Qed.
Lemma content_record_all us : forall s, content (record_all us s) = content s.
Proof. induction us as [|u us IH]; intros s; cbn; [reflexivity|]. rewrite IH. apply content_record. Qed.
Lemma Inv_content s : Inv (content s) -> Inv s.
Proof. intros H. apply (Inv_ctx _ (ctx s)) in H. destruct s; exact H. Qed.
Lemma content_Inv s : Inv s -> Inv (content s).
Proof. apply Inv_ctx. Qed.

Ltac conts := apply Inv_content; rewrite ?content_record, ?content_record_all.

(* fields other than the context stack are not touched by recording *)
Lemma rin_record u s : rin (record u s) = rin s.
Proof. unfold record. destruct (ctx s); reflexivity. Qed.
Lemma rin_record_all us : forall s, rin (record_all us s) = rin s.
Proof. induction us as [|u us IH]; intros s; cbn; [reflexivity|]. rewrite IH. apply rin_record. Qed.
Lemma lb_record u s : lb (record u s) = lb s.
Proof. unfold record. destruct (ctx s); reflexivity. Qed.
Lemma lb_record_all us : forall s, lb (record_all us s) = lb s.
Proof. induction us as [|u us IH]; intros s; cbn; [reflexivity|]. rewrite IH. apply lb_record. Qed.
Lemma ub_record u s : ub (record u s) = ub s.
Proof. unfold record. destruct (ctx s); reflexivity. Qed.
Lemma ub_record_all us : forall s, ub (record_all us s) = ub s.
Proof. induction us as [|u us IH]; intros s; cbn; [reflexivity|]. rewrite IH. apply ub_record. Qed.
Lemma sto_record u s : sto (record u s) = sto s.
Proof. unfold record. destruct (ctx s); reflexivity. Qed.
Lemma sto_record_all us : forall s, sto (record_all us s) = sto s.
Proof. induction us as [|u us IH]; intros s; cbn; [reflexivity|]. rewrite IH. apply sto_record. Qed.
Lemma min_record u s : min (record u s) = min s.
Proof. unfold record. destruct (ctx s); reflexivity. Qed.
Lemma min_record_all us : forall s, min (record_all us s) = min s.
Proof. induction us as [|u us IH]; intros s; cbn; [reflexivity|]. rewrite IH. apply min_record. Qed.
Lemma back_record u s : back (record u s) = back s.
Proof. unfold record. destruct (ctx s); reflexivity. Qed.
Lemma back_record_all us : forall s, back (record_all us s) = back s.
Proof. induction us as [|u us IH]; intros s; cbn; [reflexivity|]. rewrite IH. apply back_record. Qed.
Lemma vin_record u s : vin (record u s) = vin s.
Proof. unfold record. destruct (ctx s); reflexivity. Qed.
Lemma vin_record_all us : forall s, vin (record_all us s) = vin s.
Proof. induction us as [|u us IH]; intros s; cbn; [reflexivity|]. rewrite IH. apply vin_record. Qed.
Lemma vlb_record u s : vlb (record u s) = vlb s.
Proof. unfold record. destruct (ctx s); reflexivity. Qed.
Lemma vlb_record_all us : forall s, vlb (record_all us s) = vlb s.
Proof. induction us as [|u us IH]; intros s; cbn; [reflexivity|]. rewrite IH. apply vlb_record. Qed.
Lemma vub_record u s : vub (record u s) = vub s.
Proof. unfold record. destruct (ctx s); reflexivity. Qed.
Lemma vub_record_all us : forall s, vub (record_all us s) = vub s.
Proof. induction us as [|u us IH]; intros s; cbn; [reflexivity|]. rewrite IH. apply vub_record. Qed.
Lemma cin_record u s : cin (record u s) = cin s.
Proof. unfold record. destruct (ctx s); reflexivity. Qed.
Lemma cin_record_all us : forall s, cin (record_all us s) = cin s.
Proof. induction us as [|u us IH]; intros s; cbn; [reflexivity|]. rewrite IH. apply cin_record. Qed.
Lemma co_record u s : co (record u s) = co s.
Proof. unfold record. destruct (ctx s); reflexivity. Qed.
Lemma co_record_all us : forall s, co (record_all us s) = co s.
Proof. induction us as [|u us IH]; intros s; cbn; [reflexivity|]. rewrite IH. apply co_record. Qed.
Lemma oc_record u s : oc (record u s) = oc s.
Proof. unfold record. destruct (ctx s); reflexivity. Qed.
Lemma oc_record_all us : forall s, oc (record_all us s) = oc s.
Proof. induction us as [|u us IH]; intros s; cbn; [reflexivity|]. rewrite IH. apply oc_record. Qed.
Lemma odir_record u s : odir (record u s) = odir s.
Proof. unfold record. destruct (ctx s); reflexivity. Qed.
Lemma odir_record_all us : forall s, odir (record_all us s) = odir s.
Proof. induction us as [|u us IH]; intros s; cbn; [reflexivity|]. rewrite IH. apply odir_record. Qed.
Lemma rids_record u s : rids (record u s) = rids s.
Proof. unfold record. destruct (ctx s); reflexivity. Qed.
Lemma rids_record_all us : forall s, rids (record_all us s) = rids s.
Proof. induction us as [|u us IH]; intros s; cbn; [reflexivity|]. rewrite IH. apply rids_record. Qed.
Lemma mids_record u s : mids (record u s) = mids s.
Proof. unfold record. destruct (ctx s); reflexivity. Qed.
Lemma mids_record_all us : forall s, mids (record_all us s) = mids s.
Proof. induction us as [|u us IH]; intros s; cbn; [reflexivity|]. rewrite IH. apply mids_record. Qed.
Ltac recs := rewrite ?rin_record, ?rin_record_all, ?lb_record, ?lb_record_all, ?ub_record, ?ub_record_all, ?sto_record, ?sto_record_all, ?min_record, ?min_record_all, ?back_record, ?back_record_all, ?vin_record, ?vin_record_all, ?vlb_record, ?vlb_record_all, ?vub_record, ?vub_record_all, ?cin_record, ?cin_record_all, ?co_record, ?co_record_all, ?oc_record, ?oc_record_all, ?odir_record, ?odir_record_all, ?rids_record, ?rids_record_all, ?mids_record, ?mids_record_all.
Ltac recs_in H := rewrite ?rin_record, ?rin_record_all, ?lb_record, ?lb_record_all, ?ub_record, ?ub_record_all, ?sto_record, ?sto_record_all, ?min_record, ?min_record_all, ?back_record, ?back_record_all, ?vin_record, ?vin_record_all, ?vlb_record, ?vlb_record_all, ?vub_record, ?vub_record_all, ?cin_record, ?cin_record_all, ?co_record, ?co_record_all, ?oc_record, ?oc_record_all, ?odir_record, ?odir_record_all, ?rids_record, ?rids_record_all, ?mids_record, ?mids_record_all in H.

Lemma if_same {A} (b : bool) (x : A) : (if b then x else x) = x.
Proof. destruct b; reflexivity. Qed.

Lemma add_st_Inv s r l combine rev :
  Inv s -> (forall m, In m (touched l) -> In m (mids s)) -> Inv (fst (add_st r l combine rev s)).
Proof.
  intros HI Hu. unfold add_st.
  set (old := sto s r). set (new := st_after s r l combine).
  match goal with |- Inv (fst (if ?c then _ else _)) => set (cnd := c) end.
  assert (H4 : forall x, Inv x -> Inv (fst (if cnd then if combine then (record (USubSt r l) x, Ok)
             else (record (UResetSt r (map (fun mc => (fst mc, old (fst mc))) l)) x, Ok) else (x, Ok)))).
  { intros x Hx. destruct cnd; [destruct combine|]; cbn; try apply Inv_record; exact Hx. }
  apply H4. clear H4 cnd.
  assert (NU : forall m, memz m (touched l) = false -> new m = sto s r m)
    by (intros; apply st_after_untouched; assumption).
  destruct HI as [A B B' C D E G H I J K].
  destruct (rin s r) eqn:Er.
  - conts. unfold model_add_mets. recs. cbn. recs. cbn.
    unfold content, set_ctx, set_back, set_co, set_cin, set_min, set_sto. cbn. recs. cbn.
    assert (NW : forall m, memz m (news_of s r l) = true -> min s m = false /\ old m = q0 /\ memz m (touched l) = true)
      by (intros m Hm; apply news_of_spec in Hm; tauto).
    constructor; cbn.
    + exact A.
    + exact B.
    + exact B'.
    + intros m. rewrite C. reflexivity.
    + intros m r0. rewrite C. names.
      destruct (Z.eqb_spec r0 r) as [E0|Hne]; [subst r0|].
      * rewrite Er, upd_same. cbn [andb].
        destruct ((min s m || memz m (news_of s r l)) && (negb (isz (new m)) || memz m (touched l))) eqn:Ec.
        -- apply andb_true_iff in Ec as [Ec1 _]. rewrite Ec1. split; reflexivity.
        -- destruct (D m r) as [D1 D2]. rewrite Er in D1, D2. cbn [andb] in D1, D2. rewrite D1, D2.
           apply andb_false_iff in Ec as [Ec|Ec].
           ++ rewrite Ec. apply orb_false_iff in Ec as [Ec1 _]. rewrite Ec1. split; reflexivity.
           ++ apply orb_false_iff in Ec as [Ez Et]. apply negb_false_iff, isz_true in Ez.
              rewrite Ez. rewrite (NU m Et) in Ez. rewrite Ez, opp_q0, !if_same. split; reflexivity.
      * rewrite upd_other by exact Hne. rewrite !if_same.
        destruct (D m r0) as [D1 D2]. rewrite D1, D2.
        destruct (rin s r0) eqn:Er0; cbn [andb]; [|split; reflexivity].
        destruct (min s m) eqn:Em; cbn [orb]; [split; reflexivity|].
        destruct (memz m (news_of s r l)) eqn:En; [|split; reflexivity].
        destruct (isz (sto s r0 m)) eqn:Ez.
        -- apply isz_true in Ez. rewrite Ez, opp_q0. split; reflexivity.
        -- apply isz_false in Ez. destruct (G r0 m Er0 Ez) as [X _]. congruence.
    + exact E.
    + (* forward references *)
      intros r0 m Hr0 Hs.
      destruct (Z.eqb_spec r0 r) as [E0|Hne]; [subst r0|].
      * rewrite upd_same in Hs. cbn [andb].
        destruct (memz m (touched l)) eqn:Et.
        -- assert (Hz : isz (new m) = false) by (apply isz_false; exact Hs). rewrite Hz.
           destruct (isz (old m)) eqn:Eo.
           ++ split; [|reflexivity]. destruct (min s m) eqn:Em; [reflexivity|]. cbn [orb].
              apply news_of_spec. apply isz_true in Eo. tauto.
           ++ apply isz_false in Eo. destruct (G r m Er Eo) as [X Y]. rewrite X. cbn [orb]. tauto.
        -- rewrite (NU m Et) in Hs. destruct (G r m Er Hs) as [X Y]. rewrite X. cbn [orb]. tauto.
      * rewrite upd_other in Hs by exact Hne. destruct (G r0 m Hr0 Hs) as [X Y]. rewrite X. cbn [orb].
        cbn [andb]. tauto.
    + (* back references *)
      intros m r0 Hb.
      destruct (Z.eqb_spec r0 r) as [E0|Hne]; [subst r0|].
      * cbn [andb] in Hb. rewrite upd_same.
        destruct (memz m (touched l)) eqn:Et.
        -- destruct (isz (new m)) eqn:Ez; [discriminate|]. apply isz_false in Ez.
           split; [|tauto].
           destruct (isz (old m)) eqn:Eo.
           ++ destruct (min s m) eqn:Em; [reflexivity|]. cbn [orb]. apply news_of_spec. apply isz_true in Eo. tauto.
           ++ destruct (H m r Hb) as [X _]. rewrite X. reflexivity.
        -- destruct (H m r Hb) as [X [Y Z]]. rewrite X. cbn [orb]. rewrite (NU m Et). tauto.
      * cbn [andb] in Hb. rewrite upd_other by exact Hne. destruct (H m r0 Hb) as [X [Y Z]]. rewrite X. tauto.
    + (* universe of metabolites *)
      intros r0 m Hs. destruct (Z.eqb_spec r0 r) as [E0|Hne]; [subst r0|].
      * rewrite upd_same in Hs. destruct (memz m (touched l)) eqn:Et.
        -- apply Hu. apply memz_In. exact Et.
        -- rewrite (NU m Et) in Hs. apply (I r m Hs).
      * rewrite upd_other in Hs by exact Hne. apply (I r0 m Hs).
    + intros m r0 Hb. destruct (Z.eqb_spec r0 r) as [E0|Hne]; [subst r0|]; cbn [andb] in Hb.
      * destruct (memz m (touched l)) eqn:Et.
        -- destruct (isz (new m)); [discriminate|]. destruct (isz (old m)) eqn:Eo.
           ++ apply (K r Er).
           ++ apply (J m r Hb).
        -- apply (J m r Hb).
      * apply (J m r0 Hb).
    + exact K.
  - constructor; cbn; try assumption.
    + intros m r0. destruct (Z.eqb_spec r0 r) as [E0|Hne]; [subst r0|].
      * destruct (D m r) as [D1 D2]. rewrite Er in *. cbn [andb] in *. tauto.
      * rewrite upd_other by exact Hne. apply D.
    + intros r0 m Hr0 Hs. destruct (Z.eqb_spec r0 r) as [E0|Hne]; [subst r0; congruence|].
      rewrite upd_other in Hs by exact Hne. apply (G r0 m Hr0 Hs).
    + intros m r0 Hb. destruct (H m r0 Hb) as [X [Y Z]].
      destruct (Z.eqb_spec r0 r) as [E0|Hne]; [subst r0; congruence|].
      rewrite upd_other by exact Hne. tauto.
    + intros r0 m Hs. destruct (Z.eqb_spec r0 r) as [E0|Hne]; [subst r0|].
      * rewrite upd_same in Hs. destruct (memz m (touched l)) eqn:Et.
        -- apply Hu. apply memz_In. exact Et.
        -- rewrite (NU m Et) in Hs. apply (I r m Hs).
      * rewrite upd_other in Hs by exact Hne. apply (I r0 m Hs).
Qed.

Ltac expl := unfold content, set_ctx, set_back, set_co, set_cin, set_min, set_sto, set_rin, set_vin, set_vb, set_oc,
                    set_lbub, set_odir, set_ids; cbn; recs; cbn.

Lemma fold_assoc_nonzero (st0 : list (Z * Qc)) m : forall acc,
  fold_left (fun a mc => if fst mc =? m then snd mc else a) st0 acc <> acc -> In m (map fst st0).
Proof.
  induction st0 as [|[a c] l IH]; intros acc H; cbn in *; [congruence|].
  destruct (Z.eqb_spec a m) as [->|Hne].
  - left. reflexivity.
  - right. apply (IH acc). exact H.
Qed.

Lemma new_rxn_Inv s r l u st0 :
  Inv s -> (forall m, In m (map fst st0) -> In m (mids s)) -> Inv (fst (step s (NewRxn r l u st0))).
Proof.
  intros HI Hm. cbn [step]. destruct (rin s r) eqn:Er0; [exact HI|]. cbn [fst].
  destruct HI as [A B B' C D E G H I J K].
  expl. constructor; cbn; try assumption.
  - intros r0 Hr0. assert (r0 <> r) by congruence. rewrite !upd_other by assumption. apply B. exact Hr0.
  - intros m r0. destruct (Z.eqb_spec r0 r) as [E0|Hne]; [subst r0|].
    + destruct (D m r) as [D1 D2]. rewrite Er0 in *. cbn [andb] in *. tauto.
    + rewrite upd_other by exact Hne. apply D.
  - intros r0 m Hr0 Hs. assert (r0 <> r) by congruence. rewrite upd_other in Hs by assumption. apply (G r0 m Hr0 Hs).
  - intros m r0 Hb. destruct (H m r0 Hb) as [X [Y Z]]. assert (r0 <> r) by congruence.
    rewrite upd_other by assumption. tauto.
  - intros r0 m Hs. destruct (Z.eqb_spec r0 r) as [E0|Hne]; [subst r0|].
    + rewrite upd_same in Hs. apply Hm. apply (fold_assoc_nonzero st0 m q0). exact Hs.
    + rewrite upd_other in Hs by exact Hne. apply (I r0 m Hs).
Qed.

Lemma add_rxn_Inv s r : Inv s -> In r (rids s) -> Inv (add_rxn r s).
Proof.
  intros HI Hr. unfold add_rxn. destruct (rin s r) eqn:Er; [exact HI|].
  conts. unfold add_rxn_content.
  destruct (split_bounds (lb s r) (ub s r)) as [[fl fu] [rl ru]] eqn:Es.
  unfold content, set_ctx. cbn.
  destruct HI as [A B B' C D E G H I J K].
  assert (Hback : forall m, back s m r = false).
  { intros m. destruct (back s m r) eqn:Eb; [|reflexivity]. destruct (H m r Eb) as [_ [X _]]. congruence. }
  constructor; cbn.
  - intros r0. cbn. destruct (Z.eqb_spec r0 r) as [E0|Hne]; [subst r0; rewrite upd_same; tauto|].
    rewrite upd_other by exact Hne. apply A.
  - intros r0 Hr0. names. destruct (Z.eqb_spec r0 r) as [E0|Hne]; [subst r0; rewrite Es; reflexivity|].
    rewrite upd_other in Hr0 by exact Hne. apply B. exact Hr0.
  - intros n Hn. destruct n as [rn bn]. cbn [fst] in Hn. unfold name_eqb, F, R. cbn [fst snd].
    destruct (Z.eqb_spec rn r) as [E0|Hne]; [discriminate|]. cbn [andb]. apply B'. exact Hn.
  - intros m. rewrite C. reflexivity.
  - intros m r0. names. destruct (Z.eqb_spec r0 r) as [E0|Hne]; [subst r0|].
    + rewrite upd_same. cbn [andb]. destruct (D m r) as [D1 D2]. rewrite Er in D1, D2. cbn [andb] in D1, D2.
      destruct (isz (sto s r m)) eqn:Ez; cbn [negb andb orb].
      * apply isz_true in Ez. rewrite D1, D2, Ez, opp_q0, !if_same. tauto.
      * rewrite orb_true_r. tauto.
    + rewrite upd_other by exact Hne. cbn [andb]. destruct (D m r0) as [D1 D2]. rewrite D1, D2.
      destruct (rin s r0) eqn:Er0; cbn [andb]; [|tauto].
      destruct (min s m) eqn:Em; cbn [orb]; [tauto|].
      destruct (isz (sto s r m)); cbn [negb]; [tauto|].
      destruct (isz (sto s r0 m)) eqn:Ez0.
      * apply isz_true in Ez0. rewrite Ez0, opp_q0. tauto.
      * apply isz_false in Ez0. destruct (G r0 m Er0 Ez0). congruence.
  - intros r0. destruct (E r0) as [E1 E2]. split; [exact E1|].
    intros Hf. apply E2. destruct (Z.eqb_spec r0 r) as [E0|Hne]; [subst r0; rewrite upd_same in Hf; discriminate|].
    rewrite upd_other in Hf by exact Hne. exact Hf.
  - intros r0 m Hr0 Hs. destruct (Z.eqb_spec r0 r) as [E0|Hne]; [subst r0|].
    + assert (Ez : isz (sto s r m) = false) by (apply isz_false; exact Hs). rewrite Ez. cbn [negb].
      rewrite orb_true_r. split; [reflexivity|]. destruct (min s m); cbn; reflexivity.
    + rewrite upd_other in Hr0 by exact Hne. destruct (G r0 m Hr0 Hs) as [X Y]. rewrite X. cbn [orb].
      split; [reflexivity|]. destruct (isz (sto s r m)); cbn [negb]; [exact Y|]. rewrite Y. cbn. reflexivity.
  - intros m r0 Hb. destruct (isz (sto s r m)) eqn:Ez; cbn [negb] in *.
    + destruct (H m r0 Hb) as [X [Y Z]]. rewrite X. cbn [orb]. split; [reflexivity|]. split; [|exact Z].
      destruct (Z.eqb_spec r0 r) as [E0|Hne]; [subst r0; apply upd_same|rewrite upd_other by exact Hne; exact Y].
    + rewrite orb_true_r. split; [reflexivity|].
      destruct (Z.eqb_spec r0 r) as [E0|Hne]; [subst r0|].
      * rewrite upd_same. split; [reflexivity|]. apply isz_false. exact Ez.
      * rewrite upd_other by exact Hne. destruct (min s m); cbn [orb] in Hb; [|discriminate].
        destruct (H m r0 Hb) as [_ [Y Z]]. tauto.
  - exact I.
  - intros m r0 Hb. destruct (Z.eqb_spec r0 r) as [E0|Hne]; [subst r0; exact Hr|].
    destruct (isz (sto s r m)); cbn [negb] in Hb; [apply (J m r0 Hb)|].
    destruct (min s m); cbn [orb] in Hb; [apply (J m r0 Hb)|discriminate].
  - intros r0 Hr0. destruct (Z.eqb_spec r0 r) as [E0|Hne]; [subst r0; exact Hr|].
    rewrite upd_other in Hr0 by exact Hne. apply (K r0 Hr0).
Qed.

(* Model.add_metabolites([Metabolite(m)]) with a fresh object *)
Lemma add_met_Inv s m : Inv s -> Inv (fst (step s (AddMet m))).
Proof.
  intros H0. cbn [step]. set (s0 := s) in *. clearbody s0.
  destruct (min s0 m) eqn:Em; [exact H0|]. cbn [fst].
  conts. unfold model_add_mets. expl.
  destruct H0 as [A B B' C D E G H I J K].
  assert (Hz : forall r, rin s0 r = true -> sto s0 r m = q0).
  { intros r Hr. destruct (isz (sto s0 r m)) eqn:Ez; [apply isz_true; exact Ez|].
    apply isz_false in Ez. destruct (G r m Hr Ez). congruence. }
  constructor; cbn; try assumption.
  - intros m0. rewrite C. reflexivity.
  - intros m0 r. destruct (D m0 r) as [D1 D2]. rewrite D1, D2.
    destruct (Z.eqb_spec m0 m) as [E0|Hne]; [subst m0|].
    + rewrite Em. cbn [orb]. rewrite andb_false_r, andb_true_r.
      destruct (rin s0 r) eqn:Er; [|tauto]. rewrite (Hz r Er), opp_q0. tauto.
    + rewrite orb_false_r. tauto.
  - intros r m0 Hr Hs. destruct (G r m0 Hr Hs) as [X Y]. rewrite X. cbn [orb]. split; [reflexivity|].
    destruct (Z.eqb_spec m0 m) as [E0|Hne]; [subst m0; congruence|]. rewrite upd_other by exact Hne. exact Y.
  - intros m0 r Hb. destruct (Z.eqb_spec m0 m) as [E0|Hne]; [subst m0; rewrite upd_same in Hb; discriminate|].
    rewrite upd_other in Hb by exact Hne. destruct (H m0 r Hb) as [X [Y Z]]. rewrite X. tauto.
  - intros m0 r Hb. destruct (Z.eqb_spec m0 m) as [E0|Hne]; [subst m0; rewrite upd_same in Hb; discriminate|].
    rewrite upd_other in Hb by exact Hne. apply (J m0 r Hb).
Qed.

Lemma remove_met_nd_Inv s m : Inv s -> Inv (remove_met_nd m s).
Proof.
  intros HI. unfold remove_met_nd. destruct (min s m) eqn:Em; cbn [negb]; [|exact HI].
  conts. unfold remove_met_nd_content, content, set_ctx. cbn.
  destruct HI as [A B B' C D E G H I J K].
  constructor; cbn; try assumption.
  - intros m0. unfold upd. destruct (m0 =? m); [reflexivity|apply C].
  - intros m0 r. destruct (Z.eqb_spec m0 m) as [E0|Hne]; [subst m0|].
    + rewrite !upd_same. rewrite andb_false_r. tauto.
    + rewrite !upd_other by exact Hne. cbn [andb]. apply D.
  - intros r m0 Hr Hs. destruct (Z.eqb_spec m0 m) as [E0|Hne]; [subst m0|].
    + cbn [andb] in Hs. destruct (back s m r) eqn:Eb; [congruence|].
      destruct (G r m Hr Hs). congruence.
    + cbn [andb] in Hs. rewrite !upd_other by exact Hne. apply (G r m0 Hr Hs).
  - intros m0 r Hb. destruct (Z.eqb_spec m0 m) as [E0|Hne]; [subst m0; rewrite upd_same in Hb; discriminate|].
    rewrite upd_other in Hb by exact Hne. rewrite upd_other by exact Hne. cbn [andb]. apply (H m0 r Hb).
  - intros r m0 Hs. apply (I r m0). destruct ((m0 =? m) && back s m r); [congruence|exact Hs].
  - intros m0 r Hb. destruct (Z.eqb_spec m0 m) as [E0|Hne]; [subst m0; rewrite upd_same in Hb; discriminate|].
    rewrite upd_other in Hb by exact Hne. apply (J m0 r Hb).
Qed.

Lemma orphaned_only s r m : (forall m r, back s m r = true -> In r (rids s)) ->
  orphaned s r m = true -> forall r', back s m r' = true -> r' = r.
Proof.
  intros J Ho r' Hb. unfold orphaned in Ho. rewrite !andb_true_iff in Ho. destruct Ho as [_ Hall].
  rewrite forallb_forall in Hall. specialize (Hall r' (J m r' Hb)).
  apply orb_true_iff in Hall as [E|E]; [apply Z.eqb_eq; exact E|]. rewrite Hb in E. discriminate.
Qed.

Lemma remove_rxn_Inv s r o : Inv s -> Inv (remove_rxn r o s).
Proof.
  intros HI. unfold remove_rxn. destruct (rin s r) eqn:Er; cbn [negb]; [|exact HI].
  conts. unfold remove_rxn_content, content, set_ctx. cbn.
  destruct HI as [A B B' C D E G H I J K].
  set (gone := fun m => o && orphaned s r m).
  assert (Hg : forall m r', gone m = true -> back s m r' = true -> r' = r).
  { intros m r' Hgm Hb. unfold gone in Hgm. apply andb_true_iff in Hgm as [_ Ho].
    apply (orphaned_only s r m J Ho r' Hb). }
  constructor; cbn.
  - intros r0. destruct (Z.eqb_spec r0 r) as [E0|Hne]; [subst r0; rewrite upd_same; tauto|].
    rewrite upd_other by exact Hne. apply A.
  - intros r0 Hr0. destruct (Z.eqb_spec r0 r) as [E0|Hne]; [subst r0; rewrite upd_same in Hr0; discriminate|].
    cbn [fst F R]. destruct (Z.eqb_spec r0 r); [contradiction|].
    rewrite upd_other in Hr0 by exact Hne. apply B. exact Hr0.
  - intros n Hn. destruct (fst n =? r); [tauto|apply B'; exact Hn].
  - intros m. rewrite C. reflexivity.
  - intros m r0. destruct (Z.eqb_spec r0 r) as [E0|Hne]; [subst r0; rewrite upd_same; cbn; tauto|].
    rewrite upd_other by exact Hne. cbn [orb]. fold (gone m).
    destruct (gone m) eqn:Egm; cbn [negb]; [rewrite andb_false_r, andb_false_r; tauto|].
    rewrite andb_true_r. apply D.
  - intros r0. destruct (Z.eqb_spec r0 r) as [E0|Hne]; [subst r0; rewrite upd_same; rewrite opp_q0; tauto|].
    rewrite upd_other by exact Hne. apply E.
  - intros r0 m Hr0 Hs. destruct (Z.eqb_spec r0 r) as [E0|Hne]; [subst r0; rewrite upd_same in Hr0; discriminate|].
    rewrite upd_other in Hr0 by exact Hne. destruct (G r0 m Hr0 Hs) as [X Y]. cbn [andb]. fold (gone m).
    split; [|exact Y]. rewrite X. cbn [andb].
    destruct (gone m) eqn:Egm; [|reflexivity]. exfalso. apply Hne. apply (Hg m r0 Egm Y).
  - intros m r0 Hb. destruct (Z.eqb_spec r0 r) as [E0|Hne]; [subst r0|].
    + cbn [andb] in Hb. destruct (isz (sto s r m)) eqn:Ez; cbn [negb] in Hb; [|discriminate].
      destruct (H m r Hb) as [_ [_ Z]]. apply isz_true in Ez. contradiction.
    + cbn [andb] in Hb. destruct (H m r0 Hb) as [X [Y Z]]. rewrite upd_other by exact Hne. fold (gone m).
      split; [|tauto]. rewrite X. cbn [andb]. destruct (gone m) eqn:Egm; [|reflexivity].
      exfalso. apply Hne. apply (Hg m r0 Egm Hb).
  - exact I.
  - intros m r0 Hb. apply (J m r0). destruct ((r0 =? r) && negb (isz (sto s r m))); [discriminate|exact Hb].
  - intros r0 Hr0. destruct (Z.eqb_spec r0 r) as [E0|Hne]; [subst r0; rewrite upd_same in Hr0; discriminate|].
    rewrite upd_other in Hr0 by exact Hne. apply (K r0 Hr0).
Qed.

Lemma remove_met_d_Inv s m : Inv s -> Inv (remove_met_d m s).
Proof.
  intros HI. unfold remove_met_d. destruct (min s m) eqn:Em; cbn [negb]; [|exact HI].
  conts. unfold remove_met_d_content, content, set_ctx. cbn.
  destruct HI as [A B B' C D E G H I J K].
  set (dead := fun r => back s m r && rin s r).
  constructor; cbn.
  - intros r0. destruct (A r0) as [A1 A2]. rewrite A1, A2. tauto.
  - intros r0 Hr0. apply andb_true_iff in Hr0 as [Hr0 Hd]. apply negb_true_iff in Hd. cbn [fst F R].
    rewrite Hd. apply B. exact Hr0.
  - intros n Hn. destruct (back s m (fst n) && rin s (fst n)) eqn:Ed; [split; reflexivity|]. apply B'.
    cbn [negb] in Hn. rewrite andb_true_r in Hn. exact Hn.
  - intros m0. unfold upd. destruct (m0 =? m); [reflexivity|apply C].
  - intros m0 r0. fold (dead r0). destruct (Z.eqb_spec m0 m) as [E0|Hne]; [subst m0|].
    + rewrite upd_same. cbn [orb]. rewrite andb_false_r. tauto.
    + rewrite upd_other by exact Hne. cbn [orb].
      destruct (dead r0) eqn:Ed; cbn [negb]; [rewrite andb_false_r; cbn [andb]; tauto|].
      rewrite andb_true_r. apply D.
  - intros r0. fold (dead r0). destruct (dead r0) eqn:Ed; cbn [negb].
    + rewrite opp_q0. tauto.
    + rewrite andb_true_r. apply E.
  - intros r0 m0 Hr0 Hs. fold (dead r0) in *. apply andb_true_iff in Hr0 as [Hr0 Hd]. apply negb_true_iff in Hd.
    rewrite Hd. cbn [andb]. destruct (G r0 m0 Hr0 Hs) as [X Y].
    destruct (Z.eqb_spec m0 m) as [E0|Hne]; [subst m0|].
    + unfold dead in Hd. rewrite Y, Hr0 in Hd. discriminate.
    + rewrite upd_other by exact Hne. tauto.
  - intros m0 r0 Hb. fold (dead r0) in *.
    assert (Hb0 : back s m0 r0 = true) by (destruct (dead r0 && negb (isz (sto s r0 m0))); [discriminate|exact Hb]).
    destruct (H m0 r0 Hb0) as [X [Y Z]].
    assert (Hd : dead r0 = false).
    { destruct (dead r0) eqn:Ed; [|reflexivity]. cbn [andb] in Hb.
      assert (isz (sto s r0 m0) = false) by (apply isz_false; exact Z). rewrite H0 in Hb. discriminate. }
    rewrite Hd. cbn [negb]. rewrite andb_true_r.
    destruct (Z.eqb_spec m0 m) as [E0|Hne]; [subst m0|].
    + unfold dead in Hd. rewrite Hb0, Y in Hd. discriminate.
    + rewrite upd_other by exact Hne. tauto.
  - exact I.
  - intros m0 r0 Hb. apply (J m0 r0). destruct (_ && negb (isz (sto s r0 m0))); [discriminate|exact Hb].
  - intros r0 Hr0. apply andb_true_iff in Hr0 as [Hr0 _]. apply (K r0 Hr0).
Qed.

Lemma scaled_zero a c : c <> q0 -> ((a * c)%Qc = q0 <-> a = q0).
Proof.
  intros Hc. split.
  - intros H. destruct (Qcmult_integral _ _ H) as [E|E]; [exact E|contradiction].
  - intros ->. unfold q0. ring.
Qed.

Lemma scale_Inv x r c f :
  Inv x -> c <> q0 -> (forall m, f m = (sto x r m * c)%Qc) ->
  Inv (if rin x r then populate r (set_sto x (upd (sto x) r f)) else set_sto x (upd (sto x) r f)).
Proof.
  intros HI Hc Hf.
  assert (Hz : forall m, f m = q0 <-> sto x r m = q0) by (intros m; rewrite Hf; apply scaled_zero; exact Hc).
  assert (Hiz : forall m, isz (f m) = isz (sto x r m)).
  { intros m. destruct (isz (sto x r m)) eqn:E.
    - apply isz_true. apply Hz. apply isz_true. exact E.
    - apply isz_false. intros H. apply Hz in H. apply isz_false in E. contradiction. }
  destruct HI as [A B B' C D E G H I J K].
  destruct (rin x r) eqn:Er.
  - unfold populate, update_variable_bounds. cbn [rin set_sto]. rewrite Er. cbn [lb ub set_sto].
    destruct (split_bounds (lb x r) (ub x r)) as [[fl fu] [rl ru]] eqn:Es.
    unfold var_set_bounds, set_vb, set_co, set_sto. cbn. rewrite !upd_same.
    constructor; cbn; try assumption.
    + intros r0 Hr0. names. destruct (Z.eqb_spec r0 r) as [E0|Hne]; [subst r0; rewrite Es; reflexivity|].
      apply B. exact Hr0.
    + intros n Hn. unfold updn.
      destruct (name_eqb n (R r)) eqn:E1; [apply name_eqb_true in E1; subst; destruct (A r); congruence|].
      destruct (name_eqb n (F r)) eqn:E2; [apply name_eqb_true in E2; subst; destruct (A r); congruence|].
      apply B'. exact Hn.
    + intros m r0. names. destruct (Z.eqb_spec r0 r) as [E0|Hne]; [subst r0|].
      * rewrite upd_same, Er. cbn [andb]. rewrite Hiz.
        destruct (D m r) as [D1 D2]. rewrite Er in D1, D2. cbn [andb] in D1, D2.
        destruct (isz (sto x r m)) eqn:Ez; cbn [negb].
        -- rewrite D1, D2. apply isz_true in Ez. assert (f m = q0) by (apply Hz; exact Ez).
           rewrite H0, Ez, opp_q0, !if_same. tauto.
        -- apply isz_false in Ez. destruct (G r m Er Ez) as [X _]. rewrite X. tauto.
      * rewrite upd_other by exact Hne. cbn [andb]. apply D.
    + intros r0 m Hr0 Hs. destruct (Z.eqb_spec r0 r) as [E0|Hne]; [subst r0|].
      * rewrite upd_same in Hs. apply (G r m Er). intros Hq. apply Hs. apply Hz. exact Hq.
      * rewrite upd_other in Hs by exact Hne. apply (G r0 m Hr0 Hs).
    + intros m r0 Hb. destruct (H m r0 Hb) as [X [Y Z]]. split; [exact X|]. split; [exact Y|].
      destruct (Z.eqb_spec r0 r) as [E0|Hne]; [subst r0|].
      * rewrite upd_same. intros Hq. apply Z. apply Hz. exact Hq.
      * rewrite upd_other by exact Hne. exact Z.
    + intros r0 m Hs. destruct (Z.eqb_spec r0 r) as [E0|Hne]; [subst r0|].
      * rewrite upd_same in Hs. apply (I r m). intros Hq. apply Hs. apply Hz. exact Hq.
      * rewrite upd_other in Hs by exact Hne. apply (I r0 m Hs).
  - unfold set_sto. constructor; cbn; try assumption.
    + intros m r0. destruct (Z.eqb_spec r0 r) as [E0|Hne]; [subst r0|].
      * destruct (D m r) as [D1 D2]. rewrite Er in *. cbn [andb] in *. tauto.
      * rewrite upd_other by exact Hne. apply D.
    + intros r0 m Hr0 Hs. destruct (Z.eqb_spec r0 r) as [E0|Hne]; [subst r0; congruence|].
      rewrite upd_other in Hs by exact Hne. apply (G r0 m Hr0 Hs).
    + intros m r0 Hb. destruct (H m r0 Hb) as [X [Y Z]].
      destruct (Z.eqb_spec r0 r) as [E0|Hne]; [subst r0; congruence|]. rewrite upd_other by exact Hne. tauto.
    + intros r0 m Hs. destruct (Z.eqb_spec r0 r) as [E0|Hne]; [subst r0|].
      * rewrite upd_same in Hs. apply (I r m). intros Hq. apply Hs. apply Hz. exact Hq.
      * rewrite upd_other in Hs by exact Hne. apply (I r0 m Hs).
Qed.

(* the bounds setters touch only the bounds and the variable bounds *)
Lemma raw_set_bounds_frame r l u s :
  rin (raw_set_bounds r l u s) = rin s /\ sto (raw_set_bounds r l u s) = sto s.
Proof.
  unfold raw_set_bounds, update_variable_bounds. cbn [rin set_lbub].
  destruct (rin s r); [|split; reflexivity].
  cbn [lb ub set_lbub]. destruct (split_bounds _ _) as [[? ?] [? ?]]. split; reflexivity.
Qed.
Lemma set_bounds_frame r l u s :
  rin (fst (set_bounds r l u s)) = rin s /\ sto (fst (set_bounds r l u s)) = sto s.
Proof.
  unfold set_bounds. destruct (rctx s r && eb_eqb (lb s r) l && eb_eqb (ub s r) u); [split; reflexivity|].
  destruct (eb_gt l u); cbn [fst].
  - destruct (rctx s r); [rewrite rin_record, sto_record|]; split; reflexivity.
  - destruct (raw_set_bounds_frame r l u (if rctx s r then record (USetBounds r (lb s r) (ub s r)) s else s)) as [X Y].
    rewrite X, Y. destruct (rctx s r); [rewrite rin_record, sto_record|]; split; reflexivity.
Qed.

Lemma imul_Inv s r c : Inv s -> c <> q0 -> Inv (imul r c s).
Proof.
  intros HI Hc. unfold imul.
  set (s1 := if qlt c q0 then fst (set_bounds r (eb_opp (ub s r)) (eb_opp (lb s r)) s) else s).
  assert (H1 : Inv s1) by (unfold s1; destruct (qlt c q0); [apply set_bounds_Inv|]; exact HI).
  assert (F1 : rin s1 = rin s /\ sto s1 = sto s).
  { unfold s1. destruct (qlt c q0); [apply set_bounds_frame|split; reflexivity]. }
  destruct F1 as [Fr Fs].
  pose proof (scale_Inv s1 r c (fun m => (sto s r m * c)%Qc) H1 Hc) as H3.
  cbn [rin set_sto] in *.
  match goal with |- Inv (if rctx ?x r then _ else _) => assert (Hx : Inv x) end.
  { apply H3. intros m. rewrite Fs. reflexivity. }
  destruct (rctx _ r); [apply Inv_record, Inv_record|]; exact Hx.
Qed.

(* ---------- every operation of the kernel other than leaving a context ---------- *)
Definition in_univ (s : st) (o : op) : Prop :=
  match o with
  | NewRxn r _ _ st0 => forall m, In m (map fst st0) -> In m (mids s)
  | AddRxn r => In r (rids s)
  | AddSt _ l _ | SubSt _ l _ => forall m, In m (map fst l) -> In m (mids s)
  | _ => True
  end.
Definition op_ok (s : st) (o : op) : Prop :=
  in_univ s o /\ match o with Imul _ c => c <> q0 | Exit => False | _ => True end.

Theorem step_Inv s o : Inv s -> op_ok s o -> Inv (fst (step s o)).
Proof.
  intros HI [Hu Hok]. destruct o; cbn [step op_ok in_univ] in *.
  - exact (new_rxn_Inv s r l u st0 HI Hu).
  - cbn [fst]. apply add_rxn_Inv; assumption.
  - cbn [fst]. apply remove_rxn_Inv. exact HI.
  - apply (add_met_Inv s m HI).
  - cbn [fst]. destruct destructive; [apply remove_met_d_Inv|apply remove_met_nd_Inv]; exact HI.
  - apply set_bounds_Inv. exact HI.
  - apply set_lb_Inv. exact HI.
  - apply set_ub_Inv. exact HI.
  - apply set_bounds_Inv. exact HI.
  - apply add_st_Inv; assumption.
  - apply add_st_Inv; [exact HI|]. intros m Hm. apply Hu.
    unfold touched, neg_list in Hm. rewrite map_map in Hm. cbn in Hm. exact Hm.
  - apply set_obj_Inv. exact HI.
  - destruct (rin s r); [apply set_obj_Inv|]; exact HI.
  - cbn [fst]. apply set_dir_Inv. exact HI.
  - cbn [fst]. apply imul_Inv; assumption.
  - cbn [fst]. apply Inv_ctx. exact HI.
  - contradiction.
Qed.

(* the identifier universe never changes *)
Definition same_ids (a b : st) : Prop := rids a = rids b /\ mids a = mids b.
Lemma same_ids_refl a : same_ids a a. Proof. split; reflexivity. Qed.
Lemma same_ids_trans a b c : same_ids a b -> same_ids b c -> same_ids a c.
Proof. intros [? ?] [? ?]. split; congruence. Qed.
Lemma same_ids_record u s : same_ids (record u s) s.
Proof. split; [apply rids_record|apply mids_record]. Qed.
Lemma same_ids_record_all us s : same_ids (record_all us s) s.
Proof. split; [apply rids_record_all|apply mids_record_all]. Qed.

Ltac sid := repeat first
  [ apply same_ids_refl
  | eapply same_ids_trans; [apply same_ids_record|]
  | eapply same_ids_trans; [apply same_ids_record_all|] ].

Lemma raw_set_bounds_ids r l u s : same_ids (raw_set_bounds r l u s) s.
Proof.
  unfold raw_set_bounds, update_variable_bounds. cbn [rin set_lbub]. destruct (rin s r); [|split; reflexivity].
  cbn [lb ub set_lbub]. destruct (split_bounds _ _) as [[? ?] [? ?]]. split; reflexivity.
Qed.
Lemma set_bounds_ids r l u s : same_ids (fst (set_bounds r l u s)) s.
Proof.
  unfold set_bounds. destruct (_ && _ && _); [sid|]. destruct (eb_gt l u); cbn [fst].
  - destruct (rctx s r); sid.
  - eapply same_ids_trans; [apply raw_set_bounds_ids|]. destruct (rctx s r); sid.
Qed.
Lemma set_lb_ids r l s : same_ids (fst (set_lb r l s)) s.
Proof.
  unfold set_lb. destruct (_ && _); [sid|]. destruct (eb_gt _ _); cbn [fst].
  - destruct (rctx s r); sid.
  - eapply same_ids_trans; [apply raw_set_bounds_ids|]. destruct (rctx s r); sid.
Qed.
Lemma set_ub_ids r u s : same_ids (fst (set_ub r u s)) s.
Proof.
  unfold set_ub. destruct (_ && _); [sid|]. destruct (eb_gt _ _); cbn [fst].
  - destruct (rctx s r); sid.
  - eapply same_ids_trans; [apply raw_set_bounds_ids|]. destruct (rctx s r); sid.
Qed.
Lemma set_obj_loop_ids l : forall s, same_ids (fst (set_obj_loop l s)) s.
Proof.
  induction l as [|[r c] l IH]; intros s; cbn [set_obj_loop]; [sid|].
  destruct (rin s r); [|sid]. eapply same_ids_trans; [apply IH|]. split; reflexivity.
Qed.
Lemma set_obj_ids l a s : same_ids (fst (set_obj l a s)) s.
Proof.
  unfold set_obj. eapply same_ids_trans; [apply set_obj_loop_ids|].
  destruct a; destruct (in_ctx s); sid; split; cbn; recs; reflexivity.
Qed.
Lemma add_st_ids r l c v s : same_ids (fst (add_st r l c v s)) s.
Proof.
  unfold add_st.
  match goal with |- same_ids (fst (if ?cnd then _ else _)) _ => destruct cnd end; [destruct c|]; cbn [fst]; sid;
    (destruct (rin s r); [unfold model_add_mets; split; cbn; recs; reflexivity|split; reflexivity]).
Qed.
Lemma populate_ids r s : same_ids (populate r s) s.
Proof.
  unfold populate, update_variable_bounds. destruct (rin s r); [|split; reflexivity].
  destruct (split_bounds _ _) as [[? ?] [? ?]]. split; reflexivity.
Qed.
Lemma imul_ids r c s : same_ids (imul r c s) s.
Proof.
  unfold imul.
  set (s1 := if qlt c q0 then _ else s).
  assert (H1 : same_ids s1 s) by (unfold s1; destruct (qlt c q0); [apply set_bounds_ids|sid]).
  match goal with |- same_ids (if rctx ?x r then _ else _) _ => assert (Hx : same_ids x s) end.
  { cbn [rin set_sto]. destruct (rin s1 r); [eapply same_ids_trans; [apply populate_ids|]|]; 
      (eapply same_ids_trans; [|exact H1]); split; reflexivity. }
  destruct (rctx _ r); sid; exact Hx.
Qed.
Lemma add_rxn_ids r s : same_ids (add_rxn r s) s.
Proof.
  unfold add_rxn. destruct (rin s r); [sid|]. sid. unfold add_rxn_content.
  destruct (split_bounds _ _) as [[? ?] [? ?]]. split; reflexivity.
Qed.
Lemma remove_rxn_ids r o s : same_ids (remove_rxn r o s) s.
Proof. unfold remove_rxn. destruct (negb (rin s r)); sid. split; reflexivity. Qed.
Lemma remove_met_nd_ids m s : same_ids (remove_met_nd m s) s.
Proof. unfold remove_met_nd. destruct (negb (min s m)); sid. split; reflexivity. Qed.
Lemma remove_met_d_ids m s : same_ids (remove_met_d m s) s.
Proof. unfold remove_met_d. destruct (negb (min s m)); sid. split; reflexivity. Qed.

Lemma run_undo_ids u s : same_ids (run_undo u s) s.
Proof.
  destruct u; cbn [run_undo]; try (split; reflexivity).
  - destruct (eb_gt l u); [sid|apply raw_set_bounds_ids].
  - destruct (eb_gt _ _); [sid|apply raw_set_bounds_ids].
  - destruct (eb_gt _ _); [sid|apply raw_set_bounds_ids].
  - apply add_st_ids.
  - apply add_st_ids.
  - destruct (rin s r); [apply populate_ids|sid].
  - apply imul_ids.
Qed.
Lemma reset_ids h : forall s, same_ids (fold_left (fun a u => run_undo u a) h s) s.
Proof.
  induction h as [|u h IH]; intros s; cbn [fold_left]; [sid|].
  eapply same_ids_trans; [apply IH|apply run_undo_ids].
Qed.

Lemma step_ids s o : same_ids (fst (step s o)) s.
Proof.
  destruct o; cbn [step].
  - destruct (rin s r); [sid|]. split; reflexivity.
  - apply add_rxn_ids.
  - apply remove_rxn_ids.
  - destruct (min s m); [sid|]. cbn [fst]. unfold model_add_mets. split; cbn; recs; reflexivity.
  - destruct destructive; [apply remove_met_d_ids|apply remove_met_nd_ids].
  - apply set_bounds_ids.
  - apply set_lb_ids.
  - apply set_ub_ids.
  - apply set_bounds_ids.
  - apply add_st_ids.
  - apply add_st_ids.
  - apply set_obj_ids.
  - destruct (rin s r); [apply set_obj_ids|sid].
  - unfold set_dir. cbn [fst]. destruct (_ && _); [sid|]. destruct (in_ctx s); [|split; reflexivity].
    split; cbn; recs; reflexivity.
  - apply imul_ids.
  - split; reflexivity.
  - unfold exit_ctx. destruct (ctx s) as [|h rest]; [sid|]. cbn [fst].
    destruct (reset_ids h (set_ctx s [])) as [X Y]. split; cbn; [rewrite X|rewrite Y]; reflexivity.
Qed.
