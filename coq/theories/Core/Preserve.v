(* Every operation of the kernel (other than leaving a context) preserves the invariant. *)
From Coq Require Import ZArith QArith Qcanon List Bool Lia.
From Cobra.Core Require Import Model Inv.
Import ListNotations.
Open Scope Z_scope.

Ltac names := unfold updn; rewrite ?name_FF, ?name_RR, ?name_FR, ?name_RF.
Ltac zcase a b := destruct (Z.eqb_spec a b); subst.

Lemma raw_set_bounds_Inv s r l u : Inv s -> Inv (raw_set_bounds r l u s).
Proof.
  intros [A B C D E G H I J]. unfold raw_set_bounds, update_variable_bounds. cbn [rin set_lbub].
  destruct (rin s r) eqn:Er.
  - cbn [lb ub set_lbub]. rewrite !upd_same.
    destruct (split_bounds l u) as [[fl fu] [rl ru]] eqn:Es.
    constructor; cbn; try assumption.
    intros r0 H0. names. zcase r0 r.
    + unfold upd. rewrite Z.eqb_refl. rewrite Es. reflexivity.
    + rewrite !upd_other by assumption. apply B. exact H0.
  - constructor; cbn; try assumption.
    intros r0 H0. zcase r0 r; [congruence|]. rewrite !upd_other by assumption. apply B. exact H0.
Qed.

Lemma set_bounds_Inv s r l u : Inv s -> Inv (fst (set_bounds r l u s)).
Proof.
  intros HI. unfold set_bounds.
  destruct (rctx s r && eb_eqb (lb s r) l && eb_eqb (ub s r) u); [exact HI|].
  set (s1 := if rctx s r then record (USetBounds r (lb s r) (ub s r)) s else s).
  assert (Inv s1) by (unfold s1; destruct (rctx s r); [apply Inv_record|]; exact HI).
  destruct (eb_gt l u); cbn; [assumption|apply raw_set_bounds_Inv; assumption].
Qed.
Lemma set_lb_Inv s r l : Inv s -> Inv (fst (set_lb r l s)).
Proof.
  intros HI. unfold set_lb.
  destruct (rctx s r && eb_eqb (lb s r) l); [exact HI|].
  set (s1 := if rctx s r then record (USetLb r (lb s r)) s else s).
  assert (Inv s1) by (unfold s1; destruct (rctx s r); [apply Inv_record|]; exact HI).
  destruct (eb_gt l (ub s r)); cbn; [assumption|apply raw_set_bounds_Inv; assumption].
Qed.
Lemma set_ub_Inv s r u : Inv s -> Inv (fst (set_ub r u s)).
Proof.
  intros HI. unfold set_ub.
  destruct (rctx s r && eb_eqb (ub s r) u); [exact HI|].
  set (s1 := if rctx s r then record (USetUb r (ub s r)) s else s).
  assert (Inv s1) by (unfold s1; destruct (rctx s r); [apply Inv_record|]; exact HI).
  destruct (eb_gt (lb s r) u); cbn; [assumption|apply raw_set_bounds_Inv; assumption].
Qed.

Lemma set_odir_Inv s d : Inv s -> Inv (set_odir s d).
Proof. intros [A B C D E G H I J]. constructor; cbn; assumption. Qed.
Lemma set_dir_Inv s d : Inv s -> Inv (set_dir d s).
Proof.
  intros HI. unfold set_dir. destruct (in_ctx s && Bool.eqb (odir s) d); [exact HI|].
  apply set_odir_Inv. destruct (in_ctx s); [apply Inv_record|]; exact HI.
Qed.

Lemma opp_q0 : (- q0)%Qc = q0.
Proof. apply Qc_is_canon. reflexivity. Qed.

Lemma set_oc_zero_Inv s : Inv s -> Inv (set_oc s (fun _ => q0)).
Proof.
  intros [A B C D E G H I J]. constructor; cbn; try assumption.
  intros r. split; [symmetry; apply opp_q0|reflexivity].
Qed.

Lemma set_obj_loop_Inv l : forall s, Inv s -> Inv (fst (set_obj_loop l s)).
Proof.
  induction l as [|[r c] l IH]; intros s HI; cbn [set_obj_loop]; [exact HI|].
  destruct (rin s r) eqn:Er; [|exact HI].
  apply IH. destruct HI as [A B C D E G H I J]. constructor; cbn; try assumption.
  intros r0. names. destruct (Z.eqb_spec r0 r) as [->|Hne].
  - split; [reflexivity|congruence].
  - apply E.
Qed.

Lemma set_obj_Inv l a s : Inv s -> Inv (fst (set_obj l a s)).
Proof.
  intros HI. unfold set_obj. apply set_obj_loop_Inv.
  set (s0 := if in_ctx s then record (UObjective (oc s) (odir s)) s else s).
  assert (Inv s0) by (unfold s0; destruct (in_ctx s); [apply Inv_record|]; exact HI).
  destruct a; [assumption|apply set_oc_zero_Inv; assumption].
Qed.
