(* Executable model of the stateful core of cobrapy (properties C01, C02, C03):
   the Python-side content of a Model (reactions with bounds and stoichiometry, metabolites
   with back-references), the optlang/GLPK problem the model keeps in step with it, and the
   stack of undo histories behind `with model:`.

   Every cobra object is identified by an integer (one Python object per identifier; the
   harness guarantees it).  All maps are total functions (a default means "absent"), so that
   invariants are pointwise statements and every update is a pointwise override.

   `step` mirrors, statement by statement, the method bodies in core/model.py,
   core/reaction.py, util/solver.py and util/context.py for the *op kernel* below,
   including the order in which undo closures are registered and what is left behind when
   an operation raises.  Undo closures are data (`undo`) executed by `run_undo`.          *)
From Coq Require Import ZArith QArith Qcanon List Bool.
Import ListNotations.
Open Scope Z_scope.

(* ---------- numbers ---------- *)
Inductive eb := NInf | Fn (q : Qc) | PInf.                 (* a flux bound *)

Definition qle (a b : Qc) : bool := Qle_bool (this a) (this b).
Definition qlt (a b : Qc) : bool := negb (qle b a).
Definition qeqb (a b : Qc) : bool := Qeq_bool (this a) (this b).
Definition q0 : Qc := Q2Qc 0.

Definition eb_eqb (a b : eb) : bool :=
  match a, b with
  | NInf, NInf | PInf, PInf => true
  | Fn x, Fn y => qeqb x y
  | _, _ => false
  end.
Definition eb_gt (a b : eb) : bool :=                       (* a > b, Python float comparison *)
  match a, b with
  | NInf, _ => false | _, PInf => false
  | _, NInf => true | PInf, _ => true
  | Fn x, Fn y => qlt y x
  end.
Definition eb_opp (a : eb) : eb :=
  match a with NInf => PInf | PInf => NInf | Fn x => Fn (- x)%Qc end.
Definition eb_pos (a : eb) : bool := eb_gt a (Fn q0).
Definition eb_neg (a : eb) : bool := eb_gt (Fn q0) a.
Definition as_lo (b : eb) : eb := match b with Fn q => Fn q | _ => NInf end.   (* None if isinf(x) else x *)
Definition as_hi (b : eb) : eb := match b with Fn q => Fn q | _ => PInf end.

(* Reaction.update_variable_bounds: (forward (lb, ub), reverse (lb, ub)) *)
Definition split_bounds (lb ub : eb) : (eb * eb) * (eb * eb) :=
  if eb_pos lb then ((as_lo lb, as_hi ub), (Fn q0, Fn q0))
  else if eb_neg ub then ((Fn q0, Fn q0), (as_lo (eb_opp ub), as_hi (eb_opp lb)))
  else ((Fn q0, as_hi ub), (Fn q0, as_hi (eb_opp lb))).

(* ---------- names of solver variables ---------- *)
Definition name := (Z * bool)%type.                         (* (reaction, is_reverse) *)
Definition name_eqb (a b : name) : bool := (fst a =? fst b) && Bool.eqb (snd a) (snd b).
Definition F (r : Z) : name := (r, false).
Definition R (r : Z) : name := (r, true).

Definition upd {A} (f : Z -> A) (k : Z) (v : A) : Z -> A := fun k' => if k' =? k then v else f k'.
Definition updn {A} (f : name -> A) (k : name) (v : A) : name -> A :=
  fun k' => if name_eqb k' k then v else f k'.

(* ---------- undo closures as data ---------- *)
Inductive undo :=
| USetBounds (r : Z) (l u : eb)          (* partial(Reaction.bounds.fset, r, old) *)
| USetLb (r : Z) (l : eb)
| USetUb (r : Z) (u : eb)
| USetDir (d : bool)                      (* partial(objective_direction.fset, model, old) *)
| UObjective (o : name -> Qc) (d : bool)  (* set_objective's reset(): objective := reverse_value *)
| USubSt (r : Z) (l : list (Z * Qc))      (* subtract_metabolites(l, combine=True, reversibly=False) *)
| UResetSt (r : Z) (l : list (Z * Qc))    (* add_metabolites(l, combine=False, reversibly=False) *)
| UPopulate (r : Z)                       (* model._populate_solver([r]) *)
| UImul (r : Z) (c : Qc)                  (* r.__imul__(c) *)
| USolverRemoveVars (r : Z)               (* solver.remove([forward, reverse]) *)
| USolverAddVars (r : Z)                  (* solver.add([forward, reverse]) *)
| USolverRemoveCons (m : Z)               (* solver.remove([constraint m]) *)
| USolverAddCons (m : Z)
| UMetsISub (m : Z)                       (* model.metabolites -= [m]  and  m._model = None; the object that
                                             leaves was new in this context and is never seen again *)
| UMetsIAdd (m : Z)                       (* model.metabolites += [m]  and  m._model = model *)
| URxnOut (r : Z)                         (* model.reactions -= [r]  and  r._model = None *)
| URxnIn (r : Z)                          (* model.reactions.add(r)   and  r._model = model *)
| UBackRemove (m r : Z)                   (* m._reaction.remove(r) *)
| UBackAdd (m r : Z)                      (* m._reaction.add(r) *)
| UObjCoefs (r : Z) (c : Qc).             (* objective.set_linear_coefficients({fwd: c, rev: -c}) *)

(* ---------- state ---------- *)
Record st := mkSt {
  (* Python objects *)
  rin : Z -> bool;                 (* reaction is in the model (r.model is the model) *)
  lb : Z -> eb; ub : Z -> eb;
  sto : Z -> Z -> Qc;              (* reaction -> metabolite -> coefficient (0 = not listed) *)
  min : Z -> bool;                 (* metabolite is in the model *)
  back : Z -> Z -> bool;           (* metabolite -> reaction: r in m._reaction *)
  (* solver *)
  vin : name -> bool;              (* variable exists *)
  vlb : name -> eb; vub : name -> eb;   (* bounds stored in the Variable object *)
  cin : Z -> bool;                 (* metabolite row exists *)
  co : Z -> name -> Qc;            (* row coefficient *)
  oc : name -> Qc;                 (* objective coefficient *)
  odir : bool;                     (* true = max *)
  (* contexts: innermost first; each history newest first *)
  ctx : list (list undo);
  (* universe of identifiers the history has mentioned (for loops over Python sets/dicts) *)
  rids : list Z; mids : list Z
}.

Definition set_rin s v := mkSt v (lb s) (ub s) (sto s) (min s) (back s) (vin s) (vlb s) (vub s) (cin s) (co s) (oc s) (odir s) (ctx s) (rids s) (mids s).
Definition set_lbub s l u := mkSt (rin s) l u (sto s) (min s) (back s) (vin s) (vlb s) (vub s) (cin s) (co s) (oc s) (odir s) (ctx s) (rids s) (mids s).
Definition set_sto s v := mkSt (rin s) (lb s) (ub s) v (min s) (back s) (vin s) (vlb s) (vub s) (cin s) (co s) (oc s) (odir s) (ctx s) (rids s) (mids s).
Definition set_min s v := mkSt (rin s) (lb s) (ub s) (sto s) v (back s) (vin s) (vlb s) (vub s) (cin s) (co s) (oc s) (odir s) (ctx s) (rids s) (mids s).
Definition set_back s v := mkSt (rin s) (lb s) (ub s) (sto s) (min s) v (vin s) (vlb s) (vub s) (cin s) (co s) (oc s) (odir s) (ctx s) (rids s) (mids s).
Definition set_vin s v := mkSt (rin s) (lb s) (ub s) (sto s) (min s) (back s) v (vlb s) (vub s) (cin s) (co s) (oc s) (odir s) (ctx s) (rids s) (mids s).
Definition set_vb s l u := mkSt (rin s) (lb s) (ub s) (sto s) (min s) (back s) (vin s) l u (cin s) (co s) (oc s) (odir s) (ctx s) (rids s) (mids s).
Definition set_cin s v := mkSt (rin s) (lb s) (ub s) (sto s) (min s) (back s) (vin s) (vlb s) (vub s) v (co s) (oc s) (odir s) (ctx s) (rids s) (mids s).
Definition set_co s v := mkSt (rin s) (lb s) (ub s) (sto s) (min s) (back s) (vin s) (vlb s) (vub s) (cin s) v (oc s) (odir s) (ctx s) (rids s) (mids s).
Definition set_oc s v := mkSt (rin s) (lb s) (ub s) (sto s) (min s) (back s) (vin s) (vlb s) (vub s) (cin s) (co s) v (odir s) (ctx s) (rids s) (mids s).
Definition set_odir s v := mkSt (rin s) (lb s) (ub s) (sto s) (min s) (back s) (vin s) (vlb s) (vub s) (cin s) (co s) (oc s) v (ctx s) (rids s) (mids s).
Definition set_ctx s v := mkSt (rin s) (lb s) (ub s) (sto s) (min s) (back s) (vin s) (vlb s) (vub s) (cin s) (co s) (oc s) (odir s) v (rids s) (mids s).
Definition set_ids s a b := mkSt (rin s) (lb s) (ub s) (sto s) (min s) (back s) (vin s) (vlb s) (vub s) (cin s) (co s) (oc s) (odir s) (ctx s) a b.

(* an empty Model(); the identifier universe of the history is fixed up front *)
Definition init_u (rs ms : list Z) : st :=
  mkSt (fun _ => false) (fun _ => Fn q0) (fun _ => Fn q0) (fun _ _ => q0) (fun _ => false) (fun _ _ => false)
       (fun _ => false) (fun _ => NInf) (fun _ => PInf) (fun _ => false) (fun _ _ => q0) (fun _ => q0) true [] rs ms.
Definition init : st := init_u [] [].

(* context(f): record on the innermost history, if any *)
Definition record (u : undo) (s : st) : st :=
  match ctx s with
  | [] => s
  | h :: rest => set_ctx s ((u :: h) :: rest)
  end.
Definition in_ctx (s : st) : bool := match ctx s with [] => false | _ => true end.
(* get_context(reaction): only a reaction that belongs to the model sees the model's contexts *)
Definition rctx (s : st) (r : Z) : bool := in_ctx s && rin s r.

(* ---------- solver primitives (optlang container semantics cobrapy relies on) ---------- *)
(* Variable.set_bounds on an attached variable *)
Definition var_set_bounds (n : name) (l u : eb) (s : st) : st := set_vb s (updn (vlb s) n l) (updn (vub s) n u).
(* solver.remove(variable): the column disappears from every row and from the objective.  The bounds
   kept by the detached Python Variable object are not modelled (canonical default): whenever
   cobrapy re-adds such a variable, _populate_solver sets its bounds again before anyone looks.  *)
Definition solver_remove_var (n : name) (s : st) : st :=
  let s0 := set_vb s (updn (vlb s) n NInf) (updn (vub s) n PInf) in
  let s1 := set_vin s0 (updn (vin s0) n false) in
  let s2 := set_co s1 (fun m n' => if name_eqb n' n then q0 else co s1 m n') in
  set_oc s2 (updn (oc s2) n q0).
Definition solver_add_var (n : name) (s : st) : st := set_vin s (updn (vin s) n true).
Definition solver_remove_cons (m : Z) (s : st) : st :=
  let s1 := set_cin s (upd (cin s) m false) in
  set_co s1 (upd (co s1) m (fun _ => q0)).
Definition solver_add_cons (m : Z) (s : st) : st := set_cin s (upd (cin s) m true).
Definition row_set (m : Z) (n : name) (c : Qc) (s : st) : st :=
  set_co s (upd (co s) m (updn (co s m) n c)).

(* Reaction.update_variable_bounds *)
Definition update_variable_bounds (r : Z) (s : st) : st :=
  if rin s r then
    let '((fl, fu), (rl, ru)) := split_bounds (lb s r) (ub s r) in
    var_set_bounds (R r) rl ru (var_set_bounds (F r) fl fu s)
  else s.

(* the body of the bounds setter (after _check_bounds succeeded) *)
Definition raw_set_bounds (r : Z) (l u : eb) (s : st) : st :=
  update_variable_bounds r (set_lbub s (upd (lb s) r l) (upd (ub s) r u)).

Inductive res := Ok | RaiseValueError | RaiseKeyError | RaiseOther.

(* @resettable bounds setter *)
Definition set_bounds (r : Z) (l u : eb) (s : st) : st * res :=
  let old_l := lb s r in let old_u := ub s r in
  if rctx s r && eb_eqb old_l l && eb_eqb old_u u then (s, Ok) else
  let s1 := if rctx s r then record (USetBounds r old_l old_u) s else s in
  if eb_gt l u then (s1, RaiseValueError) else (raw_set_bounds r l u s1, Ok).
Definition set_lb (r : Z) (l : eb) (s : st) : st * res :=
  let old := lb s r in
  if rctx s r && eb_eqb old l then (s, Ok) else
  let s1 := if rctx s r then record (USetLb r old) s else s in
  if eb_gt l (ub s r) then (s1, RaiseValueError) else (raw_set_bounds r l (ub s r) s1, Ok).
Definition set_ub (r : Z) (u : eb) (s : st) : st * res :=
  let old := ub s r in
  if rctx s r && eb_eqb old u then (s, Ok) else
  let s1 := if rctx s r then record (USetUb r old) s else s in
  if eb_gt (lb s r) u then (s1, RaiseValueError) else (raw_set_bounds r (lb s r) u s1, Ok).

(* Model.objective_direction setter (@resettable) *)
Definition set_dir (d : bool) (s : st) : st :=
  if in_ctx s && Bool.eqb (odir s) d then s else
  let s1 := if in_ctx s then record (USetDir (odir s)) s else s in
  set_odir s1 d.

(* ---- structural operations.  Their effect on the content is written pointwise (the function the
   Python loops compute); only the ORDER in which undo closures are registered needs the finite
   identifier universe.                                                                        ---- *)
Definition isz (q : Qc) : bool := qeqb q q0.
Definition memz (k : Z) (l : list Z) : bool := existsb (Z.eqb k) l.
Fixpoint assoc_q (m : Z) (l : list (Z * Qc)) : option Qc :=
  match l with [] => None | (a, c) :: r => if a =? m then Some c else assoc_q m r end.

(* metabolites listed by reaction r / reactions a metabolite knows, in universe order *)
Definition mets_of (s : st) (r : Z) : list Z := filter (fun m => negb (isz (sto s r m))) (mids s).
Definition rxns_of (s : st) (m : Z) : list Z := filter (fun r => back s m r) (rids s).
Definition record_all (us : list undo) (s : st) : st := fold_left (fun a u => record u a) us s.

(* Model._populate_solver([r]) for a reaction whose variables exist: bounds, and the coefficients of
   every metabolite the reaction lists                                                          *)
Definition populate (r : Z) (s : st) : st :=
  let s1 := update_variable_bounds r s in
  set_co s1 (fun m n => if name_eqb n (F r) && negb (isz (sto s r m)) then sto s r m
                        else if name_eqb n (R r) && negb (isz (sto s r m)) then (- sto s r m)%Qc
                        else co s1 m n).

(* Model.add_metabolites(ms) for metabolites that are not in the model: membership, rows, undo *)
Definition model_add_mets (ms : list Z) (s : st) : st :=
  let s1 := set_min s (fun m => min s m || memz m ms) in
  let s2 := set_cin s1 (fun m => cin s1 m || memz m ms) in
  record_all (flat_map (fun m => [USolverRemoveCons m; UMetsISub m]) ms) s2.

(* Reaction.add_metabolites(l, combine, reversibly); keys of l are distinct metabolite objects *)
Definition new_coef (combine : bool) (old c : Qc) : Qc := if combine then (old + c)%Qc else c.
Definition st_after (s : st) (r : Z) (l : list (Z * Qc)) (combine : bool) : Z -> Qc :=
  fun m => match assoc_q m l with Some c => new_coef combine (sto s r m) c | None => sto s r m end.
Definition touched (l : list (Z * Qc)) : list Z := map fst l.
Definition news_of (s : st) (r : Z) (l : list (Z * Qc)) : list Z :=
  filter (fun m => negb (min s m) && isz (sto s r m)) (touched l).

Definition add_st (r : Z) (l : list (Z * Qc)) (combine reversibly : bool) (s : st) : st * res :=
  let old := sto s r in
  let new := st_after s r l combine in
  let s1 := set_sto s (upd (sto s) r new) in
  let s4 :=
    if rin s r then
      (* metabolites new to the model are added to it (context-aware) *)
      let s2 := model_add_mets (news_of s r l) s1 in
      (* every listed or touched metabolite gets its row coefficients written *)
      let s3 := set_co s2 (fun m n =>
                  if cin s2 m && (negb (isz (new m)) || memz m (touched l)) then
                    if name_eqb n (F r) then new m else if name_eqb n (R r) then (- new m)%Qc else co s2 m n
                  else co s2 m n) in
      (* back references: a metabolite new to the reaction learns about it, one whose coefficient
         became zero forgets it                                                                *)
      set_back s3 (fun m r' =>
        if (r' =? r) && memz m (touched l) then
          if isz (new m) then false else if isz (old m) then true else back s3 m r'
        else back s3 m r')
    else s1 in
  if rctx s4 r && reversibly then
    if combine then (record (USubSt r l) s4, Ok)
    else (record (UResetSt r (map (fun mc => (fst mc, old (fst mc))) l)) s4, Ok)
  else (s4, Ok).

Definition neg_list (l : list (Z * Qc)) : list (Z * Qc) := map (fun mc => (fst mc, (- snd mc)%Qc)) l.

(* set_objective(model, {r: c ...}, additive): the undo is registered first; a reaction that is not in
   the model has no variables and makes the assignment raise part-way (AttributeError)            *)
Fixpoint set_obj_loop (l : list (Z * Qc)) (s : st) : st * res :=
  match l with
  | [] => (s, Ok)
  | (r, c) :: l' =>
      if rin s r then set_obj_loop l' (set_oc s (updn (updn (oc s) (F r) c) (R r) (- c)%Qc))
      else (s, RaiseOther)
  end.
Definition set_obj (l : list (Z * Qc)) (additive : bool) (s : st) : st * res :=
  let s0 := if in_ctx s then record (UObjective (oc s) (odir s)) s else s in
  let s1 := if additive then s0 else set_oc s0 (fun _ => q0) in
  set_obj_loop l s1.

(* From here on every operation is given as  record_all (X_records ..) (X_content ..):
   the new content written as ONE explicit record, and the undo closures it registers, oldest first. *)

(* Model.add_reactions([r]) for a detached reaction object built from fresh metabolite objects.
   Metabolites already in the model learn about the reaction; the others are adopted: the reaction's own
   fresh object, which knows only this reaction, joins the model and gets a row.  Then _populate_solver. *)
Definition add_rxn_content (r : Z) (s : st) : st :=
  let listed := fun m => negb (isz (sto s r m)) in
  let '((fl, fu), (rl, ru)) := split_bounds (lb s r) (ub s r) in
  mkSt (upd (rin s) r true) (lb s) (ub s) (sto s)
       (fun m => min s m || listed m)
       (fun m r' => if listed m then (if min s m then (r' =? r) || back s m r' else (r' =? r)) else back s m r')
       (fun n => if fst n =? r then true else vin s n)
       (fun n => if name_eqb n (F r) then fl else if name_eqb n (R r) then rl else vlb s n)
       (fun n => if name_eqb n (F r) then fu else if name_eqb n (R r) then ru else vub s n)
       (fun m => cin s m || listed m)
       (fun m n => if name_eqb n (F r) && listed m then sto s r m
                   else if name_eqb n (R r) && listed m then (- sto s r m)%Qc else co s m n)
       (oc s) (odir s) (ctx s) (rids s) (mids s).
Definition add_rxn_records (r : Z) (s : st) : list undo :=
  [URxnOut r] ++                                                          (* setattr(r, "_model", None) *)
  map (fun m => UBackRemove m r) (filter (fun m => min s m) (mets_of s r)) ++
  flat_map (fun m => [USolverRemoveCons m; UMetsISub m]) (filter (fun m => negb (min s m)) (mets_of s r)) ++
  [URxnOut r; USolverRemoveVars r].                                       (* reactions.__isub__, solver.remove *)
Definition add_rxn (r : Z) (s : st) : st :=
  if rin s r then s else record_all (add_rxn_records r s) (add_rxn_content r s).

(* leaving the model and dropping the row: the part common to both modes of Model.remove_metabolites *)
Definition drop_records (m : Z) : list undo := [USolverAddCons m; UMetsIAdd m].

(* Model.remove_metabolites([m], destructive=False): every reaction that lists m loses it *)
Definition remove_met_nd_content (m : Z) (s : st) : st :=
  mkSt (rin s) (lb s) (ub s)
       (fun r m' => if (m' =? m) && back s m r then q0 else sto s r m')
       (upd (min s) m false)
       (upd (back s) m (fun _ => false))
       (vin s) (vlb s) (vub s)
       (upd (cin s) m false)
       (upd (co s) m (fun _ => q0))
       (oc s) (odir s) (ctx s) (rids s) (mids s).
Definition remove_met_nd (m : Z) (s : st) : st :=
  if negb (min s m) then s else
  record_all (map (fun r => USubSt r [(m, (- sto s r m)%Qc)]) (rxns_of s m) ++ drop_records m)
             (remove_met_nd_content m s).

(* Model.remove_reactions([r], remove_orphans) *)
Definition orphaned (s : st) (r : Z) (m : Z) : bool :=
  negb (isz (sto s r m)) && back s m r && min s m &&
  forallb (fun r' => (r' =? r) || negb (back s m r')) (rids s).
Definition removal_records (s : st) (r : Z) (orphans : bool) : list undo :=
  (if negb (isz (oc s (F r))) then [UObjCoefs r (oc s (F r))] else []) ++
  [UPopulate r; URxnIn r; USolverAddVars r] ++
  flat_map (fun m => UBackAdd m r :: (if orphans && orphaned s r m then drop_records m else []))
           (filter (fun m => back s m r) (mets_of s r)).
Definition remove_rxn_content (r : Z) (orphans : bool) (s : st) : st :=
  let gone := fun m => orphans && orphaned s r m in
  mkSt (upd (rin s) r false) (lb s) (ub s) (sto s)
       (fun m => min s m && negb (gone m))
       (fun m r' => if (r' =? r) && negb (isz (sto s r m)) then false else back s m r')
       (fun n => if fst n =? r then false else vin s n)
       (fun n => if fst n =? r then NInf else vlb s n)
       (fun n => if fst n =? r then PInf else vub s n)
       (fun m => cin s m && negb (gone m))
       (fun m n => if (fst n =? r) || gone m then q0 else co s m n)
       (fun n => if fst n =? r then q0 else oc s n)
       (odir s) (ctx s) (rids s) (mids s).
Definition remove_rxn (r : Z) (orphans : bool) (s : st) : st :=
  if negb (rin s r) then s else
  record_all (removal_records s r orphans) (remove_rxn_content r orphans s).

(* Model.remove_metabolites([m], destructive=True): every reaction that lists m leaves the model *)
Definition remove_met_d_content (m : Z) (s : st) : st :=
  let dead := fun r => back s m r && rin s r in
  mkSt (fun r => rin s r && negb (dead r)) (lb s) (ub s) (sto s)
       (upd (min s) m false)
       (fun m' r => if dead r && negb (isz (sto s r m')) then false else back s m' r)
       (fun n => vin s n && negb (dead (fst n)))
       (fun n => if dead (fst n) then NInf else vlb s n)
       (fun n => if dead (fst n) then PInf else vub s n)
       (upd (cin s) m false)
       (fun m' n => if (m' =? m) || dead (fst n) then q0 else co s m' n)
       (fun n => if dead (fst n) then q0 else oc s n)
       (odir s) (ctx s) (rids s) (mids s).
Definition remove_met_d (m : Z) (s : st) : st :=
  if negb (min s m) then s else
  record_all (flat_map (fun r => removal_records s r false) (filter (rin s) (rxns_of s m)) ++ drop_records m)
             (remove_met_d_content m s).

(* Reaction.__imul__(c): scale the coefficients, swap and negate the bounds for c < 0 (through the
   context-aware bounds setter), re-populate the solver.  (The bounds and the coefficients do not
   depend on each other, so the setter is applied first here.)                                  *)
Definition imul (r : Z) (c : Qc) (s : st) : st :=
  let s1 := if qlt c q0 then fst (set_bounds r (eb_opp (ub s r)) (eb_opp (lb s r)) s) else s in
  let s2 := set_sto s1 (upd (sto s1) r (fun m => (sto s r m * c)%Qc)) in
  let s3 := if rin s2 r then populate r s2 else s2 in
  if rctx s3 r then record (UImul r (/ c)%Qc) (record (UPopulate r) s3) else s3.

(* ---------- undo execution ---------- *)
Definition run_undo (u : undo) (s : st) : st :=
  match u with
  | USetBounds r l u => if eb_gt l u then s else raw_set_bounds r l u s
  | USetLb r l => if eb_gt l (ub s r) then s else raw_set_bounds r l (ub s r) s
  | USetUb r u => if eb_gt (lb s r) u then s else raw_set_bounds r (lb s r) u s
  | USetDir d => set_odir s d
  | UObjective o d => set_odir (set_oc s (fun n => if vin s n then o n else q0)) d
  | USubSt r l => fst (add_st r (neg_list l) true false s)
  | UResetSt r l => fst (add_st r l false false s)
  | UPopulate r => if rin s r then populate r s else s
  | UImul r c => imul r c s
  | USolverRemoveVars r => solver_remove_var (R r) (solver_remove_var (F r) s)
  | USolverAddVars r => solver_add_var (R r) (solver_add_var (F r) s)
  | USolverRemoveCons m => solver_remove_cons m s
  | USolverAddCons m => solver_add_cons m s
  | UMetsISub m => set_back (set_min s (upd (min s) m false)) (upd (back s) m (fun _ => false))
  | UMetsIAdd m => set_min s (upd (min s) m true)
  | URxnOut r => set_rin s (upd (rin s) r false)
  | URxnIn r => set_rin s (upd (rin s) r true)
  | UBackRemove m r => set_back s (upd (back s) m (upd (back s m) r false))
  | UBackAdd m r => set_back s (upd (back s) m (upd (back s m) r true))
  | UObjCoefs r c => set_oc s (updn (updn (oc s) (F r) c) (R r) (- c)%Qc)
  end.

(* Model.__exit__: pop the innermost history and replay it newest first.  The undo functions run
   with the context stack hidden, so that context-aware functions they call do not record
   themselves on an enclosing context (the repaired behaviour, see docs/C03.md).          *)
Definition exit_ctx (s : st) : st * res :=
  match ctx s with
  | [] => (s, RaiseOther)                                    (* IndexError: pop from empty list *)
  | h :: rest =>
      let s1 := fold_left (fun a u => run_undo u a) h (set_ctx s []) in
      (set_ctx s1 rest, Ok)
  end.
Definition enter_ctx (s : st) : st := set_ctx s ([] :: ctx s).

(* ---------- the op kernel ---------- *)
Inductive op :=
| NewRxn (r : Z) (l u : eb) (st0 : list (Z * Qc))     (* Reaction(id); bounds; add_metabolites of FRESH objects *)
| AddRxn (r : Z)                                       (* model.add_reactions([r]) *)
| RemoveRxn (r : Z) (orphans : bool)                   (* model.remove_reactions([r], remove_orphans) *)
| AddMet (m : Z)                                       (* model.add_metabolites([Metabolite(id)]) *)
| RemoveMet (m : Z) (destructive : bool)
| SetBounds (r : Z) (l u : eb) | SetLb (r : Z) (l : eb) | SetUb (r : Z) (u : eb) | KnockOut (r : Z)
| AddSt (r : Z) (l : list (Z * Qc)) (combine : bool)   (* r.add_metabolites({model metabolite: c}) *)
| SubSt (r : Z) (l : list (Z * Qc)) (combine : bool)
| SetObj (l : list (Z * Qc))                           (* model.objective = {r: c} *)
| SetObjCoef (r : Z) (c : Qc)                          (* r.objective_coefficient = c *)
| SetDir (d : bool)
| Imul (r : Z) (c : Qc)                                (* r *= c, c <> 0 *)
| Enter | Exit.

Definition step (s : st) (o : op) : st * res :=
  match o with
  | NewRxn r l u st0 =>
      if rin s r then (s, Ok) else          (* one object per identifier: the id of a model reaction is taken *)
      let s0 := s in
      let s1 := set_lbub s0 (upd (lb s0) r l) (upd (ub s0) r u) in
      (set_sto s1 (upd (sto s1) r (fun m => fold_left (fun a mc => if fst mc =? m then snd mc else a) st0 q0)), Ok)
  | AddRxn r => (add_rxn r s, Ok)
  | RemoveRxn r orphans => (remove_rxn r orphans s, Ok)
  | AddMet m => let s0 := s in
      if min s0 m then (s0, Ok) else
      let s1 := model_add_mets [m] (set_back s0 (upd (back s0) m (fun _ => false))) in (s1, Ok)
  | RemoveMet m d => (if d then remove_met_d m s else remove_met_nd m s, Ok)
  | SetBounds r l u => set_bounds r l u s
  | SetLb r l => set_lb r l s
  | SetUb r u => set_ub r u s
  | KnockOut r => set_bounds r (Fn q0) (Fn q0) s
  | AddSt r l c => add_st r l c true s
  | SubSt r l c => add_st r (neg_list l) c true s
  | SetObj l => set_obj l false s
  | SetObjCoef r c => if rin s r then set_obj [(r, c)] true s else (s, RaiseOther)
  | SetDir d => (set_dir d s, Ok)
  | Imul r c => (imul r c s, Ok)
  | Enter => (enter_ctx s, Ok)
  | Exit => exit_ctx s
  end.

Definition run (ops : list op) (s : st) : st := fold_left (fun a o => fst (step a o)) ops s.
