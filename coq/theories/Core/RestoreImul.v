(* C03: undo lemma of Reaction.__imul__ (scaling a reaction of the model inside a block).
   Tool: a state that satisfies the invariant is determined by its content (`Inv_ext`), so the replayed
   state only has to be compared with the state before the operation on the Python-side fields. *)
From Coq Require Import ZArith QArith Qcanon List Bool Lia FunctionalExtensionality.
From Cobra.Core Require Import Model Inv Preserve RestoreBase RestoreOps RestoreStruct.
Import ListNotations.
Open Scope Z_scope.
Local Arguments Z.eqb : simpl never.
Local Arguments memz : simpl never.

(* ---------- the solver part of a state is a function of its content ---------- *)
Lemma Inv_ext (a b : st) :
  Inv a -> Inv b ->
  (forall r, rin a r = rin b r) -> (forall r, lb a r = lb b r) -> (forall r, ub a r = ub b r) ->
  (forall r m, sto a r m = sto b r m) -> (forall m, min a m = min b m) -> (forall m r, back a m r = back b m r) ->
  (forall n, oc a n = oc b n) -> odir a = odir b -> ctx a = ctx b -> rids a = rids b -> mids a = mids b -> a = b.
Proof.
  intros Ia Ib Hrin Hlb Hub Hsto Hmin Hback Hoc Hod Hctx Hri Hmi.
  assert (Hvin : forall n, vin a n = vin b n).
  { intros [r [|]].
    - change (r, true) with (R r). destruct (i_vars a Ia r) as [_ X]. destruct (i_vars b Ib r) as [_ Y]. rewrite X, Y. apply Hrin.
    - change (r, false) with (F r). destruct (i_vars a Ia r) as [X _]. destruct (i_vars b Ib r) as [Y _]. rewrite X, Y. apply Hrin. }
  assert (Hvb : forall r, vlb a (F r) = vlb b (F r) /\ vub a (F r) = vub b (F r) /\
                          vlb a (R r) = vlb b (R r) /\ vub a (R r) = vub b (R r)).
  { intros r. destruct (rin a r) eqn:Er.
    - pose proof (i_vb a Ia r Er) as X. assert (Er' : rin b r = true) by (rewrite <- Hrin; exact Er).
      pose proof (i_vb b Ib r Er') as Y. rewrite (Hlb r), (Hub r) in X. rewrite <- Y in X.
      injection X as X1 X2 X3 X4. tauto.
    - assert (Er' : rin b r = false) by (rewrite <- Hrin; exact Er).
      destruct (i_vars a Ia r) as [A1 A2]. destruct (i_vars b Ib r) as [B1 B2].
      rewrite Er in A1, A2. rewrite Er' in B1, B2.
      destruct (i_vabs a Ia _ A1) as [P1 P2]. destruct (i_vabs a Ia _ A2) as [P3 P4].
      destruct (i_vabs b Ib _ B1) as [Q1 Q2]. destruct (i_vabs b Ib _ B2) as [Q3 Q4].
      rewrite P1, P2, P3, P4, Q1, Q2, Q3, Q4. tauto. }
  apply st_ext; try assumption.
  - intros [r [|]]; [change (r, true) with (R r)|change (r, false) with (F r)]; apply (Hvb r).
  - intros [r [|]]; [change (r, true) with (R r)|change (r, false) with (F r)]; apply (Hvb r).
  - intros m. rewrite (i_rows a Ia m), (i_rows b Ib m). apply Hmin.
  - intros m [r [|]].
    + change (r, true) with (R r). destruct (i_co a Ia m r) as [_ X]. destruct (i_co b Ib m r) as [_ Y].
      rewrite X, Y, Hrin, Hmin, Hsto. reflexivity.
    + change (r, false) with (F r). destruct (i_co a Ia m r) as [X _]. destruct (i_co b Ib m r) as [Y _].
      rewrite X, Y, Hrin, Hmin, Hsto. reflexivity.
Qed.

(* ---------- what populate and the bounds setters leave alone ---------- *)
Definition same_rest (y x : st) : Prop :=
  rin y = rin x /\ sto y = sto x /\ min y = min x /\ back y = back x /\ oc y = oc x /\ odir y = odir x /\
  rids y = rids x /\ mids y = mids x.
Lemma same_rest_refl x : same_rest x x.
Proof. repeat split. Qed.
Lemma same_rest_trans a b c : same_rest a b -> same_rest b c -> same_rest a c.
Proof.
  intros [A1 [A2 [A3 [A4 [A5 [A6 [A7 A8]]]]]]] [B1 [B2 [B3 [B4 [B5 [B6 [B7 B8]]]]]]].
  repeat split; congruence.
Qed.
Lemma same_rest_record u x : same_rest (record u x) x.
Proof. repeat split; recs; reflexivity. Qed.

Lemma populate_frame r x :
  same_rest (populate r x) x /\ lb (populate r x) = lb x /\ ub (populate r x) = ub x /\ ctx (populate r x) = ctx x.
Proof.
  unfold populate, update_variable_bounds. destruct (rin x r).
  - destruct (split_bounds (lb x r) (ub x r)) as [[fl fu] [rl ru]]. repeat split.
  - repeat split.
Qed.

Lemma raw_set_bounds_rest r l u x :
  same_rest (raw_set_bounds r l u x) x /\ lb (raw_set_bounds r l u x) = upd (lb x) r l /\
  ub (raw_set_bounds r l u x) = upd (ub x) r u.
Proof.
  rewrite raw_set_bounds_rsb. unfold rsb. destruct (split_bounds l u) as [[fl fu] [rl ru]]. repeat split.
Qed.

Lemma set_bounds_rest r l u x : same_rest (fst (set_bounds r l u x)) x.
Proof.
  unfold set_bounds. destruct (rctx x r && eb_eqb (lb x r) l && eb_eqb (ub x r) u); [apply same_rest_refl|].
  assert (H1 : same_rest (if rctx x r then record (USetBounds r (lb x r) (ub x r)) x else x) x)
    by (destruct (rctx x r); [apply same_rest_record|apply same_rest_refl]).
  destruct (eb_gt l u); cbn [fst]; [exact H1|].
  eapply same_rest_trans; [|exact H1]. apply raw_set_bounds_rest.
Qed.

(* ---------- small facts about numbers ---------- *)
Lemma eb_opp_invol b : eb_opp (eb_opp b) = b.
Proof. destruct b; cbn; try reflexivity. f_equal. apply Qcopp_involutive. Qed.

Lemma qlt_inv c : c <> q0 -> qlt (/ c)%Qc q0 = qlt c q0.
Proof.
  intros Hc. unfold qlt, qle, q0.
  destruct (Qle_bool (this (Q2Qc 0)) (this c)) eqn:E1; destruct (Qle_bool (this (Q2Qc 0)) (this (/ c)%Qc)) eqn:E2; try reflexivity; exfalso.
  - apply Qle_bool_iff in E1. assert (H : ~ (0 <= this (/ c)%Qc)%Q) by (intros H; apply Qle_bool_iff in H; cbn in *; congruence).
    apply H. cbn. rewrite Qred_correct. cbn in E1. apply Qinv_le_0_compat. exact E1.
  - apply Qle_bool_iff in E2. assert (H : ~ (0 <= this c)%Q) by (intros H; apply Qle_bool_iff in H; cbn in *; congruence).
    apply H. cbn in E2. rewrite Qred_correct in E2. apply Qinv_le_0_compat in E2. rewrite Qinv_involutive in E2. exact E2.
Qed.

Lemma scale_back a c : c <> q0 -> (a * c * / c)%Qc = a.
Proof. intros Hc. field. exact Hc. Qed.

Lemma inv_nonzero c : c <> q0 -> (/ c)%Qc <> q0.
Proof.
  intros Hc E. apply Hc. rewrite <- (Qcmult_1_l c), <- (Qcmult_inv_l c Hc) at 1.
  rewrite E. unfold q0. ring.
Qed.

Lemma eb_gt_opp a b : eb_gt (eb_opp b) (eb_opp a) = eb_gt a b.
Proof.
  destruct a as [| x |], b as [| y |]; cbn; try reflexivity.
  unfold qlt, qle. cbn [this Qcopp Q2Qc].
  assert (E : forall p q : Q, Qle_bool (Qred (- p)) (Qred (- q)) = Qle_bool q p).
  { intros p q. destruct (Qle_bool q p) eqn:E1.
    - apply Qle_bool_iff. apply Qle_bool_iff in E1. rewrite !Qred_correct. apply Qopp_le_compat. exact E1.
    - destruct (Qle_bool (Qred (- p)) (Qred (- q))) eqn:E2; [|reflexivity].
      apply Qle_bool_iff in E2. rewrite !Qred_correct in E2. apply Qopp_le_compat in E2. rewrite !Qopp_involutive in E2.
      apply Qle_bool_iff in E2. congruence. }
  rewrite E. reflexivity.
Qed.

(* ---------- the fields of a scaled state ---------- *)
(* the state after the bounds part of imul *)
Definition imul_s1 (r : Z) (c : Qc) (s : st) : st :=
  if qlt c q0 then fst (set_bounds r (eb_opp (ub s r)) (eb_opp (lb s r)) s) else s.

Lemma imul_frame r c s :
  rin (imul r c s) = rin s /\ sto (imul r c s) = upd (sto s) r (fun m => (sto s r m * c)%Qc) /\
  min (imul r c s) = min s /\ back (imul r c s) = back s /\ oc (imul r c s) = oc s /\ odir (imul r c s) = odir s /\
  rids (imul r c s) = rids s /\ mids (imul r c s) = mids s /\
  lb (imul r c s) = lb (imul_s1 r c s) /\ ub (imul r c s) = ub (imul_s1 r c s).
Proof.
  unfold imul. fold (imul_s1 r c s).
  assert (H1 : same_rest (imul_s1 r c s) s).
  { unfold imul_s1. destruct (qlt c q0); [apply set_bounds_rest|apply same_rest_refl]. }
  destruct H1 as [A1 [A2 [A3 [A4 [A5 [A6 [A7 A8]]]]]]].
  set (s1 := imul_s1 r c s) in *. rewrite A2.
  set (s2 := set_sto s1 (upd (sto s) r (fun m => (sto s r m * c)%Qc))).
  set (s3 := if rin s2 r then populate r s2 else s2).
  assert (H3 : same_rest s3 s2 /\ lb s3 = lb s2 /\ ub s3 = ub s2).
  { unfold s3. destruct (rin s2 r).
    - destruct (populate_frame r s2) as [X [Y [Z _]]]. tauto.
    - split; [apply same_rest_refl|split; reflexivity]. }
  destruct H3 as [[B1 [B2 [B3 [B4 [B5 [B6 [B7 B8]]]]]]] [B9 B10]].
  destruct (rctx s3 r); recs; rewrite ?B1, ?B2, ?B3, ?B4, ?B5, ?B6, ?B7, ?B8, ?B9, ?B10; unfold s2;
    cbn [rin lb ub sto min back oc odir rids mids set_sto]; repeat split; assumption.
Qed.

Lemma imul_ctx_nil r c x : ctx x = [] -> ctx (imul r c x) = [].
Proof.
  intros Hx. unfold imul.
  set (s1 := if qlt c q0 then fst (set_bounds r (eb_opp (ub x r)) (eb_opp (lb x r)) x) else x).
  assert (H1 : ctx s1 = []).
  { unfold s1. destruct (qlt c q0); [|exact Hx]. unfold set_bounds, rctx, in_ctx. rewrite Hx. cbn [andb].
    destruct (eb_gt _ _); cbn [fst]; [exact Hx|]. rewrite ctx_raw_set_bounds. exact Hx. }
  set (s2 := set_sto s1 _).
  set (s3 := if rin s2 r then populate r s2 else s2).
  assert (H3 : ctx s3 = []).
  { unfold s3. destruct (rin s2 r); [|exact H1]. destruct (populate_frame r s2) as [_ [_ [_ X]]]. rewrite X. exact H1. }
  unfold rctx, in_ctx. rewrite H3. cbn [andb]. exact H3.
Qed.

(* bounds of the first phase: in a context (the operation) and without one (its replay) *)
Lemma imul_s1_bounds_ctx s r c h rest : V s -> rin s r = true -> ctx s = h :: rest -> qlt c q0 = true ->
  forall r0, lb (imul_s1 r c s) r0 = upd (lb s) r (eb_opp (ub s r)) r0 /\
             ub (imul_s1 r c s) r0 = upd (ub s) r (eb_opp (lb s r)) r0.
Proof.
  intros HV Hr Hc Hq r0. unfold imul_s1. rewrite Hq. unfold set_bounds, rctx, in_ctx. rewrite Hc, Hr. cbn [andb].
  destruct (eb_eqb (lb s r) (eb_opp (ub s r)) && eb_eqb (ub s r) (eb_opp (lb s r))) eqn:Eq.
  - apply andb_true_iff in Eq as [E1 E2]. apply eb_eqb_true in E1, E2. cbn [fst]. unfold upd.
    destruct (Z.eqb_spec r0 r); subst; [split; assumption|split; reflexivity].
  - rewrite eb_gt_opp, (HV r). cbn [fst].
    destruct (raw_set_bounds_rest r (eb_opp (ub s r)) (eb_opp (lb s r)) (record (USetBounds r (lb s r) (ub s r)) s)) as [_ [X Y]].
    rewrite X, Y. recs. split; reflexivity.
Qed.
Lemma imul_s1_bounds_noctx x r c : ctx x = [] -> qlt c q0 = true -> eb_gt (eb_opp (ub x r)) (eb_opp (lb x r)) = false ->
  lb (imul_s1 r c x) = upd (lb x) r (eb_opp (ub x r)) /\ ub (imul_s1 r c x) = upd (ub x) r (eb_opp (lb x r)).
Proof.
  intros Hx Hq Hg. unfold imul_s1. rewrite Hq. unfold set_bounds, rctx, in_ctx. rewrite Hx. cbn [andb]. rewrite Hg. cbn [fst].
  destruct (raw_set_bounds_rest r (eb_opp (ub x r)) (eb_opp (lb x r)) x) as [_ [X Y]]. split; assumption.
Qed.

Lemma populate_same y r : Inv y -> rin y r = true -> populate r y = y.
Proof.
  intros HI Hr. rewrite (populate_explicit r y Hr). unfold populated.
  pose proof (i_vb y HI r Hr) as HB. destruct (split_bounds (lb y r) (ub y r)) as [[fl fu] [rl ru]].
  injection HB as B1 B2 B3 B4.
  apply st_ext; fields; intros; triv.
  - destruct (name_eqb n (R r)) eqn:E1; [apply name_eqb_true in E1; subst; congruence|].
    destruct (name_eqb n (F r)) eqn:E2; [apply name_eqb_true in E2; subst; congruence|reflexivity].
  - destruct (name_eqb n (R r)) eqn:E1; [apply name_eqb_true in E1; subst; congruence|].
    destruct (name_eqb n (F r)) eqn:E2; [apply name_eqb_true in E2; subst; congruence|reflexivity].
  - destruct (i_co y HI m r) as [D1 D2]. rewrite Hr in D1, D2. cbn [andb] in D1, D2.
    destruct (isz (sto y r m)) eqn:Ez; cbn [negb]; rewrite ?andb_false_r, ?andb_true_r; [reflexivity|].
    apply isz_false in Ez. destruct (w_fwd y HI r m Hr Ez) as [X _]. rewrite X in D1, D2.
    destruct (name_eqb n (F r)) eqn:E1; [apply name_eqb_true in E1; subst; congruence|].
    destruct (name_eqb n (R r)) eqn:E2; [apply name_eqb_true in E2; subst; congruence|reflexivity].
Qed.

(* ---------- the undo lemma ---------- *)
Lemma imul_undone s r c : Inv s -> V s -> rin s r = true -> c <> q0 -> undone s (imul r c s).
Proof.
  intros HI HV Hr Hc h rest Hctx.
  pose proof (imul_Inv s r c HI Hc) as HI'.
  destruct (imul_frame r c s) as [F1 [F2 [F3 [F4 [F5 [F6 [F7 [F8 [F9 F10]]]]]]]]].
  (* the bounds part and what it registers *)
  assert (U1 : undone s (imul_s1 r c s)).
  { unfold imul_s1. destruct (qlt c q0); [apply set_bounds_undone; assumption|apply undone_refl]. }
  destruct (U1 h rest Hctx) as [nb [C1 _]].
  assert (Hnb : nb = [] \/ nb = [USetBounds r (lb s r) (ub s r)]).
  { revert C1. unfold imul_s1. destruct (qlt c q0).
    - unfold set_bounds, rctx, in_ctx. rewrite Hctx, Hr. cbn [andb].
      destruct (eb_eqb (lb s r) (eb_opp (ub s r)) && eb_eqb (ub s r) (eb_opp (lb s r))).
      + cbn [fst]. rewrite Hctx. intros E. injection E as E. left.
        apply (app_inv_tail h nb []). symmetry. exact E.
      + assert (E0 : ctx (fst (if eb_gt (eb_opp (ub s r)) (eb_opp (lb s r))
                     then (record (USetBounds r (lb s r) (ub s r)) s, RaiseValueError)
                     else (raw_set_bounds r (eb_opp (ub s r)) (eb_opp (lb s r)) (record (USetBounds r (lb s r) (ub s r)) s), Ok)))
                     = (USetBounds r (lb s r) (ub s r) :: h) :: rest).
        { destruct (eb_gt _ _); cbn [fst]; [|rewrite ctx_raw_set_bounds]; apply ctx_record; exact Hctx. }
        rewrite E0. intros E. injection E as E. right.
        apply (app_inv_tail h nb [USetBounds r (lb s r) (ub s r)]). symmetry. exact E.
    - rewrite Hctx. intros E. injection E as E. left. apply (app_inv_tail h nb []). symmetry. exact E. }
  (* the context of the result *)
  assert (C3 : ctx (imul r c s) = (UImul r (/ c)%Qc :: UPopulate r :: nb ++ h) :: rest).
  { unfold imul. fold (imul_s1 r c s).
    set (s2 := set_sto (imul_s1 r c s) _).
    assert (Hr2 : rin s2 r = true).
    { unfold s2. cbn [rin set_sto]. unfold imul_s1. destruct (qlt c q0); [|exact Hr].
      destruct (set_bounds_rest r (eb_opp (ub s r)) (eb_opp (lb s r)) s) as [X _]. rewrite X. exact Hr. }
    rewrite Hr2. destruct (populate_frame r s2) as [[P1 _] [_ [_ P2]]].
    unfold rctx, in_ctx. rewrite P1, P2, Hr2. unfold s2 at 1. cbn [ctx set_sto]. rewrite C1. cbn [andb].
    rewrite (ctx_record _ _ (UPopulate r :: nb ++ h) rest); [reflexivity|]. apply ctx_record.
    rewrite P2. unfold s2. cbn [ctx set_sto]. exact C1. }
  exists (UImul r (/ c)%Qc :: UPopulate r :: nb). split; [exact C3|].
  rewrite !reset_cons. cbn [run_undo].
  (* x: the scaled content; y: after replaying the inverse scaling and the re-population *)
  set (x := body (imul r c s)).
  assert (Hx : ctx x = []) by reflexivity.
  assert (Ix : Inv x) by (apply Inv_body; exact HI').
  assert (Hrx : rin x r = true) by (unfold x; cbn [body set_ctx rin]; rewrite F1; exact Hr).
  pose proof (imul_Inv x r (/ c)%Qc Ix (inv_nonzero c Hc)) as Iy.
  destruct (imul_frame r (/ c)%Qc x) as [G1 [G2 [G3 [G4 [G5 [G6 [G7 [G8 [G9 G10]]]]]]]]].
  assert (Hry : rin (imul r (/ c)%Qc x) r = true) by (rewrite G1; exact Hrx).
  rewrite Hry, (populate_same _ r Iy Hry).
  assert (Ey : imul r (/ c)%Qc x = body s).
  { apply Inv_ext; [exact Iy|apply Inv_body; exact HI| | | | | | | | | | |].
    - intros r0. rewrite G1. unfold x. cbn [body set_ctx rin]. rewrite F1. reflexivity.
    - (* lb *) intros r0. rewrite G9. cbn [body set_ctx lb].
      destruct (qlt c q0) eqn:Eq.
      + destruct (imul_s1_bounds_ctx s r c h rest HV Hr Hctx Eq r) as [L1 L2]. rewrite upd_same in L1, L2.
        assert (Lx : lb x r = eb_opp (ub s r) /\ ub x r = eb_opp (lb s r)).
        { unfold x. cbn [body set_ctx lb ub]. rewrite F9, F10. split; assumption. }
        destruct Lx as [Lx Ux].
        destruct (imul_s1_bounds_noctx x r (/ c)%Qc Hx) as [X _].
        { rewrite qlt_inv by exact Hc. exact Eq. }
        { rewrite Lx, Ux, !eb_opp_invol. apply HV. }
        rewrite X, Ux, eb_opp_invol. unfold upd. destruct (Z.eqb_spec r0 r) as [->|Hne]; [reflexivity|].
        unfold x. cbn [body set_ctx lb]. rewrite F9.
        destruct (imul_s1_bounds_ctx s r c h rest HV Hr Hctx Eq r0) as [L3 _]. rewrite L3. apply upd_other. exact Hne.
      + unfold imul_s1 at 1. rewrite (qlt_inv c Hc), Eq. unfold x. cbn [body set_ctx lb]. rewrite F9.
        unfold imul_s1. rewrite Eq. reflexivity.
    - (* ub *) intros r0. rewrite G10. cbn [body set_ctx ub].
      destruct (qlt c q0) eqn:Eq.
      + destruct (imul_s1_bounds_ctx s r c h rest HV Hr Hctx Eq r) as [L1 L2]. rewrite upd_same in L1, L2.
        assert (Lx : lb x r = eb_opp (ub s r) /\ ub x r = eb_opp (lb s r)).
        { unfold x. cbn [body set_ctx lb ub]. rewrite F9, F10. split; assumption. }
        destruct Lx as [Lx Ux].
        destruct (imul_s1_bounds_noctx x r (/ c)%Qc Hx) as [_ X].
        { rewrite qlt_inv by exact Hc. exact Eq. }
        { rewrite Lx, Ux, !eb_opp_invol. apply HV. }
        rewrite X, Lx, eb_opp_invol. unfold upd. destruct (Z.eqb_spec r0 r) as [->|Hne]; [reflexivity|].
        unfold x. cbn [body set_ctx ub]. rewrite F10.
        destruct (imul_s1_bounds_ctx s r c h rest HV Hr Hctx Eq r0) as [_ L3]. rewrite L3. apply upd_other. exact Hne.
      + unfold imul_s1 at 1. rewrite (qlt_inv c Hc), Eq. unfold x. cbn [body set_ctx ub]. rewrite F10.
        unfold imul_s1. rewrite Eq. reflexivity.
    - (* sto *) intros r0 m. rewrite G2. unfold x. cbn [body set_ctx sto]. rewrite F2. unfold upd.
      destruct (Z.eqb_spec r0 r) as [->|Hne]; [|reflexivity]. rewrite Z.eqb_refl. apply scale_back. exact Hc.
    - intros m. rewrite G3. unfold x. cbn [body set_ctx min]. rewrite F3. reflexivity.
    - intros m r0. rewrite G4. unfold x. cbn [body set_ctx back]. rewrite F4. reflexivity.
    - intros n. rewrite G5. unfold x. cbn [body set_ctx oc]. rewrite F5. reflexivity.
    - rewrite G6. unfold x. cbn [body set_ctx odir]. exact F6.
    - rewrite (imul_ctx_nil r (/ c)%Qc x Hx). reflexivity.
    - rewrite G7. unfold x. cbn [body set_ctx rids]. exact F7.
    - rewrite G8. unfold x. cbn [body set_ctx mids]. exact F8. }
  rewrite Ey. destruct Hnb as [->| ->]; [reflexivity|].
  cbn [reset_from fold_left run_undo]. change (lb s r) with (lb (body s) r). change (ub s r) with (ub (body s) r).
  cbn [body set_ctx lb ub]. rewrite (HV r). apply (raw_set_bounds_same (body s) r (Inv_body s HI)).
Qed.

Lemma imul_V r c s : V s -> V (imul r c s).
Proof.
  intros HV r0. destruct (imul_frame r c s) as [_ [_ [_ [_ [_ [_ [_ [_ [F9 F10]]]]]]]]]. rewrite F9, F10.
  unfold imul_s1. destruct (qlt c q0); [apply set_bounds_V; exact HV|apply HV].
Qed.
