(* The variable bounds the Core model gives a reaction's forward/reverse pair are those of
   LP/Fba.v (Reaction.update_variable_bounds), so the net flux ranges over exactly [lb, ub]. *)
From Coq Require Import ZArith QArith Qcanon List Bool Lqa.
From Cobra.LP Require Import Defs Cert Fba.
From Cobra.Core Require Import Model Inv.
Open Scope Q_scope.

Definition to_e (b : eb) : ebound :=
  match b with NInf => NegInf | PInf => PosInf | Fn q => Fin (this q) end.

Definition eb_equiv (a b : ebound) : Prop :=
  match a, b with
  | NegInf, NegInf | PosInf, PosInf => True
  | Fin x, Fin y => x == y
  | _, _ => False
  end.
Definition pair_equiv (a b : ebound * ebound) : Prop := eb_equiv (fst a) (fst b) /\ eb_equiv (snd a) (snd b).

Lemma inb_equiv a b v : pair_equiv a b -> (inb a v <-> inb b v).
Proof.
  destruct a as [a1 a2], b as [b1 b2]. unfold pair_equiv, inb; cbn [fst snd]. intros [H1 H2].
  assert (L : le_lo a1 v <-> le_lo b1 v).
  { destruct a1, b1; cbn in H1; try contradiction; cbn; try tauto. split; intros; lra. }
  assert (U : le_hi v a2 <-> le_hi v b2).
  { destruct a2, b2; cbn in H2; try contradiction; cbn; try tauto. split; intros; lra. }
  tauto.
Qed.

Lemma this_q0 : this q0 = 0.
Proof. reflexivity. Qed.

Lemma this_opp q : this (- q)%Qc == - this q.
Proof. unfold Qcopp, Q2Qc. cbn [this]. apply Qred_correct. Qed.

Lemma eb_pos_epos b : eb_pos b = epos (to_e b).
Proof. destruct b; cbn; reflexivity. Qed.
Lemma eb_neg_eneg b : eb_neg b = eneg (to_e b).
Proof. destruct b; cbn; reflexivity. Qed.

Definition to_e2 (p : eb * eb) : ebound * ebound := (to_e (fst p), to_e (snd p)).

Lemma split_bounds_agree lb ub :
  pair_equiv (to_e2 (fst (Model.split_bounds lb ub))) (fst (Fba.split_bounds (to_e lb) (to_e ub))) /\
  pair_equiv (to_e2 (snd (Model.split_bounds lb ub))) (snd (Fba.split_bounds (to_e lb) (to_e ub))).
Proof.
  unfold Model.split_bounds, Fba.split_bounds. rewrite <- eb_pos_epos, <- eb_neg_eneg.
  destruct (eb_pos lb); [|destruct (eb_neg ub)]; unfold pair_equiv, to_e2; cbn [fst snd];
    destruct lb, ub; cbn; repeat split; try reflexivity; try apply this_opp.
Qed.

(* membership of a Qc value in a pair of Core bounds *)
Definition qc_inb (p : eb * eb) (v : Qc) : Prop := inb (to_e2 p) (this v).

Theorem core_net_flux_range lb ub (v : Q) :
  valid (to_e lb) (to_e ub) ->
  (inb (to_e lb, to_e ub) v <->
   exists f r, inb (to_e2 (fst (Model.split_bounds lb ub))) f /\
               inb (to_e2 (snd (Model.split_bounds lb ub))) r /\ v == f - r).
Proof.
  intros Hv. destruct (split_bounds_agree lb ub) as [Hf Hr].
  rewrite (net_flux_range (to_e lb) (to_e ub) v Hv). split; intros [f [r [A [B C]]]]; exists f, r.
  - split; [apply (inb_equiv _ _ f Hf); exact A|]. split; [apply (inb_equiv _ _ r Hr); exact B|exact C].
  - split; [apply (inb_equiv _ _ f Hf); exact A|]. split; [apply (inb_equiv _ _ r Hr); exact B|exact C].
Qed.
