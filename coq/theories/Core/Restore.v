(* C03: leaving a `with model:` block restores the model.  Every operation of the kernel registers
   undo closures whose replay (newest first, with the context stack hidden) gives back exactly the state
   before the operation; by induction over the block, and over the nesting of blocks, the exit of a
   block restores the state at its entry.

   Equality of states is Leibniz equality; since the fields are functions this uses
   functional extensionality (Coq.Logic.FunctionalExtensionality, a standard-library axiom). *)
From Coq Require Import ZArith QArith Qcanon List Bool Lia FunctionalExtensionality.
From Cobra.Core Require Import Model Inv Preserve.
Import ListNotations.
Open Scope Z_scope.

Lemma st_ext (a b : st) :
  (forall r, rin a r = rin b r) -> (forall r, lb a r = lb b r) -> (forall r, ub a r = ub b r) ->
  (forall r m, sto a r m = sto b r m) -> (forall m, min a m = min b m) -> (forall m r, back a m r = back b m r) ->
  (forall n, vin a n = vin b n) -> (forall n, vlb a n = vlb b n) -> (forall n, vub a n = vub b n) ->
  (forall m, cin a m = cin b m) -> (forall m n, co a m n = co b m n) -> (forall n, oc a n = oc b n) ->
  odir a = odir b -> ctx a = ctx b -> rids a = rids b -> mids a = mids b -> a = b.
Proof.
  destruct a, b; cbn. intros.
  f_equal; try assumption; try (extensionality x; auto); try (extensionality x; extensionality y; auto).
Qed.

Definition reset_from (h : list undo) (s : st) : st := fold_left (fun a u => run_undo u a) h s.
Definition body (s : st) : st := set_ctx s [].

Lemma reset_app h1 h2 s : reset_from (h1 ++ h2) s = reset_from h2 (reset_from h1 s).
Proof. apply fold_left_app. Qed.
Lemma body_body s : body (body s) = body s. Proof. reflexivity. Qed.
Lemma body_record u s : body (record u s) = body s.
Proof. unfold record. destruct (ctx s); reflexivity. Qed.
Lemma body_record_all us : forall s, body (record_all us s) = body s.
Proof. induction us as [|u us IH]; intros s; cbn; [reflexivity|]. rewrite IH. apply body_record. Qed.
Lemma ctx_body s : ctx (body s) = []. Proof. reflexivity. Qed.
Lemma set_ctx_eta s : set_ctx s (ctx s) = s. Proof. destruct s; reflexivity. Qed.

(* recording on a stack h :: rest *)
Lemma ctx_record u s h rest : ctx s = h :: rest -> ctx (record u s) = (u :: h) :: rest.
Proof. intros H. unfold record. rewrite H. reflexivity. Qed.
Lemma ctx_record_all us : forall s h rest, ctx s = h :: rest -> ctx (record_all us s) = (rev us ++ h) :: rest.
Proof.
  induction us as [|u us IH]; intros s h rest H; cbn [record_all fold_left rev app]; [exact H|].
  fold (record_all us (record u s)). rewrite (IH _ (u :: h) rest (ctx_record u s h rest H)).
  rewrite <- app_assoc. reflexivity.
Qed.

(* valid bounds: lb <= ub for every reaction (what _check_bounds maintains) *)
Definition V (s : st) : Prop := forall r, eb_gt (lb s r) (ub s r) = false.

(* the effect an operation must have so that a block can undo it *)
Definition undone (s s' : st) : Prop :=
  forall h rest, ctx s = h :: rest ->
  exists new, ctx s' = (new ++ h) :: rest /\ reset_from new (body s') = body s.

Lemma undone_refl s : undone s s.
Proof. intros h rest H. exists []. split; [exact H|reflexivity]. Qed.

Lemma undone_trans a b c : undone a b -> undone b c -> undone a c.
Proof.
  intros H1 H2 h rest Ha. destruct (H1 h rest Ha) as [n1 [C1 R1]]. destruct (H2 (n1 ++ h) rest C1) as [n2 [C2 R2]].
  exists (n2 ++ n1). split; [rewrite C2, app_assoc; reflexivity|]. rewrite reset_app, R2, R1. reflexivity.
Qed.

(* ---------- the bounds setters ---------- *)
Lemma raw_set_bounds_same s r : Inv s -> ctx s = [] -> raw_set_bounds r (lb s r) (ub s r) s = s.
Proof.
  intros [A B C D E G H I J K] Hc. unfold raw_set_bounds, update_variable_bounds. cbn [rin set_lbub lb ub].
  rewrite !upd_same.
  destruct (rin s r) eqn:Er.
  - pose proof (B r Er) as Hb. destruct (split_bounds (lb s r) (ub s r)) as [[fl fu] [rl ru]].
    injection Hb as B1 B2 B3 B4.
    apply st_ext; cbn; intros; try reflexivity.
    + unfold upd. destruct (r0 =? r) eqn:E0; [apply Z.eqb_eq in E0; subst; reflexivity|reflexivity].
    + unfold upd. destruct (r0 =? r) eqn:E0; [apply Z.eqb_eq in E0; subst; reflexivity|reflexivity].
    + unfold updn. destruct (name_eqb n (R r)) eqn:E1; [apply name_eqb_true in E1; subst; congruence|].
      destruct (name_eqb n (F r)) eqn:E2; [apply name_eqb_true in E2; subst; congruence|reflexivity].
    + unfold updn. destruct (name_eqb n (R r)) eqn:E1; [apply name_eqb_true in E1; subst; congruence|].
      destruct (name_eqb n (F r)) eqn:E2; [apply name_eqb_true in E2; subst; congruence|reflexivity].
  - apply st_ext; cbn; intros; try reflexivity;
      unfold upd; destruct (r0 =? r) eqn:E0; try (apply Z.eqb_eq in E0; subst); reflexivity.
Qed.

Lemma raw_set_bounds_twice s r l u l' u' :
  raw_set_bounds r l' u' (raw_set_bounds r l u s) = raw_set_bounds r l' u' s.
Proof.
  unfold raw_set_bounds, update_variable_bounds. cbn [rin set_lbub lb ub].
  destruct (rin s r) eqn:Er.
  - rewrite !upd_same. destruct (split_bounds l u) as [[fl fu] [rl ru]].
    cbn [rin var_set_bounds set_vb lb ub set_lbub]. rewrite Er. rewrite !upd_same.
    destruct (split_bounds l' u') as [[fl' fu'] [rl' ru']].
    apply st_ext; cbn; intros; try reflexivity.
    + unfold upd. destruct (r0 =? r); reflexivity.
    + unfold upd. destruct (r0 =? r); reflexivity.
    + unfold updn. destruct (name_eqb n (R r)); [reflexivity|]. destruct (name_eqb n (F r)); reflexivity.
    + unfold updn. destruct (name_eqb n (R r)); [reflexivity|]. destruct (name_eqb n (F r)); reflexivity.
  - cbn [rin set_lbub]. rewrite Er. apply st_ext; cbn; intros; try reflexivity;
      unfold upd; destruct (r0 =? r); reflexivity.
Qed.

Lemma body_raw_set_bounds r l u s : body (raw_set_bounds r l u s) = raw_set_bounds r l u (body s).
Proof.
  unfold raw_set_bounds, update_variable_bounds. cbn [rin set_lbub body set_ctx].
  destruct (rin s r); [|reflexivity]. cbn [lb ub set_lbub]. destruct (split_bounds _ _) as [[? ?] [? ?]]. reflexivity.
Qed.

Lemma Inv_body s : Inv s -> Inv (body s).
Proof. apply Inv_ctx. Qed.

Lemma set_bounds_undone s r l u : Inv s -> V s -> rin s r = true -> undone s (fst (set_bounds r l u s)).
Proof.
  intros HI HV Hr h rest Hc. unfold set_bounds, rctx, in_ctx. rewrite Hc, Hr. cbn [andb].
  destruct (eb_eqb (lb s r) l && eb_eqb (ub s r) u) eqn:Eq.
  - exists []. split; [exact Hc|reflexivity].
  - exists [USetBounds r (lb s r) (ub s r)]. destruct (eb_gt l u) eqn:Eg; cbn [fst].
    + split; [apply ctx_record; exact Hc|].
      cbn [reset_from fold_left run_undo]. rewrite body_record. cbn [lb ub body set_ctx]. rewrite (HV r).
      apply (raw_set_bounds_same (body s) r (Inv_body s HI)). reflexivity.
    + split.
      * unfold raw_set_bounds, update_variable_bounds. cbn [rin set_lbub]. rewrite rin_record, Hr.
        cbn [lb ub set_lbub]. destruct (split_bounds _ _) as [[? ?] [? ?]]. cbn. apply ctx_record. exact Hc.
      * cbn [reset_from fold_left run_undo]. rewrite (HV r).
        rewrite body_raw_set_bounds, raw_set_bounds_twice, body_record.
        apply (raw_set_bounds_same (body s) r (Inv_body s HI)). reflexivity.
Qed.
