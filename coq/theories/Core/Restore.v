(* C03: blocks nested to any depth restore the state at their entry. *)
From Coq Require Import ZArith QArith Qcanon List Bool Lia FunctionalExtensionality.
From Cobra.Core Require Import Model Inv Preserve RestoreBase RestoreOps RestoreStruct RestoreSt RestoreImul RestoreMet.
Import ListNotations.
Open Scope Z_scope.

(* ---------- operations a block may contain ----------
   Every context-aware operation of the kernel.  Side conditions: an edited reaction belongs to the model (an
   object outside the model does not see the model's contexts, so its edits are not recorded by design); the
   scaling factor is not zero; remove_metabolites registers one closure per reaction of the identifier
   universe, which therefore has to be duplicate-free (a property of the initial universe: it never changes). *)
Definition ctx_ok (s : st) (o : op) : Prop :=
  match o with
  | SetBounds r _ _ | SetLb r _ | SetUb r _ | KnockOut r => rin s r = true
  | SetDir _ | SetObj _ | SetObjCoef _ _ => True
  | AddMet _ | RemoveRxn _ _ => True
  | AddRxn r => In r (rids s)
  | AddSt r l _ | SubSt r l _ => rin s r = true /\ (forall m, In m (map fst l) -> In m (mids s))
  | RemoveMet _ _ => NoDup (rids s)
  | Imul r c => rin s r = true /\ c <> q0
  | NewRxn _ _ _ _ | Enter | Exit => False
  end.

Lemma ctx_ok_op_ok s o : ctx_ok s o -> op_ok s o.
Proof. destruct o; cbn; intros H; try contradiction; split; cbn; auto; tauto. Qed.

Lemma step_undone s o : Inv s -> V s -> ctx_ok s o -> undone s (fst (step s o)).
Proof.
  intros HI HV Hok. destruct o; cbn [ctx_ok] in Hok; try contradiction; cbn [step].
  - cbn [fst]. apply add_rxn_undone; assumption.
  - cbn [fst]. apply remove_rxn_undone; assumption.
  - apply add_met_undone; assumption.
  - cbn [fst]. destruct destructive; [apply remove_met_d_undone|apply remove_met_nd_undone]; assumption.
  - apply set_bounds_undone; assumption.
  - apply set_lb_undone; assumption.
  - apply set_ub_undone; assumption.
  - apply set_bounds_undone; assumption.
  - apply add_st_undone; tauto.
  - apply add_st_undone; tauto.
  - apply set_obj_undone; assumption.
  - destruct (rin s r); [apply set_obj_undone; assumption|apply undone_refl].
  - cbn [fst]. apply set_dir_undone.
  - cbn [fst]. apply imul_undone; tauto.
Qed.

(* the structural operations do not touch any bound *)
Lemma add_st_bounds r l c v s : lb (fst (add_st r l c v s)) = lb s /\ ub (fst (add_st r l c v s)) = ub s.
Proof.
  unfold add_st.
  match goal with |- lb (fst (if ?cnd then _ else _)) = _ /\ _ => destruct cnd end; [destruct c|]; cbn [fst];
    rewrite ?lb_record, ?ub_record; (destruct (rin s r); [unfold model_add_mets; cbn; rewrite lb_record_all, ub_record_all|];
    split; reflexivity).
Qed.
Lemma add_rxn_bounds r s : lb (add_rxn r s) = lb s /\ ub (add_rxn r s) = ub s.
Proof.
  unfold add_rxn. destruct (rin s r); [split; reflexivity|]. rewrite lb_record_all, ub_record_all.
  unfold add_rxn_content. destruct (split_bounds _ _) as [[? ?] [? ?]]. split; reflexivity.
Qed.
Lemma remove_rxn_bounds r o s : lb (remove_rxn r o s) = lb s /\ ub (remove_rxn r o s) = ub s.
Proof.
  unfold remove_rxn. destruct (negb (rin s r)); [split; reflexivity|]. rewrite lb_record_all, ub_record_all. split; reflexivity.
Qed.

Lemma step_V s o : V s -> ctx_ok s o -> V (fst (step s o)).
Proof.
  intros HV Hok. destruct o; cbn [ctx_ok] in Hok; try contradiction; cbn [step].
  - cbn [fst]. intros r0. destruct (add_rxn_bounds r s) as [X Y]. rewrite X, Y. apply HV.
  - cbn [fst]. intros r0. destruct (remove_rxn_bounds r orphans s) as [X Y]. rewrite X, Y. apply HV.
  - destruct (min s m); [exact HV|]. cbn [fst]. intros r0. unfold model_add_mets. rewrite lb_record_all, ub_record_all. apply HV.
  - cbn [fst]. intros r0. destruct destructive;
      [destruct (remove_met_d_bounds m s) as [X Y]|destruct (remove_met_nd_bounds m s) as [X Y]]; rewrite X, Y; apply HV.
  - apply set_bounds_V; assumption.
  - apply set_lb_V; assumption.
  - apply set_ub_V; assumption.
  - apply set_bounds_V; assumption.
  - intros r0. destruct (add_st_bounds r l combine true s) as [X Y]. rewrite X, Y. apply HV.
  - intros r0. destruct (add_st_bounds r (neg_list l) combine true s) as [X Y]. rewrite X, Y. apply HV.
  - apply set_obj_V; assumption.
  - destruct (rin s r); [apply set_obj_V; assumption|exact HV].
  - cbn [fst]. unfold set_dir. destruct (_ && _); [exact HV|]. intros r0. cbn. destruct (in_ctx s); recs; apply HV.
  - cbn [fst]. apply imul_V. exact HV.
Qed.

(* ---------- blocks, nested to any depth ---------- *)
Inductive item := Op (o : op) | Block (l : list item).

Fixpoint run_item (s : st) (i : item) : st :=
  match i with
  | Op o => fst (step s o)
  | Block l => fst (exit_ctx (fold_left run_item l (enter_ctx s)))
  end.
Definition run_items (s : st) (l : list item) : st := fold_left run_item l s.

Fixpoint ok_item (s : st) (i : item) : Prop :=
  match i with
  | Op o => ctx_ok s o
  | Block l =>
      (fix ok_list (s : st) (l : list item) : Prop :=
         match l with [] => True | i :: l' => ok_item s i /\ ok_list (run_item s i) l' end) (enter_ctx s) l
  end.
Fixpoint ok_items (s : st) (l : list item) : Prop :=
  match l with [] => True | i :: l' => ok_item s i /\ ok_items (run_item s i) l' end.
Lemma ok_item_block s l : ok_item s (Block l) = ok_items (enter_ctx s) l.
Proof. cbn [ok_item]. generalize (enter_ctx s). induction l as [|i l IH]; intros x; cbn; [reflexivity|]. rewrite IH. reflexivity. Qed.

Lemma item_ind' (P : item -> Prop) :
  (forall o, P (Op o)) -> (forall l, Forall P l -> P (Block l)) -> forall i, P i.
Proof.
  intros HO HB. fix IH 1. intros [o|l]; [apply HO|]. apply HB.
  induction l as [|i l IHl]; constructor; [apply IH|exact IHl].
Qed.

Definition good (i : item) : Prop :=
  forall s, Inv s -> V s -> ok_item s i ->
    undone s (run_item s i) /\ Inv (run_item s i) /\ V (run_item s i).

Lemma good_list l : Forall good l ->
  forall s, Inv s -> V s -> ok_items s l ->
    undone s (run_items s l) /\ Inv (run_items s l) /\ V (run_items s l).
Proof.
  induction 1 as [|i l Hi _ IH]; intros s HI HV Hok; cbn [run_items fold_left ok_items] in *.
  - split; [apply undone_refl|tauto].
  - destruct Hok as [Hok1 Hok2]. destruct (Hi s HI HV Hok1) as [U1 [I1 V1]].
    destruct (IH (run_item s i) I1 V1 Hok2) as [U2 [I2 V2]]. split; [|tauto].
    eapply undone_trans; eassumption.
Qed.

Lemma block_identity l s :
  Inv s -> V s -> undone (enter_ctx s) (run_items (enter_ctx s) l) ->
  exit_ctx (run_items (enter_ctx s) l) = (s, Ok).
Proof.
  intros HI HV HU. destruct (HU [] (ctx s) eq_refl) as [new [Hc Hr]].
  unfold exit_ctx. rewrite Hc. rewrite app_nil_r in *. fold (body (run_items (enter_ctx s) l)).
  fold (reset_from new (body (run_items (enter_ctx s) l))). rewrite Hr.
  unfold body, enter_ctx. cbn. destruct s; reflexivity.
Qed.

Theorem all_good : forall i, good i.
Proof.
  apply item_ind'.
  - intros o s HI HV Hok. cbn [run_item ok_item] in *. split; [apply step_undone; assumption|].
    split; [apply step_Inv; [exact HI|apply ctx_ok_op_ok; exact Hok]|apply step_V; assumption].
  - intros l Hl s HI HV Hok. rewrite ok_item_block in Hok.
    assert (HIe : Inv (enter_ctx s)) by (apply Inv_ctx; exact HI).
    assert (HVe : V (enter_ctx s)) by exact HV.
    destruct (good_list l Hl (enter_ctx s) HIe HVe Hok) as [U _].
    cbn [run_item]. fold (run_items (enter_ctx s) l). rewrite (block_identity l s HI HV U). cbn [fst].
    split; [apply undone_refl|tauto].
Qed.

(* leaving a block - however its content is nested - gives back exactly the state at its entry,
   and the exit itself does not raise                                                        *)
Theorem context_restores s l :
  Inv s -> V s -> ok_items (enter_ctx s) l ->
  exit_ctx (run_items (enter_ctx s) l) = (s, Ok).
Proof.
  intros HI HV Hok. apply block_identity; [exact HI|exact HV|].
  assert (Hl : Forall good l) by (apply Forall_forall; intros i _; apply all_good).
  apply (good_list l Hl (enter_ctx s)); [apply Inv_ctx; exact HI|exact HV|exact Hok].
Qed.
