From Coq Require Import ZArith QArith Qcanon List Bool Lia FunctionalExtensionality.
(* C03: undo lemma of Reaction.add_metabolites / subtract_metabolites (combine or replace). *)
From Cobra.Core Require Import Model Inv Preserve RestoreBase RestoreOps RestoreStruct.
Import ListNotations.
Open Scope Z_scope.
Local Arguments Z.eqb : simpl never.
Local Arguments memz : simpl never.

Ltac fields2 := cbn [rin lb ub sto min back vin vlb vub cin co oc odir ctx rids mids
  set_rin set_lbub set_sto set_min set_back set_vin set_vb set_cin set_co set_oc set_odir set_ctx set_ids body
  solver_remove_cons solver_add_cons solver_remove_var solver_add_var var_set_bounds row_set mets_out run_undo].
Ltac triv2 := try match goal with |- ?x = ?x => reflexivity end.

(* the content of add_st on a reaction in the model, as one record *)
Definition add_st_content (r : Z) (l : list (Z * Qc)) (combine : bool) (s : st) : st :=
  let old := sto s r in let new := st_after s r l combine in
  let news := news_of s r l in
  mkSt (rin s) (lb s) (ub s) (upd (sto s) r new)
       (fun m => min s m || memz m news)
       (fun m r' => if (r' =? r) && memz m (touched l)
                    then if isz (new m) then false else if isz (old m) then true else back s m r'
                    else back s m r')
       (vin s) (vlb s) (vub s)
       (fun m => cin s m || memz m news)
       (fun m n => if (cin s m || memz m news) && (negb (isz (new m)) || memz m (touched l))
                   then if name_eqb n (F r) then new m else if name_eqb n (R r) then (- new m)%Qc else co s m n
                   else co s m n)
       (oc s) (odir s) (ctx s) (rids s) (mids s).

Ltac fields3 := cbn [rin lb ub sto min back vin vlb vub cin co oc odir ctx rids mids set_ctx body mets_out add_st_content].

Lemma body_add_st r l c v s : rin s r = true ->
  body (fst (add_st r l c v s)) = body (add_st_content r l c s).
Proof.
  intros Hr. unfold add_st. rewrite Hr.
  match goal with |- body (fst (if ?cnd then _ else _)) = _ => destruct cnd end; [destruct c|]; cbn [fst];
    rewrite ?body_record; unfold model_add_mets, add_st_content;
    apply st_ext; fields2; intros; triv2; recs; fields2; recs; reflexivity.
Qed.

Lemma ctx_add_st_nil r l c v x : ctx x = [] -> ctx (fst (add_st r l c v x)) = [].
Proof.
  intros Hx. unfold add_st.
  assert (R1 : forall u y, ctx y = [] -> ctx (record u y) = []) by (intros u y Hy; unfold record; rewrite Hy; exact Hy).
  assert (R2 : forall us y, ctx y = [] -> ctx (record_all us y) = []).
  { induction us as [|u us IH]; intros y Hy; cbn; [exact Hy|]. apply IH, R1, Hy. }
  match goal with |- ctx (fst (if ?cnd then _ else _)) = _ => destruct cnd end; [destruct c|]; cbn [fst]; try apply R1;
    (destruct (rin x r); [unfold model_add_mets; fields2; apply R2; fields2; exact Hx|fields2; exact Hx]).
Qed.
Lemma body_id x : ctx x = [] -> body x = x.
Proof. intros H. unfold body. rewrite <- H. apply set_ctx_eta. Qed.

Lemma touched_neg l : touched (neg_list l) = touched l.
Proof. unfold touched, neg_list. rewrite map_map. reflexivity. Qed.
Lemma assoc_neg m l : assoc_q m (neg_list l) = option_map Qcopp (assoc_q m l).
Proof. induction l as [|[a c] l IH]; cbn; [reflexivity|]. destruct (a =? m); [reflexivity|exact IH]. Qed.
Lemma assoc_some_touched m l : memz m (touched l) = true -> exists c, assoc_q m l = Some c.
Proof.
  intros H. destruct (assoc_q m l) eqn:E; [eauto|]. apply assoc_None in E. congruence.
Qed.
Lemma touched_olds (f : Z -> Qc) l : touched (map (fun mc : Z * Qc => (fst mc, f (fst mc))) l) = touched l.
Proof. unfold touched. rewrite map_map. reflexivity. Qed.
Lemma assoc_olds (f : Z -> Qc) m l :
  assoc_q m (map (fun mc : Z * Qc => (fst mc, f (fst mc))) l) = if memz m (touched l) then Some (f m) else None.
Proof.
  induction l as [|[a c] l IH]; cbn [map assoc_q touched fst]; [reflexivity|]. rewrite memz_cons, (Z.eqb_sym m a).
  destruct (Z.eqb_spec a m) as [->|Hne]; cbn [orb]; [reflexivity|exact IH].
Qed.

(* undoing a stoichiometry edit: any second edit l', c' that has the same keys and gives back the old
   coefficients, followed by the departure of the metabolites that joined                        *)
Lemma add_st_roundtrip s r l combine l' c' :
  Inv s -> rin s r = true ->
  touched l' = touched l ->
  (forall m, match assoc_q m l' with
             | Some c => new_coef c' (st_after s r l combine m) c
             | None => st_after s r l combine m end = sto s r m) ->
  mets_out (rev (news_of s r l))
    (body (add_st_content r l' c' (body (add_st_content r l combine s)))) = body s.
Proof.
  intros HI Hr Ht Hback.
  set (old := sto s r). set (new := st_after s r l combine). set (news := news_of s r l).
  assert (Hnews : forall m, memz m news = memz m (touched l) && negb (min s m) && isz (old m)).
  { intros m. unfold news, news_of. destruct (memz m (touched l) && negb (min s m) && isz (old m)) eqn:E.
    - apply andb_true_iff in E as [E E3]. apply andb_true_iff in E as [E1 E2].
      apply memz_In, filter_In. split; [apply memz_In; exact E1|]. unfold old in E3. rewrite E2, E3. reflexivity.
    - destruct (memz m (filter (fun m => negb (min s m) && isz (sto s r m)) (touched l))) eqn:E0; [|reflexivity].
      apply memz_In, filter_In in E0 as [X Y]. apply memz_In in X.
      unfold old in E. rewrite X in E. cbn [andb] in E. rewrite E in Y. discriminate. }
  assert (Hmin_t : forall m, memz m (touched l) = true -> min s m || memz m news = true).
  { intros m Hm. rewrite Hnews, Hm. cbn [andb]. destruct (min s m) eqn:Em; [reflexivity|]. cbn [negb andb orb].
    destruct (isz (old m)) eqn:Ez; [reflexivity|]. apply isz_false in Ez. destruct (w_fwd s HI r m Hr Ez). congruence. }
  assert (Hnews' : forall m, memz m (news_of (body (add_st_content r l combine s)) r l') = false).
  { intros m. unfold news_of. destruct (memz m (filter _ _)) eqn:E; [|reflexivity].
    apply memz_In, filter_In in E as [X Y]. rewrite Ht in X. apply memz_In in X.
    cbn [add_st_content body set_ctx min] in Y. fold news in Y. rewrite (Hmin_t m X) in Y. discriminate. }
  assert (Hn' : forall m, st_after (body (add_st_content r l combine s)) r l' c' m = old m).
  { intros m. unfold old. rewrite <- (Hback m). unfold st_after at 1. unfold add_st_content. fields2. rewrite upd_same. reflexivity. }
  apply st_ext; fields3; intros; triv2; rewrite ?Ht, ?memz_rev, ?Hnews', ?orb_false_r.
  - (* sto *) unfold upd. destruct (Z.eqb_spec r0 r) as [->|Hne]; [apply Hn'|reflexivity].
  - (* min *) fold news. rewrite Hnews.
    destruct (min s m); destruct (memz m (touched l)); destruct (isz (old m)); reflexivity.
  - (* back *) rewrite Hn', ?upd_same. fold new old.
    destruct (memz m news) eqn:En.
    + rewrite Hnews in En. apply andb_true_iff in En as [En E3]. apply andb_true_iff in En as [E1 E2].
      apply negb_true_iff in E2. symmetry. apply back_absent; assumption.
    + destruct (Z.eqb_spec r0 r) as [->|Hne]; cbn [andb]; [|reflexivity].
      destruct (memz m (touched l)) eqn:Et; [|reflexivity].
      destruct (isz (old m)) eqn:Eo.
      * apply isz_true in Eo. symmetry. destruct (back s m r) eqn:Eb; [|reflexivity].
        destruct (w_back s HI m r Eb) as [_ [_ Z]]. contradiction.
      * apply isz_false in Eo. destruct (w_fwd s HI r m Hr Eo) as [_ Y]. rewrite Y.
        destruct (isz (new m)); reflexivity.
  - (* cin *) fold news. rewrite Hnews, (i_rows s HI m).
    destruct (min s m); destruct (memz m (touched l)); destruct (isz (old m)); reflexivity.
  - (* co *) rewrite Hn', ?upd_same. fold news new old. rewrite (i_rows s HI m).
    destruct (memz m news) eqn:En.
    + rewrite Hnews in En. apply andb_true_iff in En as [En E3]. apply andb_true_iff in En as [E1 E2].
      apply negb_true_iff in E2. symmetry. apply co_absent_row; assumption.
    + rewrite !orb_false_r.
      destruct n as [rn bn]. unfold name_eqb, F, R. cbn [fst snd].
      destruct (i_co s HI m r) as [D1 D2]. rewrite Hr in D1, D2. cbn [andb] in D1, D2. unfold F, R in D1, D2.
      destruct (Z.eqb_spec rn r) as [->|Hne]; cbn [andb].
      * destruct (min s m) eqn:Em; cbn [andb].
        -- destruct (negb (isz (old m)) || memz m (touched l)) eqn:E1.
           ++ destruct bn; cbn; [rewrite D2|rewrite D1]; reflexivity.
           ++ apply orb_false_iff in E1 as [E1 E2]. rewrite E2, orb_false_r.
              apply negb_false_iff in E1.
              assert (Hnm : new m = old m) by (unfold new, old; apply st_after_untouched; exact E2).
              rewrite Hnm, E1. cbn [negb andb].
              destruct bn; cbn; [rewrite D2|rewrite D1]; reflexivity.
        -- destruct bn; cbn; [rewrite D2|rewrite D1]; reflexivity.
      * destruct (min s m && _); destruct (min s m && _); reflexivity.
Qed.

Lemma ctx_add_st s r l c h rest : rin s r = true -> ctx s = h :: rest ->
  ctx (fst (add_st r l c true s)) =
  ((if c then USubSt r l else UResetSt r (map (fun mc => (fst mc, sto s r (fst mc))) l))
   :: rev (flat_map (fun m => [USolverRemoveCons m; UMetsISub m]) (news_of s r l)) ++ h) :: rest.
Proof.
  intros Hr Hc. unfold add_st. rewrite Hr.
  assert (H4 : forall y, ctx y = (rev (flat_map (fun m => [USolverRemoveCons m; UMetsISub m]) (news_of s r l)) ++ h) :: rest ->
               rin y r = true -> ctx (fst (if rctx y r && true then if c then (record (USubSt r l) y, Ok)
                  else (record (UResetSt r (map (fun mc => (fst mc, sto s r (fst mc))) l)) y, Ok) else (y, Ok))) =
               ((if c then USubSt r l else UResetSt r (map (fun mc => (fst mc, sto s r (fst mc))) l)) :: rev (flat_map (fun m => [USolverRemoveCons m; UMetsISub m]) (news_of s r l)) ++ h) :: rest).
  { intros y Hy Hry. unfold rctx, in_ctx. rewrite Hy, Hry. cbn [andb]. destruct c; cbn [fst]; apply ctx_record; exact Hy. }
  apply H4.
  - fields2. unfold model_add_mets. apply ctx_record_all. fields2. exact Hc.
  - fields2. unfold model_add_mets. rewrite rin_record_all. fields2. exact Hr.
Qed.

Lemma add_st_undone s r l combine : Inv s -> rin s r = true -> undone s (fst (add_st r l combine true s)).
Proof.
  intros HI Hr h rest Hc.
  exists ((if combine then USubSt r l else UResetSt r (map (fun mc => (fst mc, sto s r (fst mc))) l))
          :: rev (flat_map (fun m => [USolverRemoveCons m; UMetsISub m]) (news_of s r l))).
  split; [rewrite (ctx_add_st s r l combine h rest Hr Hc); reflexivity|].
  rewrite reset_cons.
  assert (Hx : ctx (body (fst (add_st r l combine true s))) = []) by reflexivity.
  set (x := body (fst (add_st r l combine true s))) in *.
  assert (Ex : x = body (add_st_content r l combine s)) by (apply body_add_st; exact Hr).
  assert (Hrx : rin x r = true) by (rewrite Ex; exact Hr).
  assert (Hu : forall l' c', run_undo (if combine then USubSt r l else UResetSt r (map (fun mc => (fst mc, sto s r (fst mc))) l)) x
                             = fst (add_st r l' c' false x) ->
               run_undo (if combine then USubSt r l else UResetSt r (map (fun mc => (fst mc, sto s r (fst mc))) l)) x
               = body (add_st_content r l' c' x)).
  { intros l' c' E. rewrite E. rewrite <- (body_id _ (ctx_add_st_nil r l' c' false x Hx)). apply body_add_st. exact Hrx. }
  rewrite (rev_flat_map_pairs USolverRemoveCons UMetsISub).
  destruct combine.
  - rewrite (Hu (neg_list l) true eq_refl), reset_mets_out, Ex.
    apply (add_st_roundtrip s r l true (neg_list l) true HI Hr (touched_neg l)).
    intros m. rewrite assoc_neg. unfold st_after, new_coef. destruct (assoc_q m l) as [c0|]; cbn [option_map]; [ring|reflexivity].
  - rewrite (Hu (map (fun mc => (fst mc, sto s r (fst mc))) l) false eq_refl), reset_mets_out, Ex.
    apply (add_st_roundtrip s r l false _ false HI Hr (touched_olds (sto s r) l)).
    intros m. rewrite assoc_olds. destruct (memz m (touched l)) eqn:Et; [reflexivity|].
    apply st_after_untouched. exact Et.
Qed.
