(* C03: leaving a `with model:` block restores the model.  Every operation of the kernel registers
   undo closures whose replay (newest first, with the context stack hidden) gives back exactly the state
   before the operation; by induction over the block, and over the nesting of blocks, the exit of a
   block restores the state at its entry.

   Equality of states is Leibniz equality; since the fields are functions this uses
   functional extensionality (Coq.Logic.FunctionalExtensionality, a standard-library axiom). *)
From Coq Require Import ZArith QArith Qcanon List Bool Lia FunctionalExtensionality.
From Cobra.Core Require Import Model Inv Preserve.
Import ListNotations.
Open Scope Z_scope.

Lemma st_ext (a b : st) :
  (forall r, rin a r = rin b r) -> (forall r, lb a r = lb b r) -> (forall r, ub a r = ub b r) ->
  (forall r m, sto a r m = sto b r m) -> (forall m, min a m = min b m) -> (forall m r, back a m r = back b m r) ->
  (forall n, vin a n = vin b n) -> (forall n, vlb a n = vlb b n) -> (forall n, vub a n = vub b n) ->
  (forall m, cin a m = cin b m) -> (forall m n, co a m n = co b m n) -> (forall n, oc a n = oc b n) ->
  odir a = odir b -> ctx a = ctx b -> rids a = rids b -> mids a = mids b -> a = b.
Proof.
  destruct a as [a1 a2 a3 a4 a5 a6 a7 a8 a9 a10 a11 a12 a13 a14 a15 a16],
           b as [b1 b2 b3 b4 b5 b6 b7 b8 b9 b10 b11 b12 b13 b14 b15 b16]; cbn.
  intros H1 H2 H3 H4 H5 H6 H7 H8 H9 H10 H11 H12 H13 H14 H15 H16.
  assert (E1 : a1 = b1) by (extensionality x; apply H1).
  assert (E2 : a2 = b2) by (extensionality x; apply H2).
  assert (E3 : a3 = b3) by (extensionality x; apply H3).
  assert (E4 : a4 = b4) by (extensionality x; extensionality y; apply H4).
  assert (E5 : a5 = b5) by (extensionality x; apply H5).
  assert (E6 : a6 = b6) by (extensionality x; extensionality y; apply H6).
  assert (E7 : a7 = b7) by (extensionality x; apply H7).
  assert (E8 : a8 = b8) by (extensionality x; apply H8).
  assert (E9 : a9 = b9) by (extensionality x; apply H9).
  assert (E10 : a10 = b10) by (extensionality x; apply H10).
  assert (E11 : a11 = b11) by (extensionality x; extensionality y; apply H11).
  assert (E12 : a12 = b12) by (extensionality x; apply H12).
  subst. reflexivity.
Qed.

Definition reset_from (h : list undo) (s : st) : st := fold_left (fun a u => run_undo u a) h s.
Definition body (s : st) : st := set_ctx s [].

Lemma reset_app h1 h2 s : reset_from (h1 ++ h2) s = reset_from h2 (reset_from h1 s).
Proof. apply fold_left_app. Qed.
Lemma body_body s : body (body s) = body s. Proof. reflexivity. Qed.
Lemma body_record u s : body (record u s) = body s.
Proof. unfold record. destruct (ctx s); reflexivity. Qed.
Lemma body_record_all us : forall s, body (record_all us s) = body s.
Proof. induction us as [|u us IH]; intros s; cbn; [reflexivity|]. rewrite IH. apply body_record. Qed.
Lemma ctx_body s : ctx (body s) = []. Proof. reflexivity. Qed.
Lemma set_ctx_eta s : set_ctx s (ctx s) = s. Proof. destruct s; reflexivity. Qed.

(* recording on a stack h :: rest *)
Lemma ctx_record u s h rest : ctx s = h :: rest -> ctx (record u s) = (u :: h) :: rest.
Proof. intros H. unfold record. rewrite H. reflexivity. Qed.
Lemma ctx_record_all us : forall s h rest, ctx s = h :: rest -> ctx (record_all us s) = (rev us ++ h) :: rest.
Proof.
  induction us as [|u us IH]; intros s h rest H; cbn [record_all fold_left rev app]; [exact H|].
  fold (record_all us (record u s)). rewrite (IH _ (u :: h) rest (ctx_record u s h rest H)).
  rewrite <- app_assoc. reflexivity.
Qed.

(* valid bounds: lb <= ub for every reaction (what _check_bounds maintains) *)
Definition V (s : st) : Prop := forall r, eb_gt (lb s r) (ub s r) = false.

(* the effect an operation must have so that a block can undo it *)
Definition undone (s s' : st) : Prop :=
  forall h rest, ctx s = h :: rest ->
  exists new, ctx s' = (new ++ h) :: rest /\ reset_from new (body s') = body s.

Lemma undone_refl s : undone s s.
Proof. intros h rest H. exists []. split; [exact H|reflexivity]. Qed.

Lemma undone_trans a b c : undone a b -> undone b c -> undone a c.
Proof.
  intros H1 H2 h rest Ha. destruct (H1 h rest Ha) as [n1 [C1 R1]]. destruct (H2 (n1 ++ h) rest C1) as [n2 [C2 R2]].
  exists (n2 ++ n1). split; [rewrite C2, app_assoc; reflexivity|]. rewrite reset_app, R2, R1. reflexivity.
Qed.

