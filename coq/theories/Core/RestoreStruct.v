(* C03: undo lemmas of the structural operations (a metabolite or a reaction joining or leaving the model
   inside a block).  Each operation's registered closures, replayed newest first, give back exactly the
   state before it.  Record terms are only ever reduced with `fields` (projections and setters together):
   unfolding nested setters on their own blows the term up exponentially.                          *)
From Coq Require Import ZArith QArith Qcanon List Bool Lia FunctionalExtensionality.
From Cobra.Core Require Import Model Inv Preserve RestoreBase RestoreOps.
Import ListNotations.
Open Scope Z_scope.
Local Arguments Z.eqb : simpl never.
Local Arguments memz : simpl never.

Lemma reset_cons u l s : reset_from (u :: l) s = reset_from l (run_undo u s).
Proof. reflexivity. Qed.

Lemma memz_nil k : memz k [] = false.
Proof. reflexivity. Qed.
Lemma memz_cons k a l : memz k (a :: l) = (k =? a) || memz k l.
Proof. reflexivity. Qed.

(* rows of metabolites outside the model are empty; back references of such metabolites too *)
Lemma co_absent_row s m n : Inv s -> min s m = false -> co s m n = q0.
Proof.
  intros [A B B' C D E G H I J K] Hm. destruct n as [r [|]].
  - change (r, true) with (R r). destruct (D m r) as [_ D2]. rewrite D2, Hm, andb_false_r. reflexivity.
  - change (r, false) with (F r). destruct (D m r) as [D1 _]. rewrite D1, Hm, andb_false_r. reflexivity.
Qed.
Lemma back_absent s m r : Inv s -> min s m = false -> back s m r = false.
Proof.
  intros HI Hm. destruct (back s m r) eqn:Eb; [|reflexivity]. destruct (w_back s HI m r Eb). congruence.
Qed.
Lemma back_detached s m r : Inv s -> rin s r = false -> back s m r = false.
Proof.
  intros HI Hr. destruct (back s m r) eqn:Eb; [|reflexivity]. destruct (w_back s HI m r Eb) as [_ [X _]]. congruence.
Qed.

(* ---- metabolites that joined in the block leave again ---- *)
Definition mets_out (ms : list Z) (x : st) : st :=
  mkSt (rin x) (lb x) (ub x) (sto x)
       (fun m => min x m && negb (memz m ms))
       (fun m r => if memz m ms then false else back x m r)
       (vin x) (vlb x) (vub x)
       (fun m => cin x m && negb (memz m ms))
       (fun m n => if memz m ms then q0 else co x m n)
       (oc x) (odir x) (ctx x) (rids x) (mids x).

Ltac fin := rewrite ?memz_cons, ?memz_nil; unfold upd;
  repeat match goal with |- context [?a =? ?b] => destruct (Z.eqb_spec a b); subst end;
  cbn [orb negb andb]; rewrite ?andb_false_r, ?andb_true_r, ?orb_false_r; try reflexivity;
  repeat match goal with |- context [memz ?a ?b] => destruct (memz a b) end; try reflexivity.
Ltac triv := try match goal with |- ?x = ?x => reflexivity end.
Ltac fields := cbn [rin lb ub sto min back vin vlb vub cin co oc odir ctx rids mids
  set_rin set_lbub set_sto set_min set_back set_vin set_vb set_cin set_co set_oc set_odir set_ctx set_ids body
  solver_remove_cons solver_add_cons solver_remove_var solver_add_var var_set_bounds row_set mets_out run_undo].


Lemma reset_mets_out ms : forall x,
  reset_from (flat_map (fun m => [UMetsISub m; USolverRemoveCons m]) ms) x = mets_out ms x.
Proof.
  induction ms as [|m ms IH]; intros x.
  - cbn [flat_map reset_from fold_left]. apply st_ext; fields; intros; cbn [memz existsb negb]; rewrite ?andb_true_r; reflexivity.
  - cbn [flat_map app]. rewrite !reset_cons, IH. cbn [run_undo].
    apply st_ext; fields; intros; triv; fin.
Qed.

Lemma mets_out_perm ms ms' x : (forall m, memz m ms = memz m ms') -> mets_out ms x = mets_out ms' x.
Proof. intros H. unfold mets_out. apply st_ext; fields; intros; rewrite ?H; reflexivity. Qed.
Lemma memz_rev m l : memz m (rev l) = memz m l.
Proof.
  destruct (memz m l) eqn:E.
  - apply memz_In. apply in_rev. rewrite rev_involutive. apply memz_In. exact E.
  - destruct (memz m (rev l)) eqn:E2; [|reflexivity]. apply memz_In, in_rev in E2. apply memz_In in E2. congruence.
Qed.
Lemma rev_flat_map_pairs (f g : Z -> undo) l :
  rev (flat_map (fun m => [f m; g m]) l) = flat_map (fun m => [g m; f m]) (rev l).
Proof.
  induction l as [|m l IH]; [reflexivity|]. cbn [flat_map rev]. rewrite rev_app_distr, IH. cbn [rev app].
  rewrite flat_map_app. cbn. reflexivity.
Qed.

Lemma add_met_undone s m : Inv s -> undone s (fst (step s (AddMet m))).
Proof.
  intros HI h rest Hc. cbn [step]. destruct (min s m) eqn:Em; [exists []; split; [exact Hc|reflexivity]|].
  cbn [fst]. unfold model_add_mets.
  exists (rev (flat_map (fun m0 => [USolverRemoveCons m0; UMetsISub m0]) [m])). split.
  - apply ctx_record_all. cbn. exact Hc.
  - rewrite body_record_all, rev_flat_map_pairs. cbn [rev app]. rewrite reset_mets_out.
    apply st_ext; fields; intros; triv; rewrite ?memz_cons, ?memz_nil;
      (destruct (Z.eqb_spec m0 m) as [E0|Hne]; [subst m0|]); cbn [orb negb andb];
      rewrite ?andb_false_r, ?andb_true_r, ?orb_false_r, ?upd_same; try rewrite upd_other by assumption; try reflexivity.
    + rewrite Em. reflexivity.
    + symmetry. apply back_absent; assumption.
    + rewrite (i_rows s HI), Em. reflexivity.
    + symmetry. apply co_absent_row; assumption.
Qed.
(* continuation of s1.v: AddRxn *)
Definition backs_off (r : Z) (ms : list Z) (x : st) : st :=
  set_back x (fun m r' => if (r' =? r) && memz m ms then false else back x m r').

Lemma reset_backs_off r ms : forall x,
  reset_from (map (fun m => UBackRemove m r) ms) x = backs_off r ms x.
Proof.
  induction ms as [|m ms IH]; intros x.
  - cbn [map reset_from fold_left]. unfold backs_off. apply st_ext; fields; intros; triv.
    rewrite memz_nil, andb_false_r. reflexivity.
  - cbn [map]. rewrite reset_cons, IH. unfold backs_off. apply st_ext; fields; intros; triv.
    rewrite memz_cons. unfold upd.
    destruct (Z.eqb_spec m0 m); subst; destruct (Z.eqb_spec r0 r); subst; cbn [andb orb];
      rewrite ?Z.eqb_refl; cbn [andb orb]; try reflexivity; try (destruct (memz _ ms); reflexivity).
Qed.

Lemma mets_of_In s r m : Inv s -> (In m (mets_of s r) <-> sto s r m <> q0).
Proof.
  intros HI. unfold mets_of. rewrite filter_In, negb_true_iff, isz_false. split; [tauto|].
  intros H. split; [apply (u_mets s HI r m H)|exact H].
Qed.
Lemma memz_filter_min s r m (keep : bool) : Inv s ->
  memz m (filter (fun m => if keep then min s m else negb (min s m)) (mets_of s r)) =
  negb (isz (sto s r m)) && (if keep then min s m else negb (min s m)).
Proof.
  intros HI. match goal with |- ?a = ?b => destruct b eqn:E end.
  - apply andb_true_iff in E as [E1 E2]. apply memz_In, filter_In. split; [|exact E2].
    apply (mets_of_In s r m HI). apply isz_false. apply negb_true_iff. exact E1.
  - destruct (memz m _) eqn:E2; [|reflexivity]. apply memz_In, filter_In in E2 as [X Y].
    apply (mets_of_In s r m HI), isz_false in X. rewrite X, Y in E. discriminate.
Qed.

Lemma add_rxn_undone s r : Inv s -> undone s (add_rxn r s).
Proof.
  intros HI h rest Hc. unfold add_rxn. destruct (rin s r) eqn:Er; [exists []; split; [exact Hc|reflexivity]|].
  exists (rev (add_rxn_records r s)). split.
  - apply ctx_record_all. unfold add_rxn_content. destruct (split_bounds _ _) as [[? ?] [? ?]]. exact Hc.
  - rewrite body_record_all. unfold add_rxn_records.
    rewrite !rev_app_distr. cbn [rev app]. rewrite <- !app_assoc. cbn [app].
    rewrite reset_cons, reset_cons, reset_app.
    rewrite (rev_flat_map_pairs USolverRemoveCons UMetsISub), reset_mets_out.
    rewrite reset_app, <- map_rev, reset_backs_off. cbn [reset_from fold_left].
    pose proof (memz_filter_min s r) as MF.
    unfold add_rxn_content. destruct (split_bounds (lb s r) (ub s r)) as [[fl fu] [rl ru]].
    unfold backs_off. apply st_ext; fields; intros; triv.
    + (* rin *) unfold upd. destruct (Z.eqb_spec r0 r); subst; [symmetry; exact Er|reflexivity].
    + (* min *) rewrite memz_rev. rewrite (MF m false HI).
      destruct (isz (sto s r m)); destruct (min s m); reflexivity.
    + (* back *) rewrite !memz_rev. rewrite (MF m false HI), (MF m true HI). unfold upd.
      destruct (isz (sto s r m)) eqn:Ez; cbn [negb andb]; rewrite ?andb_false_r; try reflexivity.
      destruct (min s m) eqn:Em; cbn [negb andb]; rewrite ?andb_true_r, ?andb_false_r.
      * destruct (Z.eqb_spec r0 r); subst; cbn [orb]; [symmetry; apply back_detached; assumption|reflexivity].
      * symmetry. apply back_absent; assumption.
    + (* vin *) unfold updn, upd. destruct n as [rn bn]. unfold name_eqb, F, R. cbn [fst snd].
      destruct (Z.eqb_spec rn r); subst; cbn [andb].
      * destruct bn; cbn; destruct (i_vars s HI r) as [A1 A2]; unfold F, R in *; congruence.
      * reflexivity.
    + (* vlb *) unfold updn. destruct n as [rn bn]. unfold name_eqb, F, R. cbn [fst snd].
      destruct (Z.eqb_spec rn r); subst; cbn [andb].
      * destruct (i_vars s HI r) as [A1 A2]. unfold F, R in *.
        destruct bn; cbn; symmetry; [apply (i_vabs s HI (r, true))|apply (i_vabs s HI (r, false))]; congruence.
      * reflexivity.
    + (* vub *) unfold updn. destruct n as [rn bn]. unfold name_eqb, F, R. cbn [fst snd].
      destruct (Z.eqb_spec rn r); subst; cbn [andb].
      * destruct (i_vars s HI r) as [A1 A2]. unfold F, R in *.
        destruct bn; cbn; symmetry; [apply (i_vabs s HI (r, true))|apply (i_vabs s HI (r, false))]; congruence.
      * reflexivity.
    + (* cin *) rewrite memz_rev. rewrite (MF m false HI). rewrite (i_rows s HI m).
      destruct (isz (sto s r m)); destruct (min s m); reflexivity.
    + (* co *) rewrite memz_rev. rewrite (MF m false HI).
      destruct (isz (sto s r m)) eqn:Ez; cbn [negb andb].
      * destruct n as [rn bn]. unfold name_eqb, F, R. cbn [fst snd]. rewrite !andb_false_r.
        destruct (Z.eqb_spec rn r); subst; cbn [andb]; [|reflexivity].
        destruct bn; cbn; symmetry.
        -- change (r, true) with (R r). destruct (i_co s HI m r) as [_ D2]. rewrite D2, Er. reflexivity.
        -- change (r, false) with (F r). destruct (i_co s HI m r) as [D1 _]. rewrite D1, Er. reflexivity.
      * destruct (min s m) eqn:Em; cbn [negb].
        -- destruct n as [rn bn]. unfold name_eqb, F, R. cbn [fst snd]. rewrite !andb_true_r.
           destruct (Z.eqb_spec rn r); subst; cbn [andb]; [|reflexivity].
           destruct bn; cbn; symmetry.
           ++ change (r, true) with (R r). destruct (i_co s HI m r) as [_ D2]. rewrite D2, Er. reflexivity.
           ++ change (r, false) with (F r). destruct (i_co s HI m r) as [D1 _]. rewrite D1, Er. reflexivity.
        -- symmetry. apply co_absent_row; assumption.
    + (* oc *) unfold updn. destruct n as [rn bn]. unfold name_eqb, F, R. cbn [fst snd].
      destruct (Z.eqb_spec rn r); subst; cbn [andb]; [|reflexivity].
      destruct (i_oc s HI r) as [E1 E2]. unfold F, R in *.
      destruct bn; cbn; symmetry; [rewrite E1, (E2 Er); apply opp_q0|apply E2; exact Er].
Qed.
(* ---- RemoveRxn ---- *)
Definition rejoin (r : Z) (ms : list Z) (gone : Z -> bool) (x : st) : st :=
  mkSt (rin x) (lb x) (ub x) (sto x)
       (fun m => min x m || (memz m ms && gone m))
       (fun m r' => if (r' =? r) && memz m ms then true else back x m r')
       (vin x) (vlb x) (vub x)
       (fun m => cin x m || (memz m ms && gone m))
       (co x) (oc x) (odir x) (ctx x) (rids x) (mids x).

Lemma reset_rejoin (r : Z) (gone : Z -> bool) (ms : list Z) : forall x,
  reset_from (flat_map (fun m => if gone m then [UMetsIAdd m; USolverAddCons m; UBackAdd m r] else [UBackAdd m r]) ms) x
  = rejoin r ms gone x.
Proof.
  induction ms as [|m ms IH]; intros x.
  - cbn [flat_map reset_from fold_left]. unfold rejoin. apply st_ext; fields; intros; triv;
      rewrite ?memz_nil; cbn [andb]; rewrite ?orb_false_r, ?andb_false_r; reflexivity.
  - cbn [flat_map]. rewrite reset_app, IH. unfold rejoin.
    destruct (gone m) eqn:Eg; cbn [reset_from fold_left]; apply st_ext; fields; intros; triv;
      rewrite ?memz_cons; unfold upd;
      repeat match goal with |- context [?a =? ?b] => destruct (Z.eqb_spec a b); subst end;
      rewrite ?Eg; cbn [orb andb]; rewrite ?orb_true_r, ?orb_false_r, ?andb_true_r, ?andb_false_r; try reflexivity;
      try (exfalso; congruence); try apply orb_false_r;
      try (match goal with |- context [memz ?a ms] => destruct (memz a ms) end; cbn [andb orb]; rewrite ?orb_true_r, ?orb_false_r; reflexivity).
Qed.

Lemma rev_flat_map_gen (f : Z -> list undo) l : rev (flat_map f l) = flat_map (fun m => rev (f m)) (rev l).
Proof.
  induction l as [|m l IH]; [reflexivity|]. cbn [flat_map rev]. rewrite rev_app_distr, IH, flat_map_app.
  cbn [flat_map]. rewrite app_nil_r. reflexivity.
Qed.

Definition populated (r : Z) (x : st) : st :=
  let '((fl, fu), (rl, ru)) := split_bounds (lb x r) (ub x r) in
  mkSt (rin x) (lb x) (ub x) (sto x) (min x) (back x) (vin x)
       (fun n => if name_eqb n (R r) then rl else if name_eqb n (F r) then fl else vlb x n)
       (fun n => if name_eqb n (R r) then ru else if name_eqb n (F r) then fu else vub x n)
       (cin x)
       (fun m n => if name_eqb n (F r) && negb (isz (sto x r m)) then sto x r m
                   else if name_eqb n (R r) && negb (isz (sto x r m)) then (- sto x r m)%Qc else co x m n)
       (oc x) (odir x) (ctx x) (rids x) (mids x).
Lemma populate_explicit r x : rin x r = true -> populate r x = populated r x.
Proof.
  intros Hr. unfold populate, update_variable_bounds, populated. rewrite Hr.
  destruct (split_bounds (lb x r) (ub x r)) as [[fl fu] [rl ru]].
  apply st_ext; fields; intros; triv; unfold updn; reflexivity.
Qed.

Lemma remove_rxn_undone s r o : Inv s -> undone s (remove_rxn r o s).
Proof.
  intros HI h rest Hc. unfold remove_rxn. destruct (rin s r) eqn:Er; cbn [negb]; [|exists []; split; [exact Hc|reflexivity]].
  exists (rev (removal_records s r o)). split; [apply ctx_record_all; exact Hc|].
  rewrite body_record_all. unfold removal_records.
  set (gone := fun m => o && orphaned s r m).
  set (ms := filter (fun m => back s m r) (mets_of s r)).
  rewrite !rev_app_distr, rev_flat_map_gen.
  rewrite (flat_map_ext _ (fun m => if gone m then [UMetsIAdd m; USolverAddCons m; UBackAdd m r] else [UBackAdd m r])).
  2:{ intros m. unfold gone, drop_records. destruct (o && orphaned s r m); reflexivity. }
  rewrite <- !app_assoc. rewrite reset_app, reset_rejoin. cbn [rev app]. rewrite !reset_cons. cbn [run_undo].
  (* the state before UPopulate has rin r = true *)
  match goal with |- reset_from _ (if rin ?y r then populate r ?y else ?y) = _ =>
    assert (Hy : rin y r = true) by (fields; apply upd_same); rewrite Hy, (populate_explicit r y Hy) end.
  assert (Hms : forall m, memz m (rev ms) = negb (isz (sto s r m)) && back s m r).
  { intros m. rewrite memz_rev. unfold ms.
    destruct (negb (isz (sto s r m)) && back s m r) eqn:E.
    - apply andb_true_iff in E as [E1 E2]. apply memz_In, filter_In. split; [|exact E2].
      apply (mets_of_In s r m HI). apply isz_false, negb_true_iff. exact E1.
    - destruct (memz m _) eqn:E2; [|reflexivity]. apply memz_In, filter_In in E2 as [X Y].
      apply (mets_of_In s r m HI), isz_false in X. rewrite X, Y in E. discriminate. }
  assert (Hgone : forall m, gone m = true -> negb (isz (sto s r m)) = true /\ back s m r = true /\ min s m = true /\
                                         forall r', back s m r' = true -> r' = r).
  { intros m Hg. unfold gone in Hg. apply andb_true_iff in Hg as [_ Ho]. pose proof Ho as Ho'.
    unfold orphaned in Ho. rewrite !andb_true_iff in Ho. destruct Ho as [[[X Y] Z] _].
    repeat split; try assumption. apply (orphaned_only s r m (u_rxns s HI) Ho'). }
  unfold populated, rejoin, remove_rxn_content. fold gone.
  fields. fold gone.
  pose proof (i_vb s HI r Er) as HB. destruct (split_bounds (lb s r) (ub s r)) as [[fl fu] [rl ru]].
  injection HB as B1 B2 B3 B4.
  assert (Hmin : forall m, min s m && negb (gone m) || memz m (rev ms) && gone m = min s m).
  { intros m. rewrite Hms. destruct (gone m) eqn:Eg.
    - destruct (Hgone m Eg) as [X [Y [Z _]]]. rewrite X, Y, Z. reflexivity.
    - rewrite andb_false_r, orb_false_r, andb_true_r. reflexivity. }
  assert (Hco : forall m n, (if name_eqb n (F r) && negb (isz (sto s r m)) then sto s r m
                             else if name_eqb n (R r) && negb (isz (sto s r m)) then (- sto s r m)%Qc
                             else if (fst n =? r) || gone m then q0 else co s m n) = co s m n).
  { intros m n. destruct n as [rn bn]. unfold name_eqb, F, R. cbn [fst snd].
    destruct (Z.eqb_spec rn r) as [E0|Hne]; [subst rn|].
    - cbn [andb orb]. destruct (i_co s HI m r) as [D1 D2]. rewrite Er in D1, D2. cbn [andb] in D1, D2.
      unfold F, R in D1, D2.
      destruct (isz (sto s r m)) eqn:Ez.
      + cbn [negb]. rewrite !andb_false_r. apply isz_true in Ez.
        destruct bn; [rewrite D2|rewrite D1]; rewrite Ez, ?opp_q0, if_same; reflexivity.
      + cbn [negb]. rewrite !andb_true_r. apply isz_false in Ez. destruct (w_fwd s HI r m Er Ez) as [X _].
        destruct bn; cbn; [rewrite D2|rewrite D1]; rewrite X; reflexivity.
    - cbn [andb orb]. destruct (gone m) eqn:Eg; [|reflexivity].
      destruct (Hgone m Eg) as [_ [_ [_ Honly]]].
      assert (Hz : forall r', r' <> r -> (if rin s r' && min s m then sto s r' m else q0) = q0 /\
                                        (if rin s r' && min s m then (- sto s r' m)%Qc else q0) = q0).
      { intros r' Hr'. destruct (rin s r') eqn:Er'; cbn [andb]; [|tauto].
        destruct (isz (sto s r' m)) eqn:Ez'.
        - apply isz_true in Ez'. rewrite Ez', opp_q0, !if_same. tauto.
        - apply isz_false in Ez'. destruct (w_fwd s HI r' m Er' Ez') as [_ Y]. specialize (Honly r' Y). contradiction. }
      destruct (i_co s HI m rn) as [D1 D2]. destruct (Hz rn Hne) as [Z1 Z2]. unfold F, R in D1, D2.
      destruct bn; [rewrite D2, Z2|rewrite D1, Z1]; reflexivity. }
  assert (Hback : forall m r0, (if (r0 =? r) && memz m (rev ms) then true
                                else if (r0 =? r) && negb (isz (sto s r m)) then false else back s m r0) = back s m r0).
  { intros m r0. rewrite Hms. destruct (Z.eqb_spec r0 r) as [E0|Hne]; [subst r0|reflexivity]. cbn [andb].
    destruct (isz (sto s r m)) eqn:Ez; cbn [negb andb]; [reflexivity|]. destruct (back s m r); reflexivity. }
  assert (Hvin : forall n, updn (updn (fun n => if fst n =? r then false else vin s n) (F r) true) (R r) true n = vin s n).
  { intros n. unfold updn. destruct n as [rn bn]. unfold name_eqb, F, R. cbn [fst snd].
    destruct (i_vars s HI r) as [A1 A2]. unfold F, R in A1, A2.
    destruct (Z.eqb_spec rn r) as [E0|Hne]; [subst rn|]; cbn [andb]; [|reflexivity].
    destruct bn; cbn; congruence. }
  assert (Hvb : forall n, (if name_eqb n (R r) then rl else if name_eqb n (F r) then fl else if fst n =? r then NInf else vlb s n) = vlb s n /\
                          (if name_eqb n (R r) then ru else if name_eqb n (F r) then fu else if fst n =? r then PInf else vub s n) = vub s n).
  { intros n. destruct n as [rn bn]. unfold name_eqb, F, R in *. cbn [fst snd].
    destruct (Z.eqb_spec rn r) as [E0|Hne]; [subst rn|]; cbn [andb]; [|tauto].
    destruct bn; cbn; split; congruence. }
  assert (Hrin : forall r0, upd (upd (rin s) r false) r true r0 = rin s r0).
  { intros r0. unfold upd. destruct (Z.eqb_spec r0 r); subst; congruence. }
  destruct (negb (isz (oc s (F r)))) eqn:Ec; cbn [rev app reset_from fold_left run_undo];
    apply st_ext; fields; intros; triv;
    rewrite ?Hrin, ?Hmin, ?Hback, ?Hvin, ?Hco; try reflexivity;
    try (apply Hvb); try (rewrite (i_rows s HI m); apply Hmin).
  - (* objective, coefficient restored *)
    unfold updn. destruct n as [rn bn]. unfold name_eqb, F, R. cbn [fst snd].
    destruct (i_oc s HI r) as [E1 _]. unfold F, R in E1.
    destruct (Z.eqb_spec rn r) as [E0|Hne]; [subst rn|]; cbn [andb]; [|reflexivity].
    destruct bn; cbn; [symmetry; exact E1|reflexivity].
  - (* objective coefficient was zero *)
    apply negb_false_iff, isz_true in Ec. destruct n as [rn bn]. cbn [fst].
    destruct (i_oc s HI r) as [E1 _]. unfold F, R in *.
    destruct (Z.eqb_spec rn r) as [E0|Hne]; [subst rn|reflexivity].
    destruct bn; [rewrite E1, Ec, opp_q0|rewrite Ec]; reflexivity.
Qed.
