(* C03: per-operation undo lemmas (each operation's registered undo closures, replayed newest first,
   give back the state before the operation) and preservation of valid bounds. *)
From Coq Require Import ZArith QArith Qcanon List Bool Lia FunctionalExtensionality.
From Cobra.Core Require Import Model Inv Preserve RestoreBase.
Import ListNotations.
Open Scope Z_scope.

(* explicit form of the bounds setter body *)
Definition rsb (r : Z) (l u : eb) (s : st) : st :=
  let '((fl, fu), (rl, ru)) := split_bounds l u in
  mkSt (rin s) (upd (lb s) r l) (upd (ub s) r u) (sto s) (min s) (back s) (vin s)
       (fun n => if rin s r then (if name_eqb n (R r) then rl else if name_eqb n (F r) then fl else vlb s n) else vlb s n)
       (fun n => if rin s r then (if name_eqb n (R r) then ru else if name_eqb n (F r) then fu else vub s n) else vub s n)
       (cin s) (co s) (oc s) (odir s) (ctx s) (rids s) (mids s).

Lemma raw_set_bounds_rsb r l u s : raw_set_bounds r l u s = rsb r l u s.
Proof.
  unfold raw_set_bounds, update_variable_bounds, rsb. cbn [rin set_lbub lb ub]. rewrite !upd_same.
  destruct (split_bounds l u) as [[fl fu] [rl ru]]. destruct (rin s r) eqn:Er.
  - unfold var_set_bounds, set_vb, set_lbub. cbn. apply st_ext; cbn; intros; try reflexivity.
  - unfold set_lbub. apply st_ext; cbn; intros; reflexivity.
Qed.

Lemma raw_set_bounds_same s r : Inv s -> raw_set_bounds r (lb s r) (ub s r) s = s.
Proof.
  intros [A B B' C D E G H I J K]. rewrite raw_set_bounds_rsb. unfold rsb.
  destruct (split_bounds (lb s r) (ub s r)) as [[fl fu] [rl ru]] eqn:Es.
  apply st_ext; cbn; intros; try reflexivity.
  - unfold upd. destruct (Z.eqb_spec r0 r); subst; reflexivity.
  - unfold upd. destruct (Z.eqb_spec r0 r); subst; reflexivity.
  - destruct (rin s r) eqn:Er; [|reflexivity]. pose proof (B r Er) as Hb. rewrite Es in Hb. injection Hb as B1 B2 B3 B4.
    destruct (name_eqb n (R r)) eqn:E1; [apply name_eqb_true in E1; subst; congruence|].
    destruct (name_eqb n (F r)) eqn:E2; [apply name_eqb_true in E2; subst; congruence|reflexivity].
  - destruct (rin s r) eqn:Er; [|reflexivity]. pose proof (B r Er) as Hb. rewrite Es in Hb. injection Hb as B1 B2 B3 B4.
    destruct (name_eqb n (R r)) eqn:E1; [apply name_eqb_true in E1; subst; congruence|].
    destruct (name_eqb n (F r)) eqn:E2; [apply name_eqb_true in E2; subst; congruence|reflexivity].
Qed.

Lemma raw_set_bounds_twice s r l u l' u' :
  raw_set_bounds r l' u' (raw_set_bounds r l u s) = raw_set_bounds r l' u' s.
Proof.
  rewrite !raw_set_bounds_rsb. unfold rsb.
  destruct (split_bounds l u) as [[fl fu] [rl ru]]. destruct (split_bounds l' u') as [[fl' fu'] [rl' ru']].
  apply st_ext; cbn; intros; try reflexivity.
  - unfold upd. destruct (r0 =? r); reflexivity.
  - unfold upd. destruct (r0 =? r); reflexivity.
  - destruct (rin s r); [|reflexivity]. destruct (name_eqb n (R r)); [reflexivity|]. destruct (name_eqb n (F r)); reflexivity.
  - destruct (rin s r); [|reflexivity]. destruct (name_eqb n (R r)); [reflexivity|]. destruct (name_eqb n (F r)); reflexivity.
Qed.

Lemma body_raw_set_bounds r l u s : body (raw_set_bounds r l u s) = raw_set_bounds r l u (body s).
Proof. rewrite !raw_set_bounds_rsb. unfold rsb. destruct (split_bounds l u) as [[? ?] [? ?]]. reflexivity. Qed.
Lemma ctx_raw_set_bounds r l u s : ctx (raw_set_bounds r l u s) = ctx s.
Proof. rewrite raw_set_bounds_rsb. unfold rsb. destruct (split_bounds l u) as [[? ?] [? ?]]. reflexivity. Qed.

Lemma Inv_body s : Inv s -> Inv (body s).
Proof. apply Inv_ctx. Qed.

Lemma set_bounds_undone s r l u : Inv s -> V s -> rin s r = true -> undone s (fst (set_bounds r l u s)).
Proof.
  intros HI HV Hr h rest Hc. unfold set_bounds, rctx, in_ctx. rewrite Hc, Hr. cbn [andb].
  destruct (eb_eqb (lb s r) l && eb_eqb (ub s r) u) eqn:Eq.
  - exists []. split; [exact Hc|reflexivity].
  - exists [USetBounds r (lb s r) (ub s r)]. destruct (eb_gt l u) eqn:Eg; cbn [fst].
    + split; [apply ctx_record; exact Hc|].
      cbn [reset_from fold_left run_undo]. rewrite body_record. cbn [lb ub body set_ctx]. rewrite (HV r).
      apply (raw_set_bounds_same (body s) r (Inv_body s HI)).
    + split; [rewrite ctx_raw_set_bounds; apply ctx_record; exact Hc|].
      cbn [reset_from fold_left run_undo]. rewrite (HV r).
      rewrite body_raw_set_bounds, raw_set_bounds_twice, body_record.
      apply (raw_set_bounds_same (body s) r (Inv_body s HI)).
Qed.

Lemma ub_raw_set_bounds r l u s : ub (raw_set_bounds r l u s) r = u /\ lb (raw_set_bounds r l u s) r = l.
Proof. rewrite raw_set_bounds_rsb. unfold rsb. destruct (split_bounds l u) as [[? ?] [? ?]]. cbn. rewrite !upd_same. tauto. Qed.

Lemma set_lb_undone s r l : Inv s -> V s -> rin s r = true -> undone s (fst (set_lb r l s)).
Proof.
  intros HI HV Hr h rest Hc. unfold set_lb, rctx, in_ctx. rewrite Hc, Hr. cbn [andb].
  destruct (eb_eqb (lb s r) l) eqn:Eq.
  - exists []. split; [exact Hc|reflexivity].
  - exists [USetLb r (lb s r)]. destruct (eb_gt l (ub s r)) eqn:Eg; cbn [fst].
    + split; [apply ctx_record; exact Hc|].
      cbn [reset_from fold_left run_undo]. rewrite body_record. cbn [lb ub body set_ctx]. rewrite (HV r).
      apply (raw_set_bounds_same (body s) r (Inv_body s HI)).
    + split; [rewrite ctx_raw_set_bounds; apply ctx_record; exact Hc|].
      cbn [reset_from fold_left run_undo]. rewrite body_raw_set_bounds.
      destruct (ub_raw_set_bounds r l (ub s r) (body (record (USetLb r (lb s r)) s))) as [Eu _]. rewrite Eu.
      rewrite (HV r). rewrite raw_set_bounds_twice, body_record.
      apply (raw_set_bounds_same (body s) r (Inv_body s HI)).
Qed.
Lemma set_ub_undone s r u : Inv s -> V s -> rin s r = true -> undone s (fst (set_ub r u s)).
Proof.
  intros HI HV Hr h rest Hc. unfold set_ub, rctx, in_ctx. rewrite Hc, Hr. cbn [andb].
  destruct (eb_eqb (ub s r) u) eqn:Eq.
  - exists []. split; [exact Hc|reflexivity].
  - exists [USetUb r (ub s r)]. destruct (eb_gt (lb s r) u) eqn:Eg; cbn [fst].
    + split; [apply ctx_record; exact Hc|].
      cbn [reset_from fold_left run_undo]. rewrite body_record. cbn [lb ub body set_ctx]. rewrite (HV r).
      apply (raw_set_bounds_same (body s) r (Inv_body s HI)).
    + split; [rewrite ctx_raw_set_bounds; apply ctx_record; exact Hc|].
      cbn [reset_from fold_left run_undo]. rewrite body_raw_set_bounds.
      destruct (ub_raw_set_bounds r (lb s r) u (body (record (USetUb r (ub s r)) s))) as [_ El]. rewrite El.
      rewrite (HV r). rewrite raw_set_bounds_twice, body_record.
      apply (raw_set_bounds_same (body s) r (Inv_body s HI)).
Qed.

Lemma set_dir_undone s d : undone s (set_dir d s).
Proof.
  intros h rest Hc. unfold set_dir, in_ctx. rewrite Hc. cbn [andb].
  destruct (Bool.eqb (odir s) d); [exists []; split; [exact Hc|reflexivity]|].
  exists [USetDir (odir s)]. split.
  - cbn. apply ctx_record. exact Hc.
  - cbn [reset_from fold_left run_undo]. unfold body, set_odir, set_ctx. cbn. recs. reflexivity.
Qed.

(* the objective *)
Lemma set_obj_loop_frame l : forall s,
  let s' := fst (set_obj_loop l s) in
  rin s' = rin s /\ lb s' = lb s /\ ub s' = ub s /\ sto s' = sto s /\ min s' = min s /\ back s' = back s /\
  vin s' = vin s /\ vlb s' = vlb s /\ vub s' = vub s /\ cin s' = cin s /\ co s' = co s /\ odir s' = odir s /\
  ctx s' = ctx s /\ rids s' = rids s /\ mids s' = mids s.
Proof.
  induction l as [|[r c] l IH]; intros s; cbn [set_obj_loop]; [cbn; tauto|].
  destruct (rin s r); [|cbn; tauto]. specialize (IH (set_oc s (updn (updn (oc s) (F r) c) (R r) (- c)%Qc))).
  cbn in *. exact IH.
Qed.

Lemma oc_absent s n : Inv s -> vin s n = false -> oc s n = q0.
Proof.
  intros [A B B' C D E G H I J K] Hv. destruct n as [r [|]].
  - change (r, true) with (R r) in *. destruct (A r) as [_ A2]. destruct (E r) as [E1 E2].
    rewrite E1, (E2 ltac:(congruence)). apply opp_q0.
  - change (r, false) with (F r) in *. destruct (A r) as [A1 _]. destruct (E r) as [_ E2]. apply E2. congruence.
Qed.

Lemma set_obj_undone s l a : Inv s -> undone s (fst (set_obj l a s)).
Proof.
  intros HI h rest Hc. unfold set_obj, in_ctx. rewrite Hc.
  exists [UObjective (oc s) (odir s)].
  set (s1 := if a then record (UObjective (oc s) (odir s)) s else set_oc (record (UObjective (oc s) (odir s)) s) (fun _ => q0)).
  pose proof (set_obj_loop_frame l s1) as F. cbn zeta in F.
  set (s' := fst (set_obj_loop l s1)) in *.
  destruct F as [F1 [F2 [F3 [F4 [F5 [F6 [F7 [F8 [F9 [F10 [F11 [F12 [F13 [F14 F15]]]]]]]]]]]]]].
  assert (Hs1 : ctx s1 = (UObjective (oc s) (odir s) :: h) :: rest).
  { unfold s1. destruct a; [|cbn [ctx set_oc]]; apply ctx_record; exact Hc. }
  split; [rewrite F13; exact Hs1|].
  cbn [reset_from fold_left run_undo].
  assert (Hf : forall (P : st -> Type), True) by auto.
  apply st_ext; cbn; intros;
    rewrite ?F1, ?F2, ?F3, ?F4, ?F5, ?F6, ?F7, ?F8, ?F9, ?F10, ?F11, ?F12, ?F14, ?F15;
    unfold s1; destruct a; cbn; recs; try reflexivity.
  - destruct (vin s n) eqn:Ev; [reflexivity|]. symmetry. apply oc_absent; assumption.
  - destruct (vin s n) eqn:Ev; [reflexivity|]. symmetry. apply oc_absent; assumption.
Qed.

(* ---------- valid bounds are preserved ---------- *)
Lemma V_record u s : V s -> V (record u s).
Proof. intros H r. rewrite lb_record, ub_record. apply H. Qed.
Lemma raw_set_bounds_V r l u s : V s -> eb_gt l u = false -> V (raw_set_bounds r l u s).
Proof.
  intros HV Hg r0. rewrite raw_set_bounds_rsb. unfold rsb. destruct (split_bounds l u) as [[? ?] [? ?]]. cbn.
  unfold upd. destruct (r0 =? r); [exact Hg|apply HV].
Qed.
Lemma set_bounds_V r l u s : V s -> V (fst (set_bounds r l u s)).
Proof.
  intros HV. unfold set_bounds. destruct (_ && _ && _); [exact HV|].
  destruct (eb_gt l u) eqn:Eg; cbn [fst].
  - destruct (rctx s r); [apply V_record|]; exact HV.
  - apply raw_set_bounds_V; [|exact Eg]. destruct (rctx s r); [apply V_record|]; exact HV.
Qed.
Lemma set_lb_V r l s : V s -> V (fst (set_lb r l s)).
Proof.
  intros HV. unfold set_lb. destruct (_ && _); [exact HV|].
  destruct (eb_gt l (ub s r)) eqn:Eg; cbn [fst].
  - destruct (rctx s r); [apply V_record|]; exact HV.
  - apply raw_set_bounds_V; [|exact Eg]. destruct (rctx s r); [apply V_record|]; exact HV.
Qed.
Lemma set_ub_V r u s : V s -> V (fst (set_ub r u s)).
Proof.
  intros HV. unfold set_ub. destruct (_ && _); [exact HV|].
  destruct (eb_gt (lb s r) u) eqn:Eg; cbn [fst].
  - destruct (rctx s r); [apply V_record|]; exact HV.
  - apply raw_set_bounds_V; [|exact Eg]. destruct (rctx s r); [apply V_record|]; exact HV.
Qed.
Lemma set_obj_V l a s : V s -> V (fst (set_obj l a s)).
Proof.
  intros HV r. unfold set_obj.
  match goal with |- context [set_obj_loop l ?x] => pose proof (set_obj_loop_frame l x) as F; cbn zeta in F end.
  destruct F as [_ [F2 [F3 _]]]. rewrite F2, F3.
  destruct a; destruct (in_ctx s); cbn; recs; apply HV.
Qed.

