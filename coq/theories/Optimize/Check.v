(* Correspondence + monitor functions for C04, evaluated by vm_compute on the observations the
   harness took from the real Model.optimize / slim_optimize.  Nothing here is a theorem.  *)
From Coq Require Import QArith List Bool ZArith.
From Cobra.LP Require Import Defs Cert Fba.
From Cobra.Optimize Require Import Model.
From Cobra.Gen Require Import OptTables.
Import ListNotations.
Open Scope Q_scope.

Inductive oracle := OOpt (x y : vec) | OInf (y : vec) | OUnb (x r : vec).
Inductive slimobs := SNan | SVal (q : Q) | SExc (e : exn) | SOther.

Record c04case := mkCase {
  c_m : fbamodel;
  c_oracle : oracle;
  c_raw : sresult;                      (* raw optlang values right after optimize() *)
  c_sol : option solution;              (* Solution returned by Model.optimize(); None = it raised *)
  c_slim_default : slimobs;             (* slim_optimize() *)
  c_ev : Q;                             (* the caller's error value: -7, or a falsy one (0, 0.0, False) *)
  c_slim_ev : slimobs;                  (* slim_optimize(error_value = c_ev) *)
  c_slim_none : slimobs;                (* slim_optimize(error_value = None) *)
  c_acc_ok : bool;                      (* per-object accessors equal the Solution's entries *)
  c_snap_ok : bool                      (* Solution unchanged by later edits / optimisations *)
}.

Definition tol : Q := 1 # 1000000.
Definition veq (t : Q) (a b : vec) : bool := forall2b (fun x y => close t x y) a b.

Definition oracle_ok (c : c04case) : bool :=
  valid_model_b (c_m c) &&
  match c_oracle c with
  | OOpt x y => check_opt (net_lp (c_m c)) x y
  | OInf y => check_infeasible (net_lp (c_m c)) y
  | OUnb x r => check_unbounded (net_lp (c_m c)) x r
  end.

Definition sol_agrees (a b : solution) : bool :=
  status_eqb (so_status a) (so_status b) && close (1 # 1000000000000) (so_obj a) (so_obj b) &&
  veq (1 # 1000000000000) (so_flux a) (so_flux b) && veq (1 # 1000000000000) (so_reduced a) (so_reduced b) &&
  veq (1 # 1000000000000) (so_shadow a) (so_shadow b).

Definition slim_agrees (model : slim) (o : slimobs) (ev : option Q) : bool :=
  match model, o, ev with
  | SlimValue v, SVal q, _ => close (1 # 1000000000000) v q
  | SlimError, SNan, None => true
  | SlimError, SVal q, Some e => Qeq_bool q e
  | SlimRaise e, SExc e', _ => match e, e' with
      | ExInfeasible, ExInfeasible | ExUnbounded, ExUnbounded
      | ExFeasibleButNotOptimal, ExFeasibleButNotOptimal | ExUndefinedSolution, ExUndefinedSolution
      | ExOptimizationError, ExOptimizationError => true | _, _ => false end
  | _, _, _ => false
  end.

(* code 1: the model of get_solution / slim_optimize applied to the raw solver values
           differs from what the implementation returned                              *)
Definition corr_ok (c : c04case) : bool :=
  let sr := c_raw c in
  match c_sol c with
  | Some s => negb (get_solution_raises has_primals (sr_status sr)) && sol_agrees (get_solution sr) s
  | None => get_solution_raises has_primals (sr_status sr)
  end &&
  slim_agrees (slim_optimize exn_table sr true) (c_slim_default c) None &&
  slim_agrees (slim_optimize exn_table sr true) (c_slim_ev c) (Some (c_ev c)) &&
  slim_agrees (slim_optimize exn_table sr false) (c_slim_none c) None.

(* the property, on the implementation's own observations *)
Definition status_ok (c : c04case) : bool :=
  match c_oracle c, sr_status (c_raw c) with
  | OOpt _ _, Optimal => true
  | OInf _, Infeasible => true
  | OUnb _ _, Unbounded => true
  | _, _ => false
  end.
Definition exn_ok (c : c04case) : bool :=
  match c_oracle c, c_slim_none c with
  | OOpt _ _, SVal _ => true
  | OInf _, SExc ExInfeasible => true
  | OUnb _ _, SExc ExUnbounded => true
  | _, _ => false
  end &&
  match c_oracle c, c_slim_default c, c_slim_ev c with
  | OOpt _ _, SVal _, SVal _ => true
  | OOpt _ _, _, _ => false
  | _, SNan, SVal q => Qeq_bool q (c_ev c)
  | _, _, _ => false
  end.

Definition true_opt (c : c04case) : option Q :=
  match c_oracle c with OOpt x _ => Some (sgn (c_m c) * value (net_lp (c_m c)) x) | _ => None end.

Fixpoint cs_tol (vb : list (ebound * ebound)) (d v : vec) : bool :=
  match vb, d, v with
  | [], [], [] => true
  | (lo, hi) :: vb', d0 :: d', v0 :: v' =>
      (if Qle_bool d0 tol then true
       else match hi with Fin u => close tol v0 u | _ => false end) &&
      (if Qle_bool (- tol) d0 then true
       else match lo with Fin l => close tol v0 l | _ => false end) &&
      cs_tol vb' d' v'
  | _, _, _ => false
  end.

Definition pad (n : nat) (v : vec) : vec := v ++ repeat 0 (n - length v).

Definition checks (c : c04case) : list nat :=
  let m := c_m c in
  if negb (oracle_ok c) then [9%nat] else
  (if corr_ok c then [] else [1%nat]) ++
  (if status_ok c then [] else [2%nat]) ++
  (if exn_ok c then [] else [8%nat]) ++
  (if c_acc_ok c then [] else [10%nat]) ++
  (if c_snap_ok c then [] else [11%nat]) ++
  match c_sol c, true_opt c with
  | Some s, Some opt =>
      if status_eqb (so_status s) Optimal then
        let p := net_lp m in
        let ys := map (Qmult (sgn m)) (so_shadow s) in
        let d := pad (length (vbounds p)) (vsub (obj p) (comb ys (rows p))) in
        (if close tol (so_obj s) opt then [] else [3%nat]) ++
        (if feasible_tol p tol (so_flux s) then [] else [4%nat]) ++
        (if close tol (sgn m * dot (obj p) (so_flux s)) (so_obj s) then [] else [5%nat]) ++
        (if cs_tol (vbounds p) d (so_flux s) then [] else [6%nat]) ++
        (if veq tol (so_reduced s) (map (fun r => rx_obj r - dot (rx_col r) (so_shadow s)) (rxns m))
         then [] else [7%nat])
      else []
  | _, _ => []
  end.

Definition failing (cases : list (Z * c04case)) : list (Z * list (nat * nat)) :=
  filter (fun r => match snd r with [] => false | _ => true end)
         (map (fun c => (fst c, map (fun k => (0%nat, k)) (checks (snd c)))) cases).
