(* Executable model of Model.slim_optimize / Model.optimize / get_solution and of the
   per-object accessors (property C04), on top of the exact LP layer.

   What the solver returns is data (`sresult`): cobrapy's own logic is how a Solution is
   assembled from it (fluxes = forward - reverse primal, reduced costs from the duals of the
   variable pair, shadow prices = row duals), how the status drives slim_optimize's value /
   error value / exception, and that the direction is restored.                          *)
From Coq Require Import QArith List Bool String.
From Cobra.LP Require Import Defs Cert Fba.
Import ListNotations.
Open Scope Q_scope.

Inductive status := Optimal | Infeasible | Unbounded | Undefined | FeasibleSt | OtherSt.
Definition status_eqb (a b : status) : bool :=
  match a, b with
  | Optimal, Optimal | Infeasible, Infeasible | Unbounded, Unbounded
  | Undefined, Undefined | FeasibleSt, FeasibleSt | OtherSt, OtherSt => true
  | _, _ => false
  end.

(* raw state of the optlang problem after solver.optimize() *)
Record sresult := mkSR {
  sr_status : status;
  sr_obj : Q;                         (* solver.objective.value *)
  sr_primal : list (Q * Q);           (* (forward, reverse) primal per reaction, model order *)
  sr_vdual : list (Q * Q);            (* (forward, reverse) reduced cost per reaction *)
  sr_rdual : vec                      (* shadow price per metabolite *)
}.

Record solution := mkSol {
  so_status : status; so_obj : Q; so_flux : vec; so_reduced : vec; so_shadow : vec }.

(* cobra.core.solution.get_solution (non-integer problem) *)
Definition get_solution (sr : sresult) : solution :=
  mkSol (sr_status sr) (sr_obj sr) (nets (sr_primal sr))
        (map (fun p => (fst p - snd p) / 2) (sr_vdual sr)) (sr_rdual sr).

(* Model.slim_optimize(error_value) *)
Inductive exn := ExInfeasible | ExUnbounded | ExFeasibleButNotOptimal | ExUndefinedSolution | ExOptimizationError.
Inductive slim := SlimValue (v : Q) | SlimError (* the caller's error value *) | SlimRaise (e : exn).

Section WithTable.
  (* OPTLANG_TO_EXCEPTIONS_DICT of exceptions.py (regenerated: Gen/OptTables.v) *)
  Variable exn_table : list (status * exn).
  Fixpoint lookup_exn (t : list (status * exn)) (s : status) : exn :=
    match t with
    | [] => ExOptimizationError
    | (s', e) :: t' => if status_eqb s s' then e else lookup_exn t' s
    end.
  Definition slim_optimize (sr : sresult) (has_error_value : bool) : slim :=
    match sr_status sr with
    | Optimal => SlimValue (sr_obj sr)
    | s => if has_error_value then SlimError else SlimRaise (lookup_exn exn_table s)
    end.
End WithTable.

(* check_solver_status: which statuses make get_solution raise (raise_error = False) *)
Definition get_solution_raises (has_primals : list status) (s : status) : bool :=
  match s with
  | Optimal => false
  | _ => negb (existsb (status_eqb s) has_primals)
  end.

(* ---- what it means for the solver's duals to be LP duals of the split problem ---- *)
(* reduced cost of a column = its objective coefficient - column . row duals; the forward and
   reverse columns of a reaction are negatives of each other                              *)
Definition col_dual (m : fbamodel) (y : vec) (r : rxn) : Q := rx_obj r - dot (rx_col r) y.
Definition duals_consistent (m : fbamodel) (sr : sresult) : Prop :=
  Forall2 (fun r p => fst p == col_dual m (sr_rdual sr) r /\ snd p == - col_dual m (sr_rdual sr) r)
          (rxns m) (sr_vdual sr).
