From Coq Require Import QArith List Bool Lqa.
From Cobra.LP Require Import Defs Cert Fba.
From Cobra.Optimize Require Import Model.
Import ListNotations.
Open Scope Q_scope.

(* optimal for the solver's (split) problem  =>  the returned fluxes solve the FBA problem *)
Theorem optimize_sound m sr :
  valid_model m -> is_opt (split_lp m) (flat (sr_primal sr)) ->
  let s := get_solution sr in
  feasible (net_lp m) (so_flux s) /\
  (forall v, feasible (net_lp m) v -> value (net_lp m) v <= value (net_lp m) (so_flux s)) /\
  value (split_lp m) (flat (sr_primal sr)) == value (net_lp m) (so_flux s).
Proof.
  intros Hv Hopt. cbn. destruct (split_opt_is_net_opt m _ Hv Hopt) as [Hf Hbest].
  split; [exact Hf|]. split; [exact Hbest|].
  destruct Hopt as [Hsf _]. apply (split_to_net m _ Hv Hsf).
Qed.

(* the reported reduced cost of a reaction is  objective coefficient - stoichiometry . shadow prices *)
Theorem reduced_costs_spec m sr :
  duals_consistent m sr ->
  Forall2 (fun r d => d == rx_obj r - dot (rx_col r) (so_shadow (get_solution sr)))
          (rxns m) (so_reduced (get_solution sr)).
Proof.
  unfold duals_consistent. cbn. generalize (sr_vdual sr) (rxns m). intros ds rs H.
  induction H as [|r p rs ds [Hf Hr] _ IH]; cbn; constructor; [|exact IH].
  unfold col_dual in *. rewrite Hf, Hr. field.
Qed.

(* status drives slim_optimize: a value only when optimal; otherwise the caller's error value,
   or the exception the table maps the status to                                            *)
Theorem slim_error_value tbl sr hev :
  (sr_status sr = Optimal -> slim_optimize tbl sr hev = SlimValue (sr_obj sr)) /\
  (sr_status sr <> Optimal -> hev = true -> slim_optimize tbl sr hev = SlimError) /\
  (sr_status sr <> Optimal -> hev = false -> slim_optimize tbl sr hev = SlimRaise (lookup_exn tbl (sr_status sr))).
Proof.
  unfold slim_optimize. repeat split; intros; destruct (sr_status sr); subst; try congruence; reflexivity.
Qed.

(* complementary slackness: a feasible flux vector together with row multipliers y whose
   reduced objective d = c - S^T y has the right sign at every non-tight bound is optimal.  This is
   what "the shadow prices certify the optimum as LP duals" means.                          *)
Definition cs_ok (b : ebound * ebound) (d v : Q) : Prop :=
  (0 < d -> match snd b with Fin u => v == u | _ => False end) /\
  (d < 0 -> match fst b with Fin l => v == l | _ => False end).

Lemma cs_term b d v x : cs_ok b d v -> inb b v -> inb b x -> d * x <= d * v.
Proof.
  destruct b as [lo hi]. unfold cs_ok, inb; cbn [fst snd]. intros [Hp Hn] [Vl Vh] [Xl Xh].
  destruct (Qlt_le_dec 0 d) as [P|P].
  - specialize (Hp P). destruct hi as [|u|]; try contradiction. cbn in *. nra.
  - destruct (Qlt_le_dec d 0) as [N|N].
    + specialize (Hn N). destruct lo as [|l|]; try contradiction. cbn in *. nra.
    + assert (d == 0) by lra. nra.
Qed.

Lemma cs_dot vb : forall d v x,
  Forall2 inb vb v -> Forall2 inb vb x ->
  (forall n, match nth_error vb n, nth_error d n, nth_error v n with
             | Some b, Some dn, Some vn => cs_ok b dn vn | _, _, _ => True end) ->
  dot d x <= dot d v.
Proof.
  induction vb as [|b vb IH]; intros d v x Hv Hx Hcs.
  - inversion Hv; inversion Hx; subst. destruct d; cbn; lra.
  - inversion Hv as [|b1 v0 l1 v' Hb1 Hv']; inversion Hx as [|b2 x0 l2 x' Hb2 Hx']; subst.
    destruct d as [|d0 d]; cbn [dot]; [lra|].
    pose proof (Hcs 0%nat) as H0. cbn in H0.
    pose proof (cs_term b d0 v0 x0 H0 Hb1 Hb2).
    assert (dot d x' <= dot d v').
    { apply IH; try assumption. intros n. exact (Hcs (S n)). }
    lra.
Qed.

Lemma zero_rows_sum ys : forall rs x,
  Forall (row_ok x) rs -> Forall (fun r => r_lo r = Fin 0 /\ r_hi r = Fin 0) rs -> sumrows ys rs x == 0.
Proof.
  induction ys as [|y ys IH]; intros rs x H Z; cbn [sumrows]; [reflexivity|].
  destruct rs as [|r rs]; [reflexivity|].
  inversion H as [|r' rs' Hr H']; inversion Z as [|r'' rs'' [Zl Zh] Z']; subst.
  rewrite (IH rs x H' Z'). unfold row_ok, inb in Hr. rewrite Zl, Zh in Hr. cbn in Hr. destruct Hr as [Hr1 Hr2].
  assert (E0 : dot (r_coef r) x == 0) by lra. rewrite E0. lra.
Qed.

Theorem cs_certifies_opt p v ys :
  Forall (fun r => r_lo r = Fin 0 /\ r_hi r = Fin 0) (rows p) ->
  feasible p v ->
  (forall n, match nth_error (vbounds p) n, nth_error (vsub (obj p) (comb ys (rows p))) n, nth_error v n with
             | Some b, Some dn, Some vn => cs_ok b dn vn | _, _, _ => True end) ->
  is_opt p v.
Proof.
  intros Z [Hv Hr] Hcs. split; [split; assumption|]. intros x [Hx Hxr]. unfold value.
  set (d := vsub (obj p) (comb ys (rows p))) in *.
  assert (E : forall z, Forall (row_ok z) (rows p) -> dot (obj p) z == dot d z).
  { intros z Hz. unfold d. rewrite dot_vsub, dot_comb, (zero_rows_sum ys _ z Hz Z). lra. }
  rewrite (E x Hxr), (E v Hr). apply (cs_dot (vbounds p)); assumption.
Qed.
