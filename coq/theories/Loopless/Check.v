(* Correspondence + monitor functions for C17, evaluated by vm_compute on the observations the
   harness took from the real loopless_solution / add_loopless.  Nothing here is a theorem
   (the soundness of the sign-pattern enumeration is proved in Enum.v).                        *)
From Coq Require Import QArith List Bool ZArith.
From Cobra.LP Require Import Defs Cert Fba.
From Cobra.Loopless Require Import Model.
Import ListNotations.
Open Scope Q_scope.

Definition tol : Q := 1 # 1000000.
(* CBox: some variable has crossing bounds (lo > hi), which row multipliers cannot certify *)
Inductive lpcert := COpt (x y : vec) | CInf (y : vec) | CBox.

Definition box_empty (p : lp) : bool := existsb (fun b => negb (valid_b (fst b) (snd b))) (vbounds p).
Definition cert_ok (p : lp) (c : lpcert) : bool :=
  match c with COpt x y => check_opt p x y | CInf y => check_infeasible p y | CBox => box_empty p end.

(* ================= loopless_solution ================= *)
Record lscase := mkLS {
  ls_m : fbamodel;
  ls_start : start;              (* OwnOptimum fluxes objective_value (observed first optimize) | Given fluxes *)
  ls_raised : bool;              (* the implementation raised ValueError *)
  ls_optimal : bool;             (* status of the returned Solution is "optimal" *)
  ls_objval : Q;                 (* Solution.objective_value *)
  ls_flux : vec;                 (* Solution.fluxes, model order *)
  ls_cert : lpcert;              (* exact verdict for the specification problem below *)
  ls_synthetic : bool            (* the starting vector was synthesised by the harness from dyadic numbers (not solver
                                    output), so the exact problem is meaningful even if it is not a flux distribution *)
}.

(* the specification problem: the repaired cycle-free LP with the objective pinned to the objective
   of the starting vector *)
Definition spec_lp (c : lscase) : lp :=
  let w := start_flux (ls_start c) in cf_lp PinEq (ls_m c) w (dot (obj_coefs (ls_m c)) w).

Definition etol (x : Q) : Q := tol * Qmax' 1 (Qabs' x).

Fixpoint boundary_same (rs : list rxn) (w v : vec) : bool :=
  match rs, w, v with
  | [], [], [] => true
  | r :: rs', wi :: w', vi :: v' => (if is_boundary r then close tol vi wi else true) && boundary_same rs' w' v'
  | _, _, _ => false
  end.
Fixpoint signs_kept (w v : vec) : bool :=
  match w, v with
  | [], [] => true
  | wi :: w', vi :: v' =>
      (if Qle_bool 0 wi then Qle_bool (- etol wi) vi && Qle_bool vi (wi + etol wi)
       else Qle_bool (wi - etol wi) vi && Qle_bool vi (etol wi)) && signs_kept w' v'
  | _, _ => false
  end.

Definition ls_checks (c : lscase) : list nat :=
  let m := ls_m c in
  let s := ls_start c in
  let w := start_flux s in
  let cw := dot (obj_coefs m) w in
  (* a vector of the wrong length cannot be looked up: the call raises *)
  if negb (Nat.eqb (length w) (length (rxns m))) then (if ls_raised c then [] else [1%nat]) else
  (* a starting vector that violates a bound of the model (cf_raises: the bounds _add_cycle_free would derive are
     crossed) is outside the property; since the repair de6ebce the new bounds are kept ordered, so the call
     must not raise ValueError for it -- nothing else is claimed about its result *)
  if cf_raises m w then (if ls_raised c then [1%nat] else []) else
  if ls_raised c then [1%nat] else
  (* the exact oracle is only meaningful when the starting vector is exactly a flux distribution of
     the model; otherwise (float noise) the case was counted as ill-conditioned by the harness and
     only the tolerance checks run *)
  let exact := ls_synthetic c || feasible_b (net_lp m) w in
  if exact && negb (cert_ok (spec_lp c) (ls_cert c)) then [9%nat] else
  let feas := match ls_cert c with COpt _ _ => true | _ => false end in
  (if negb exact || Bool.eqb feas (ls_optimal c) then [] else [7%nat]) ++
  (if ls_optimal c && (negb exact || feas) then
     let v := ls_flux c in
     (if feasible_tol (net_lp m) tol v then [] else [2%nat]) ++
     (if boundary_same (rxns m) w v then [] else [3%nat]) ++
     (if signs_kept w v then [] else [4%nat]) ++
     (if close tol (ls_objval c) cw && close tol (ll_objective_value m v) cw &&
         match s with OwnOptimum _ o => close tol o cw | Given _ => true end then [] else [5%nat]) ++
     (match ls_cert c with
      | COpt x _ => if exact then
                      let best := total_internal_flux m w x in
                      if Qle_bool (total_internal_flux m w v) (best + etol best) then [] else [6%nat]
                    else []
      | _ => [] end)
   else []).

(* ================= add_loopless ================= *)
Inductive sg := SN | SZ | SP.
Fixpoint all_patterns (n : nat) : list (list sg) :=
  match n with
  | O => [[]]
  | S n' => flat_map (fun p => [SN :: p; SZ :: p; SP :: p]) (all_patterns n')
  end.

(* (the harness searches with the box |z_i| <= 1; a certificate of optimum 0 found there never uses the
   box, so it also certifies the cone problem stated here) *)
Definition sg_bounds (s : sg) : ebound * ebound :=
  match s with SP => (Fin 0, PosInf) | SN => (NegInf, Fin 0) | SZ => (Fin 0, Fin 0) end.
Definition sg_coef (s : sg) : Q := match s with SP => 1 | SN => -(1) | SZ => 0 end.
(* max sum |z_i| over null-space vectors in the cone of the sign pattern: 0 iff acyclic *)
Definition acyc_lp (S : list vec) (p : list sg) : lp :=
  mkLP (map sg_bounds p) (map zero_row S) (map sg_coef p).
Definition zeros (n : nat) : vec := repeat 0 n.
Definition acyclic_cert (S : list vec) (p : list sg) (y : vec) : bool :=
  check_opt (acyc_lp S p) (zeros (length p)) y.
Definition cyclic_witness (S : list vec) (p : list sg) (z : vec) : bool :=
  feasible_b (acyc_lp S p) z && negb (Qle_bool (value (acyc_lp S p) z) 0).

(* the model polytope restricted to the closed orthant of a sign pattern (internal reactions only) *)
Definition restrict_rxn (r : rxn) (s : sg) : rxn :=
  match s with
  | SP => mkRxn (rx_col r) (emax 0 (rx_lb r)) (rx_ub r) (rx_obj r)
  | SN => mkRxn (rx_col r) (rx_lb r) (emin 0 (rx_ub r)) (rx_obj r)
  | SZ => mkRxn (rx_col r) (emax 0 (rx_lb r)) (emin 0 (rx_ub r)) (rx_obj r)
  end.
Fixpoint restrict (rs : list rxn) (p : list sg) : list rxn :=
  match rs with
  | [] => []
  | r :: rs' => if is_boundary r then r :: restrict rs' p
                else match p with s :: p' => restrict_rxn r s :: restrict rs' p' | [] => r :: restrict rs' [] end
  end.
Definition region_lp (m : fbamodel) (p : list sg) : lp :=
  net_lp (mkFba (nmets m) (restrict (rxns m) p) (maximize m)).

Inductive pat_entry :=
  | PCyclic (z : vec)                        (* witness of a cycle inside the pattern *)
  | PAcyclic (y : vec) (res : lpcert).       (* acyclicity certificate; exact verdict on the region *)

Definition omaxq (a : option Q) (b : Q) : option Q :=
  match a with None => Some b | Some x => Some (if Qle_bool x b then b else x) end.

(* None = some certificate was rejected; Some best = the largest (direction-adjusted) objective over
   all acyclic sign patterns (None = every acyclic region is empty)                              *)
Fixpoint check_pats (m : fbamodel) (S : list vec) (ps : list (list sg)) (es : list pat_entry)
         (best : option Q) : option (option Q) :=
  match ps, es with
  | [], [] => Some best
  | p :: ps', e :: es' =>
      match e with
      | PCyclic z => if cyclic_witness S p z then check_pats m S ps' es' best else None
      | PAcyclic y res =>
          if acyclic_cert S p y && cert_ok (region_lp m p) res then
            check_pats m S ps' es'
              (match res with COpt x _ => omaxq best (value (region_lp m p) x) | _ => best end)
          else None
      end
  | _, _ => None
  end.

Definition loopless_optimum (m : fbamodel) (es : list pat_entry) : option (option Q) :=
  check_pats m (s_int m) (all_patterns (length (internal m))) es None.

Record alcase := mkAL {
  al_m : fbamodel;
  al_basis : list vec;             (* exact null-space basis of the internal stoichiometry (harness) *)
  al_N_ok : bool;                  (* the implementation's N: annihilates S_int within 1e-9, right rank (harness, exact Gauss) *)
  al_pats : list pat_entry;        (* one entry per pattern, in the order of all_patterns *)
  al_opt : option Q;               (* slim_optimize() after add_loopless; None = not optimal *)
  al_flux : option (vec * Q);      (* fluxes and objective value of optimize() after add_loopless *)
  al_flux_pat : option (list sg * pat_entry)   (* sign pattern of those fluxes (None: ill-conditioned), with evidence *)
}.

Definition basis_ok (S N : list vec) : bool :=
  forallb (fun n => forallb (fun s => Qeq_bool (dot s n) 0) S) N.

Definition al_checks (c : alcase) : list nat :=
  let m := al_m c in
  if negb (basis_ok (s_int m) (al_basis c)) then [9%nat] else
  match loopless_optimum m (al_pats c) with
  | None => [9%nat]
  | Some best =>
      (if al_N_ok c then [] else [8%nat]) ++
      (match best, al_opt c with
       | None, None => []
       | Some b, Some o => if close tol o (sgn m * b) then [] else [10%nat]
       | _, _ => [10%nat]
       end) ++
      (match al_flux c with
       | Some (v, o) =>
           (if feasible_tol (net_lp m) tol v then [] else [2%nat]) ++
           (if close tol (ll_objective_value m v) o then [] else [5%nat]) ++
           (match al_flux_pat c with
            | Some (p, PAcyclic y _) => if acyclic_cert (s_int m) p y then [] else [9%nat]
            | Some (p, PCyclic z) => if cyclic_witness (s_int m) p z then [11%nat] else [9%nat]
            | None => []
            end)
       | None => []
       end)
  end.

Inductive c17case := LS (c : lscase) | AL (c : alcase).
Definition checks (c : c17case) : list nat :=
  match c with LS c => ls_checks c | AL c => al_checks c end.

Definition failing (cases : list (Z * c17case)) : list (Z * list (nat * nat)) :=
  filter (fun r => match snd r with [] => false | _ => true end)
         (map (fun c => (fst c, map (fun k => (0%nat, k)) (checks (snd c)))) cases).
