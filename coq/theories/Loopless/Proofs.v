(* Theorems about the model of loopless.py (property C17). *)
From Coq Require Import QArith List Bool Lia Lqa.
From Cobra.LP Require Import Defs Cert Fba.
From Cobra.Loopless Require Import Model.
Import ListNotations.
Open Scope Q_scope.

Inductive Forall3 {A B C} (R : A -> B -> C -> Prop) : list A -> list B -> list C -> Prop :=
  | Forall3_nil : Forall3 R [] [] []
  | Forall3_cons a b c la lb lc : R a b c -> Forall3 R la lb lc -> Forall3 R (a :: la) (b :: lb) (c :: lc).

(* ---- small facts ---- *)
Lemma Forall2_length {A B} (R : A -> B -> Prop) l m : Forall2 R l m -> length l = length m.
Proof. induction 1; cbn; congruence. Qed.

Lemma cf_rxn_col r wi : rx_col (cf_rxn r wi) = rx_col r.
Proof. unfold cf_rxn. destruct (is_boundary r); [reflexivity|]. destruct (Qle_bool 0 wi); reflexivity. Qed.

Lemma cf_rxns_met_row rs : forall w i, length w = length rs -> met_row (cf_rxns rs w) i = met_row rs i.
Proof.
  induction rs as [|r rs IH]; intros w i Hl; destruct w as [|wi w]; cbn in *; try discriminate; [reflexivity|].
  rewrite cf_rxn_col. f_equal. apply IH. lia.
Qed.

Lemma feasible_add_row p r x : feasible (add_row p r) x <-> feasible p x /\ row_ok x r.
Proof.
  unfold feasible, add_row; cbn. rewrite Forall_app. split.
  - intros [Hb [Hr H1]]. inversion H1; subst. tauto.
  - intros [[Hb Hr] H1]. repeat split; try assumption. constructor; [exact H1|constructor].
Qed.

Lemma vsub_cons x v y z : vsub (x :: v) (y :: z) = (x + - y) :: vsub v z.
Proof. reflexivity. Qed.

Lemma dot_vopp_r a : forall x, dot a (vopp x) == - dot a x.
Proof.
  induction a as [|a0 a IH]; intros x; cbn [dot]; [destruct x; cbn; lra|].
  destruct x as [|x0 x]; cbn [vopp map]; [lra|]. fold (vopp x). rewrite IH. lra.
Qed.
Lemma dot_vsub_r a x y : dot a (vsub x y) == dot a x - dot a y.
Proof. unfold vsub. rewrite dot_vadd_r, dot_vopp_r. lra. Qed.

Definition smat (m : fbamodel) : list vec := map (fun i => met_row (rxns m) i) (seq 0 (nmets m)).

Lemma cf_rows m w : length w = length (rxns m) ->
  rows (net_lp (cf_model m w)) = map zero_row (smat m).
Proof.
  intros Hl. unfold net_lp, cf_model, smat; cbn [rows rxns nmets]. rewrite map_map. apply map_ext.
  intros i. rewrite cf_rxns_met_row by exact Hl. reflexivity.
Qed.
Lemma net_rows m : rows (net_lp m) = map zero_row (smat m).
Proof. unfold net_lp, smat; cbn [rows]. rewrite map_map. reflexivity. Qed.

Lemma zero_rows_null S x : Forall (row_ok x) (map zero_row S) <-> null S x.
Proof.
  unfold null. rewrite Forall_map. rewrite !Forall_forall.
  split; intros H r Hr; specialize (H r Hr); unfold row_ok, inb, zero_row in *; cbn in *; lra.
Qed.

(* ---- one reaction of _add_cycle_free ---- *)
Definition cf_point (r : rxn) (wi vi : Q) : Prop :=
  (is_boundary r = true -> vi == wi) /\            (* boundary flux kept exactly *)
  (0 <= wi -> 0 <= vi /\ vi <= wi) /\              (* no reversal, no growth *)
  (wi < 0 -> wi <= vi /\ vi <= 0).

Lemma cf_rxn_point r wi vi :
  (is_boundary r = true -> inb (rx_lb r, rx_ub r) wi) ->
  inb (rx_lb (cf_rxn r wi), rx_ub (cf_rxn r wi)) vi ->
  inb (rx_lb r, rx_ub r) vi /\ cf_point r wi vi.
Proof.
  unfold cf_rxn, cf_point. intros Hb. destruct (is_boundary r) eqn:B.
  - cbn [rx_lb rx_ub]. intros H. assert (E : vi == wi) by (unfold inb in H; cbn in H; lra).
    split; [|split; [intros; exact E|split; intros; lra]].
    apply (inb_proper _ wi vi); [symmetry; exact E|apply Hb; reflexivity].
  - destruct (Qle_bool 0 wi) eqn:W; cbn [rx_lb rx_ub]; unfold inb, emax, emin, qmax, qmin; cbn [fst snd];
      destruct (rx_lb r) as [|l|]; destruct (rx_ub r) as [|u|]; cbn [le_lo le_hi];
      repeat match goal with |- context [Qle_bool ?a ?b] => destruct (Qle_bool a b) eqn:? end;
      qb; intros [HA HB]; try contradiction;
      (split; [split; cbn; try exact I; lra|split; [intros; discriminate|split; intros; lra]]).
Qed.

Lemma cf_bounds_points rs : forall w v,
  Forall2 (fun r wi => is_boundary r = true -> inb (rx_lb r, rx_ub r) wi) rs w ->
  Forall2 inb (map (fun r => (rx_lb r, rx_ub r)) (cf_rxns rs w)) v ->
  Forall2 inb (map (fun r => (rx_lb r, rx_ub r)) rs) v /\ Forall3 cf_point rs w v.
Proof.
  induction rs as [|r rs IH]; intros w v Hw Hv; inversion Hw; subst; cbn in Hv.
  - inversion Hv; subst. split; constructor.
  - inversion Hv as [|b x lb0 lv0 Hx Hv']; subst.
    destruct (cf_rxn_point r _ x H1 Hx) as [A B]. destruct (IH _ _ H3 Hv') as [C D].
    split; [constructor; assumption|constructor; assumption].
Qed.

(* ==== cycle_free_lp_props ==== *)
(* Every feasible point of the LP that loopless_solution / _add_cycle_free build from model m, the
   starting fluxes w and the pinned value opt: is steady-state and within the ORIGINAL bounds
   (feasible for the flux-balance problem of m), keeps every boundary flux exactly, reverses no
   reaction and grows none, and satisfies the objective pin (>= opt always; == opt for the
   repaired equality pin).  Hypothesis: the starting boundary fluxes respect their bounds.     *)
Theorem cycle_free_lp_props pn m w opt v :
  length w = length (rxns m) ->
  Forall2 (fun r wi => is_boundary r = true -> inb (rx_lb r, rx_ub r) wi) (rxns m) w ->
  feasible (cf_lp pn m w opt) v ->
  feasible (net_lp m) v /\ Forall3 cf_point (rxns m) w v /\
  opt <= ll_objective_value m v /\ (pn = PinEq -> ll_objective_value m v == opt).
Proof.
  intros Hl Hw Hf. unfold cf_lp in Hf. apply feasible_add_row in Hf as [[Hb Hr] Hp].
  destruct (cf_bounds_points _ _ _ Hw Hb) as [A B].
  split; [split; [exact A|]|split; [exact B|]].
  - rewrite net_rows. rewrite cf_rows in Hr by exact Hl. exact Hr.
  - unfold row_ok, pin_row, inb, ll_objective_value in *; cbn in Hp. destruct pn; cbn in Hp; split; intros; try discriminate; lra.
Qed.

Corollary cycle_free_same_objective m w opt v :
  length w = length (rxns m) ->
  Forall2 (fun r wi => is_boundary r = true -> inb (rx_lb r, rx_ub r) wi) (rxns m) w ->
  opt == dot (obj_coefs m) w ->
  feasible (cf_lp PinEq m w opt) v ->
  ll_objective_value m v == ll_objective_value m w.
Proof.
  intros Hl Hw Ho Hf. destruct (cycle_free_lp_props _ _ _ _ _ Hl Hw Hf) as [_ [_ [_ E]]].
  unfold ll_objective_value in *. rewrite (E eq_refl). exact Ho.
Qed.

(* the starting vector itself is feasible for the repaired problem when it is a flux distribution of
   the model: so the repaired loopless_solution never reports "infeasible" on such a start        *)
Lemma cf_rxn_start r wi : inb (rx_lb r, rx_ub r) wi -> inb (rx_lb (cf_rxn r wi), rx_ub (cf_rxn r wi)) wi.
Proof.
  unfold cf_rxn. destruct (is_boundary r); [unfold inb; cbn; lra|].
  destruct (Qle_bool 0 wi) eqn:W; cbn [rx_lb rx_ub]; unfold inb, emax, emin, qmax, qmin; cbn [fst snd];
    destruct (rx_lb r) as [|l|]; destruct (rx_ub r) as [|u|]; cbn [le_lo le_hi];
    repeat match goal with |- context [Qle_bool ?a ?b] => destruct (Qle_bool a b) eqn:? end;
    qb; intros [HA HB]; try contradiction; split; try exact I; lra.
Qed.

Theorem cycle_free_start_feasible m w :
  feasible (net_lp m) w -> feasible (cf_lp PinEq m w (dot (obj_coefs m) w)) w.
Proof.
  intros [Hb Hr]. assert (Hl : length w = length (rxns m)).
  { apply Forall2_length in Hb. cbn in Hb. rewrite map_length in Hb. lia. }
  apply feasible_add_row. split; [split|].
  - cbn in *. clear Hr Hl. revert w Hb. induction (rxns m) as [|r rs IH]; intros w Hb; inversion Hb; subst; cbn; constructor.
    + apply cf_rxn_start. assumption.
    + apply IH. assumption.
  - rewrite cf_rows by exact Hl. rewrite net_rows in Hr. exact Hr.
  - unfold row_ok, pin_row, inb; cbn. lra.
Qed.

(* ==== cycle_free_minimal ==== *)
(* z is a sub-flow of v: it never runs against v and is nowhere larger *)
Definition within (vi zi : Q) : Prop := (0 <= zi /\ zi <= vi) \/ (vi <= zi /\ zi <= 0).

Lemma cf_rxn_remove r wi vi zi :
  inb (rx_lb (cf_rxn r wi), rx_ub (cf_rxn r wi)) vi -> within vi zi ->
  (is_boundary r = true -> zi == 0) -> inb (rx_lb r, rx_ub r) (vi + - zi) ->
  inb (rx_lb (cf_rxn r wi), rx_ub (cf_rxn r wi)) (vi + - zi) /\
  0 <= rx_obj (cf_rxn r wi) * zi /\ (rx_obj (cf_rxn r wi) * zi == 0 -> zi == 0).
Proof.
  unfold cf_rxn, within. destruct (is_boundary r) eqn:B.
  - cbn. unfold inb; cbn. intros [H1 H2] _ Hz _. specialize (Hz eq_refl). repeat split; lra.
  - intros Hv Hwi _. revert Hv.
    destruct (Qle_bool 0 wi) eqn:W; cbn [rx_lb rx_ub rx_obj]; unfold inb, emax, emin, qmax, qmin; cbn [fst snd];
      destruct (rx_lb r) as [|l|]; destruct (rx_ub r) as [|u|]; cbn [le_lo le_hi];
      repeat match goal with |- context [Qle_bool ?a ?b] => destruct (Qle_bool a b) eqn:? end;
      qb; intros [HA HB] [HC HD]; try contradiction;
      (split; [split; try exact I; lra|split; [lra|intros; lra]]).
Qed.

Lemma cf_remove_all rs : forall w v z,
  Forall2 inb (map (fun r => (rx_lb r, rx_ub r)) (cf_rxns rs w)) v ->
  Forall2 within v z ->
  Forall2 (fun r zi => is_boundary r = true -> zi == 0) rs z ->
  Forall2 inb (map (fun r => (rx_lb r, rx_ub r)) rs) (vsub v z) ->
  Forall2 inb (map (fun r => (rx_lb r, rx_ub r)) (cf_rxns rs w)) (vsub v z) /\
  0 <= dot (map rx_obj (cf_rxns rs w)) z /\
  (dot (map rx_obj (cf_rxns rs w)) z == 0 -> Forall (fun zi => zi == 0) z).
Proof.
  induction rs as [|r rs IH]; intros w v z Hv Hz Hb Ho.
  - inversion Hb; subst. inversion Hz; subst. cbn. repeat split; try constructor; lra.
  - inversion Hb as [|r' zi rs' z' Hb1 Hb2]; subst. inversion Hz as [|vi zi' v' z'' Hz1 Hz2]; subst.
    destruct w as [|wi w]; [inversion Hv|]. cbn [cf_rxns map] in *.
    inversion Hv as [|b x lb0 lv0 Hv1 Hv2]; subst. rewrite vsub_cons in *.
    inversion Ho as [|b' x' lb1 lv1 Ho1 Ho2]; subst.
    destruct (cf_rxn_remove r wi vi zi Hv1 Hz1 Hb1 Ho1) as [A [B C]].
    destruct (IH w v' z' Hv2 Hz2 Hb2 Ho2) as [D [E F]].
    split; [constructor; assumption|]. cbn [dot]. split; [lra|].
    intros H0. constructor; [apply C; lra|apply F; lra].
Qed.

Lemma net_obj_min rs nm x : dot (net_obj (mkFba nm rs false)) x == - dot (map rx_obj rs) x.
Proof.
  unfold net_obj, sgn; cbn. revert x. induction rs as [|r rs IH]; intros x; cbn [map dot]; [lra|].
  destruct x as [|x0 x]; [lra|]. rewrite IH. lra.
Qed.

(* An OPTIMAL solution v of the cycle-free problem contains no removable internal cycle: if z is a
   steady-state flow (S z = 0) through internal reactions only, contained in v (`within`), and
   v - z still satisfies the original bounds and the objective pin, then z = 0.  (Boundary fluxes,
   signs and magnitudes are kept by v - z automatically, see the proof.)                        *)
Theorem cycle_free_minimal pn m w opt v z :
  length w = length (rxns m) ->
  is_opt (cf_lp pn m w opt) v ->
  null (smat m) z ->
  Forall2 (fun r zi => is_boundary r = true -> zi == 0) (rxns m) z ->
  Forall2 within v z ->
  Forall2 inb (map (fun r => (rx_lb r, rx_ub r)) (rxns m)) (vsub v z) ->
  row_ok (vsub v z) (pin_row pn (obj_coefs m) opt) ->
  Forall (fun zi => zi == 0) z.
Proof.
  intros Hl [Hf Hopt] Hn Hb Hz Ho Hp.
  pose proof Hf as Hf'. unfold cf_lp in Hf'. apply feasible_add_row in Hf' as [[Hvb Hvr] Hvp].
  destruct (cf_remove_all _ _ _ _ Hvb Hz Hb Ho) as [A [B C]].
  assert (Hf2 : feasible (cf_lp pn m w opt) (vsub v z)).
  { unfold cf_lp. apply feasible_add_row. split; [split|exact Hp]; [exact A|].
    rewrite cf_rows in * by exact Hl. apply zero_rows_null. apply zero_rows_null in Hvr.
    unfold null in *. rewrite Forall_forall in *. intros s Hs. rewrite dot_vsub_r, (Hvr s Hs), (Hn s Hs). lra. }
  specialize (Hopt _ Hf2). unfold value, cf_lp, add_row in Hopt; cbn [obj] in Hopt.
  change (obj (net_lp (cf_model m w))) with (net_obj (cf_model m w)) in Hopt.
  unfold cf_model in Hopt. rewrite !net_obj_min, dot_vsub_r in Hopt. cbn [rxns] in Hopt.
  apply C. lra.
Qed.

(* with the repaired (equality) pin the last condition is: the cycle does not carry objective *)
Corollary cycle_free_minimal_eq m w opt v z :
  length w = length (rxns m) ->
  is_opt (cf_lp PinEq m w opt) v ->
  null (smat m) z ->
  Forall2 (fun r zi => is_boundary r = true -> zi == 0) (rxns m) z ->
  Forall2 within v z ->
  Forall2 inb (map (fun r => (rx_lb r, rx_ub r)) (rxns m)) (vsub v z) ->
  dot (obj_coefs m) z == 0 ->
  Forall (fun zi => zi == 0) z.
Proof.
  intros Hl Ho Hn Hb Hz Hbd Hc. apply (cycle_free_minimal PinEq m w opt v z); try assumption.
  destruct Ho as [Hf _]. unfold cf_lp in Hf. apply feasible_add_row in Hf as [_ Hp].
  unfold row_ok, pin_row, inb in *; cbn in *. rewrite dot_vsub_r. lra.
Qed.

(* ==== add_loopless_sound ==== *)
Lemma lincomb_dot_zero g : forall lam N, Forall (fun n => dot n g == 0) N -> dot (lincomb lam N) g == 0.
Proof.
  induction lam as [|l lam IH]; intros N H; cbn [lincomb]; [reflexivity|].
  destruct N as [|n N]; [reflexivity|]. inversion H; subst.
  rewrite dot_vadd, dot_vscale, IH by assumption. rewrite H2. lra.
Qed.

Lemma ll_term M x zi :
  binary (lv_a x) /\ on_off_ok M x /\ delta_g_ok M x -> along (lv_v x) zi ->
  zi * lv_g x <= 0 /\ (zi * lv_g x == 0 -> zi == 0).
Proof.
  unfold binary, on_off_ok, delta_g_ok, along. intros [Ha [[H1 H2] [H3 H4]]] [Hp Hn].
  destruct (Qlt_le_dec 0 zi) as [P|P].
  - specialize (Hp P). assert (lv_a x == 1) by (destruct Ha as [E|E]; [rewrite E in *; lra|exact E]).
    assert (lv_g x <= - (1)) by (rewrite H in *; lra). split; [nra|intros; nra].
  - destruct (Qlt_le_dec zi 0) as [Ng|Ng].
    + specialize (Hn Ng). assert (lv_a x == 0) by (destruct Ha as [E|E]; [exact E|rewrite E in *; lra]).
      assert (1 <= lv_g x) by (rewrite H in *; lra). split; [nra|intros; nra].
    + assert (zi == 0) by lra. split; [nra|intros; assumption].
Qed.

Lemma ll_terms M : forall xs z,
  Forall (fun x => binary (lv_a x) /\ on_off_ok M x /\ delta_g_ok M x) xs ->
  Forall2 along (map lv_v xs) z ->
  dot z (map lv_g xs) <= 0 /\ (dot z (map lv_g xs) == 0 -> Forall (fun zi => zi == 0) z).
Proof.
  induction xs as [|x xs IH]; intros z Hx Hz; cbn in Hz; inversion Hz as [|v0 y vs zs Hz1 Hz2]; subst.
  - cbn. split; [lra|constructor].
  - inversion Hx as [|x0 xs0 Hx1 Hx2]; subst. destruct (ll_term M x y Hx1 Hz1) as [A B]. destruct (IH _ Hx2 Hz2) as [C D].
    cbn [map dot]. split; [lra|]. intros E. constructor; [apply B; lra|apply D; lra].
Qed.

(* Every feasible point of the constraint system added by add_loopless is free of internal cycles
   (no non-zero null-space vector of the internal stoichiometry runs along its fluxes), PROVIDED the
   rows of N span that null space.                                                                *)
Theorem add_loopless_sound M S N xs :
  spans (length xs) S N -> ll_feasible M N xs -> ~ has_cycle S (map lv_v xs).
Proof.
  intros Hs [Hx HN] [z [Hn [Ha Hnz]]].
  assert (Hl : length z = length xs) by (apply Forall2_length in Ha; rewrite map_length in Ha; lia).
  destruct (Hs z Hl Hn) as [lam Hlam].
  specialize (Hlam (map lv_g xs) (map_length _ _)).
  rewrite (lincomb_dot_zero _ lam N HN) in Hlam.
  destruct (ll_terms M xs z Hx Ha) as [_ D]. apply Hnz, D, Hlam.
Qed.

Corollary add_loopless_model_sound m M N v xs :
  spans (length (internal m)) (s_int m) N -> add_loopless_feasible m M N v xs ->
  length xs = length (internal m) ->
  feasible (net_lp m) v /\ ~ has_cycle (s_int m) (select (rxns m) v).
Proof.
  intros Hs [Hf [Hv Hll]] Hlen. split; [exact Hf|]. rewrite <- Hv.
  apply (add_loopless_sound M _ N); [rewrite Hlen; exact Hs|exact Hll].
Qed.

(* The converse ("completeness": every loop-free flux distribution of the model extends to a feasible
   point of the constraint system, so the optimum after add_loopless is the largest loop-free
   objective) needs a theorem of the alternative (Gordan / Stiemke) and a big-M argument; it is NOT
   proved.  It is validated per instance by the sign-pattern enumeration of Check.v.              *)
Definition add_loopless_complete_statement : Prop :=
  forall m M N v, max_bound m = Some M -> spans (length (internal m)) (s_int m) N ->
    feasible (net_lp m) v -> ~ has_cycle (s_int m) (select (rxns m) v) ->
    exists xs, add_loopless_feasible m M N v xs.
Definition add_loopless_partial := add_loopless_model_sound.
