(* The cycle-free problem in cobrapy's forward/reverse encoding (what _add_cycle_free really hands to
   the solver: bounds through Reaction.update_variable_bounds, objective = ONE variable of each internal
   pair) is equivalent to the net-flux problem `cf_lp` the theorems of Proofs.v talk about.            *)
From Coq Require Import QArith List Bool Lia Lqa.
From Cobra.LP Require Import Defs Cert Fba.
From Cobra.Loopless Require Import Model Proofs.
Import ListNotations.
Open Scope Q_scope.

Lemma feasible_rows_app vb rs r o o' x :
  feasible (mkLP vb (rs ++ [r]) o) x <-> feasible (mkLP vb rs o') x /\ row_ok x r.
Proof.
  unfold feasible; cbn. rewrite Forall_app. split.
  - intros [Hb [Hr H1]]. inversion H1; subst. tauto.
  - intros [[Hb Hr] H1]. repeat split; try assumption. constructor; [exact H1|constructor].
Qed.

(* a lower bound >= 0 forces the reverse variable to 0; an upper bound <= 0 the forward variable *)
Lemma rev_zero lb ub rv :
  valid lb ub -> match lb with Fin l => 0 <= l | PosInf => True | NegInf => False end ->
  inb (snd (split_bounds lb ub)) rv -> rv == 0.
Proof.
  unfold valid, split_bounds, inb. intros [Hle [Hl Hu]] H0.
  destruct (epos lb) eqn:E1; [|destruct (eneg ub) eqn:E2]; cbn [fst snd];
    destruct lb as [|l|]; destruct ub as [|u|]; cbn in *; try congruence; try tauto; qb;
    intros [? ?]; lra.
Qed.
Lemma fwd_zero lb ub f :
  valid lb ub -> match ub with Fin u => u <= 0 | NegInf => True | PosInf => False end ->
  inb (fst (split_bounds lb ub)) f -> f == 0.
Proof.
  unfold valid, split_bounds, inb. intros [Hle [Hl Hu]] H0.
  destruct (epos lb) eqn:E1; [|destruct (eneg ub) eqn:E2]; cbn [fst snd];
    destruct lb as [|l|]; destruct ub as [|u|]; cbn in *; try congruence; try tauto; qb;
    intros [? ?]; lra.
Qed.

Lemma emax_ge a lb : match emax a lb with Fin l => a <= l | PosInf => True | NegInf => False end.
Proof. unfold emax, qmax. destruct lb as [|l|]; try exact I; [lra|]. destruct (Qle_bool a l) eqn:E; qb; lra. Qed.
Lemma emin_le a ub : match emin a ub with Fin u => u <= a | NegInf => True | PosInf => False end.
Proof. unfold emin, qmin. destruct ub as [|u|]; try exact I; [|lra]. destruct (Qle_bool a u) eqn:E; qb; lra. Qed.

Lemma cf_split_value rs : forall w zs,
  Forall (fun r => valid (rx_lb r) (rx_ub r)) (cf_rxns rs w) ->
  Forall2 inb (flat_bounds (map (fun r => split_bounds (rx_lb r) (rx_ub r)) (cf_rxns rs w))) (flat zs) ->
  dot (cf_split_obj rs w) (flat zs) == - dot (map rx_obj (cf_rxns rs w)) (nets zs).
Proof.
  induction rs as [|r rs IH]; intros w zs Hv Hb; [cbn; lra|].
  destruct w as [|wi w]; [cbn; lra|]. cbn [cf_rxns cf_split_obj map] in *.
  inversion Hv as [|r' rs' V Hv']; subst.
  destruct (split_bounds (rx_lb (cf_rxn r wi)) (rx_ub (cf_rxn r wi))) as [fb rb] eqn:E. cbn [flat_bounds] in Hb.
  destruct zs as [|[f rv] zs]; [inversion Hb|]. cbn [flat nets map fst snd] in *.
  inversion Hb as [|b1 x1 l1 l1' Hf H1]; subst. inversion H1 as [|b2 x2 l2 l2' Hr H2]; subst.
  specialize (IH w zs Hv' H2). fold (nets zs).
  assert (Hf' : inb (fst (split_bounds (rx_lb (cf_rxn r wi)) (rx_ub (cf_rxn r wi)))) f) by (rewrite E; exact Hf).
  assert (Hr' : inb (snd (split_bounds (rx_lb (cf_rxn r wi)) (rx_ub (cf_rxn r wi)))) rv) by (rewrite E; exact Hr).
  clear E Hf Hr Hb H1. revert V Hf' Hr'. unfold cf_rxn.
  destruct (is_boundary r); [|destruct (Qle_bool 0 wi) eqn:W]; cbn [rx_lb rx_ub rx_obj app dot]; intros V Hf' Hr'.
  - rewrite IH. lra.
  - assert (rv == 0) by (apply (rev_zero _ _ _ V); [apply emax_ge|exact Hr']). rewrite IH. lra.
  - assert (f == 0) by (apply (fwd_zero _ _ _ V); [apply emin_le|exact Hf']). rewrite IH. lra.
Qed.

Lemma pin_row_dup pn c opt zs : row_ok (flat zs) (pin_row pn (dup c) opt) <-> row_ok (nets zs) (pin_row pn c opt).
Proof.
  unfold row_ok, pin_row; cbn [r_coef r_lo r_hi].
  split; apply inb_proper; [apply dot_dup|symmetry; apply dot_dup].
Qed.

Lemma row_ok_ext r x y : Forall2 Qeq x y -> row_ok x r -> row_ok y r.
Proof. intros H. unfold row_ok. apply inb_proper. apply dot_ext. exact H. Qed.

Theorem cf_split_equiv pn m w opt :
  length w = length (rxns m) -> valid_model (cf_model m w) ->
  (forall zs, feasible (cf_split_lp pn m w opt) (flat zs) ->
     feasible (cf_lp pn m w opt) (nets zs) /\
     value (cf_split_lp pn m w opt) (flat zs) == value (cf_lp pn m w opt) (nets zs)) /\
  (forall v, feasible (cf_lp pn m w opt) v ->
     feasible (cf_split_lp pn m w opt) (flat (splits v)) /\
     value (cf_split_lp pn m w opt) (flat (splits v)) == value (cf_lp pn m w opt) v).
Proof.
  intros Hl Hv.
  assert (D1 : forall zs, feasible (cf_split_lp pn m w opt) (flat zs) ->
     feasible (cf_lp pn m w opt) (nets zs) /\
     value (cf_split_lp pn m w opt) (flat zs) == value (cf_lp pn m w opt) (nets zs)).
  { intros zs Hf. unfold cf_split_lp in Hf.
    apply (feasible_rows_app _ _ _ _ (obj (split_lp (cf_model m w)))) in Hf as [Hs Hp].
    assert (Hs' : feasible (split_lp (cf_model m w)) (flat zs)) by exact Hs.
    destruct (split_to_net _ _ Hv Hs') as [Hn _]. split.
    - unfold cf_lp. apply feasible_add_row. split; [exact Hn|apply pin_row_dup; exact Hp].
    - unfold value, cf_split_lp, cf_lp, add_row; cbn [obj].
      change (obj (net_lp (cf_model m w))) with (net_obj (cf_model m w)).
      unfold cf_model. rewrite net_obj_min. destruct Hs' as [Hb _].
      apply cf_split_value; [exact Hv|exact Hb]. }
  split; [exact D1|].
  intros v Hf. pose proof Hf as Hf0. unfold cf_lp in Hf. apply feasible_add_row in Hf as [Hn Hp].
  destruct (net_to_split _ _ Hv Hn) as [Hs _].
  assert (Hsf : feasible (cf_split_lp pn m w opt) (flat (splits v))).
  { unfold cf_split_lp. apply (feasible_rows_app _ _ _ _ (obj (split_lp (cf_model m w)))). split; [exact Hs|].
    apply pin_row_dup. apply (row_ok_ext _ v); [|exact Hp].
    clear. induction v as [|x v IH]; cbn; constructor; [|exact IH].
    destruct (qpos_spec x) as [_ [_ [E _]]]. symmetry. exact E. }
  split; [exact Hsf|]. destruct (D1 _ Hsf) as [_ E]. rewrite E.
  unfold value. apply dot_ext, nets_splits.
Qed.
