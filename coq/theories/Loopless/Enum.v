(* Soundness of the brute-force oracle for add_loopless (Check.loopless_optimum): if every certificate of
   the sign-pattern enumeration checks, the value it returns is an upper bound of the objective of every
   loop-free flux distribution of the model, and it is attained by one.                                 *)
From Coq Require Import QArith List Bool Lia Lqa.
From Cobra.LP Require Import Defs Cert Fba.
From Cobra.Loopless Require Import Model Proofs Check.
Import ListNotations.
Open Scope Q_scope.

Definition sg_of (x : Q) : sg := if Qle_bool x 0 then (if Qle_bool 0 x then SZ else SN) else SP.
Definition pat_of (v : vec) : list sg := map sg_of v.
(* closed orthant of a sign *)
Definition sg_in (s : sg) (x : Q) : Prop := match s with SP => 0 <= x | SN => x <= 0 | SZ => x == 0 end.

Lemma sg_in_of x : sg_in (sg_of x) x.
Proof. unfold sg_of. destruct (Qle_bool x 0) eqn:A; [destruct (Qle_bool 0 x) eqn:B|]; qb; cbn; lra. Qed.

Lemma all_patterns_complete p : In p (all_patterns (length p)).
Proof.
  induction p as [|s p IH]; cbn; [left; reflexivity|].
  apply in_flat_map. exists p. split; [exact IH|]. destruct s; cbn; tauto.
Qed.
Lemma all_patterns_length n : forall p, In p (all_patterns n) -> length p = n.
Proof.
  induction n as [|n IH]; cbn; intros p H.
  - destruct H as [<-|[]]. reflexivity.
  - apply in_flat_map in H as [q [Hq H]]. specialize (IH _ Hq). cbn in H.
    destruct H as [<-|[<-|[<-|[]]]]; cbn; lia.
Qed.

(* ---- the acyclicity test ---- *)
Lemma acyc_bounds p : forall z, Forall2 inb (map sg_bounds p) z <-> Forall2 sg_in p z.
Proof.
  induction p as [|s p IH]; intros z; split; intros H; inversion H; subst; cbn; constructor;
    try (apply IH; assumption).
  - destruct s; unfold inb in *; cbn in *; lra.
  - destruct s; unfold inb; cbn in *; try split; try exact I; lra.
Qed.

Lemma acyc_feasible S p z : feasible (acyc_lp S p) z <-> Forall2 sg_in p z /\ null S z.
Proof. unfold feasible, acyc_lp; cbn. rewrite acyc_bounds, zero_rows_null. tauto. Qed.

Lemma sg_terms p : forall z, Forall2 sg_in p z ->
  0 <= dot (map sg_coef p) z /\ (dot (map sg_coef p) z == 0 -> Forall (fun zi => zi == 0) z).
Proof.
  induction p as [|s p IH]; intros z H; inversion H; subst; cbn [map dot].
  - split; [lra|constructor].
  - destruct (IH _ H4) as [A B]. destruct s; cbn in *; (split; [lra|intros E; constructor; [lra|apply B; lra]]).
Qed.

Lemma dot_all_zero a : forall z, Forall (fun zi => zi == 0) z -> dot a z == 0.
Proof.
  induction a as [|a0 a IH]; intros z H; cbn [dot]; [reflexivity|].
  destruct z as [|z0 z]; [reflexivity|]. inversion H; subst. rewrite (IH _ H3), H2. lra.
Qed.
Lemma dot_zeros a n : dot a (zeros n) == 0.
Proof. apply dot_all_zero. unfold zeros. apply Forall_forall. intros x Hx. apply repeat_spec in Hx. subst. reflexivity. Qed.

Lemma along_of_pat x : forall z, Forall2 sg_in (pat_of x) z -> Forall2 along x z.
Proof.
  induction x as [|x0 x IH]; intros z H; inversion H; subst; constructor; [|apply IH; assumption].
  unfold along. unfold sg_of in H2. destruct (Qle_bool x0 0) eqn:A; [destruct (Qle_bool 0 x0) eqn:B|]; qb; cbn in H2; split; intros; lra.
Qed.

Lemma cyclic_has_cycle S x z : cyclic_witness S (pat_of x) z = true -> has_cycle S x.
Proof.
  unfold cyclic_witness. intros H. apply andb_true_iff in H as [Hf Hv]. apply feasible_b_ok in Hf.
  apply acyc_feasible in Hf as [Hs Hn]. exists z. split; [exact Hn|]. split; [apply along_of_pat; exact Hs|].
  intros Hz. apply negb_true_iff in Hv. unfold value, acyc_lp in Hv; cbn [obj] in Hv.
  assert (E : Qle_bool (dot (map sg_coef (pat_of x)) z) 0 = true) by (apply Qle_bool_iff; rewrite (dot_all_zero _ _ Hz); lra).
  congruence.
Qed.

Lemma in_along s xi zi : sg_in s xi -> along xi zi -> sg_in s zi.
Proof.
  unfold along. intros H [P N]. destruct s; cbn in *.
  - destruct (Qlt_le_dec 0 zi) as [L|L]; [specialize (P L); lra|exact L].
  - destruct (Qlt_le_dec 0 zi) as [L|L]; [specialize (P L); lra|].
    destruct (Qlt_le_dec zi 0) as [L'|L']; [specialize (N L'); lra|lra].
  - destruct (Qlt_le_dec zi 0) as [L|L]; [specialize (N L); lra|exact L].
Qed.

Lemma acyclic_no_cycle S p y x : acyclic_cert S p y = true -> Forall2 sg_in p x -> ~ has_cycle S x.
Proof.
  unfold acyclic_cert. intros H Hx [z [Hn [Ha Hnz]]]. apply check_opt_sound in H as [_ Hopt].
  assert (Hz : Forall2 sg_in p z).
  { clear - Hx Ha. revert x z Hx Ha. induction p as [|s p IH]; intros x z Hx Ha; inversion Hx; subst; inversion Ha; subst; constructor.
    - eapply in_along; eassumption.
    - eapply IH; eassumption. }
  assert (Hf : feasible (acyc_lp S p) z) by (apply acyc_feasible; tauto).
  specialize (Hopt _ Hf). unfold value, acyc_lp in Hopt; cbn [obj] in Hopt. rewrite dot_zeros in Hopt.
  destruct (sg_terms _ _ Hz) as [A B]. apply Hnz, B. lra.
Qed.

(* ---- the region of a sign pattern ---- *)
Lemma restrict_rxn_inb r s xi :
  inb (rx_lb (restrict_rxn r s), rx_ub (restrict_rxn r s)) xi <-> inb (rx_lb r, rx_ub r) xi /\ sg_in s xi.
Proof.
  unfold restrict_rxn, inb, emax, emin, qmax, qmin.
  destruct s; cbn [rx_lb rx_ub fst snd sg_in]; destruct (rx_lb r) as [|l|]; destruct (rx_ub r) as [|u|]; cbn [le_lo le_hi];
    repeat match goal with |- context [Qle_bool ?a ?b] => destruct (Qle_bool a b) eqn:? end; qb;
    split; intros HH; repeat split; try exact I; try lra; try tauto.
Qed.

Lemma restrict_map_inv {A} (f : rxn -> A) : (forall r s, f (restrict_rxn r s) = f r) ->
  forall rs p, map f (restrict rs p) = map f rs.
Proof.
  intros Hf. induction rs as [|r rs IH]; intros p; cbn; [reflexivity|].
  destruct (is_boundary r); cbn; [rewrite IH; reflexivity|].
  destruct p as [|s p]; cbn; rewrite IH; [reflexivity|rewrite Hf; reflexivity].
Qed.

Lemma restrict_bounds_in rs : forall p x,
  length p = length (filter (fun r => negb (is_boundary r)) rs) ->
  Forall2 inb (map (fun r => (rx_lb r, rx_ub r)) (restrict rs p)) x ->
  Forall2 inb (map (fun r => (rx_lb r, rx_ub r)) rs) x /\ Forall2 sg_in p (select rs x).
Proof.
  induction rs as [|r rs IH]; intros p x Hl H; cbn in *.
  - inversion H; subst. destruct p; [|discriminate]. split; constructor.
  - destruct (is_boundary r) eqn:B; cbn in *.
    + inversion H as [|b xi l l' H1 H2]; subst. destruct (IH _ _ Hl H2) as [C D]. split; [constructor; assumption|exact D].
    + destruct p as [|s p]; [discriminate|]. cbn in H. inversion H as [|b xi l l' H1 H2]; subst.
      assert (Hl' : length p = length (filter (fun r => negb (is_boundary r)) rs)) by (cbn in Hl; lia).
      destruct (IH _ _ Hl' H2) as [C D]. apply restrict_rxn_inb in H1 as [E F].
      split; constructor; assumption.
Qed.

Lemma restrict_bounds_of rs : forall x,
  Forall2 inb (map (fun r => (rx_lb r, rx_ub r)) rs) x ->
  Forall2 inb (map (fun r => (rx_lb r, rx_ub r)) (restrict rs (pat_of (select rs x)))) x.
Proof.
  induction rs as [|r rs IH]; intros x H; cbn in *; inversion H; subst; [constructor|].
  destruct (is_boundary r) eqn:B; cbn.
  - constructor; [assumption|apply IH; assumption].
  - constructor; [|apply IH; assumption]. apply restrict_rxn_inb. split; [assumption|apply sg_in_of].
Qed.

Lemma select_length rs : forall x, length x = length rs ->
  length (select rs x) = length (filter (fun r => negb (is_boundary r)) rs).
Proof.
  induction rs as [|r rs IH]; intros x H; destruct x as [|xi x]; cbn in *; try discriminate; [reflexivity|].
  destruct (is_boundary r); cbn; rewrite IH by lia; reflexivity.
Qed.

Lemma region_rows m p : rows (region_lp m p) = rows (net_lp m).
Proof.
  unfold region_lp, net_lp; cbn [rows rxns nmets]. apply map_ext. intros i. unfold met_row.
  rewrite (restrict_map_inv (fun r => nth i (rx_col r) 0)); [reflexivity|]. intros r s. destruct s; reflexivity.
Qed.
Lemma region_obj m p : obj (region_lp m p) = obj (net_lp m).
Proof.
  unfold region_lp, net_lp, net_obj, sgn; cbn [obj rxns maximize].
  apply restrict_map_inv. intros r s. destruct s; reflexivity.
Qed.

Lemma region_sub m p x : length p = length (internal m) -> feasible (region_lp m p) x ->
  feasible (net_lp m) x /\ Forall2 sg_in p (select (rxns m) x) /\ value (region_lp m p) x = value (net_lp m) x.
Proof.
  intros Hl [Hb Hr]. rewrite region_rows in Hr. unfold region_lp at 1, net_lp at 1 in Hb; cbn [vbounds rxns] in Hb.
  destruct (restrict_bounds_in _ _ _ Hl Hb) as [A B].
  split; [split; [exact A|exact Hr]|]. split; [exact B|]. unfold value. rewrite region_obj. reflexivity.
Qed.

Lemma region_of m v : feasible (net_lp m) v ->
  feasible (region_lp m (pat_of (select (rxns m) v))) v /\
  value (region_lp m (pat_of (select (rxns m) v))) v = value (net_lp m) v.
Proof.
  intros [Hb Hr]. split; [split|].
  - unfold region_lp, net_lp; cbn [vbounds rxns]. apply restrict_bounds_of. exact Hb.
  - rewrite region_rows. exact Hr.
  - unfold value. rewrite region_obj. reflexivity.
Qed.

(* ---- the enumeration ---- *)
Definition ole (a b : option Q) : Prop :=
  match a with None => True | Some x => exists y, b = Some y /\ x <= y end.
Lemma ole_refl a : ole a a.
Proof. destruct a; cbn; [eexists; split; [reflexivity|lra]|exact I]. Qed.
Lemma ole_trans a b c : ole a b -> ole b c -> ole a c.
Proof.
  destruct a as [x|]; cbn; [|tauto]. intros [y [-> Hxy]]. cbn. intros [z [-> Hyz]]. exists z. split; [reflexivity|lra].
Qed.
Lemma ole_omaxq a v : ole a (omaxq a v) /\ ole (Some v) (omaxq a v).
Proof.
  destruct a as [x|]; cbn.
  - destruct (Qle_bool x v) eqn:E; qb; split; eexists; split; try reflexivity; lra.
  - split; [exact I|]. eexists; split; [reflexivity|lra].
Qed.

Lemma box_empty_sound p : box_empty p = true -> forall x, ~ feasible p x.
Proof.
  unfold box_empty. intros H x [Hb _]. apply existsb_exists in H as [b [Hin Hv]].
  apply negb_true_iff in Hv.
  assert (forall y, ~ inb b y).
  { intros y Hy. destruct b as [lo hi]. cbn in Hv. assert (V : valid lo hi).
    { unfold valid, inb in *; cbn in *. destruct lo, hi; cbn in *; repeat split; try congruence; try tauto; lra. }
    apply valid_b_ok in V. congruence. }
  clear Hv. induction Hb as [|b' y l l' Hy Hb IH]; [destruct Hin|].
  destruct Hin as [->|Hin]; [exact (H _ Hy)|exact (IH Hin)].
Qed.

Lemma cert_ok_sound p c : cert_ok p c = true ->
  match c with COpt x _ => is_opt p x | _ => forall x, ~ feasible p x end.
Proof.
  destruct c; cbn; intros H.
  - eapply check_opt_sound; eassumption.
  - apply check_infeasible_sound in H. exact H.
  - apply box_empty_sound. exact H.
Qed.

Definition pat_ok (m : fbamodel) (S : list vec) (best : option Q) (p : list sg) : Prop :=
  (exists z, cyclic_witness S p z = true) \/
  ((exists y, acyclic_cert S p y = true) /\
   forall x, feasible (region_lp m p) x -> exists b, best = Some b /\ value (region_lp m p) x <= b).

Lemma pat_ok_mono m S b b' p : ole b b' -> pat_ok m S b p -> pat_ok m S b' p.
Proof.
  intros Hle [H|[Hy H]]; [left; exact H|right]. split; [exact Hy|]. intros x Hx. destruct (H x Hx) as [v [-> Hv]].
  cbn in Hle. destruct Hle as [y [-> Hy']]. exists y. split; [reflexivity|lra].
Qed.

Lemma check_pats_sound m S : forall ps es b0 best,
  check_pats m S ps es b0 = Some best -> ole b0 best /\ Forall (pat_ok m S best) ps.
Proof.
  induction ps as [|p ps IH]; intros es b0 best H; destruct es as [|e es]; cbn in H; try discriminate.
  - inversion H; subst. split; [apply ole_refl|constructor].
  - destruct e as [z|y res].
    + destruct (cyclic_witness S p z) eqn:E; [|discriminate]. destruct (IH _ _ _ H) as [A B].
      split; [exact A|]. constructor; [left; exists z; exact E|exact B].
    + destruct (acyclic_cert S p y) eqn:E1; [|discriminate]. destruct (cert_ok (region_lp m p) res) eqn:E2; [|discriminate].
      cbn in H. destruct (IH _ _ _ H) as [A B]. apply cert_ok_sound in E2.
      destruct res as [x yy|yy|].
      * destruct (ole_omaxq b0 (value (region_lp m p) x)) as [O1 O2].
        split; [eapply ole_trans; eassumption|]. constructor; [|exact B]. right. split; [exists y; exact E1|].
        intros x' Hx'. destruct E2 as [_ Hopt]. specialize (Hopt _ Hx').
        pose proof (ole_trans _ _ _ O2 A) as [b [-> Hb]]. exists b. split; [reflexivity|lra].
      * split; [exact A|]. constructor; [|exact B]. right. split; [exists y; exact E1|]. intros x' Hx'. destruct (E2 _ Hx').
      * split; [exact A|]. constructor; [|exact B]. right. split; [exists y; exact E1|]. intros x' Hx'. destruct (E2 _ Hx').
Qed.

Lemma check_pats_attained m S : forall ps es b0 best,
  check_pats m S ps es b0 = Some best ->
  best = b0 \/ exists p y x yy, In p ps /\ acyclic_cert S p y = true /\
                                check_opt (region_lp m p) x yy = true /\ best = Some (value (region_lp m p) x).
Proof.
  induction ps as [|p ps IH]; intros es b0 best H; destruct es as [|e es]; cbn [check_pats] in H; try discriminate.
  - inversion H; subst. left; reflexivity.
  - destruct e as [z|y res].
    + destruct (cyclic_witness S p z); [|discriminate]. destruct (IH _ _ _ H) as [A|[p' [y' [x [yy [I1 R]]]]]]; [left; exact A|].
      right. exists p', y', x, yy. split; [right; exact I1|exact R].
    + destruct (acyclic_cert S p y) eqn:E1; [|discriminate]. destruct (cert_ok (region_lp m p) res) eqn:E2; [|discriminate].
      cbn [andb] in H. destruct (IH _ _ _ H) as [A|[p' [y' [x [yy [I1 R]]]]]].
      * destruct res as [x yy|yy|]; try (left; exact A). cbv beta iota in A.
        assert (C : omaxq b0 (value (region_lp m p) x) = b0 \/ omaxq b0 (value (region_lp m p) x) = Some (value (region_lp m p) x)).
        { generalize (value (region_lp m p) x). intros q. unfold omaxq. destruct b0 as [b|]; [|right; reflexivity].
          destruct (Qle_bool b q); [right|left]; reflexivity. }
        destruct C as [C|C]; rewrite C in A; [left; exact A|].
        right. exists p, y, x, yy. split; [left; reflexivity|]. split; [exact E1|]. split; [exact E2|exact A].
      * right. exists p', y', x, yy. split; [right; exact I1|exact R].
Qed.

(* what a successful run of the enumeration means *)
Theorem loopless_optimum_upper m es best :
  loopless_optimum m es = Some best ->
  forall v, feasible (net_lp m) v -> ~ has_cycle (s_int m) (select (rxns m) v) ->
  exists b, best = Some b /\ value (net_lp m) v <= b.
Proof.
  unfold loopless_optimum. intros H v Hf Hnc. destruct (check_pats_sound _ _ _ _ _ _ H) as [_ HF].
  set (p := pat_of (select (rxns m) v)).
  assert (Hlen : length p = length (internal m)).
  { unfold p, pat_of. rewrite map_length. apply select_length. destruct Hf as [Hb _].
    apply Forall2_length in Hb. cbn in Hb. rewrite map_length in Hb. lia. }
  rewrite Forall_forall in HF. specialize (HF p). rewrite <- Hlen in HF. specialize (HF (all_patterns_complete p)).
  destruct HF as [[z Hz]|[_ HR]].
  - exfalso. apply Hnc. eapply cyclic_has_cycle. exact Hz.
  - destruct (region_of m v Hf) as [Hrf Hrv]. fold p in Hrf, Hrv. destruct (HR _ Hrf) as [b [-> Hb]].
    exists b. split; [reflexivity|]. rewrite <- Hrv. exact Hb.
Qed.

Theorem loopless_optimum_attained m es b :
  loopless_optimum m es = Some (Some b) ->
  exists v, feasible (net_lp m) v /\ ~ has_cycle (s_int m) (select (rxns m) v) /\ value (net_lp m) v == b.
Proof.
  unfold loopless_optimum. intros H. destruct (check_pats_attained _ _ _ _ _ _ H) as [A|[p [y [x [yy [I1 [E1 [E2 R]]]]]]]]; [discriminate|].
  apply all_patterns_length in I1. apply check_opt_sound in E2 as [Hf _].
  destruct (region_sub m p x I1 Hf) as [Hn [Hs Hv]]. exists x. split; [exact Hn|]. split.
  - eapply acyclic_no_cycle; eassumption.
  - inversion R; subst. rewrite Hv. reflexivity.
Qed.
