(* Executable model of cobra/flux_analysis/loopless.py (property C17) on top of the exact LP layer.

   _add_cycle_free / loopless_solution (CycleFreeFlux) are modelled over the NET fluxes
   (one variable per reaction, `cf_lp`); `cf_split_lp` is the same problem in cobrapy's
   forward/reverse encoding with the objective cobrapy really sets (forward variable of the
   reactions with starting flux >= 0, reverse variable of the others); Proofs.v shows that the two
   have the same feasible net fluxes and the same objective on them.

   The objective pin is a parameter: `PinGe` is what the unrepaired code does
   (Constraint(objective.expression, lb=opt), whatever the direction), `PinEq` is the repaired
   behaviour (lb = ub = value; fixes/loopless-objective-pin.patch).  `loopless_solution_problem`
   is the repaired function.

   add_loopless is modelled as the constraint system it adds (indicator a_i, on_off_i,
   delta_g_i, delta_g_range_i, nullspace constraints) over the internal reactions.            *)
From Coq Require Import QArith List Bool Lia Lqa.
From Cobra.LP Require Import Defs Cert Fba.
Import ListNotations.
Open Scope Q_scope.

(* ---- Reaction.boundary: exactly one metabolite (zero coefficients are never stored) ---- *)
Definition nonzero (x : Q) : bool := negb (Qeq_bool x 0).
Definition is_boundary (r : rxn) : bool := Nat.eqb (length (filter nonzero (rx_col r))) 1.

(* Python's max / min on a finite number and a possibly infinite bound *)
Definition qmax (a b : Q) : Q := if Qle_bool a b then b else a.
Definition qmin (a b : Q) : Q := if Qle_bool a b then a else b.
Definition emax (a : Q) (lb : ebound) : ebound :=
  match lb with Fin l => Fin (qmax a l) | NegInf => Fin a | PosInf => PosInf end.
Definition emin (a : Q) (ub : ebound) : ebound :=
  match ub with Fin u => Fin (qmin a u) | PosInf => Fin a | NegInf => NegInf end.

(* ---- _add_cycle_free: the loop body.  The new reaction carries the new bounds and, as its
        objective coefficient, the sign with which its net flux enters the total-flux objective
        (forward variable <-> +1, reverse variable <-> -1, boundary reactions not in it).      *)
Definition cf_rxn (r : rxn) (flux : Q) : rxn :=
  if is_boundary r then mkRxn (rx_col r) (Fin flux) (Fin flux) 0
  else if Qle_bool 0 flux
       then mkRxn (rx_col r) (emax 0 (rx_lb r)) (emin flux (rx_ub r)) 1
       else mkRxn (rx_col r) (emax flux (rx_lb r)) (emin 0 (rx_ub r)) (-1).

Fixpoint cf_rxns (rs : list rxn) (w : vec) : list rxn :=
  match rs, w with
  | r :: rs', wi :: w' => cf_rxn r wi :: cf_rxns rs' w'
  | _, _ => []
  end.

(* `rxn.bounds = (a, b)` raises ValueError when a > b (Reaction._check_bounds); a missing flux
   raises KeyError.  Either way _add_cycle_free does not complete.                             *)
Definition cf_raises (m : fbamodel) (w : vec) : bool :=
  negb (Nat.eqb (length w) (length (rxns m))) ||
  negb (forallb (fun r => valid_b (rx_lb r) (rx_ub r)) (cf_rxns (rxns m) w)).

(* direction "min", objective = sum of the chosen variables *)
Definition cf_model (m : fbamodel) (w : vec) : fbamodel := mkFba (nmets m) (cf_rxns (rxns m) w) false.

Inductive pin := PinEq | PinGe.
Definition obj_coefs (m : fbamodel) : vec := map rx_obj (rxns m).   (* model.objective.expression, NOT sign-adjusted *)
Definition pin_row (pn : pin) (c : vec) (opt : Q) : row :=
  mkRow c (Fin opt) (match pn with PinEq => Fin opt | PinGe => PosInf end).

Definition add_row (p : lp) (r : row) : lp := mkLP (vbounds p) (rows p ++ [r]) (obj p).

(* the problem solved by loopless_solution, over net fluxes: mass balance rows, then
   loopless_obj_constraint; objective (a maximisation, Defs.v) = - total internal flux          *)
Definition cf_lp (pn : pin) (m : fbamodel) (w : vec) (opt : Q) : lp :=
  add_row (net_lp (cf_model m w)) (pin_row pn (obj_coefs m) opt).

(* ... and in cobrapy's encoding: variable pairs with the bounds of update_variable_bounds, the
   objective that _add_cycle_free sets (coefficient 1 on ONE variable of each internal pair, min) *)
Fixpoint cf_split_obj (rs : list rxn) (w : vec) : vec :=
  match rs, w with
  | r :: rs', wi :: w' =>
      (if is_boundary r then [0; 0] else if Qle_bool 0 wi then [-(1); 0] else [0; -(1)]) ++ cf_split_obj rs' w'
  | _, _ => []
  end.
Definition cf_split_lp (pn : pin) (m : fbamodel) (w : vec) (opt : Q) : lp :=
  let p := split_lp (cf_model m w) in
  mkLP (vbounds p) (rows p ++ [pin_row pn (dup (obj_coefs m)) opt]) (cf_split_obj (rxns m) w).

(* ---- loopless_solution ---- *)
Inductive start :=
  | OwnOptimum (fluxes : vec) (objective_value : Q)   (* fluxes=None: sol = model.optimize() *)
  | Given (fluxes : vec).
Definition start_flux (s : start) : vec := match s with OwnOptimum w _ => w | Given w => w end.

(* repaired: the objective of the starting vector *)
Definition pinned_value (m : fbamodel) (s : start) : Q :=
  match s with OwnOptimum _ o => o | Given w => dot (obj_coefs m) w end.
(* unrepaired: model.slim_optimize() when fluxes are given *)
Definition pinned_value_orig (model_opt : Q) (s : start) : Q :=
  match s with OwnOptimum _ o => o | Given _ => model_opt end.

Inductive ll_problem := LLRaise | LLSolve (p : lp).
Definition loopless_solution_problem (m : fbamodel) (s : start) : ll_problem :=
  if cf_raises m (start_flux s) then LLRaise
  else LLSolve (cf_lp PinEq m (start_flux s) (pinned_value m s)).
Definition loopless_solution_problem_orig (m : fbamodel) (model_opt : Q) (s : start) : ll_problem :=
  if cf_raises m (start_flux s) then LLRaise
  else LLSolve (cf_lp PinGe m (start_flux s) (pinned_value_orig model_opt s)).
(* what is read back: fluxes = the solver's net fluxes, objective_value = loopless_obj_constraint.primal *)
Definition ll_objective_value (m : fbamodel) (v : vec) : Q := dot (obj_coefs m) v.
Definition total_internal_flux (m : fbamodel) (w v : vec) : Q := dot (net_obj (cf_model m w)) v * -(1).

(* ---- add_loopless ---- *)
Definition internal (m : fbamodel) : list rxn := filter (fun r => negb (is_boundary r)) (rxns m).
Definition s_int (m : fbamodel) : list vec := map (fun i => met_row (internal m) i) (seq 0 (nmets m)).
Fixpoint select (rs : list rxn) (v : vec) : vec :=           (* fluxes of the internal reactions *)
  match rs, v with
  | r :: rs', x :: v' => if is_boundary r then select rs' v' else x :: select rs' v'
  | _, _ => []
  end.

(* max(max(abs(b) for b in r.bounds) for r in model.reactions); None = infinite *)
Definition eabs (b : ebound) : option Q := match b with Fin q => Some (Qabs' q) | _ => None end.
Definition omax (a b : option Q) : option Q :=
  match a, b with Some x, Some y => Some (qmax x y) | _, _ => None end.
Definition max_bound (m : fbamodel) : option Q :=
  match rxns m with
  | [] => None                                                  (* max() of an empty sequence raises *)
  | r :: rs => fold_left (fun acc r' => omax acc (omax (eabs (rx_lb r')) (eabs (rx_ub r'))))
                         rs (omax (eabs (rx_lb r)) (eabs (rx_ub r)))
  end.

(* per internal reaction: net flux v, indicator a, delta_g G *)
Record llvar := mkLL { lv_v : Q; lv_a : Q; lv_g : Q }.
Definition binary (a : Q) : Prop := a == 0 \/ a == 1.
(* on_off_<id>:        -M <= v - M a <= 0 *)
Definition on_off_ok (M : Q) (x : llvar) : Prop := - M <= lv_v x - M * lv_a x /\ lv_v x - M * lv_a x <= 0.
(* delta_g_range_<id>:  1 <= G + (M+1) a <= M *)
Definition delta_g_ok (M : Q) (x : llvar) : Prop :=
  1 <= lv_g x + (M + 1) * lv_a x /\ lv_g x + (M + 1) * lv_a x <= M.
(* nullspace_constraint_k:  N_k . G = 0 *)
Definition ll_feasible (M : Q) (N : list vec) (xs : list llvar) : Prop :=
  Forall (fun x => binary (lv_a x) /\ on_off_ok M x /\ delta_g_ok M x) xs /\
  Forall (fun n => dot n (map lv_g xs) == 0) N.

(* a feasible point of the model after add_loopless: fluxes feasible for the model, plus the above *)
Definition add_loopless_feasible (m : fbamodel) (M : Q) (N : list vec) (v : vec) (xs : list llvar) : Prop :=
  feasible (net_lp m) v /\ map lv_v xs = select (rxns m) v /\ ll_feasible M N xs.

(* ---- cycles ---- *)
Definition null (S : list vec) (z : vec) : Prop := Forall (fun srow => dot srow z == 0) S.
Fixpoint lincomb (lam : vec) (N : list vec) : vec :=
  match lam, N with
  | l :: lam', n :: N' => vadd (vscale l n) (lincomb lam' N')
  | _, _ => []
  end.
(* the rows of N span the null space of S (over vectors of length k) *)
Definition spans (k : nat) (S N : list vec) : Prop :=
  forall z, length z = k -> null S z -> exists lam, forall g, length g = k -> dot z g == dot (lincomb lam N) g.
(* z runs "along" v: wherever z is non-zero, v has the same strict sign *)
Definition along (vi zi : Q) : Prop := (0 < zi -> 0 < vi) /\ (zi < 0 -> vi < 0).
Definition has_cycle (S : list vec) (v : vec) : Prop :=
  exists z, null S z /\ Forall2 along v z /\ ~ Forall (fun zi => zi == 0) z.
