(* C17 — loopless methods remove cycles without changing what matters.
   This file only states the property theorems and prints their assumptions. *)
From Coq Require Import QArith List Bool Lqa.
From Cobra.LP Require Import Defs Cert Fba.
From Cobra.Loopless Require Import Model Proofs Split Enum Check.
Import ListNotations.
Open Scope Q_scope.

(* Any solution of the problem built by loopless_solution / _add_cycle_free (from model m, starting
   fluxes w, pinned value opt) is steady-state and within the original bounds, keeps the boundary
   fluxes exactly, reverses no reaction, grows none, and keeps the pinned objective value.       *)
Theorem C17_cycle_free_lp_props : forall pn m w opt v,
  length w = length (rxns m) ->
  Forall2 (fun r wi => is_boundary r = true -> inb (rx_lb r, rx_ub r) wi) (rxns m) w ->
  feasible (cf_lp pn m w opt) v ->
  feasible (net_lp m) v /\ Forall3 cf_point (rxns m) w v /\
  opt <= ll_objective_value m v /\ (pn = PinEq -> ll_objective_value m v == opt).
Proof. exact cycle_free_lp_props. Qed.
Print Assumptions C17_cycle_free_lp_props.

(* repaired loopless_solution: same objective value as the starting vector ... *)
Theorem C17_same_objective : forall m w opt v,
  length w = length (rxns m) ->
  Forall2 (fun r wi => is_boundary r = true -> inb (rx_lb r, rx_ub r) wi) (rxns m) w ->
  opt == dot (obj_coefs m) w ->
  feasible (cf_lp PinEq m w opt) v ->
  ll_objective_value m v == ll_objective_value m w.
Proof. exact cycle_free_same_objective. Qed.
Print Assumptions C17_same_objective.

(* ... and never infeasible when the starting vector is a flux distribution of the model *)
Theorem C17_start_feasible : forall m w,
  feasible (net_lp m) w -> feasible (cf_lp PinEq m w (dot (obj_coefs m) w)) w.
Proof. exact cycle_free_start_feasible. Qed.
Print Assumptions C17_start_feasible.

(* An optimal solution contains no internal cycle whose removal keeps those conditions. *)
Theorem C17_cycle_free_minimal : forall pn m w opt v z,
  length w = length (rxns m) ->
  is_opt (cf_lp pn m w opt) v ->
  null (smat m) z ->
  Forall2 (fun r zi => is_boundary r = true -> zi == 0) (rxns m) z ->
  Forall2 within v z ->
  Forall2 inb (map (fun r => (rx_lb r, rx_ub r)) (rxns m)) (vsub v z) ->
  row_ok (vsub v z) (pin_row pn (obj_coefs m) opt) ->
  Forall (fun zi => zi == 0) z.
Proof. exact cycle_free_minimal. Qed.
Print Assumptions C17_cycle_free_minimal.

(* cobrapy's forward/reverse encoding of that problem has the same net fluxes and the same objective *)
Theorem C17_split_encoding : forall pn m w opt,
  length w = length (rxns m) -> valid_model (cf_model m w) ->
  (forall zs, feasible (cf_split_lp pn m w opt) (flat zs) ->
     feasible (cf_lp pn m w opt) (nets zs) /\
     value (cf_split_lp pn m w opt) (flat zs) == value (cf_lp pn m w opt) (nets zs)) /\
  (forall v, feasible (cf_lp pn m w opt) v ->
     feasible (cf_split_lp pn m w opt) (flat (splits v)) /\
     value (cf_split_lp pn m w opt) (flat (splits v)) == value (cf_lp pn m w opt) v).
Proof. exact cf_split_equiv. Qed.
Print Assumptions C17_split_encoding.

(* Every feasible point of the constraint system added by add_loopless is free of internal cycles,
   given that the rows of N span the null space of the internal stoichiometry.  PARTIAL: the converse
   (add_loopless_complete_statement, Proofs.v) is not proved; it is validated per instance by the
   sign-pattern enumeration whose checker is proved sound below.                                  *)
Theorem C17_add_loopless_partial : forall m M N v xs,
  spans (length (internal m)) (s_int m) N -> add_loopless_feasible m M N v xs ->
  length xs = length (internal m) ->
  feasible (net_lp m) v /\ ~ has_cycle (s_int m) (select (rxns m) v).
Proof. exact add_loopless_model_sound. Qed.
Print Assumptions C17_add_loopless_partial.

Theorem C17_add_loopless_sound : forall M S N xs,
  spans (length xs) S N -> ll_feasible M N xs -> ~ has_cycle S (map lv_v xs).
Proof. exact add_loopless_sound. Qed.
Print Assumptions C17_add_loopless_sound.

(* the brute-force oracle: what a successful run of the enumeration checker means *)
Theorem C17_enumeration_sound : forall m es best,
  loopless_optimum m es = Some best ->
  forall v, feasible (net_lp m) v -> ~ has_cycle (s_int m) (select (rxns m) v) ->
  exists b, best = Some b /\ value (net_lp m) v <= b.
Proof. exact loopless_optimum_upper. Qed.
Print Assumptions C17_enumeration_sound.

Theorem C17_enumeration_attained : forall m es b,
  loopless_optimum m es = Some (Some b) ->
  exists v, feasible (net_lp m) v /\ ~ has_cycle (s_int m) (select (rxns m) v) /\ value (net_lp m) v == b.
Proof. exact loopless_optimum_attained. Qed.
Print Assumptions C17_enumeration_attained.

(* ---- non-vacuity: uptake of A (<= 10), the loop A -> B -> C -> A, demand of B (objective) ---- *)
Definition toy : fbamodel :=
  mkFba 3 [mkRxn [1; 0; 0] (Fin 0) (Fin 10) 0;
           mkRxn [-(1); 1; 0] (Fin 0) (Fin 1000) 0;
           mkRxn [0; -(1); 1] (Fin 0) (Fin 1000) 0;
           mkRxn [1; 0; -(1)] (Fin 0) (Fin 1000) 0;
           mkRxn [0; -(1); 0] (Fin 0) (Fin 1000) 1] true.
Definition toy_w : vec := [10; 110; 100; 100; 10].     (* optimal, with 100 units running round the loop *)
Definition toy_v : vec := [10; 10; 0; 0; 10].

Example C17_toy_cycle_free :
  feasible (net_lp toy) toy_w /\ cf_raises toy toy_w = false /\
  map is_boundary (rxns toy) = [true; false; false; false; true] /\
  is_opt (cf_lp PinEq toy toy_w 10) toy_v /\
  total_internal_flux toy toy_w toy_v == 10 /\ total_internal_flux toy toy_w toy_w == 310.
Proof.
  split; [apply feasible_b_ok; reflexivity|]. split; [reflexivity|]. split; [reflexivity|].
  split; [apply (check_opt_sound _ _ [0; -(1); 1; -(1)]); vm_compute; reflexivity|].
  split; vm_compute; reflexivity.
Qed.

(* the unrepaired pin does not fix the objective of a minimisation: same network, objective
   "minimise - v1" ... concretely: minimise the flux of the reverse-running loop reaction          *)
Definition toy_min : fbamodel :=
  mkFba 2 [mkRxn [1; 0] (Fin 0) (Fin 10) 0;
           mkRxn [1; -(1)] (Fin (-(1000))) (Fin 1000) 1;      (* B -> A, reversible, the objective *)
           mkRxn [1; -(1)] (Fin (-(1000))) (Fin 1000) 0;      (* B -> A, a second copy: a 2-cycle *)
           mkRxn [0; -(1)] (Fin 0) (Fin 1000) 0] false.
Definition toy_min_w : vec := [10; -(1000); 990; 10].            (* minimum of v1 = -1000 *)
Example C17_unrepaired_pin_refuted :
  is_opt (net_lp toy_min) toy_min_w /\
  exists v, feasible (cf_lp PinGe toy_min toy_min_w (-(1000))) v /\
            ~ ll_objective_value toy_min v == ll_objective_value toy_min toy_min_w.
Proof.
  split; [apply (check_opt_sound _ _ [0; 0]); vm_compute; reflexivity|].
  exists [10; -(10); 0; 10]. split; [apply feasible_b_ok; vm_compute; reflexivity|].
  vm_compute. discriminate.
Qed.

Example C17_toy_add_loopless :
  spans 3 (s_int toy) [[1; 1; 1]] /\
  add_loopless_feasible toy 1000 [[1; 1; 1]] toy_v [mkLL 10 1 (-(2)); mkLL 0 0 1; mkLL 0 0 1] /\
  max_bound toy = Some 1000 /\
  has_cycle (s_int toy) (select (rxns toy) toy_w).
Proof.
  split; [|split; [|split]].
  - intros z Hl Hn. destruct z as [|z1 [|z2 [|z3 [|? ?]]]]; try discriminate.
    exists [z1]. intros g Hg. destruct g as [|g1 [|g2 [|g3 [|? ?]]]]; try discriminate.
    unfold null in Hn. cbn in Hn. inversion Hn as [|? ? H1 Hn1]; subst. inversion Hn1 as [|? ? H2 Hn2]; subst.
    cbn in H1, H2. assert (E2 : z2 == z1) by lra. assert (E3 : z3 == z1) by lra.
    cbn. rewrite E2, E3. ring.
  - split; [apply feasible_b_ok; reflexivity|]. split; [reflexivity|].
    split; [repeat constructor; unfold binary, on_off_ok, delta_g_ok; cbn; lra|repeat constructor; cbn; lra].
  - reflexivity.
  - exists [1; 1; 1]. split; [repeat constructor; cbn; lra|].
    split; [repeat constructor; cbn; lra|]. intros H. inversion H; subst. lra.
Qed.
