(* C11 -- JSON / YAML / dict / pickle round trips return the same model.
   Model: coq/theories/IO/DictModel.v (io/dict.py: model_to_dict / model_from_dict over an abstract
   model record; JSON, YAML and pickle byte formats are trusted and only exercised by harness/c11.py).
   This file only states the property theorems and prints their assumptions.

   T : tables   -- the attribute tables and loader constants of io/dict.py (regenerated from the source)
   G : gpr_api  -- GPR.from_string/to_string (property C08), a parameter here
   C : cfg      -- Configuration().bounds
   rt s m       -- the model one trip returns: objective direction max, compartment None -> "",
                   the private compartment table re-derived from the public one, lists sorted when s.
   comps_closed m -- the trip invents no compartment: no metabolite has compartment None, or some
                   metabolite has the empty string as compartment anyway (comps_some m implies it). *)
From Coq Require Import ZArith QArith List Bool.
From Cobra.IO Require Import Str JVal DictModel DictProofs DictCheck DictComps DictResave DictLoadTotal DictNecessity.
From Cobra.Gen Require Import Config DictTables.
Import ListNotations.
Open Scope Z_scope.

(* The statement at full strength: every valid model comes back unchanged (lists in the order written).
   It is FALSE of the faithful model (three witnesses below) and is kept to show what is weakened. *)
Definition dict_roundtrip_statement : Prop :=
  forall G C T s m, tables_ok T = true -> valid G m = true ->
    exists d, to_dict T s m = Ok d /\ from_dict G T C d = Ok (sorted_model s m).

(* What one trip returns, for every valid model that can be loaded at all. *)
Theorem C11_dict_roundtrip_general :
  forall G C T s m, tables_ok T = true -> valid G m = true -> model_loadable C (t_bounds_at_once T) m = true ->
    exists d, to_dict T s m = Ok d /\ from_dict G T C d = Ok (rt s m).
Proof. exact roundtrip. Qed.
Print Assumptions C11_dict_roundtrip_general.

(* ... and rt leaves every listed attribute alone except the direction and the compartments *)
Theorem C11_rt_fields :
  forall m,
    a_id (rt false m) = a_id m /\ a_name (rt false m) = a_name m /\ a_rxns (rt false m) = a_rxns m /\
    a_genes (rt false m) = a_genes m /\ a_notes (rt false m) = a_notes m /\ a_annot (rt false m) = a_annot m /\
    map (fun x => (m_id x, m_name x, m_charge x, m_formula x, m_bound x, m_notes x, m_annot x)) (a_mets (rt false m)) =
    map (fun x => (m_id x, m_name x, m_charge x, m_formula x, m_bound x, m_notes x, m_annot x)) (a_mets m).
Proof. exact rt_fields. Qed.
Print Assumptions C11_rt_fields.

(* The round-trip identity, with the hypotheses that exclude exactly the known findings:
   maximisation, every metabolite has a compartment, (for the one-at-a-time loader) no lower bound above
   the default upper bound; comps_canonical says the private description table lists the compartments in
   use (model.compartments, the public attribute, is what the property names). *)
Theorem C11_dict_roundtrip_partial :
  forall G C T s m, tables_ok T = true -> valid G m = true -> model_loadable C (t_bounds_at_once T) m = true ->
    dir_max m = true -> comps_some m = true -> comps_canonical m ->
    exists d, to_dict T s m = Ok d /\ from_dict G T C d = Ok (sorted_model s m).
Proof.
  intros G C T s m HT Hv HL H1 H2 H3. rewrite <- (rt_sorted s m H1 H2 H3). apply roundtrip; assumption.
Qed.
Print Assumptions C11_dict_roundtrip_partial.

(* Loading never fails for a model that could be saved: unconditional when the source sets both bounds
   at once (fixes/io-dict-bounds-at-once.patch), otherwise under model_loadable. *)
Definition load_total_statement : Prop :=
  forall G C T s m, tables_ok T = true -> valid G m = true ->
    exists d m', to_dict T s m = Ok d /\ from_dict G T C d = Ok m'.

Theorem C11_load_total_partial :
  forall G C T s m, tables_ok T = true -> valid G m = true -> model_loadable C (t_bounds_at_once T) m = true ->
    exists d m', to_dict T s m = Ok d /\ from_dict G T C d = Ok m'.
Proof.
  intros G C T s m HT Hv HL. destruct (roundtrip G C T s m HT Hv HL) as [d [H1 H2]]. exists d, (rt s m). auto.
Qed.
Print Assumptions C11_load_total_partial.

Theorem C11_load_total_at_once :
  forall G C T s m, tables_ok T = true -> t_bounds_at_once T = true -> valid G m = true ->
    exists d m', to_dict T s m = Ok d /\ from_dict G T C d = Ok m'.
Proof.
  intros G C T s m HT Hb Hv. apply C11_load_total_partial; auto.
  unfold model_loadable, loadable. rewrite Hb. apply forallb_forall. reflexivity.
Qed.
Print Assumptions C11_load_total_at_once.

(* Repeating the trip changes nothing.  The statement at full strength (rt s (rt s m) = rt s m for every
   m) is FALSE of the faithful model: a metabolite whose compartment is None comes back with the empty
   string (known finding), and only the second trip adds an item for the empty string to the private
   table and to the document (C11_dict_idempotent_refuted below).  It holds exactly when comps_closed m. *)
Definition dict_idempotent_statement : Prop := forall s m, rt s (rt s m) = rt s m.

(* (kept) a second trip changes at most the re-derived private compartment table *)
Theorem C11_dict_idempotent_partial :
  forall G C T s m, tables_ok T = true -> valid G m = true -> model_loadable C (t_bounds_at_once T) m = true ->
    exists d, to_dict T s (rt s m) = Ok d /\
              from_dict G T C d = Ok (set_comps (rt s m) (dsort (public_comps (rt s m)))).
Proof.
  intros G C T s m HT Hv HL. rewrite <- rt_rt. apply roundtrip; auto using valid_rt, loadable_rt.
Qed.
Print Assumptions C11_dict_idempotent_partial.

(* the public_comps fixpoint lemma: after one trip the re-derived compartment table is stable *)
Theorem C11_public_comps_fixpoint :
  forall s m, comps_closed m = true -> dsort (public_comps (rt s m)) = dsort (public_comps m).
Proof. exact comps_fix. Qed.
Print Assumptions C11_public_comps_fixpoint.

(* the exact domain of the full statement *)
Theorem C11_rt_idempotent_iff : forall s m, rt s (rt s m) = rt s m <-> comps_closed m = true.
Proof. exact rt_idem_iff. Qed.
Print Assumptions C11_rt_idempotent_iff.

(* a second trip returns the same model again *)
Theorem C11_dict_idempotent :
  forall G C T s m, tables_ok T = true -> valid G m = true -> model_loadable C (t_bounds_at_once T) m = true ->
    comps_closed m = true ->
    exists d, to_dict T s (rt s m) = Ok d /\ from_dict G T C d = Ok (rt s m).
Proof. exact dict_idempotent. Qed.
Print Assumptions C11_dict_idempotent.

(* "saving the loaded model again gives the same document": whatever the direction and the private
   compartment table are *)
Theorem C11_resave_same_document :
  forall G C T s m d m', tables_ok T = true -> valid G m = true ->
    model_loadable C (t_bounds_at_once T) m = true -> comps_closed m = true ->
    to_dict T s m = Ok d -> from_dict G T C d = Ok m' -> to_dict T s m' = Ok d.
Proof. exact resave. Qed.
Print Assumptions C11_resave_same_document.

(* ... as a corollary of the identity, under the same hypotheses *)
Theorem C11_dict_roundtrip_resave :
  forall G C T s m, tables_ok T = true -> valid G m = true -> model_loadable C (t_bounds_at_once T) m = true ->
    dir_max m = true -> comps_some m = true -> comps_canonical m ->
    exists d, to_dict T s m = Ok d /\ from_dict G T C d = Ok (sorted_model s m) /\
              to_dict T s (sorted_model s m) = Ok d.
Proof. exact roundtrip_resave. Qed.
Print Assumptions C11_dict_roundtrip_resave.

(* The identity without comps_canonical (a hypothesis on the PRIVATE _compartments that a model built
   with add_metabolites alone does not meet): everything but the private table comes back, the public
   Model.compartments is the same, and saving again gives the same document. *)
Theorem C11_dict_roundtrip_public :
  forall G C T s m, tables_ok T = true -> valid G m = true -> model_loadable C (t_bounds_at_once T) m = true ->
    dir_max m = true -> comps_some m = true ->
    exists d m', to_dict T s m = Ok d /\ from_dict G T C d = Ok m' /\
      set_comps m' (a_comps m) = sorted_model s m /\
      dsort (public_comps m') = dsort (public_comps (sorted_model s m)) /\
      to_dict T s m' = Ok d.
Proof. exact roundtrip_public. Qed.
Print Assumptions C11_dict_roundtrip_public.

(* Loading what was saved: model_loadable is necessary and sufficient (it is empty for the
   both-at-once loader), so it cannot be dropped from C11_load_total_partial for an arbitrary table. *)
Theorem C11_load_total_iff :
  forall G C T s m, tables_ok T = true -> valid G m = true ->
    ((exists d m', to_dict T s m = Ok d /\ from_dict G T C d = Ok m') <->
     model_loadable C (t_bounds_at_once T) m = true).
Proof. exact load_total_iff. Qed.
Print Assumptions C11_load_total_iff.

(* Every hypothesis of C11_dict_roundtrip_partial is needed: for each of the 20 conjuncts of valid
   and each of the 5 other hypotheses a model that meets all the others and does not come back
   (IO/DictNecessity.v; fails G T i m: valid_parts is false exactly at i, the other hypotheses hold,
   and the trip does not return sorted_model false m). *)
Theorem C11_valid_conjuncts_needed : forall i, In i (seq 1 20) -> exists G m, fails G Tb i m.
Proof. exact valid_conjuncts_needed. Qed.
Print Assumptions C11_valid_conjuncts_needed.

Theorem C11_other_hypotheses_needed : forall i, In i (seq 1 5) -> exists T m, fails_other T i m.
Proof. exact other_hypotheses_needed. Qed.
Print Assumptions C11_other_hypotheses_needed.

(* ---------------------------------------------------------------- the tie to the source *)
Example C11_tables_current : tables_ok current_tables = true.
Proof. vm_compute. reflexivity. Qed.

(* ---------------------------------------------------------------- witnesses (known findings) *)
Definition C0 : cfg := mkCfg cfg_lower_bound cfg_upper_bound.
Definition s_a := [97].
Definition s_R := [82; 49].
Definition met_a (c : option str) : amet := mkMet s_a [] c None None 0 [] [].
Definition rxn_R (lb ub : ebound) (obj : Q) : arxn := mkRxn s_R [] [(s_a, ((-1) # 1)%Q)] lb ub [] obj [] [] [].
Definition model_of (c : option str) (lb ub : ebound) (obj : Q) (mx : bool) : amodel :=
  mkModel (Some [109]) None [met_a c] [rxn_R lb ub obj] []
          (match c with Some x => [(x, [])] | None => [] end) [] [] mx.

(* the objective direction is not stored: a minimisation model comes back maximising *)
Example C11_roundtrip_refuted_direction :
  exists m d m', valid check_gpr m = true /\ model_loadable C0 false m = true /\ comps_some m = true /\
    to_dict (ref_tables false) false m = Ok d /\ from_dict check_gpr (ref_tables false) C0 d = Ok m' /\
    a_max m = false /\ a_max m' = true.
Proof. exists (model_of (Some [99]) (Fin 0) (Fin 1000) 1 false). eexists. eexists. vm_compute. repeat split. Qed.

(* compartment None comes back as "" *)
Example C11_roundtrip_refuted_compartment :
  exists m d m', valid check_gpr m = true /\ model_loadable C0 false m = true /\ dir_max m = true /\
    to_dict (ref_tables false) false m = Ok d /\ from_dict check_gpr (ref_tables false) C0 d = Ok m' /\
    map m_comp (a_mets m) = [None] /\ map m_comp (a_mets m') = [Some []].
Proof. exists (model_of None (Fin 0) (Fin 1000) 0 true). eexists. eexists. vm_compute. repeat split. Qed.

(* with the one-at-a-time loader a lower bound above the default upper bound cannot be loaded;
   the same model loads when both bounds are set at once *)
Example C11_load_total_refuted_one_at_a_time :
  exists m d, valid check_gpr m = true /\ dir_max m = true /\ comps_some m = true /\
    to_dict (ref_tables false) false m = Ok d /\ from_dict check_gpr (ref_tables false) C0 d = Err EValue /\
    from_dict check_gpr (ref_tables true) C0 d = Ok m.
Proof. exists (model_of (Some [99]) (Fin 1500) (Fin 2000) 0 true). eexists. vm_compute. repeat split. Qed.

(* Loading what the CURRENT source saved: unconditional when the source sets both bounds at once,
   refuted otherwise (whichever the regenerated table says). *)
Definition load_total_current : Prop :=
  forall G C s m, valid G m = true ->
    exists d m', to_dict current_tables s m = Ok d /\ from_dict G current_tables C d = Ok m'.

Theorem C11_load_total_current :
  if t_bounds_at_once current_tables then load_total_current else ~ load_total_current.
Proof.
  destruct (t_bounds_at_once current_tables) eqn:E.
  - intros G C s m Hv. apply C11_load_total_at_once; [exact C11_tables_current|exact E|exact Hv].
  - intros H. specialize (H check_gpr C0 false (model_of (Some [99]) (Fin 1500) (Fin 2000) 0 true) eq_refl).
    apply (C11_load_total_iff check_gpr C0 current_tables false
             (model_of (Some [99]) (Fin 1500) (Fin 2000) 0 true) C11_tables_current eq_refl) in H.
    rewrite E in H. vm_compute in H. discriminate H.
Qed.
Print Assumptions C11_load_total_current.

(* the second trip of a model with a compartment None: the private table and the document gain an
   item for the empty string (a consequence of the known finding: compartment None is saved as the
   empty string) *)
Example C11_dict_idempotent_refuted :
  exists m d1 m1 d2 m2, valid check_gpr m = true /\ model_loadable C0 false m = true /\ dir_max m = true /\
    to_dict (ref_tables false) false m = Ok d1 /\ from_dict check_gpr (ref_tables false) C0 d1 = Ok m1 /\
    to_dict (ref_tables false) false m1 = Ok d2 /\ from_dict check_gpr (ref_tables false) C0 d2 = Ok m2 /\
    a_comps m1 = [] /\ a_comps m2 = [([], [])] /\ public_comps m1 = public_comps m2 /\ d2 <> d1.
Proof.
  exists (model_of None (Fin 0) (Fin 1000) 0 true). do 4 eexists. vm_compute. repeat split.
  intro H. discriminate H.
Qed.

Theorem C11_dict_idempotent_statement_refuted : ~ dict_idempotent_statement.
Proof.
  intros H. specialize (H false (model_of None (Fin 0) (Fin 1000) 0 true)).
  apply C11_rt_idempotent_iff in H. vm_compute in H. discriminate H.
Qed.
Print Assumptions C11_dict_idempotent_statement_refuted.

(* non-vacuity: a model with awkward content satisfies every hypothesis of the partial theorem *)
Definition demo : amodel :=
  mkModel (Some [109]) (Some []) [mkMet s_a [72] (Some [99]) (Some 0) (Some [72; 50; 79]) 0 [([97], JStr [98])] [];
                                  mkMet [98] [] (Some [101]) (Some (-2)) None 0 [] [([107], JList [JStr [120]])]]
          [mkRxn s_R [114] [(s_a, ((-1) # 1)%Q); ([98], (1 # 2)%Q)] NegInf PosInf [103; 49] 1 [83] [] [];
           mkRxn [82; 50] [] [([98], ((-1) # 1)%Q)] (Fin ((-5) # 1)) (Fin ((-1) # 1)) [] 0 [] [([122], JStr [49])] []]
          [mkGene [103; 49] [] [] []; mkGene [103; 50] [71] [] []]
          [([99], [99; 121; 116]); ([101], [])] [([110], JStr [49])] [] true.
Example C11_demo_hypotheses :
  valid check_gpr demo = true /\ model_loadable C0 false demo = true /\ dir_max demo = true /\
  comps_some demo = true /\ a_comps demo = dsort (public_comps demo) /\
  (exists d, to_dict current_tables true demo = Ok d /\
             from_dict check_gpr current_tables C0 d = Ok (sorted_model true demo)).
Proof. vm_compute. repeat split. eexists. split; reflexivity. Qed.
