(* C11 -- placeholder while the correspondence is being calibrated *)
From Coq Require Import ZArith List Bool.
From Cobra.IO Require Import Str JVal DictModel.
Example C11_stub : str_eqb k_id k_id = true.
Proof. reflexivity. Qed.
Print Assumptions C11_stub.
