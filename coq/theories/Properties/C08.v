(* C08 — placeholder, filled in below *)
From Coq Require Import ZArith List Bool.
From Cobra.GPR Require Import Syntax.
Import ListNotations.
Example C08_placeholder : eval (fun _ => false) (Gene []) = true.
Proof. reflexivity. Qed.
Print Assumptions C08_placeholder.
