(* C08 — a gene rule is a Boolean function and its text form is faithful.
   Only statements, `exact` proofs and Print Assumptions. *)
From Coq Require Import ZArith List Bool.
From Cobra.GPR Require Import Syntax Escape Remover Proofs ProofsParse ProofsEscape Tables Check.
From Cobra.GPR Require Import ProofsRepl ProofsEscapeFull ProofsLex ProofsReparse ProofsCurrent.
From Cobra.Gen Require Import GprTables.
Import ListNotations.
Open Scope Z_scope.

(* eval is the Boolean and/or value of the expression (independent inductive semantics) *)
Theorem C08_eval_sem : forall K t, eval K t = true <-> holds K t.
Proof. exact eval_sem. Qed.
Print Assumptions C08_eval_sem.

(* genes = exactly the identifiers occurring in the tree *)
Theorem C08_genes_sem : forall t g, In g (genes t) <-> occurs g t.
Proof. exact genes_sem. Qed.
Print Assumptions C08_genes_sem.

(* the value depends only on the occurring genes; more knock-outs never turn a rule on *)
Theorem C08_eval_ext : forall K K' t, (forall g, In g (genes t) -> K g = K' g) -> eval K t = eval K' t.
Proof. exact eval_ext. Qed.
Print Assumptions C08_eval_ext.

Theorem C08_eval_mono : forall K K' t,
  (forall g, K g = true -> K' g = true) -> eval K' t = true -> eval K t = true.
Proof. exact eval_mono. Qed.
Print Assumptions C08_eval_mono.

(* _GeneRemover: nothing left => the rule is false whenever the genes K are absent;
   otherwise the new rule is the old one with K absent and mentions no gene of K *)
Theorem C08_remove_sem : forall K t, wf t = true ->
  match remove K t with
  | None => forall A, (forall g, K g = true -> A g = true) -> eval A t = false
  | Some t' => (forall A, eval A t' = eval (fun g => A g || K g) t) /\
               (forall g, In g (genes t') -> K g = false /\ In g (genes t))
  end.
Proof. exact remove_sem. Qed.
Print Assumptions C08_remove_sem.

(* "can still be catalysed" <-> the remover keeps a rule *)
Theorem C08_remove_none_iff : forall K t, wf t = true -> (remove K t = None <-> eval K t = false).
Proof. exact remove_none_iff. Qed.
Print Assumptions C08_remove_none_iff.

(* as_symbolic / from_symbolic (flatten + dedupe) keeps truth table and gene set *)
Theorem C08_sym_roundtrip : forall t,
  (forall K, eval K (norm t) = eval K t) /\ (forall g, In g (genes (norm t)) <-> In g (genes t)).
Proof. exact norm_sem. Qed.
Print Assumptions C08_sym_roundtrip.

(* rules that compare equal are logically equivalent and have the same genes *)
Theorem C08_eq_sound : forall a b, gpr_eq a b = true -> forall K, eval_rule K a = eval_rule K b.
Proof. exact eq_sound. Qed.
Print Assumptions C08_eq_sound.

Theorem C08_eq_same_genes : forall a b, gpr_eq a b = true ->
  forall g, In g (genes_rule a) <-> In g (genes_rule b).
Proof. exact eq_same_genes. Qed.
Print Assumptions C08_eq_same_genes.

(* text form: the printed text is the rendering of the printed tokens, and parsing the printed
   tokens gives the tree back (single-child nodes collapsed); fuel 20*|tokens|+20 suffices. *)
Theorem C08_print_render : forall lvl t, print lvl t = render (print_toks lvl t).
Proof. exact print_render. Qed.
Print Assumptions C08_print_render.

Theorem C08_parse_print : forall t, wf t = true -> parse (print_toks false t) = Some (collapse t).
Proof. exact parse_print_toks. Qed.
Print Assumptions C08_parse_print.

Theorem C08_parse_print_exact : forall t, wf2 t = true -> parse (print_toks false t) = Some t.
Proof. exact parse_print_exact. Qed.
Print Assumptions C08_parse_print_exact.

Theorem C08_parse_fuel_mono : forall n m l ts r,
  p_expr n l ts = Some r -> (n <= m)%nat -> p_expr m l ts = Some r.
Proof. exact parse_fuel_mono. Qed.
Print Assumptions C08_parse_fuel_mono.

(* identifier escaping, GENERAL theorem: for any replacement table, keyword list and prefix
   satisfying the decidable side conditions and EVERY admissible identifier (any length: word
   characters and table characters, not containing the reserved word COBRA, replaced form not
   beginning with the prefix, not and/or), GPRCleaner.visit_Name undoes the escaping of
   from_string and the escaped identifier is a Python name that is not a keyword.
   Proof: ProofsRepl.v (the reserved word occurs in the replaced text exactly at offset 2 of
   every escape and never across a character boundary, so str.replace finds exactly the escapes)
   + ProofsEscapeFull.v.  Side condition `wf_prefix` (the prefix does not begin a keyword or
   and/or) is new: without it the statement is false (C08_escape_ok_needs_wf_prefix). *)
Theorem C08_escape_ok : forall T kws P,
  wf_repl T P = true -> wf_kws kws = true -> wf_prefix P kws = true ->
  forall w, id_okb T P w = true ->
    str_eqb (unescape_name T P (length P) (escape_word T kws P w)) w &&
    is_py_name kws (escape_word T kws P w) = true.
Proof. exact escape_ok. Qed.
Print Assumptions C08_escape_ok.

Definition C08_escape_ok_statement : Prop := escape_ok_statement.
Theorem C08_escape_ok_statement_holds : C08_escape_ok_statement.
Proof. exact escape_ok. Qed.
Print Assumptions C08_escape_ok_statement_holds.

Example C08_escape_ok_needs_wf_prefix :
  exists T kws P w, wf_repl T P = true /\ wf_kws kws = true /\ id_okb T P w = true /\
                    escape_ok_at T kws P w = false.
Proof. exact escape_ok_needs_wf_prefix. Qed.

(* the replacement loop alone: a character-wise substitution whose inverse is the loop of
   visit_Name, for every text in which the reserved word does not occur *)
Theorem C08_repl_roundtrip : forall T P w, wf_repl T P = true -> containsb anchor w = false ->
  undo_repl T (apply_repl T w) = w.
Proof. exact repl_roundtrip. Qed.
Print Assumptions C08_repl_roundtrip.

(* ... for the tables regenerated from gene.py in this run *)
Theorem C08_escape_ok_current : forall w, id_okb repl_table esc_prefix_kw w = true ->
  escape_ok_at repl_table kw_list esc_prefix_kw w = true.
Proof. exact escape_ok_current. Qed.
Print Assumptions C08_escape_ok_current.

(* the same claim on a finite family, by computation (kept: independent of the proof above) *)
Theorem C08_escape_ok_partial : escape_ok_on_family = true.
  (* = forallb (fun w => negb (id_okb repl_table esc_prefix_kw w) ||
                         escape_ok_at repl_table kw_list esc_prefix_kw w) family *)
Proof. exact escape_ok_family. Qed.
Print Assumptions C08_escape_ok_partial.

(* general part (any table, any admissible identifier): the prefix is stripped exactly when it was
   added, so the identifier round trip reduces to the replacement round trip *)
Theorem C08_escape_reduce : forall T kws P w, wf_repl T P = true -> id_okb T P w = true ->
  unescape_name T P (length P) (escape_word T kws P w) = undo_repl T (apply_repl T w).
Proof. exact escape_reduce. Qed.
Print Assumptions C08_escape_reduce.

Example C08_escape_family_nontrivial :
  (1000 <=? Z.of_nat (length (filter (id_okb repl_table esc_prefix_kw) family))) = true.
Proof. exact family_nontrivial. Qed.

(* ... which holds of the tables regenerated from gene.py in this run *)
Theorem C08_tables_wf : tables_wf = true.
Proof. exact tables_wf_current. Qed.
Print Assumptions C08_tables_wf.

(* Character level: the tokenizer inverts the rendering of token lists of the printed shape
   (atoms and operators alternate) whose names are words other than and/or ... *)
Theorem C08_lex_render : forall ts st, alt st ts = true -> names_sat lexname ts ->
  lex false false (render ts) = Some ts.
Proof. exact lex_render. Qed.
Print Assumptions C08_lex_render.

(* ... and the escaping steps of from_string act on such a text name by name *)
Theorem C08_escape_str_render : forall T kws P ts, wf_repl T P = true -> wf_kws kws = true ->
  alt true ts = true -> names_sat (idchars T) ts ->
  escape_str T kws P (render ts) = render (map (ren (escape_word T kws P)) ts) /\
  names_sat wordy (map (ren (escape_word T kws P)) ts).
Proof. exact escape_str_render. Qed.
Print Assumptions C08_escape_str_render.

(* Full character-level statement: reading back what to_string wrote gives the same rule (single-
   child nodes collapsed), for any tables with the side conditions ... *)
Theorem C08_reparse_general : forall T kws P t,
  wf_repl T P = true -> wf_kws kws = true -> wf_prefix P kws = true ->
  wf t = true -> (forall g, In g (genes t) -> id_okb T P g = true) ->
  from_string T kws P (length P) (print false t) = Parsed (Some (collapse t)).
Proof. exact reparse. Qed.
Print Assumptions C08_reparse_general.

(* ... in particular for the tables regenerated from gene.py in this run *)
Definition C08_reparse_statement : Prop :=
  forall t, wf t = true -> (forall g, In g (genes t) -> id_okb repl_table esc_prefix_kw g = true) ->
    from_string_cur (print false t) = Parsed (Some (collapse t)).

Theorem C08_reparse : C08_reparse_statement.
Proof. exact reparse_current. Qed.
Print Assumptions C08_reparse.

(* on the trees the parser produces the round trip is the identity *)
Theorem C08_reparse_exact : forall t, wf2 t = true ->
  (forall g, In g (genes t) -> id_okb repl_table esc_prefix_kw g = true) ->
  from_string_cur (to_string (Some t)) = Parsed (Some t).
Proof. exact reparse_exact_current. Qed.
Print Assumptions C08_reparse_exact.

(* Non-vacuity / concrete instances (computed with the generated tables). *)
Definition ex_rule : gpr :=
  Bool Or [Bool And [Gene [105; 102]; Gene [49; 46; 50]]; Gene [97; 45; 98]].   (* (if and 1.2) or a-b *)

Example C08_ex_wf : wf2 ex_rule = true /\
  forallb (id_okb repl_table esc_prefix_kw) (genes ex_rule) = true.
Proof. vm_compute. split; reflexivity. Qed.

Example C08_ex_reparse : from_string_cur (print false ex_rule) = Parsed (Some ex_rule).
Proof. vm_compute. reflexivity. Qed.

Example C08_ex_remove :
  remove (in_set [[105; 102]]) ex_rule = Some (Gene [97; 45; 98]) /\
  remove (in_set [[105; 102]; [97; 45; 98]]) ex_rule = None /\
  eval (in_set [[105; 102]; [97; 45; 98]]) ex_rule = false.
Proof. vm_compute. repeat split. Qed.

Example C08_ex_eq :
  gpr_eq (Some ex_rule) (Some (Bool Or [Gene [97; 45; 98]; Bool And [Gene [49; 46; 50]; Gene [105; 102]]])) = true /\
  gpr_eq (Some ex_rule) (Some (Gene [97; 45; 98])) = false.
Proof. vm_compute. split; reflexivity. Qed.
