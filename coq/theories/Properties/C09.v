(* C09 — pFBA, linear MOMA and ROOM solve their documented secondary problems optimally.
   This file only states the property theorems and prints their assumptions. *)
From Coq Require Import QArith List Bool.
From Cobra.LP Require Import Defs Cert Fba.
From Cobra.Optimize Require Import Model.
From Cobra.Secondary Require Import Aux Pfba PfbaProofs AuxLp Moma MomaProofs.
Import ListNotations.
Open Scope Q_scope.

(* ------------------------------------------------ pFBA ------------------------------------------------ *)

(* min { f + r | f - r = v, f and r within the bounds Reaction.update_variable_bounds gives them } = |v|,
   attained at (max(v,0), max(-v,0)) *)
Theorem C09_min_split_is_abs : forall lb ub v, valid lb ub -> inb (lb, ub) v ->
  (forall f r, inb (fst (split_bounds lb ub)) f -> inb (snd (split_bounds lb ub)) r -> f - r == v ->
               Qabs' v <= f + r) /\
  (inb (fst (split_bounds lb ub)) (qpos v) /\ inb (snd (split_bounds lb ub)) (qpos (- v)) /\
   qpos v - qpos (- v) == v /\ qpos v + qpos (- v) == Qabs' v).
Proof. exact min_split_is_abs. Qed.
Print Assumptions C09_min_split_is_abs.

(* The LP built by add_pfba (flux-balance rows, the fixed-objective row with bound on the side the
   objective direction dictates, minimise the sum of ALL forward and reverse variables):
   an optimum projects (forward - reverse) onto a steady-state, in-bounds flux vector that meets the
   fraction constraint and has the least total absolute flux among all such vectors; the LP's
   objective value (what pfba reports as objective_value) is that total.                       *)
Theorem C09_pfba_lp_equiv : forall m bound zs,
  valid_model m -> is_opt (pfba_lp m bound) (flat zs) ->
  pfba_opt m bound (nets zs) /\ sum2 zs == l1 (nets zs) /\ - value (pfba_lp m bound) (flat zs) == l1 (nets zs).
Proof. exact pfba_lp_equiv. Qed.
Print Assumptions C09_pfba_lp_equiv.

(* ... conversely every minimiser of the specification is the projection of an optimum of that LP,
   and the LP is infeasible exactly when the specification is                                    *)
Theorem C09_pfba_spec_lifts : forall m bound v,
  valid_model m -> pfba_opt m bound v -> is_opt (pfba_lp m bound) (flat (splits v)).
Proof. exact pfba_spec_opt_lifts. Qed.
Print Assumptions C09_pfba_spec_lifts.

Theorem C09_pfba_infeasible_iff : forall m bound,
  valid_model m -> (infeasible (pfba_lp m bound) <-> forall v, ~ pfba_feasible m bound v).
Proof. exact pfba_infeasible_iff. Qed.
Print Assumptions C09_pfba_infeasible_iff.

(* pfba(model, fraction, objective, reactions): if the solver's answers to the two solves are optimal
   for the problems it was given, the caller receives status optimal, the requested entries of a
   minimiser v of the specification at bound = optimum * fraction, and objective_value = sum |v_i| *)
Theorem C09_pfba_sound : forall exn_table m c fraction sr1 sr2 sel,
  let m' := set_objective m c in
  valid_model m' ->
  sr_status sr1 = Optimal -> sr_status sr2 = Optimal ->
  is_opt (pfba_lp m' (pfba_bound sr1 fraction)) (flat (sr_primal sr2)) ->
  sr_obj sr2 == - value (pfba_lp m' (pfba_bound sr1 fraction)) (flat (sr_primal sr2)) ->
  exists v, pfba_opt m' (sr_obj sr1 * fraction) v /\
            pfba exn_table sr1 sr2 sel = PfbaSol Optimal (sr_obj sr2) (select sel v) /\
            sr_obj sr2 == l1 v.
Proof. exact pfba_sound. Qed.
Print Assumptions C09_pfba_sound.

(* non-optimal solves surface as the exception the status table names *)
Theorem C09_pfba_raises : forall exn_table sr1 sr2 sel,
  (sr_status sr1 <> Optimal -> pfba exn_table sr1 sr2 sel = PfbaRaise (lookup_exn exn_table (sr_status sr1))) /\
  (sr_status sr1 = Optimal -> sr_status sr2 <> Optimal ->
   pfba exn_table sr1 sr2 sel = PfbaRaise (lookup_exn exn_table (sr_status sr2))).
Proof. exact pfba_raises. Qed.
Print Assumptions C09_pfba_raises.

(* non-vacuity: uptake <= 10 feeding a reversible conversion and a sink; at fraction 1/2 of the
   optimum 10 the least total flux is 15, attained at (5, 5, 5) *)
Definition toy : fbamodel :=
  mkFba 2 [mkRxn [1; 0] (Fin 0) (Fin 10) 0; mkRxn [-1; 1] (Fin (-1000)) (Fin 1000) 0;
           mkRxn [0; -1] (Fin 0) (Fin 1000) 1] true.
Example C09_pfba_toy :
  valid_model toy /\ is_opt (pfba_lp toy 5) (flat [(5, 0); (5, 0); (5, 0)]) /\
  pfba_opt toy 5 [5; 5; 5] /\ l1 [5; 5; 5] == 15.
Proof.
  assert (V : valid_model toy) by (apply valid_model_b_ok; reflexivity).
  assert (O : is_opt (pfba_lp toy 5) (flat [(5, 0); (5, 0); (5, 0)])).
  { apply (check_opt_sound _ _ [-1; -2; -3]). vm_compute. reflexivity. }
  split; [exact V|]. split; [exact O|]. split; [|reflexivity].
  exact (proj1 (pfba_lp_equiv toy 5 _ V O)).
Qed.

(* ------------------------------------------------ linear MOMA ------------------------------------------------ *)

(* add_absolute_expression: variable >= 0, expression - variable <= difference, expression + variable >= difference
   say exactly  variable >= |expression - difference| *)
Theorem C09_abs_encoding : forall e ref d,
  (0 <= d /\ e - d <= ref /\ ref <= e + d) <-> Qabs' (e - ref) <= d.
Proof. exact abs_encoding. Qed.
Print Assumptions C09_abs_encoding.

(* The LP built by add_moma(linear=True) (variables: forward/reverse pairs, moma_old_objective, one
   moma_dist variable per reaction): an optimum projects onto a flux vector of the model with the least summed
   absolute distance to the reference; the LP's objective value (Solution.objective_value) is that distance, and
   moma_old_objective holds the original objective's value at the returned fluxes.               *)
Theorem C09_moma_lp_equiv : forall m ref zs w ds,
  valid_model m -> length zs = length (rxns m) ->
  is_opt (moma_lp m ref) (flat zs ++ w :: ds) ->
  moma_opt m ref (nets zs) /\ vsum ds == dist (length (rxns m)) (nets zs) ref /\
  - value (moma_lp m ref) (flat zs ++ w :: ds) == dist (length (rxns m)) (nets zs) ref /\
  w == dot (raw_obj m) (nets zs).
Proof. exact moma_lp_equiv. Qed.
Print Assumptions C09_moma_lp_equiv.

(* every flux vector of the model lifts to a feasible point of that LP with objective = its distance
   (so the LP's optimum is not larger than the specification's minimum and the LP is feasible iff the model is) *)
Theorem C09_moma_spec_to_lp : forall m ref v,
  valid_model m -> feasible (net_lp m) v ->
  let ds := map (fun i => Qabs' (nth i v 0 - nth i ref 0)) (seq 0 (length (rxns m))) in
  feasible (moma_lp m ref) (flat (splits v) ++ dot (raw_obj m) v :: ds) /\
  vsum ds == dist (length (rxns m)) v ref.
Proof. exact moma_spec_to_lp. Qed.
Print Assumptions C09_moma_spec_to_lp.

Theorem C09_moma_feasible_iff : forall m ref, valid_model m ->
  ((exists v, feasible (net_lp m) v) <->
   (exists zs w ds, length zs = length (rxns m) /\ feasible (moma_lp m ref) (flat zs ++ w :: ds))).
Proof. exact moma_feasible_iff. Qed.
Print Assumptions C09_moma_feasible_iff.

(* non-vacuity: the toy network with the uptake knocked out... here: reference (10, 10, 10), uptake limited to 4:
   the closest flux vector is (4, 4, 4) at distance 18 *)
Definition toy4 : fbamodel :=
  mkFba 2 [mkRxn [1; 0] (Fin 0) (Fin 4) 0; mkRxn [-1; 1] (Fin (-1000)) (Fin 1000) 0;
           mkRxn [0; -1] (Fin 0) (Fin 1000) 1] true.
Example C09_moma_toy :
  is_opt (moma_lp toy4 [10; 10; 10]) (flat [(4, 0); (4, 0); (4, 0)] ++ 4 :: [6; 6; 6]) /\
  moma_opt toy4 [10; 10; 10] [4; 4; 4] /\ dist 3 [4; 4; 4] [10; 10; 10] == 18.
Proof.
  assert (V : valid_model toy4) by (apply valid_model_b_ok; reflexivity).
  assert (O : is_opt (moma_lp toy4 [10; 10; 10]) (flat [(4, 0); (4, 0); (4, 0)] ++ 4 :: [6; 6; 6])).
  { apply (check_opt_sound _ _ [-2; -1; 0; 0; 0; 0; -1; -1; -1]). vm_compute. reflexivity. }
  split; [exact O|]. split; [|reflexivity].
  exact (proj1 (moma_lp_equiv toy4 [10; 10; 10] [(4, 0); (4, 0); (4, 0)] 4 [6; 6; 6] V eq_refl O)).
Qed.
