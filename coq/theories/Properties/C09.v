(* C09 — pFBA, linear MOMA and ROOM solve their documented secondary problems optimally.
   This file only states the property theorems and prints their assumptions. *)
From Coq Require Import QArith List Bool Lqa.
From Cobra.LP Require Import Defs Cert Fba Milp.
From Cobra.Optimize Require Import Model.
From Cobra.Secondary Require Import Aux Pfba PfbaProofs AuxLp Moma MomaProofs Room RoomProofs.
Import ListNotations.
Open Scope Q_scope.

(* ------------------------------------------------ pFBA ------------------------------------------------ *)

(* min { f + r | f - r = v, f and r within the bounds Reaction.update_variable_bounds gives them } = |v|,
   attained at (max(v,0), max(-v,0)) *)
Theorem C09_min_split_is_abs : forall lb ub v, valid lb ub -> inb (lb, ub) v ->
  (forall f r, inb (fst (split_bounds lb ub)) f -> inb (snd (split_bounds lb ub)) r -> f - r == v ->
               Qabs' v <= f + r) /\
  (inb (fst (split_bounds lb ub)) (qpos v) /\ inb (snd (split_bounds lb ub)) (qpos (- v)) /\
   qpos v - qpos (- v) == v /\ qpos v + qpos (- v) == Qabs' v).
Proof. exact min_split_is_abs. Qed.
Print Assumptions C09_min_split_is_abs.

(* The LP built by add_pfba (flux-balance rows, the fixed-objective row with bound on the side the
   objective direction dictates, minimise the sum of ALL forward and reverse variables):
   an optimum projects (forward - reverse) onto a steady-state, in-bounds flux vector that meets the
   fraction constraint and has the least total absolute flux among all such vectors; the LP's
   objective value (what pfba reports as objective_value) is that total.                       *)
Theorem C09_pfba_lp_equiv : forall m bound zs,
  valid_model m -> is_opt (pfba_lp m bound) (flat zs) ->
  pfba_opt m bound (nets zs) /\ sum2 zs == l1 (nets zs) /\ - value (pfba_lp m bound) (flat zs) == l1 (nets zs).
Proof. exact pfba_lp_equiv. Qed.
Print Assumptions C09_pfba_lp_equiv.

(* ... conversely every minimiser of the specification is the projection of an optimum of that LP,
   and the LP is infeasible exactly when the specification is                                    *)
Theorem C09_pfba_spec_lifts : forall m bound v,
  valid_model m -> pfba_opt m bound v -> is_opt (pfba_lp m bound) (flat (splits v)).
Proof. exact pfba_spec_opt_lifts. Qed.
Print Assumptions C09_pfba_spec_lifts.

Theorem C09_pfba_infeasible_iff : forall m bound,
  valid_model m -> (infeasible (pfba_lp m bound) <-> forall v, ~ pfba_feasible m bound v).
Proof. exact pfba_infeasible_iff. Qed.
Print Assumptions C09_pfba_infeasible_iff.

(* pfba(model, fraction, objective, reactions): if the solver's answers to the two solves are optimal
   for the problems it was given, the caller receives status optimal, the requested entries of a
   minimiser v of the specification at bound = optimum * fraction, and objective_value = sum |v_i| *)
Theorem C09_pfba_sound : forall exn_table m c fraction sr1 sr2 sel,
  let m' := set_objective m c in
  valid_model m' ->
  sr_status sr1 = Optimal -> sr_status sr2 = Optimal ->
  is_opt (pfba_lp m' (pfba_bound sr1 fraction)) (flat (sr_primal sr2)) ->
  sr_obj sr2 == - value (pfba_lp m' (pfba_bound sr1 fraction)) (flat (sr_primal sr2)) ->
  exists v, pfba_opt m' (sr_obj sr1 * fraction) v /\
            pfba exn_table sr1 sr2 sel = PfbaSol Optimal (sr_obj sr2) (select sel v) /\
            sr_obj sr2 == l1 v.
Proof. exact pfba_sound. Qed.
Print Assumptions C09_pfba_sound.

(* non-optimal solves surface as the exception the status table names *)
Theorem C09_pfba_raises : forall exn_table sr1 sr2 sel,
  (sr_status sr1 <> Optimal -> pfba exn_table sr1 sr2 sel = PfbaRaise (lookup_exn exn_table (sr_status sr1))) /\
  (sr_status sr1 = Optimal -> sr_status sr2 <> Optimal ->
   pfba exn_table sr1 sr2 sel = PfbaRaise (lookup_exn exn_table (sr_status sr2))).
Proof. exact pfba_raises. Qed.
Print Assumptions C09_pfba_raises.

(* non-vacuity: uptake <= 10 feeding a reversible conversion and a sink; at fraction 1/2 of the
   optimum 10 the least total flux is 15, attained at (5, 5, 5) *)
Definition toy : fbamodel :=
  mkFba 2 [mkRxn [1; 0] (Fin 0) (Fin 10) 0; mkRxn [-1; 1] (Fin (-1000)) (Fin 1000) 0;
           mkRxn [0; -1] (Fin 0) (Fin 1000) 1] true.
Example C09_pfba_toy :
  valid_model toy /\ is_opt (pfba_lp toy 5) (flat [(5, 0); (5, 0); (5, 0)]) /\
  pfba_opt toy 5 [5; 5; 5] /\ l1 [5; 5; 5] == 15.
Proof.
  assert (V : valid_model toy) by (apply valid_model_b_ok; reflexivity).
  assert (O : is_opt (pfba_lp toy 5) (flat [(5, 0); (5, 0); (5, 0)])).
  { apply (check_opt_sound _ _ [-1; -2; -3]). vm_compute. reflexivity. }
  split; [exact V|]. split; [exact O|]. split; [|reflexivity].
  exact (proj1 (pfba_lp_equiv toy 5 _ V O)).
Qed.

(* ------------------------------------------------ linear MOMA ------------------------------------------------ *)

(* add_absolute_expression: variable >= 0, expression - variable <= difference, expression + variable >= difference
   say exactly  variable >= |expression - difference| *)
Theorem C09_abs_encoding : forall e ref d,
  (0 <= d /\ e - d <= ref /\ ref <= e + d) <-> Qabs' (e - ref) <= d.
Proof. exact abs_encoding. Qed.
Print Assumptions C09_abs_encoding.

(* The LP built by add_moma(linear=True) (variables: forward/reverse pairs, moma_old_objective, one
   moma_dist variable per reaction): an optimum projects onto a flux vector of the model with the least summed
   absolute distance to the reference; the LP's objective value (Solution.objective_value) is that distance, and
   moma_old_objective holds the original objective's value at the returned fluxes.               *)
Theorem C09_moma_lp_equiv : forall m ref zs w ds,
  valid_model m -> length zs = length (rxns m) ->
  is_opt (moma_lp m ref) (flat zs ++ w :: ds) ->
  moma_opt m ref (nets zs) /\ vsum ds == dist (length (rxns m)) (nets zs) ref /\
  - value (moma_lp m ref) (flat zs ++ w :: ds) == dist (length (rxns m)) (nets zs) ref /\
  w == dot (raw_obj m) (nets zs).
Proof. exact moma_lp_equiv. Qed.
Print Assumptions C09_moma_lp_equiv.

(* every flux vector of the model lifts to a feasible point of that LP with objective = its distance
   (so the LP's optimum is not larger than the specification's minimum and the LP is feasible iff the model is) *)
Theorem C09_moma_spec_to_lp : forall m ref v,
  valid_model m -> feasible (net_lp m) v ->
  let ds := map (fun i => Qabs' (nth i v 0 - nth i ref 0)) (seq 0 (length (rxns m))) in
  feasible (moma_lp m ref) (flat (splits v) ++ dot (raw_obj m) v :: ds) /\
  vsum ds == dist (length (rxns m)) v ref.
Proof. exact moma_spec_to_lp. Qed.
Print Assumptions C09_moma_spec_to_lp.

Theorem C09_moma_feasible_iff : forall m ref, valid_model m ->
  ((exists v, feasible (net_lp m) v) <->
   (exists zs w ds, length zs = length (rxns m) /\ feasible (moma_lp m ref) (flat zs ++ w :: ds))).
Proof. exact moma_feasible_iff. Qed.
Print Assumptions C09_moma_feasible_iff.

(* non-vacuity: the toy network with the uptake knocked out... here: reference (10, 10, 10), uptake limited to 4:
   the closest flux vector is (4, 4, 4) at distance 18 *)
Definition toy4 : fbamodel :=
  mkFba 2 [mkRxn [1; 0] (Fin 0) (Fin 4) 0; mkRxn [-1; 1] (Fin (-1000)) (Fin 1000) 0;
           mkRxn [0; -1] (Fin 0) (Fin 1000) 1] true.
Example C09_moma_toy :
  is_opt (moma_lp toy4 [10; 10; 10]) (flat [(4, 0); (4, 0); (4, 0)] ++ 4 :: [6; 6; 6]) /\
  moma_opt toy4 [10; 10; 10] [4; 4; 4] /\ dist 3 [4; 4; 4] [10; 10; 10] == 18.
Proof.
  assert (V : valid_model toy4) by (apply valid_model_b_ok; reflexivity).
  assert (O : is_opt (moma_lp toy4 [10; 10; 10]) (flat [(4, 0); (4, 0); (4, 0)] ++ 4 :: [6; 6; 6])).
  { apply (check_opt_sound _ _ [-2; -1; 0; 0; 0; 0; -1; -1; -1]). vm_compute. reflexivity. }
  split; [exact O|]. split; [|reflexivity].
  exact (proj1 (moma_lp_equiv toy4 [10; 10; 10] [(4, 0); (4, 0); (4, 0)] 4 [6; 6; 6] V eq_refl O)).
Qed.

(* ------------------------------------------------ ROOM ------------------------------------------------ *)

(* optimality of a problem with binary columns, certified by one LP certificate per assignment of the binaries
   (all 2^k assignments are generated inside Coq) *)
Theorem C09_check_milp_sound : forall p ints x certs, check_milp p ints x certs = true -> milp_opt p ints x.
Proof. exact check_milp_sound. Qed.
Print Assumptions C09_check_milp_sound.

(* the documented switch: y_i = 0 confines the flux to [w_l, w_u], y_i = 1 leaves exactly the reaction's own bounds *)
Theorem C09_room_switch : forall m ref wub delta eps i v,
  let lb := fin (rx_lb (nth i (rxns m) dr)) in let ub := fin (rx_ub (nth i (rxns m) dr)) in
  ((aux_ok (ax_up (room_aux m ref wub delta eps) i) v 0 /\ aux_ok (ax_lo (room_aux m ref wub delta eps) i) v 0) <->
   (band_lo delta eps (nth i ref 0) <= v <= band_hi delta eps (nth i ref 0))) /\
  ((aux_ok (ax_up (room_aux m ref wub delta eps) i) v 1 /\ aux_ok (ax_lo (room_aux m ref wub delta eps) i) v 1) <->
   (lb <= v <= ub)).
Proof. exact room_switch. Qed.
Print Assumptions C09_room_switch.

(* The mixed problem built by add_room(linear=False): an optimum projects onto a flux vector of the model with the
   least number of reactions outside the tolerance band, and the objective value is that number.  `wub` is the upper
   bound of room_old_objective: PosInf for the repaired code (fixes/room-old-objective-bound), in which case
   room_feasible is just membership in the flux polytope.                                          *)
Theorem C09_room_milp_equiv : forall m ref wub delta eps zs w ys,
  valid_model m -> finite_model_b m = true -> length zs = length (rxns m) ->
  milp_opt (room_lp m ref wub delta eps false) (room_ints m false) (flat zs ++ w :: ys) ->
  room_opt m ref wub delta eps (nets zs) /\
  vsum ys == count_out (length (rxns m)) delta eps ref (nets zs) /\
  - value (room_lp m ref wub delta eps false) (flat zs ++ w :: ys) == count_out (length (rxns m)) delta eps ref (nets zs).
Proof. exact room_milp_equiv. Qed.
Print Assumptions C09_room_milp_equiv.

Theorem C09_room_spec_to_milp : forall m ref wub delta eps v,
  valid_model m -> finite_model_b m = true -> room_feasible m wub v ->
  let ys := map (outside delta eps ref v) (seq 0 (length (rxns m))) in
  milp_feasible (room_lp m ref wub delta eps false) (room_ints m false) (flat (splits v) ++ dot (raw_obj m) v :: ys) /\
  vsum ys == count_out (length (rxns m)) delta eps ref v.
Proof. exact room_spec_to_milp. Qed.
Print Assumptions C09_room_spec_to_milp.

(* linear=True solves the documented relaxation (0 <= y <= 1, delta = epsilon = 0) over the same polytope *)
Theorem C09_room_linear_equiv : forall m ref wub delta eps zs w ys,
  valid_model m -> length zs = length (rxns m) ->
  is_opt (room_lp m ref wub delta eps true) (flat zs ++ w :: ys) ->
  room_lin_feasible m ref wub (nets zs) ys /\
  (forall v' ys', room_lin_feasible m ref wub v' ys' -> vsum ys <= vsum ys') /\
  - value (room_lp m ref wub delta eps true) (flat zs ++ w :: ys) == vsum ys.
Proof. exact room_linear_equiv. Qed.
Print Assumptions C09_room_linear_equiv.

(* with the unrepaired bound the specification carries an extra constraint that can empty it: the documented
   problem of `toy_min` (minimise R2, R1 knocked out, reference (2, -1) with objective value -1) has the point
   (0, 0), but no flux vector satisfies the extra constraint  objective <= -1                      *)
Definition toy_min : fbamodel :=
  mkFba 1 [mkRxn [-1] (Fin 0) (Fin 0) 0; mkRxn [-1] (Fin (-1)) (Fin 10) 1] false.
Example C09_room_bound_matters :
  room_feasible toy_min PosInf [0; 0] /\ forall v, ~ room_feasible toy_min (Fin (-1)) v.
Proof.
  split.
  - split; [apply feasible_b_ok; reflexivity|exact I].
  - intros v [[Hb Hr] Hobj]. cbn in Hb, Hr, Hobj.
    inversion Hb as [|b1 x1 l1 l1' [A1 A2] Hb1]; subst. inversion Hb1 as [|b2 x2 l2 l2' [B1 B2] Hb2]; subst.
    inversion Hb2; subst. inversion Hr as [|r rs [R1 R2] _]; subst. cbn in *. lra.
Qed.

(* non-vacuity of the enumeration checker: two binaries, x0 + x1 >= 1, minimise x0 + x1 *)
Example C09_milp_toy :
  milp_opt (mkLP [(Fin 0, Fin 1); (Fin 0, Fin 1)] [mkRow [1; 1] (Fin 1) PosInf] [-1; -1]) [0%nat; 1%nat] [1; 0].
Proof. apply (check_milp_sound _ _ _ [BInf [-1]; BUp []; BUp []; BUp []]). vm_compute. reflexivity. Qed.
