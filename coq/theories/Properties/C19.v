(* C19 — blocked-reaction and consistency analyses agree with the true flux ranges.
   This file only states the property theorems and prints their assumptions.

   Vocabulary (coq/theories/Blocked/Model.v):
     blocked_true m j        reaction j carries zero flux in every steady-state distribution within the bounds
     opened m ex b           the model with the bounds of the exchange reactions widened when b = true
     zero_objective m        the model after `model.objective = Zero`
     find_blocked_full       pre-filter by one solution, ranges of the remaining reactions, cut-off          *)
From Coq Require Import QArith List Bool Lia Lqa.
From Cobra.LP Require Import Defs Cert Fba.
From Cobra.FVA Require Import Model Proofs.
From Cobra.Blocked Require Import Model Proofs.
From Cobra.Gen Require Import BlockedTables.
Import ListNotations.
Open Scope Q_scope.

(* FVA at fraction_of_optimum = 0 of the zero objective ranges over the whole polytope *)
Theorem C19_zero_objective_scope : forall m opt v,
  in_scope (zero_objective m) (0 * opt) None v <-> feasible (net_lp m) v.
Proof. exact zero_scope. Qed.
Print Assumptions C19_zero_objective_scope.

(* ... hence the numbers the (repaired) find_blocked_reactions gets from flux_variability_analysis are the
   exact extremes of each reaction over the polytope, whatever optimal point the solver holds *)
Theorem C19_ranges_from_fva : forall m opt j zmin zmax,
  valid_model m -> (j < length (rxns m))%nat ->
  is_opt (fva_lp (zero_objective m) (0 * opt) None j false) zmin ->
  is_opt (fva_lp (zero_objective m) (0 * opt) None j true) zmax ->
  exact_range m j (- value (fva_lp (zero_objective m) (0 * opt) None j false) zmin,
                   value (fva_lp (zero_objective m) (0 * opt) None j true) zmax).
Proof.
  intros m opt j zmin zmax Hv Hj Hmin Hmax.
  assert (Hv0 : valid_model (zero_objective m)).
  { unfold valid_model, zero_objective in *; cbn [rxns]. rewrite Forall_map. cbn [rx_lb rx_ub]. exact Hv. }
  assert (Hj0 : (j < length (rxns (zero_objective m)))%nat) by (cbn [zero_objective rxns]; rewrite map_length; exact Hj).
  destruct (fva_min_correct_any _ _ None j _ Hv0 Hj0 Hmin) as [[v1 [S1 E1]] M1].
  destruct (fva_max_correct_any _ _ None j _ Hv0 Hj0 Hmax) as [[v2 [S2 E2]] M2].
  split; cbn [fst snd]; (split; [|intros v Hf; first [apply M1|apply M2]; apply zero_scope; exact Hf]).
  - exists v1. split; [apply (zero_scope m opt); exact S1|exact E1].
  - exists v2. split; [apply (zero_scope m opt); exact S2|exact E2].
Qed.
Print Assumptions C19_ranges_from_fva.

(* blocked_spec, no condition on the objective: with a feasible solution for the pre-filter, exact ranges
   and a positive cut-off the result is exactly the requested reactions whose flux stays below the
   cut-off in every distribution ... *)
Theorem C19_blocked_cutoff_spec : forall m cutoff sol L ranges,
  feasible (net_lp m) sol -> (forall j, In j L -> exact_range m j (ranges j)) ->
  forall j, In j (find_blocked_full cutoff sol L ranges) <->
            In j L /\ forall v, feasible (net_lp m) v -> Qabs' (flux j v) < cutoff.
Proof. exact blocked_cutoff_spec. Qed.
Print Assumptions C19_blocked_cutoff_spec.

(* ... and exactly the requested reactions that carry zero flux in every distribution when no extreme
   lies strictly between 0 and the cut-off (m stands for the model with exchanges opened when asked) *)
Theorem C19_blocked_spec : forall m cutoff sol L ranges,
  0 < cutoff -> feasible (net_lp m) sol ->
  (forall j, In j L -> exact_range m j (ranges j) /\ no_tiny cutoff (ranges j)) ->
  forall j, In j (find_blocked_full cutoff sol L ranges) <-> In j L /\ blocked_true m j.
Proof. exact blocked_spec. Qed.
Print Assumptions C19_blocked_spec.

Theorem C19_blocked_objective_free : forall m j, blocked_true (zero_objective m) j <-> blocked_true m j.
Proof. exact blocked_true_objective_free. Qed.
Print Assumptions C19_blocked_objective_free.

(* The tree before the repair ran the FVA with the model's own objective: the ranges were taken over
   {v in P | c.v >= 0} only (C19_objective_scope), and a reaction that carries flux only where the
   objective is negative was reported blocked.  Witness (DESIGN 6.2 row 16): --> B [0,10],
   R: A <=> B [-10,0] objective, A --> [0,10]: nothing is blocked, yet every distribution with
   objective >= 0 is zero.                                                                     *)
Theorem C19_objective_scope : forall m opt v,
  in_scope m (0 * opt) None v <-> feasible (net_lp m) v /\ (if maximize m then 0 <= objv m v else objv m v <= 0).
Proof. exact objective_scope. Qed.
Print Assumptions C19_objective_scope.

Definition row16 : fbamodel :=
  mkFba 2 [mkRxn [0; 1] (Fin 0) (Fin 10) 0; mkRxn [-1; 1] (Fin (-10)) (Fin 0) 1; mkRxn [-1; 0] (Fin 0) (Fin 10) 0] true.
Example C19_unrepaired_refuted :
  (forall j, (j < 3)%nat -> ~ blocked_true row16 j) /\
  (forall v, in_scope row16 (0 * 0) None v -> forall j, flux j v == 0).
Proof.
  split.
  - intros j Hj. apply (witness_sound row16 j [1; -1; 1]).
    destruct j as [|[|[|j]]]; try lia; vm_compute; reflexivity.
  - intros v Hs. apply objective_scope in Hs as [[Hb Hr] Ho]. cbn [maximize row16] in Ho.
    cbn in Hb. inversion Hb as [|b0 a l0 l0' B0 Hb1]; subst. inversion Hb1 as [|b1 b l1 l1' B1 Hb2]; subst.
    inversion Hb2 as [|b2 c l2 l2' B2 Hb3]; subst. inversion Hb3; subst.
    cbn in Hr. inversion Hr as [|r0 rs0 R0 Hr1]; subst. inversion Hr1 as [|r1 rs1 R1 _]; subst.
    unfold row_ok, inb in R0, R1, B0, B1, B2; cbn in R0, R1, B0, B1, B2. unfold objv in Ho; cbn in Ho.
    intros j. destruct j as [|[|[|j]]]; unfold flux; cbn; try lra. destruct j; reflexivity.
Qed.

(* fastcc_sound: a reaction fastcc keeps is active (|flux| > cut-off) in a point of one of its LPs; every
   such LP extends cobrapy's problem by auxiliary variables and rows, so the reaction is not blocked *)
Theorem C19_fastcc_sound : forall m evb erows c zs aux cutoff j,
  valid_model m -> 0 <= cutoff -> length zs = length (rxns m) ->
  feasible (extension (split_lp m) evb erows c) (flat zs ++ aux) ->
  nth j (active cutoff (nets zs)) false = true -> ~ blocked_true m j.
Proof. exact fastcc_active_sound. Qed.
Print Assumptions C19_fastcc_sound.

(* the LP of _find_sparse_mode (also after _flip_coefficients) is such an extension *)
Example C19_lp7_is_extension : forall m sel th s, exists evb erows c, lp7 m sel th s = extension (split_lp m) evb erows c.
Proof. intros. unfold lp7. eexists _, _, _. reflexivity. Qed.

(* the certificate used per kept reaction in the correspondence check *)
Theorem C19_witness_sound : forall m j v, check_witness m j v = true -> ~ blocked_true m j.
Proof. exact witness_sound. Qed.
Print Assumptions C19_witness_sound.

(* fastcc_keeps: the returned model is the input minus the dropped reactions; kept reactions unchanged, in order *)
Theorem C19_fastcc_keeps : forall keep rs, keep_rxns keep rs = map snd (filter fst (combine keep rs)).
Proof. exact fastcc_keeps. Qed.
Print Assumptions C19_fastcc_keeps.
Theorem C19_fastcc_kept_in : forall m keep r, In r (rxns (fastcc_result m keep)) -> In r (rxns m).
Proof. exact fastcc_kept_in. Qed.
Print Assumptions C19_fastcc_kept_in.

(* NOT proved (statement only): fastcc drops no unblocked reaction, and the returned model has no blocked
   reaction.  Validated against the exact ranges on every run (codes 5 and 7 of harness/c19.py).    *)
Definition C19_fastcc_complete_statement : Prop :=
  forall m (keep : list bool) j, (j < length (rxns m))%nat -> nth j keep false = false -> blocked_true m j.

(* side conditions on the constants regenerated from variability.py / fastcc.py: the FVA runs at
   fraction 0 on the zeroed objective, exchanges are opened to (-1000, 1000)                      *)
Example C19_tables_ok :
  blocked_fva_fraction == 0 /\ blocked_zero_objective = true /\ open_lower == -1000 /\ open_upper == 1000 /\
  fastcc_flux_threshold == 1.
Proof. vm_compute. repeat split; reflexivity. Qed.
