(* C15 — identifier-indexed lists stay coherent under every list operation.
   This file only states the property theorems and prints their assumptions. *)
From Coq Require Import ZArith List Bool.
From Cobra.DictList Require Import Model Spec Lemmas Proofs.
Import ListNotations.
Open Scope Z_scope.

(* Every operation (succeeding or raising) keeps the index coherent with the list, does
   to the list exactly what the plain-list specification with a uniqueness rule says, and
   returns the specified value; freshly returned lists are coherent too.                *)
Theorem C15_step :
  forall d o, Coherent d ->
    Coherent (fst (step d o)) /\
    items (fst (step d o)) = fst (spec_step (items d) o) /\
    out_rel (snd (step d o)) (snd (spec_step (items d) o)).
Proof. exact step_ok. Qed.
Print Assumptions C15_step.

(* An operation that raises leaves list and index unchanged. *)
Theorem C15_raise_unchanged :
  forall d o x, snd (step d o) = ORaise x -> fst (step d o) = d.
Proof. exact step_raise_unchanged. Qed.
Print Assumptions C15_raise_unchanged.

(* ... and in the specification a raising operation leaves the list unchanged as well *)
Theorem C15_spec_raise_unchanged :
  forall d o x, Coherent d -> snd (spec_step (items d) o) = SRaise x -> fst (spec_step (items d) o) = items d.
Proof.
  intros d o x Hc Hs. destruct (step_ok d o Hc) as [_ [Hit Hout]].
  rewrite <- Hit. rewrite Hs in Hout. destruct (snd (step d o)) eqn:E; cbn in Hout; try contradiction.
  rewrite (step_raise_unchanged d o x0 E). reflexivity.
Qed.
Print Assumptions C15_spec_raise_unchanged.

(* Every history, from the empty list or from any coherent list. *)
Theorem C15_reachable : forall ops d, Coherent d -> Coherent (run ops d).
Proof. exact run_coherent. Qed.
Print Assumptions C15_reachable.

Theorem C15_reachable_from_empty : forall ops, Coherent (run ops empty).
Proof. intros ops. apply run_coherent. exact empty_coherent. Qed.
Print Assumptions C15_reachable_from_empty.

Theorem C15_history_refines :
  forall ops d, Coherent d ->
    items (run ops d) = fold_left (fun l o => fst (spec_step l o)) ops (items d).
Proof. exact run_refines. Qed.
Print Assumptions C15_history_refines.

(* What coherence gives the user. *)
Theorem C15_coherent_meaning :
  forall d, Coherent d ->
  NoDup (ids (items d)) /\
  (forall k i, idx d k = Some i <-> exists e, znth (items d) i = Some e /\ e_id e = k) /\
  (forall k, dhas (idx d) k = true <-> In k (ids (items d))) /\
  (forall i e, znth (items d) i = Some e ->
     snd (step d (Index (KObj e))) = OInt i /\ snd (step d (GetById (e_id e))) = OElem e /\
     snd (step d (Contains (KObj e))) = OBool true).
Proof. exact coherent_meaning. Qed.
Print Assumptions C15_coherent_meaning.

(* The monitor's boolean is sound for the invariant. *)
Theorem C15_monitor_sound :
  forall al l f, coherent_on al l f = true ->
    NoDup (ids l) /\ forall k, In k al -> f k = find_index k l.
Proof. exact coherent_on_sound. Qed.
Print Assumptions C15_monitor_sound.

(* Non-vacuity: a three-element list is coherent; a failing extend and a negative insert exist. *)
Definition abc := fresh [mkE 0 10; mkE 1 11; mkE 2 12].
Example C15_abc_coherent : Coherent abc.
Proof. apply fresh_coherent. repeat constructor; cbn; intuition discriminate. Qed.
Example C15_failing_extend :
  snd (step abc (Extend [mkE 5 20; mkE 0 21])) = ORaise ValueError /\
  ids (items (fst (step abc (Insert (-1) (mkE 7 30))))) = [0; 1; 7; 2] /\
  idx (fst (step abc (Insert (-1) (mkE 7 30)))) 7 = Some 2 /\
  idx (fst (step abc (Insert (-1) (mkE 7 30)))) 2 = Some 3.
Proof. vm_compute. repeat split. Qed.
