(* C03 — leaving a `with model:` block restores the model completely.
   This file only states the property theorems and prints their assumptions.
   State equality is Leibniz equality of records of functions, hence
   FunctionalExtensionality.functional_extensionality_dep (standard library) in the assumptions. *)
From Coq Require Import ZArith QArith Qcanon List Bool.
From Cobra.Core Require Import Model Inv Preserve RestoreBase RestoreOps Restore.
Import ListNotations.
Open Scope Z_scope.

(* The full statement over the whole op kernel of Core/Model.v (every context-aware operation, any
   nesting, any point of failure): kept visible; proved below for the operations of `ctx_ok` (all of
   them, with the side conditions listed there).                                                     *)
Definition C03_statement : Prop :=
  forall (allowed : st -> op -> Prop),
    (forall s o, allowed s o -> op_ok s o) ->
  forall s l, Inv s -> V s ->
    (fix ok (s : st) (l : list item) : Prop :=
       match l with [] => True | i :: l' => (match i with Op o => allowed s o | Block _ => True end) /\ ok (run_item s i) l' end)
      (enter_ctx s) l ->
    exit_ctx (run_items (enter_ctx s) l) = (s, Ok).

(* every operation in scope registers undo closures whose replay (newest first) undoes it exactly *)
Theorem C03_step_undone : forall s o, Inv s -> V s -> ctx_ok s o ->
  forall h rest, ctx s = h :: rest ->
  exists new, ctx (fst (step s o)) = (new ++ h) :: rest /\ reset_from new (body (fst (step s o))) = body s.
Proof. intros s o HI HV Hok. exact (step_undone s o HI HV Hok). Qed.
Print Assumptions C03_step_undone.

(* Leaving a block gives back EXACTLY the state at its entry (content, objective and direction, solver
   problem, cross references, enclosing context stack), and the exit does not raise - for blocks that
   contain, in any number, order and nesting depth, every context-aware operation of the kernel: bounds
   assignments (also failing ones), knock-outs, objective assignments (also failing part-way), objective
   coefficients and direction changes, adding metabolites, adding reactions (with the metabolites they bring
   along), removing reactions (with or without remove_orphans), stoichiometry edits (add/subtract, combine or
   replace), remove_metabolites (destructive or not) and scaling a reaction by a non-zero factor (also a
   negative one, which swaps the bounds) - and for the block ended after any prefix (an exception between
   two operations).  Side conditions (`ctx_ok`): an edited reaction belongs to the model (an object outside the
   model does not see the model's contexts: NewRxn, the construction of a detached reaction, is therefore not
   an operation of a block); identifiers inside the universe; for remove_metabolites the universe of reaction
   identifiers is duplicate-free (the model registers one closure per listed identifier).
   The name keeps `_partial` because `C03_statement` quantifies over every `allowed` below `op_ok`, which also
   admits edits of reactions outside the model; those are not recorded by design (docs/CORE.md, scope rule). *)
Theorem C03_context_restores_partial : forall s l,
  Inv s -> V s -> ok_items (enter_ctx s) l ->
  exit_ctx (run_items (enter_ctx s) l) = (s, Ok).
Proof. exact context_restores. Qed.
Print Assumptions C03_context_restores_partial.

(* a nested block is the identity on the state, so it can appear anywhere inside another block *)
Theorem C03_nested_block_identity : forall s l, Inv s -> V s -> ok_item s (Block l) -> run_item s (Block l) = s.
Proof.
  intros s l HI HV Hok. rewrite ok_item_block in Hok. cbn [run_item]. fold (run_items (enter_ctx s) l).
  rewrite (context_restores s l HI HV Hok). reflexivity.
Qed.
Print Assumptions C03_nested_block_identity.

(* non-vacuity: a two-level block on a one-reaction model, with a failing bounds assignment inside *)
Definition q (z : Z) : Qc := Q2Qc (inject_Z z).
Definition m0 : st :=
  run [NewRxn 0 (Fn (q 0)) (Fn (q 10)) [(0, q (-1))]; AddRxn 0; SetObj [(0, q 1)]] (init_u [0] [0]).
Definition blk : list item :=
  [Op (SetBounds 0 (Fn (q (-5))) (Fn (q 5))); Block [Op (KnockOut 0); Op (SetDir false); Op (SetLb 0 (Fn (q 7)))];
   Op (SetObj [(0, q 2)]); Op (SetUb 0 (Fn (q (-9))))].
Example C03_demo :
  ub (run_items (enter_ctx m0) blk) 0 = Fn (q 5) /\ lb (run_items (enter_ctx m0) blk) 0 = Fn (q (-5)) /\
  oc (run_items (enter_ctx m0) blk) (F 0) = q 2 /\
  vub (fst (exit_ctx (run_items (enter_ctx m0) blk))) (F 0) = Fn (q 10) /\
  oc (fst (exit_ctx (run_items (enter_ctx m0) blk))) (F 0) = q 1 /\
  snd (exit_ctx (run_items (enter_ctx m0) blk)) = Ok.
Proof. vm_compute. repeat split. Qed.

(* non-vacuity of the hypotheses: scaling by a negative factor and both modes of remove_metabolites, nested,
   satisfy `ok_items`; the state really changes inside the block                                     *)
Definition m1 : st :=
  run [NewRxn 0 (Fn (q (-3))) (Fn (q 10)) [(0, q (-1)); (1, q 2)]; AddRxn 0;
       NewRxn 1 (Fn (q 0)) (Fn (q 5)) [(1, q (-1))]; AddRxn 1; SetObj [(1, q 1)]] (init_u [0; 1] [0; 1]).
Definition blk2 : list item :=
  [Op (Imul 0 (q (-2))); Block [Op (RemoveMet 0 false); Op (Imul 1 (q 3))]; Op (RemoveMet 1 true)].
Example C03_demo2_ok : ok_items (enter_ctx m1) blk2.
Proof.
  cbn [ok_items blk2 ok_item]. repeat split. all: vm_compute.
  all: try reflexivity. all: try discriminate. all: repeat constructor; cbn; intuition discriminate.
Qed.
Lemma m1_Inv : Inv m1.
Proof.
  unfold m1, run. cbn [fold_left].
  repeat (apply step_Inv; [|split; [try exact I; try (intros m Hm; vm_compute in Hm; vm_compute; tauto); try (vm_compute; tauto)|exact I]]).
  apply init_Inv.
Qed.
Lemma m1_V : V m1.
Proof.
  intros r. vm_compute. destruct r as [|p|p]; try reflexivity. destruct p as [p|p|]; reflexivity.
Qed.
Example C03_demo2 :
  lb (run_items (enter_ctx m1) blk2) 0 = Fn (q (-10)) /\ ub (run_items (enter_ctx m1) blk2) 0 = Fn (q 3) /\
  sto (run_items (enter_ctx m1) blk2) 0 1 = q (-4) /\ rin (run_items (enter_ctx m1) blk2) 0 = false /\
  min (run_items (enter_ctx m1) blk2) 1 = false /\
  exit_ctx (run_items (enter_ctx m1) blk2) = (m1, Ok).
Proof.
  do 5 (split; [vm_compute; reflexivity|]).
  apply C03_context_restores_partial; [exact m1_Inv|exact m1_V|exact C03_demo2_ok].
Qed.

(* ============================ kernel II: gene bookkeeping (coq/theories/Genes) ============================
   Contexts at SPECIFICATION level: entering a block saves the state, leaving it puts the saved state back (no undo
   closures are modelled; that the implementation does the same is compared on the real objects by the check,
   Genes/Check.v `restored`, code 4).  Proved here: the gene invariant of C02 holds along every history with
   blocks, and a closed block ends in the state saved at its entry.                                           *)
From Cobra.Genes Require Model Inv Proofs Ctx.
Module GenesKernel.
Import Cobra.Genes.Model Cobra.Genes.Inv Cobra.Genes.Proofs Cobra.Genes.Ctx.

Theorem C03_genes_step : forall c o, CInv c -> cop_ok c o -> CInv (fst (cstep c o)).
Proof. exact cstep_CInv. Qed.
Print Assumptions C03_genes_step.

Theorem C03_genes_history : forall ops rs, cok_run (mkC (init rs) []) ops -> GInv (cur (crun ops (mkC (init rs) []))).
Proof.
  intros ops rs H. apply (crun_CInv ops (mkC (init rs) [])); [|exact H]. split; [apply init_GInv|constructor].
Qed.
Print Assumptions C03_genes_history.

Theorem C03_genes_block_restores : forall ops c, balanced 0 ops = true ->
  crun (Enter :: ops ++ [Exit]) c =
  mkC (restore (cur c) (cur (crun ops (mkC (cur c) (cur c :: saved c))))) (saved c).
Proof. exact block_restores. Qed.
Print Assumptions C03_genes_block_restores.

(* non-vacuity: nested blocks around gene edits; afterwards the content is that of the entry state *)
Example C03_genes_block_nonvacuous :
  let pre := [Do (SetRule 0 (Some (TBool true [TGene 0; TGene 1]))); Do (AddRxn 0); Do (SetRule 1 (Some (TGene 1))); Do (AddRxn 1)] in
  let blk := [Do (RemoveRxn 0 true); Enter; Do (RenameGenes [(1, 4)]); Do (RemoveGenes [4] true); Exit; Do (SetRule 1 (Some (TGene 7)))] in
  let c0 := crun pre (mkC (init [0; 1]) []) in
  let c1 := crun (Enter :: blk ++ [Exit]) c0 in
  cok_run (mkC (init [0; 1]) []) (pre ++ Enter :: blk ++ [Exit]) /\ balanced 0 blk = true /\
  map (gid (cur c1)) (glist (cur c1)) = [0; 1] /\ map (rin (cur c1)) [0; 1] = [true; true] /\ saved c1 = [] /\
  map (rin (cur (crun (Enter :: blk) c0))) [0; 1] = [false; true] /\
  map (gid (cur (crun (Enter :: blk) c0))) (glist (cur (crun (Enter :: blk) c0))) = [1; 7].
Proof. vm_compute. repeat split. Qed.
Print Assumptions C03_genes_block_nonvacuous.
End GenesKernel.

(* ================= kernel III: groups and identifier changes inside `with model:` (coq/theories/Groups/Ctx.v) ===========
   Contexts at specification level: `Enter` saves the state, `Exit` puts it back.  Inside a block only what cobrapy
   documents / implements as reverted by a context (remove_reactions, remove_metabolites, remove_genes); group edits
   and identifier assignments are not, and happen outside blocks. *)
From Cobra.Groups Require Model Inv Proofs Ctx Examples.
Module GroupsKernel.
Import Cobra.Groups.Model Cobra.Groups.Inv Cobra.Groups.Proofs Cobra.Groups.Ctx Cobra.Groups.Examples.

Theorem C03_groups_step : forall c o, CInv c -> cop_ok c o -> CInv (fst (cstep vfix c o)).
Proof. exact cstep_CInv. Qed.
Print Assumptions C03_groups_step.

Theorem C03_groups_history : forall ops s, Inv s -> cok_run (mkC s []) ops -> Inv (cur (crun vfix ops (mkC s []))).
Proof.
  intros ops s W H. apply (crun_CInv ops (mkC s [])); [|exact H]. split; [exact W|constructor].
Qed.
Print Assumptions C03_groups_history.

Theorem C03_groups_block_restores : forall v ops c, balanced 0 ops = true -> crun v (Enter :: ops ++ [Exit]) c = c.
Proof. exact block_restores. Qed.
Print Assumptions C03_groups_block_restores.

(* non-vacuity: nested blocks that remove members of groups; afterwards the state is the one at the entry *)
Example C03_groups_block_nonvacuous :
  let pre := [Do (AddMembers 0 [(CR, 0); (CM, 1); (CG, 1)]); Do (AddGroups [0]); Do (SetId CR 0 7)] in
  let blk := [Do (RemoveRxn 0 true); Enter; Do (RemoveMet 1 true); Do (RemoveGenes [1] true); Exit; Do (RemoveRxn 2 false)] in
  let c0 := crun vfix pre (mkC s0 []) in
  cok_run (mkC s0 []) (pre ++ Enter :: blk ++ [Exit]) /\ balanced 0 blk = true /\
  crun vfix (Enter :: blk ++ [Exit]) c0 = c0 /\
  members (cur c0) 0 = [(CR, 0); (CM, 1); (CG, 1)] /\
  members (cur (crun vfix (Enter :: blk) c0)) 0 = [(CM, 1); (CG, 1)] /\ lst (cur (crun vfix (Enter :: blk) c0)) CR = [1] /\
  members (cur (crun vfix (Enter :: firstn 4 blk) c0)) 0 = [] /\
  lst (cur c0) CR = [0; 1; 2].
Proof.
  cbn zeta. split; [vm_compute; repeat split; try reflexivity; intros H; try reflexivity; exfalso; apply H; reflexivity|].
  split; [reflexivity|].
  split; [apply block_restores; reflexivity|]. vm_compute. repeat split.
Qed.
Print Assumptions C03_groups_block_nonvacuous.
End GroupsKernel.

(* ====================================================================================================
   Kernel IV: user constraints and variables, switching the solver interface, Model.merge
   (coq/theories/Extras; contexts at specification level, Extras/Ctx.v; correspondence: harness/extras.py run_ctx,
   Extras/Check.v codes 4, 5).
   ==================================================================================================== *)
From Cobra.Extras Require Model Inv Proofs Ctx Examples.
Module ExtrasKernel.
Import Cobra.Extras.Model Cobra.Extras.Inv Cobra.Extras.Proofs Cobra.Extras.Ctx Cobra.Extras.Examples.

Theorem C03_extras_step : forall c o, CInv c -> cop_ok c o -> CInv (fst (cstep vfix c o)).
Proof. exact cstep_CInv. Qed.
Print Assumptions C03_extras_step.

Theorem C03_extras_history : forall ops s, Inv s -> cok_run (mkC s []) ops -> Inv (cur (crun vfix ops (mkC s []))).
Proof.
  intros ops s W H. apply (crun_CInv ops (mkC s [])); [|exact H]. split; [exact W|constructor].
Qed.
Print Assumptions C03_extras_history.

(* a well-bracketed block ends in the very state saved at its entry (the specification the implementation is compared
   with: user items, solver interface, merged reactions -- everything) *)
Theorem C03_extras_block_restores : forall v ops c, balanced 0 ops = true -> crun v (Enter :: ops ++ [Exit]) c = c.
Proof. exact block_restores. Qed.
Print Assumptions C03_extras_block_restores.

(* non-vacuity: nested blocks that remove a reaction two user constraints mention, merge, switch the interface, remove a
   user constraint; afterwards the state is the one at the entry *)
Example C03_extras_block_nonvacuous :
  (crun vfix (Enter :: inner ++ [Exit]) c0 = c0 /\
   (* ... and something did happen inside *)
   rin (cur (crun vfix (Enter :: inner) c0)) 1 = false /\ rin (cur c0) 1 = true /\
   odir (cur (crun vfix (Enter :: inner) c0)) = true /\ odir (cur c0) = false /\
   length (saved (crun vfix (Enter :: inner) c0)) = 1%nat) /\
  CInv (crun vfix (Enter :: inner ++ [Exit]) c0).
Proof. split; [exact block_nonvacuous|exact block_CInv]. Qed.
Print Assumptions C03_extras_block_nonvacuous.
End ExtrasKernel.
