(* C14 — results do not depend on process count, scheduling or item order.
   This file only states the property theorems and prints their assumptions.

   Model: Sched/Model.v (pool: chunks, workers carrying state, delivery order, keyed assembly),
   Sched/Workers.v (the FVA step and the deletion workers), Gen/SchedSkeleton.v (the statement
   skeletons of those workers regenerated from the source on every run).                       *)
From Coq Require Import List Bool Arith ZArith QArith Permutation.
From Cobra.Sched Require Import Model Proofs Workers WorkerProofs Instances Current.
From Cobra.Gen Require Import SchedSkeleton.
Import ListNotations.

(* ------------------------------------------------------------------ the generic theorem *)
(* For every worker function that (on a worker equivalent to a fresh one) leaves the worker
   equivalent to a fresh one and answers as a fresh one would: for EVERY schedule — any cutting of
   the request into chunks, any assignment of chunks to workers, any delivery order — the keyed
   result is the map of the single-item results.  Requested items with equal keys must have equal
   single results (true when no key is requested twice, or when the key is the item).          *)
Theorem C14_schedule_independent :
  forall (W I R K : Type) (key : I -> K) (key_eqb : K -> K -> bool),
  (forall a b, key_eqb a b = true <-> a = b) ->
  forall (task : W -> I -> W * R) (fails : R -> bool) (eqv : W -> W -> Prop) (s0 : W),
  eqv s0 s0 -> task_restores task fails eqv s0 -> task_respects task eqv s0 ->
  forall items evs,
  valid evs items -> ok_items task fails s0 items -> key_determines key task s0 items ->
  exists rows, run_pool task fails s0 evs = Rows rows /\
    forall k, assemble key key_eqb rows k = map_of key key_eqb task s0 items k.
Proof. exact @schedule_independent. Qed.
Print Assumptions C14_schedule_independent.

(* "each item's result equals the result of asking for that item alone" — duplicates included *)
Theorem C14_result_is_single_call :
  forall (W I R K : Type) (key : I -> K) (key_eqb : K -> K -> bool),
  (forall a b, key_eqb a b = true <-> a = b) ->
  forall (task : W -> I -> W * R) (s0 : W) items i,
  key_determines key task s0 items -> In i items ->
  map_of key key_eqb task s0 items (key i) = Some (single task s0 i).
Proof. exact @map_of_lookup. Qed.
Print Assumptions C14_result_is_single_call.

Theorem C14_NoDup_suffices :
  forall (W I R K : Type) (key : I -> K) (task : W -> I -> W * R) (s0 : W) items,
  NoDup (map key items) -> key_determines key task s0 items.
Proof. exact @NoDup_key_determines. Qed.
Print Assumptions C14_NoDup_suffices.

(* the delivered rows are a permutation of the single-call rows (the deletion frames) *)
Theorem C14_schedule_rows :
  forall (W I R : Type) (task : W -> I -> W * R) (fails : R -> bool) (eqv : W -> W -> Prop) (s0 : W),
  eqv s0 s0 -> task_restores task fails eqv s0 -> task_respects task eqv s0 ->
  forall items evs, valid evs items -> ok_items task fails s0 items ->
  exists rows, run_pool task fails s0 evs = Rows rows /\ Permutation rows (rows_of task s0 items).
Proof. exact @schedule_rows. Qed.
Print Assumptions C14_schedule_rows.

(* a call raises under one schedule iff it raises under all, and then with the exception of an item
   that raises when asked alone *)
Theorem C14_schedule_raises :
  forall (W I R : Type) (task : W -> I -> W * R) (fails : R -> bool) (eqv : W -> W -> Prop) (s0 : W),
  eqv s0 s0 -> task_restores task fails eqv s0 -> task_respects task eqv s0 ->
  forall items evs, valid evs items ->
  (exists i, In i items /\ fails (single task s0 i) = true) ->
  exists j, In j items /\ fails (single task s0 j) = true /\ run_pool task fails s0 evs = Raised (single task s0 j).
Proof. exact @schedule_raises. Qed.
Print Assumptions C14_schedule_raises.

(* cobrapy's dispatch and multiprocessing's chunking produce schedules the theorem covers *)
Theorem C14_pool_schedules_are_valid :
  forall (I : Type) processes (items : list I) p cs (evs : list (event I)),
  dispatch processes items = Pool p cs ->
  Permutation (map snd evs) (chunks cs items) -> valid evs items.
Proof.
  intros I processes items p cs evs Hd HP. destruct (dispatch_pool processes items Hd) as [_ [_ [_ [_ Hcs]]]].
  exact (pool_schedule_valid items evs Hcs HP).
Qed.
Print Assumptions C14_pool_schedules_are_valid.

Theorem C14_serial_is_a_schedule :
  forall (W I R : Type) (task : W -> I -> W * R) (fails : R -> bool) (s0 : W) items,
  snd (run_serial task fails s0 items) = run_pool task fails s0 [(0%nat, items)].
Proof. exact @serial_is_schedule. Qed.
Print Assumptions C14_serial_is_a_schedule.

(* ------------------------------------------------------------------ FVA *)
(* `_fva_step` as written in the current source restores the objective row (both variables), when
   it found the coefficients at 0 (flux_variability_analysis sets `model.objective = Zero` first). *)
Theorem C14_fva_step_restores :
  forall solve status_raises loopless loopless_iter st r v st',
  (forall k, obj st (var_of k r) = 0%Z) ->
  fva_step solve status_raises loopless loopless_iter st r = (st', FVal v) -> lp_eqv st' st.
Proof. exact fva_step_restores. Qed.
Print Assumptions C14_fva_step_restores.

(* for ANY step skeleton that passes the boolean check *)
Theorem C14_fva_schedule_independent :
  forall solve status_raises loopless loopless_iter,
  (forall o o' d, (forall v, o v = o' v) -> solve o d = solve o' d) ->
  (forall o o' d r, (forall v, o v = o' v) -> loopless_iter o d r = loopless_iter o' d r) ->
  forall sk, worker_ok sk = true ->
  forall s0, zero_row s0 ->
  forall items evs, valid evs items ->
  ok_items (step_of solve status_raises loopless loopless_iter sk) fres_fails s0 items ->
  exists rows, run_pool (step_of solve status_raises loopless loopless_iter sk) fres_fails s0 evs = Rows rows /\
    (forall k, assemble zid Z.eqb rows k =
               map_of zid Z.eqb (step_of solve status_raises loopless loopless_iter sk) s0 items k) /\
    frame zid items (assemble zid Z.eqb rows) =
      map (fun i => (i, Some (single (step_of solve status_raises loopless loopless_iter sk) s0 i))) items.
Proof. exact fva_schedule_independent. Qed.
Print Assumptions C14_fva_schedule_independent.

(* ... and the current source passes it (regenerated + re-proved on every run) *)
Theorem C14_current_workers_ok :
  worker_ok current_fva_skeleton = true /\
  del_ok current_reaction_deletion_skeleton = true /\
  del_ok current_gene_deletion_skeleton = true /\
  current_fva_skeleton = fva_skeleton_expected /\
  current_reaction_deletion_skeleton = del_skeleton_expected /\
  current_gene_deletion_skeleton = del_skeleton_expected.
Proof.
  repeat split; first [exact current_fva_worker_ok | exact current_reaction_deletion_ok
                      | exact current_gene_deletion_ok | reflexivity].
Qed.
Print Assumptions C14_current_workers_ok.

Theorem C14_current_driver_facts :
  forallb (fun b : bool => b)
    [fva_objective_zeroed_before_passes; fva_results_keyed_by_id; deletion_workers_delegate] = true.
Proof. exact current_driver_facts. Qed.
Print Assumptions C14_current_driver_facts.

Theorem C14_fva_raises :
  forall solve status_raises loopless loopless_iter,
  (forall o o' d, (forall v, o v = o' v) -> solve o d = solve o' d) ->
  (forall o o' d r, (forall v, o v = o' v) -> loopless_iter o d r = loopless_iter o' d r) ->
  forall sk, worker_ok sk = true -> forall s0, zero_row s0 ->
  forall items evs, valid evs items ->
  (exists i, In i items /\ fres_fails (single (step_of solve status_raises loopless loopless_iter sk) s0 i) = true) ->
  exists j, In j items /\ fres_fails (single (step_of solve status_raises loopless loopless_iter sk) s0 j) = true /\
    run_pool (step_of solve status_raises loopless loopless_iter sk) fres_fails s0 evs =
    Raised (single (step_of solve status_raises loopless loopless_iter sk) s0 j).
Proof. exact fva_schedule_raises. Qed.
Print Assumptions C14_fva_raises.

(* processes = 1: both passes run in the parent's model; the "maximum" pass sees the model the
   "minimum" pass left, and that makes no difference *)
Theorem C14_fva_serial_is_two_passes :
  forall solve status_raises loopless loopless_iter,
  (forall o o' d, (forall v, o v = o' v) -> solve o d = solve o' d) ->
  (forall o o' d r, (forall v, o v = o' v) -> loopless_iter o d r = loopless_iter o' d r) ->
  forall sk, worker_ok sk = true -> forall st items, zero_row st ->
  ok_items (step_of solve status_raises loopless loopless_iter sk) fres_fails (init_worker st false) items ->
  fva_serial solve status_raises loopless loopless_iter sk st items =
    (run_pool (step_of solve status_raises loopless loopless_iter sk) fres_fails (init_worker st false) [(0%nat, items)],
     run_pool (step_of solve status_raises loopless loopless_iter sk) fres_fails (init_worker st true) [(0%nat, items)]).
Proof. exact fva_serial_is_two_passes. Qed.
Print Assumptions C14_fva_serial_is_two_passes.

(* ------------------------------------------------------------------ deletions *)
Theorem C14_deletion_workers_restore :
  forall (B : Type) b_eqb (zero_b : B) rxns_of rule growth_of st ids,
  d_eqv (fst (reaction_deletion b_eqb zero_b growth_of st ids)) st /\
  d_eqv (fst (gene_deletion b_eqb zero_b rxns_of rule growth_of st ids)) st.
Proof.
  intros. split; [apply reaction_deletion_restores|apply gene_deletion_restores].
Qed.
Print Assumptions C14_deletion_workers_restore.

Theorem C14_reaction_deletion_schedule_independent :
  forall (B : Type) b_eqb (zero_b : B) growth_of,
  (forall b b', (forall r, b r = b' r) -> growth_of b = growth_of b') ->
  forall s0 (items : list (list Z)) evs, valid evs items ->
  exists rows, run_pool (reaction_deletion b_eqb zero_b growth_of) never s0 evs = Rows rows /\
    Permutation rows (map (fun ids => (ids, single (reaction_deletion b_eqb zero_b growth_of) s0 ids)) items) /\
    (forall ids, In ids items ->
       assemble (fun i : list Z => i) lz_eqb rows ids = Some (single (reaction_deletion b_eqb zero_b growth_of) s0 ids)).
Proof. exact current_reaction_deletion_schedule_independent. Qed.
Print Assumptions C14_reaction_deletion_schedule_independent.

Theorem C14_gene_deletion_schedule_independent :
  forall (B : Type) b_eqb (zero_b : B) rxns_of rule growth_of,
  (forall r f f', (forall g, f g = f' g) -> rule r f = rule r f') ->
  (forall b b', (forall r, b r = b' r) -> growth_of b = growth_of b') ->
  forall s0 (items : list (list Z)) evs, valid evs items ->
  exists rows, run_pool (gene_deletion b_eqb zero_b rxns_of rule growth_of) never s0 evs = Rows rows /\
    Permutation rows (map (fun ids => (ids, single (gene_deletion b_eqb zero_b rxns_of rule growth_of) s0 ids)) items) /\
    (forall ids, In ids items ->
       assemble (fun i : list Z => i) lz_eqb rows ids =
       Some (single (gene_deletion b_eqb zero_b rxns_of rule growth_of) s0 ids)).
Proof. exact current_gene_deletion_schedule_independent. Qed.
Print Assumptions C14_gene_deletion_schedule_independent.

(* ------------------------------------------------------------------ non-vacuity / necessity *)
(* a concrete solver: the "optimum" is 7 * (coefficient of VF 1) - 3 * (coefficient of VR 2), negated for min *)
Definition toy_solve (o : row) (d : bool) : Z * option Q :=
  (0%Z, Some (inject_Z ((if d then 1 else -1) * (7 * o (VF 1) - 3 * o (VR 2))))).
Definition toy_step := fva_step toy_solve (fun s => negb (Z.eqb s 0)) false (fun _ _ _ => None).
Definition toy_s0 : lpstate := mkLP (fun _ => 0%Z) true.

Example C14_toy_meets_hypotheses :
  (forall o o' d, (forall v, o v = o' v) -> toy_solve o d = toy_solve o' d) /\ zero_row toy_s0 /\
  ok_items toy_step fres_fails toy_s0 [1; 2; 3]%Z /\
  valid [(1%nat, [3%Z]); (0%nat, [1; 2]%Z)] [1; 2; 3]%Z.
Proof.
  split; [intros o o' d H; unfold toy_solve; now rewrite !H|].
  split; [intros r k; reflexivity|].
  split; [intros i _; reflexivity|].
  unfold valid. cbn. apply Permutation_sym. change [1; 2; 3]%Z with ([1; 2] ++ [3])%Z.
  apply (Permutation_app_comm [1; 2]%Z [3%Z]).
Qed.

Example C14_toy_runs :
  match run_pool toy_step fres_fails toy_s0 [(1%nat, [3%Z]); (0%nat, [1; 2]%Z)] with
  | Rows rows => map (fun ir => (fst ir, match snd ir with FVal v => v | FExc _ => None end)) rows
  | Raised _ => []
  end = [(3, Some (0 # 1)); (1, Some (7 # 1)); (2, Some (3 # 1))]%Z.
Proof. vm_compute. reflexivity. Qed.

(* necessity: a step WITHOUT the reset line is rejected by the boolean check, and with it the
   results do depend on the schedule (item 2 after item 1 on the same worker sees 7 + 3) *)
Definition leaky_skeleton : list wstmt :=
  [SLookup; SSetObj [(KFwd, 1); (KRev, -1)]; SSolve; SCheckStatus; SValue; SNanIfNone; SReturn]%Z.
Definition leaky_step := step_of toy_solve (fun s => negb (Z.eqb s 0)) false (fun _ _ _ => None) leaky_skeleton.
Definition vals (d : delivered fres (list (Z * fres))) :=
  match d with
  | Rows rows => map (fun ir => (fst ir, match snd ir with FVal v => v | FExc _ => None end)) rows
  | Raised _ => []
  end.

Example C14_leaky_is_rejected_and_schedule_dependent :
  worker_ok leaky_skeleton = false /\
  vals (run_pool leaky_step fres_fails toy_s0 [(0%nat, [1; 2]%Z)]) = [(1, Some (7 # 1)); (2, Some (10 # 1))]%Z /\
  vals (run_pool leaky_step fres_fails toy_s0 [(0%nat, [1%Z]); (1%nat, [2%Z])]) = [(1, Some (7 # 1)); (2, Some (3 # 1))]%Z.
Proof. vm_compute. repeat split. Qed.

(* a deletion worker that knocks out OUTSIDE its `with` block is rejected *)
Example C14_unscoped_knockout_is_rejected :
  del_ok [DTop DKnockLoop; DWith [DGrowth]; DTop DReturn] = false.
Proof. reflexivity. Qed.
