(* C12 — a copy is equivalent to its original and shares nothing with it.
   This file only states the property theorems, prints their assumptions and gives non-vacuity examples.
   Model: coq/theories/Copy/{Heap,Model,Obs}.v; proofs: Copy/{Lemmas,Proofs}.v; the side condition on the
   table regenerated from the source: Copy/Current.v. *)
From Coq Require Import List String Bool Arith Lia.
From Cobra.Copy Require Import Heap Model Obs Lemmas Proofs ModelCopy Unrepaired Current
     CopyWf CopySep CopyData CopyState CopySpecies CopyLink CopyRxn CopyGroups CopyModelCell CopyDesc CopyWfContent CopySort CopyObsEq CopyEquiv CopyRefuted.
From Cobra.Gen Require CopyTables.
Import ListNotations.
Open Scope list_scope.

(* ---- the source, as it is now, deep-copies every container attribute in Model.copy, does not share the
        context stack while copying, re-points groups in __setstate__ and copies the second operand of + and - *)
Theorem C12_table_safe : table_safe CopyTables.current_table = true.
Proof. exact current_table_safe. Qed.
Print Assumptions C12_table_safe.

(* ---- freshness => separation (the argument behind every separation statement below) *)
Theorem C12_fresh_separated :
  forall n h0 h a b, Ext n h0 h -> heap_wf h0 -> a < n -> n <= b -> Separated h a b.
Proof. exact ext_separated. Qed.
Print Assumptions C12_fresh_separated.

(* ---- copy.deepcopy(model) / pickle round trip, for every heap, every table, every hook outcome:
        the result is a new cell, everything reachable from it is new, nothing reachable from the original
        is, and the original part of the heap is unchanged *)
Theorem C12_deepcopy_separated :
  forall T h m h' m', heap_wf h -> m < List.length h -> model_deepcopy T h m = (h', m', true) ->
    Separated h' m m' /\ firstn (List.length h) h' = h.
Proof. exact model_deepcopy_separated. Qed.
Print Assumptions C12_deepcopy_separated.

Theorem C12_deepcopy_fresh :
  forall T h m h' m' ok, model_deepcopy T h m = (h', m', ok) ->
    Ext (List.length h) h h' /\ (ok = true -> List.length h <= m').
Proof. exact model_deepcopy_fresh. Qed.
Print Assumptions C12_deepcopy_fresh.

(* every deep copy (also the ones Model.copy makes of attribute values) *)
Theorem C12_deep_copy_fresh :
  forall T h v h' v', deep_copy T h v = (h', v') -> Ext (List.length h) h h' /\ val_ok (List.length h) v'.
Proof. exact deep_copy_ext. Qed.
Print Assumptions C12_deep_copy_fresh.

(* ---- Metabolite.copy / Gene.copy and Reaction.copy return detached, fresh object graphs *)
Theorem C12_species_copy_detached :
  forall T h x h' x' ok, species_copy T h x = (h', x', ok) ->
    Ext (List.length h) h h' /\ (ok = true -> List.length h <= x').
Proof. exact species_copy_fresh. Qed.
Print Assumptions C12_species_copy_detached.

Theorem C12_reaction_copy_detached :
  forall T h r h' r', heap_wf h -> reaction_copy T h r = (h', r', true) ->
    List.length h <= r' /\
    (forall a c, List.length h <= a -> get h' a = Some c -> cell_ok (List.length h) c) /\
    (forall x, Reach h' r' x -> List.length h <= x).
Proof. exact reaction_copy_fresh. Qed.
Print Assumptions C12_reaction_copy_detached.

(* ---- Model.copy: the general theorems (induction over the loops of `model_copy`, Copy/CopySep.v).
        For EVERY heap that satisfies the boolean predicate `wf_model_heap` (no dangling pointer, typing
        discipline, the four lists hold objects of their class, stoichiometric coefficients are atoms) and every
        table that satisfies `table_safe`: the copy is Separated from the original; no cell of the original heap
        changed; everything reachable from the copy was created by the copy.  No per-case certificate. *)
Theorem C12_model_copy_separated :
  forall T h m h' m' ok, table_safe T = true -> wf_model_heap T h m = true ->
    model_copy T h m = (h', m', ok) -> Separated h' m m'.
Proof. exact model_copy_separated. Qed.
Print Assumptions C12_model_copy_separated.

Theorem C12_model_copy_frame :
  forall T h m h' m' ok, table_safe T = true -> wf_model_heap T h m = true -> model_copy T h m = (h', m', ok) ->
    firstn (List.length h) h' = h /\
    (forall a, a < List.length h -> get h' a = get h a) /\
    (forall fuel root, root < List.length h -> unfold h' fuel (Ref root) = unfold h fuel (Ref root)).
Proof. exact model_copy_frame. Qed.
Print Assumptions C12_model_copy_frame.

Theorem C12_model_copy_fresh :
  forall T h m h' m' ok, table_safe T = true -> wf_model_heap T h m = true -> model_copy T h m = (h', m', ok) ->
    List.length h <= m' /\
    (forall x, Reach h' m' x -> List.length h <= x) /\ (forall x, Reach h' m x -> x < List.length h).
Proof. exact model_copy_fresh. Qed.
Print Assumptions C12_model_copy_fresh.

(* the statement that used to be kept as a Definition only, now proved (typed_b and heap_wf are part of
   wf_model_heap; the list-class and atom conditions are what the induction needs in addition) *)
Definition copy_separated_statement : Prop :=
  forall T h m h' m', table_safe T = true -> wf_model_heap T h m = true ->
    model_copy T h m = (h', m', true) -> Separated h' m m' /\ firstn (List.length h) h' = h.
Theorem C12_copy_separated : copy_separated_statement.
Proof.
  intros T h m h' m' HT HW H. split; [eapply model_copy_separated; eauto|].
  apply (model_copy_frame T h m h' m' true HT HW H).
Qed.
Print Assumptions C12_copy_separated.

(* ---- Model.copy: the copy has the same content, per object class (Copy/CopyDesc.v, CopyDescProof.v,
        CopyWfContent.v).  For every heap in which the model is consistent (`wf_model_content`, boolean) and every
        table with `table_safe` and `table_shape`: Model.copy does not raise, and the result is described by
        `CopyDesc`: the new model holds the atoms of the old one, isomorphic deep copies (`DIso`) of notes /
        annotation / compartments / solver, four new DictLists with one new object per old object in the same
        order; every new object has the class, the attribute names and (isomorphic copies of) the attribute values
        of its original and points at the new model; every new reaction's stoichiometry is keyed by the NEW
        metabolites with the old coefficients in the old order, its gene set holds the new genes named by its rule;
        every new metabolite / gene knows exactly the new reactions that use it; every new group holds the new
        counterparts of its members, nested groups included. *)
Theorem C12_model_copy_structure :
  forall T h m h' m' ok,
    table_safe T = true -> table_shape T = true -> wf_model_content T h m = true ->
    model_copy T h m = (h', m', ok) ->
    ok = true /\ m' = List.length h /\
    exists mc OM OG OR OP, ModelOk T h m mc OM OG OR OP /\ CopyDesc T h mc OM OG OR OP h'.
Proof. exact model_copy_structure. Qed.
Print Assumptions C12_model_copy_structure.

(* ---- copy_equiv for Model.copy: for every heap in which the model is consistent (`wf_model_content`) and its
        back references agree with its reactions (`consistent_b`: every object points at the model; the
        `_reaction` sets of metabolites and genes and the `_genes` sets of reactions are exactly what the
        stoichiometry and the rules say; link containers have their constructor's class), both BOOLEAN and evaluated
        by the check on every real heap: Model.copy does not raise and the copy is observed exactly like the
        original (`obs_model`: every attribute of the model and of every object, containers unfolded, references
        summarised as class + id + registered, attribute order and set order canonicalised). *)
Theorem C12_model_copy_equiv :
  forall T h m h' m' ok,
    table_safe T = true -> table_shape T = true -> wf_model_content T h m = true -> consistent_b T h m = true ->
    model_copy T h m = (h', m', ok) ->
    ok = true /\ obs_model h' m' = obs_model h m /\ equiv_b OpModelCopy h m h' m' = true.
Proof. exact model_copy_equiv. Qed.
Print Assumptions C12_model_copy_equiv.

(* "... whose reactions, metabolites, genes and groups are distinct objects pointing at the copy": every element of
   the four lists of the copy is a cell created by the copy whose _model is the copy, the context stack of the copy
   is a fresh empty list and its solver a fresh object (the Coq monitor `points_to_copy_b`, now for all heaps) *)
Theorem C12_model_copy_points_to :
  forall T h m h' m' ok,
    table_safe T = true -> table_shape T = true -> wf_model_content T h m = true ->
    (exists mc s, get h m = Some mc /\ attr mc "_solver" = Some (Ref s)) ->
    model_copy T h m = (h', m', ok) -> points_to_copy_b (List.length h) h' m' = true.
Proof. exact model_copy_points_to. Qed.
Print Assumptions C12_model_copy_points_to.

(* the names quoted in the replay files of the check (harness/c12.py, THEOREMS) *)
Theorem C12_points_to_copy :
  forall T h m h' m' ok,
    table_safe T = true -> table_shape T = true -> wf_model_content T h m = true ->
    (exists mc s, get h m = Some mc /\ attr mc "_solver" = Some (Ref s)) ->
    model_copy T h m = (h', m', ok) -> points_to_copy_b (List.length h) h' m' = true.
Proof. exact model_copy_points_to. Qed.
Print Assumptions C12_points_to_copy.

Theorem C12_detached :
  (forall T h x h' x' ok, species_copy T h x = (h', x', ok) ->
      Ext (List.length h) h h' /\ (ok = true -> List.length h <= x')) /\
  (forall T h r h' r', heap_wf h -> reaction_copy T h r = (h', r', true) ->
      List.length h <= r' /\ (forall x, Reach h' r' x -> List.length h <= x)).
Proof.
  split; [exact species_copy_fresh|]. intros T h r h' r' Hwf H. destruct (reaction_copy_fresh T h r h' r' Hwf H) as [H1 [_ H3]]. auto.
Qed.
Print Assumptions C12_detached.

(* set order and attribute order are not content: sort_items is invariant under permutation (distinct keys) *)
Theorem C12_sort_items_permutation :
  forall l1 l2, Permutation.Permutation l1 l2 -> List.NoDup (List.map ikey l1) -> sort_items l1 = sort_items l2.
Proof. exact sort_items_permutation. Qed.
Print Assumptions C12_sort_items_permutation.

Theorem C12_model_copy_total :
  forall T h m h' m' ok,
    table_safe T = true -> table_shape T = true -> wf_model_content T h m = true ->
    model_copy T h m = (h', m', ok) -> ok = true.
Proof. exact model_copy_total. Qed.
Print Assumptions C12_model_copy_total.

(* deep copies of plain data (what Model.copy does to notes, annotation, compartments, bounds, names, rules):
   the copy reads exactly like the original at every depth *)
Theorem C12_deep_copy_data_equiv :
  forall H v P h' v', DIso H v P h' v' -> forall f r r', obs_val h' r' f v' = obs_val H r f v.
Proof. exact diso_obs_val. Qed.
Print Assumptions C12_deep_copy_data_equiv.

Theorem C12_table_shape : table_shape CopyTables.current_table = true.
Proof. vm_compute. reflexivity. Qed.
Print Assumptions C12_table_shape.

(* ---- REFUTED without the registration hypothesis: a group nested in another group and removed with
        Model.remove_groups (or never added) makes Model.copy raise KeyError, while deepcopy / pickle succeed
        (replayed on the real code; fixes/model-copy-nested-groups.md) *)
Theorem C12_model_copy_total_refuted :
  table_safe table_v1 = true /\ table_shape table_v1 = true /\
  wf_model_heap table_v1 toy_nested 0 = true /\ wf_model_content table_v1 toy_nested 0 = false /\
  snd copy_nested = false /\ snd deepcopy_nested = true /\
  equiv_b OpDeepcopy toy_nested 0 (fst (fst deepcopy_nested)) (snd (fst deepcopy_nested)) = true.
Proof. exact model_copy_total_refuted. Qed.
Print Assumptions C12_model_copy_total_refuted.

(* the certificate form (still used by the check on the IMPLEMENTATION's heap of every case) *)
Theorem C12_copy_separated_partial :
  forall T h m h' m' ok, m < List.length h -> model_copy T h m = (h', m', ok) -> List.length h <= m' ->
    sep_cert_b h h' = true -> Separated h' m m' /\ firstn (List.length h) h' = h.
Proof.
  intros T h m h' m' ok Hm _ Hm' Hc. split.
  - eapply sep_cert_sound; eauto.
  - unfold sep_cert_b in Hc. apply andb_prop in Hc as [Hc _]. apply andb_prop in Hc as [_ Hc].
    apply heap_eqb_eq. exact Hc.
Qed.
Print Assumptions C12_copy_separated_partial.

(* One step of that induction is proved: the generic attribute loop of Model.copy applied to one object
   (`new_x.__dict__[attr] = <copy expression>(value)` for every attribute not in do_not_copy_by_ref) keeps the
   construction invariant `Inv` (old part untouched, every new cell points only at new cells, the model cell
   under construction may still hold the by-reference attributes S) whenever the object's table is safe and the
   object is typed (attributes its class does not initialise with a container hold atoms). *)
Theorem C12_copy_object_loop :
  forall T n h0 h m' S kt attrs rel oc h' a',
    Inv n h0 h m' S -> ktable_safe attrs rel kt = true ->
    (forall kv s, In kv (citems oc) -> fst kv = At s -> is_atom (snd kv) || is_container (akind_of attrs s) = true) ->
    copy_obj T kt attrs h oc = (h', a') -> Inv n h0 h' m' S /\ n <= a' /\ a' <> m'.
Proof. exact copy_obj_inv. Qed.
Print Assumptions C12_copy_object_loop.

(* settling an attribute of the model under construction by an explicit assignment *)
Theorem C12_explicit_assignment_settles :
  forall n h0 h m' S s v, Inv n h0 h m' S -> val_ok n v ->
    Inv n h0 (set_attr h m' s v) m' (remove string_dec s S).
Proof. exact inv_settle. Qed.
Print Assumptions C12_explicit_assignment_settles.

Theorem C12_certificate_sound :
  forall h0 hp a b, sep_cert_b h0 hp = true -> a < List.length h0 -> List.length h0 <= b -> Separated hp a b.
Proof. exact sep_cert_sound. Qed.
Print Assumptions C12_certificate_sound.

(* ---- frame: a write to a cell that is not reachable from a root changes nothing that can be read from that
        root, to any depth; with separation: edits inside one model (storing only things of that model) leave
        the other model's content unchanged and keep the two separated, so this applies to every later edit *)
Theorem C12_frame :
  forall h root a c fuel, ~ Reach h root a -> unfold (upd h a c) fuel (Ref root) = unfold h fuel (Ref root).
Proof. exact frame_write. Qed.
Print Assumptions C12_frame.

Theorem C12_frame_separated :
  forall h a b x c fuel, Separated h a b -> Reach h b x -> (forall y, In y (crefs c) -> Reach h b y) ->
    unfold (upd h x c) fuel (Ref a) = unfold h fuel (Ref a) /\ Separated (upd h x c) a b.
Proof. exact frame_separated. Qed.
Print Assumptions C12_frame_separated.

Theorem C12_frame_alloc :
  forall h root c fuel, heap_wf h -> root < List.length h ->
    unfold (h ++ [c]) fuel (Ref root) = unfold h fuel (Ref root).
Proof. exact frame_alloc. Qed.
Print Assumptions C12_frame_alloc.

(* ---- the code as it was before the fix commits is refuted: the copy of the toy model reaches the original's
        compartments dict (7), the notes and annotation dicts of the metabolite (22, 23, 24) and of the gene (11, 12) and the list nested in the reaction's
        annotation (30); taken inside an open context, the original's history (26) reaches the copy's reaction *)
Definition copy0 := model_copy table_v0 toy 0.
Theorem C12_unrepaired_refuted :
  table_safe table_v0 = false /\
  snd copy0 = true /\
  (exists x, Reach (fst (fst copy0)) 0 x /\ Reach (fst (fst copy0)) (snd (fst copy0)) x) /\
  shared (List.length toy) (fst (fst copy0)) (snd (fst copy0)) = [12; 11; 30; 24; 23; 22; 7] /\
  stays_old (List.length toy) (fst (fst copy0)) 0 = false /\
  old_unchanged toy (fst (fst copy0)) = false.
Proof.
  split; [vm_compute; reflexivity|]. split; [vm_compute; reflexivity|]. split.
  - exists 7. split.
    + apply (path_b_sound _ [7] 0). vm_compute. reflexivity.
    + apply (path_b_sound _ [7] (snd (fst copy0))). vm_compute. reflexivity.
  - repeat split; vm_compute; reflexivity.
Qed.
Print Assumptions C12_unrepaired_refuted.

(* groups after deepcopy with the old __setstate__: not pointing at the copy *)
Example C12_unrepaired_groups :
  let r := model_deepcopy table_v0 toy 0 in
  points_to_copy_b (List.length toy) (fst (fst r)) (snd (fst r)) = false /\
  (let r1 := model_deepcopy table_v1 toy 0 in points_to_copy_b (List.length toy) (fst (fst r1)) (snd (fst r1)) = true).
Proof. vm_compute. split; reflexivity. Qed.

(* ---- non-vacuity: with the repaired table the toy model (typed, well formed, context open) is copied into a
        separated, equivalent model whose objects point at it; the certificate holds, so the partial theorem applies *)
Definition copy1 := model_copy table_v1 toy 0.
Example C12_repaired_toy :
  table_safe table_v1 = true /\ typed_b table_v1 toy = true /\ heap_wf_b toy = true /\
  snd copy1 = true /\
  sep_cert_b toy (fst (fst copy1)) = true /\
  points_to_copy_b (List.length toy) (fst (fst copy1)) (snd (fst copy1)) = true /\
  equiv_b OpModelCopy toy 0 (fst (fst copy1)) (snd (fst copy1)) = true /\
  stays_old (List.length toy) (fst (fst copy1)) 0 = true.
Proof. vm_compute. repeat split; reflexivity. Qed.

Example C12_repaired_toy_separated : Separated (fst (fst copy1)) 0 (snd (fst copy1)).
Proof.
  eapply (C12_model_copy_separated table_v1 toy 0 _ _ (snd copy1)).
  - vm_compute. reflexivity.
  - vm_compute. reflexivity.
  - unfold copy1. destruct (model_copy table_v1 toy 0) as [[a b] c]. reflexivity.
Qed.

(* the hypotheses of the general theorems hold for the toy model (context open, group, nested lists) and for the
   model with a registered nested group *)
Example C12_wf_nonvacuous :
  wf_model_heap table_v1 toy 0 = true /\ wf_model_content table_v1 toy 0 = true /\
  consistent_b table_v1 toy 0 = true /\ consistent_b table_v1 toy_nested_registered 0 = true /\
  wf_model_content table_v1 toy_nested_registered 0 = true /\
  snd (model_copy table_v1 toy_nested_registered 0) = true.
Proof. vm_compute. repeat split; reflexivity. Qed.

(* deepcopy, Reaction.copy and Metabolite.copy of the toy: equivalent, detached *)
Example C12_toy_other_ops :
  (let r := run_op table_v1 OpDeepcopy toy 0 in
   equiv_b OpDeepcopy toy 0 (fst (fst r)) (snd (fst r)) && points_b OpDeepcopy (List.length toy) (fst (fst r)) (snd (fst r))
   && sep_cert_b toy (fst (fst r))) = true /\
  (let r := run_op table_v1 OpReactionCopy toy 14 in
   equiv_b OpReactionCopy toy 14 (fst (fst r)) (snd (fst r)) && points_b OpReactionCopy (List.length toy) (fst (fst r)) (snd (fst r))
   && sep_cert_b toy (fst (fst r))) = true /\
  (let r := run_op table_v1 OpSpeciesCopy toy 21 in
   equiv_b OpSpeciesCopy toy 21 (fst (fst r)) (snd (fst r)) && points_b OpSpeciesCopy (List.length toy) (fst (fst r)) (snd (fst r))
   && sep_cert_b toy (fst (fst r))) = true.
Proof. vm_compute. repeat split; reflexivity. Qed.
