(* C12 — a copy is equivalent to its original and shares nothing with it (placeholder while the proofs are written) *)
From Coq Require Import List String Bool Arith.
From Cobra.Copy Require Import Heap Model Obs.
Import ListNotations.

Example C12_placeholder : reachable [mkCell KDict [(At "a", Ref 1)]; mkCell KList []] 0 = [1; 0].
Proof. vm_compute. reflexivity. Qed.
Print Assumptions C12_placeholder.
