(* C05 — flux variability analysis reports the true flux ranges.
   This file only states the property theorems and prints their assumptions.

   Vocabulary (coq/theories/FVA/Model.v):
     in_scope m bound cap v   v is steady-state, within every flux bound, keeps the objective at or beyond
                              `bound` (>= when maximising, <= when minimising) and, when cap = Some k, has
                              total flux sum|v_i| <= k
     fva_lp m bound cap j mx  the problem cobrapy's solver holds in _fva_step for reaction j in pass mx
                              (forward/reverse variables, fva_old_objective, flux_sum)
     pfba_lp m bound fb       the problem solved inside `with model: add_pfba(...)` for the total-flux cap *)
From Coq Require Import QArith List Bool Lia Lqa.
From Cobra.LP Require Import Defs Cert Fba.
From Cobra.FVA Require Import Model Proofs.
From Cobra.Gen Require Import FvaTables.
Import ListNotations.
Open Scope Q_scope.

(* fva_correct: whatever optimal point the solver holds for the step problem of reaction j, the
   objective value it reports is the true largest (smallest) flux of j over the admitted set, and that
   extreme is attained.  For every model, bound, cap and reaction: no sign condition is needed here. *)
Theorem C05_fva_correct_max : forall m bound cap j z,
  valid_model m -> (j < length (rxns m))%nat -> is_opt (fva_lp m bound cap j true) z ->
  is_max (in_scope m bound cap) (flux j) (value (fva_lp m bound cap j true) z).
Proof. exact fva_max_correct_any. Qed.
Print Assumptions C05_fva_correct_max.

Theorem C05_fva_correct_min : forall m bound cap j z,
  valid_model m -> (j < length (rxns m))%nat -> is_opt (fva_lp m bound cap j false) z ->
  is_min (in_scope m bound cap) (flux j) (- value (fva_lp m bound cap j false) z).
Proof. exact fva_min_correct_any. Qed.
Print Assumptions C05_fva_correct_min.

(* the step problem is unbounded exactly when the reaction has no finite extreme over the admitted set;
   cobrapy then raises OptimizationError instead of reporting a number (status table: C05_tables_ok) *)
Theorem C05_fva_unbounded : forall m bound cap j (mx : bool),
  valid_model m -> (j < length (rxns m))%nat ->
  (unbounded (fva_lp m bound cap j mx) <->
   forall M : Q, exists v, in_scope m bound cap v /\ (if mx then M < flux j v else flux j v < - M)).
Proof. exact fva_unbounded_iff. Qed.
Print Assumptions C05_fva_unbounded.

(* fva_pfba_correct: the value of the parsimonious step is the minimal total flux over the admitted
   set, so with cap = pfba_factor * that value the ranges are the true extremes under the total-flux
   cap.  `implied` says the extra constraint fix_objective_as_constraint adds inside add_pfba is
   implied by the fraction-of-optimum requirement (see C05_pfba_current for the current source). *)
Theorem C05_fva_pfba_correct : forall m bound fb factor zp j z,
  valid_model m -> (j < length (rxns m))%nat -> implied m bound fb ->
  is_opt (pfba_lp m bound fb) zp ->
  let ms := - value (pfba_lp m bound fb) zp in
  is_min (in_scope m bound None) total_flux ms /\
  (is_opt (fva_lp m bound (Some (factor * ms)) j true) z ->
   is_max (in_scope m bound (Some (factor * ms))) (flux j) (value (fva_lp m bound (Some (factor * ms)) j true) z)) /\
  (is_opt (fva_lp m bound (Some (factor * ms)) j false) z ->
   is_min (in_scope m bound (Some (factor * ms))) (flux j) (- value (fva_lp m bound (Some (factor * ms)) j false) z)).
Proof.
  intros m bound fb factor zp j z Hv Hj Hi Ho ms. split; [|split].
  - apply pfba_min_correct_any; assumption.
  - apply fva_max_correct_any; assumption.
  - apply fva_min_correct_any; assumption.
Qed.
Print Assumptions C05_fva_pfba_correct.

(* the bound add_pfba's fix_objective_as_constraint uses, per the table regenerated from the source *)
Definition current_fb (frac opt : Q) : Q :=
  match pfba_fraction_arg with PfbaConst f => f * opt | PfbaSameFraction => frac * opt end.

(* With `add_pfba(model, fraction_of_optimum=fraction_of_optimum)` the extra constraint is a copy of the
   requirement and C05_fva_pfba_correct holds unconditionally; with the literal 0 it needs the bound to
   have the sign of the direction.                                                             *)
Theorem C05_pfba_current : forall m frac opt,
  match pfba_fraction_arg with
  | PfbaSameFraction => True
  | PfbaConst f => f == 0 /\ sign_ok m (frac * opt)
  end -> implied m (frac * opt) (current_fb frac opt).
Proof.
  intros m frac opt. unfold current_fb, implied, sign_ok. destruct pfba_fraction_arg as [f|].
  - intros [E H]. destruct (maximize m); rewrite E; lra.
  - intros _. destruct (maximize m); lra.
Qed.
Print Assumptions C05_pfba_current.

(* within the property's quantifier (fraction 1, or a fraction in [0,1] with an optimum of the right
   sign) the sign condition can only fail for fraction 1 with an optimum of the wrong sign          *)
Theorem C05_admissible_sign : forall m frac opt,
  admissible m frac opt -> (if maximize m then 0 <= opt else opt <= 0) -> sign_ok m (frac * opt).
Proof. exact admissible_sign. Qed.
Print Assumptions C05_admissible_sign.

(* fva_order: minimum <= maximum, every optimal FBA solution lies inside the ranges, and a smaller
   admitted set (total-flux cap, loop-free distributions) gives ranges inside the larger one's *)
Theorem C05_fva_order : forall S f lo hi, is_min S f lo -> is_max S f hi -> lo <= hi.
Proof. exact fva_order. Qed.
Print Assumptions C05_fva_order.

Theorem C05_fva_contains_optima : forall m x opt frac x' j lo hi,
  fba_opt m x opt -> admissible m frac opt -> is_opt (net_lp m) x' ->
  is_min (in_scope m (frac * opt) None) (flux j) lo -> is_max (in_scope m (frac * opt) None) (flux j) hi ->
  lo <= flux j x' /\ flux j x' <= hi.
Proof.
  intros m x opt frac x' j lo hi Hx Ha Hx' Hlo Hhi.
  apply (fva_contains _ _ _ _ x' Hlo Hhi). apply (fba_all_opt_keep m x x' opt frac); assumption.
Qed.
Print Assumptions C05_fva_contains_optima.

Theorem C05_range_monotone : forall (S S' : vec -> Prop) f lo hi lo' hi',
  (forall v, S' v -> S v) -> is_min S f lo -> is_max S f hi -> is_min S' f lo' -> is_max S' f hi' ->
  lo <= lo' /\ hi' <= hi.
Proof. exact range_monotone. Qed.
Print Assumptions C05_range_monotone.

(* bookkeeping between steps: starting from `model.objective = Zero`, the problems solved by the two
   passes over the requested reactions are exactly the closed-form step problems, in request order,
   minimum pass first (each step resets the coefficients it set)                              *)
Theorem C05_fva_steps : forall m bound cap ids,
  fva_problems m bound cap ids =
  (map (fun j => fva_lp m bound cap j false) ids, map (fun j => fva_lp m bound cap j true) ids).
Proof. exact fva_problems_spec. Qed.
Print Assumptions C05_fva_steps.

(* the table has one row per requested reaction, in request order *)
Theorem C05_fva_ids : forall ids amin amax rows,
  length amin = length ids -> length amax = length ids ->
  fva_table ids amin amax = Table rows -> map fst rows = ids.
Proof. exact fva_table_ids. Qed.
Print Assumptions C05_fva_ids.

(* loopless_fva_inside: a value obtained from the problem in which some reactions were closed to zero
   (third branch of loopless_fva_iter; the first two return the plain value) is attained by a
   distribution of the original admitted set, hence lies inside the plain range                *)
Theorem C05_loopless_fva_inside : forall m sel bound cap j lo hi a,
  is_min (in_scope m bound cap) (flux j) lo -> is_max (in_scope m bound cap) (flux j) hi ->
  (exists v, in_scope (restricted m sel) bound cap v /\ flux j v == a) -> lo <= a /\ a <= hi.
Proof. exact loopless_inside. Qed.
Print Assumptions C05_loopless_fva_inside.

(* NOT proved (kept as a statement): the loopless values are the exact extremes over loop-free
   distributions.  loopless_fva_iter is the published CycleFreeFlux heuristic; its exactness is
   compared on every run against an exact enumeration of sign patterns (harness/c05.py), not proved. *)
Definition loop_free (m : fbamodel) (internal : list bool) (v : vec) : Prop :=
  forall z, feasible (mkLP (map (fun _ => (NegInf, PosInf)) (rxns m)) (rows (net_lp m)) []) z ->
    (forall j, nth j internal false = false -> flux j z == 0) ->
    (forall j, 0 <= flux j z * flux j v /\ (flux j v == 0 -> flux j z == 0)) ->
    forall j, flux j z == 0.
Definition C05_loopless_exact_statement : Prop :=
  forall m internal bound j (ll_min ll_max : Q) (reported : Q * Q),
    reported = (ll_min, ll_max) ->
    is_min (fun v => in_scope m bound None v /\ loop_free m internal v) (flux j) ll_min /\
    is_max (fun v => in_scope m bound None v /\ loop_free m internal v) (flux j) ll_max.

(* side conditions on the constants regenerated from variability.py *)
Example C05_tables_ok :
  step_set = (1, -1) /\ step_reset = (0, 0) /\ pass_order = [false; true] /\
  old_obj_side_max = SideLb /\ old_obj_side_min = SideUb /\
  match pfba_fraction_arg with PfbaSameFraction => True | PfbaConst f => Qeq_bool f 0 = true end.
Proof. vm_compute. repeat split. Qed.

(* ---- non-vacuity: uptake <= 10 feeding two sinks, objective = first sink ---- *)
Definition toy : fbamodel :=
  mkFba 1 [mkRxn [1] (Fin 0) (Fin 10) 0; mkRxn [-1] (Fin 0) (Fin 1000) 1; mkRxn [-1] (Fin 0) (Fin 4) 0] true.
(* optimum 10; at fraction 1/2 the second sink can carry at most 4, the uptake at least 5 *)
Example C05_toy :
  valid_model toy /\ fba_opt toy [10; 10; 0] 10 /\ admissible toy (1 # 2) 10 /\
  is_max (in_scope toy ((1 # 2) * 10) None) (flux 2) 4 /\
  is_min (in_scope toy ((1 # 2) * 10) None) (flux 0) 5.
Proof.
  assert (Hv : valid_model toy) by (apply valid_model_b_ok; reflexivity).
  split; [exact Hv|]. split; [split; [apply (check_opt_sound _ _ [-1]); reflexivity|reflexivity]|].
  split; [right; repeat split; cbn; lra|]. split.
  - assert (H : is_opt (fva_lp toy ((1 # 2) * 10) None 2 true) [9; 0; 5; 0; 4; 0; 5])
      by (apply (check_opt_sound _ _ [0; 0]); vm_compute; reflexivity).
    pose proof (fva_max_correct_any toy _ None 2%nat _ Hv ltac:(cbn; lia) H) as R.
    destruct R as [[v [Hs E]] Hm]. split; [exists v; split; [exact Hs|rewrite E; vm_compute; reflexivity]|].
    intros v' Hs'. specialize (Hm v' Hs'). assert (V : value (fva_lp toy ((1 # 2) * 10) None 2 true) [9; 0; 5; 0; 4; 0; 5] == 4) by (vm_compute; reflexivity). lra.
  - assert (H : is_opt (fva_lp toy ((1 # 2) * 10) None 0 false) [5; 0; 5; 0; 0; 0; 5])
      by (apply (check_opt_sound _ _ [-1; -1]); vm_compute; reflexivity).
    pose proof (fva_min_correct_any toy _ None 0%nat _ Hv ltac:(cbn; lia) H) as R.
    assert (V : - value (fva_lp toy ((1 # 2) * 10) None 0 false) [5; 0; 5; 0; 0; 0; 5] == 5) by (vm_compute; reflexivity).
    destruct R as [[v [Hs E]] Hm]. split; [exists v; split; [exact Hs|lra]|].
    intros v' Hs'. specialize (Hm v' Hs'). lra.
Qed.
