(* C06 — deletion analyses report the optimum of each knocked-out model.
   This file only states the property theorems and prints their assumptions. *)
From Coq Require Import QArith List Bool.
From Cobra.LP Require Import Defs Cert Fba.
From Cobra.Optimize Require Import Model.
From Cobra.Secondary Require Import Aux Pfba AuxLp Moma.
From Cobra.Deletion Require Import Model Proofs KoProofs.
From Cobra.Gen Require Import DelTables.
Import ListNotations.
Open Scope Q_scope.

(* `args = {frozenset(comb) for comb in product(lists)}`: exactly one task - hence one row - per distinct unordered
   combination; two combinations share a row iff they have the same elements *)
Theorem C06_deletion_rows : forall ls,
  NoDup (combos ls) /\
  (forall c, In c (product ls) -> In (canon c) (combos ls)) /\
  (forall r, In r (combos ls) -> exists c, In c (product ls) /\ r = canon c) /\
  (forall c c', In c (product ls) -> In c' (product ls) ->
     (canon c = canon c' <-> forall x, In x c <-> In x c')).
Proof. exact deletion_rows. Qed.
Print Assumptions C06_deletion_rows.

Theorem C06_product_spec : forall ls c, In c (product ls) <-> Forall2 (fun x l => In x l) c ls.
Proof. exact In_product. Qed.
Print Assumptions C06_product_spec.

(* _get_growth (fba): a number exactly when the status is optimal, NaN otherwise; the status is the solver's *)
Theorem C06_get_growth_fba : forall sr,
  (sr_status sr = Optimal -> get_growth_fba sr = (Some (sr_obj sr), Optimal)) /\
  (sr_status sr <> Optimal -> get_growth_fba sr = (None, sr_status sr)).
Proof. exact get_growth_fba_spec. Qed.
Print Assumptions C06_get_growth_fba.

Theorem C06_deletion_growth : forall mk sr,
  valid_model mk -> sr_status sr = Optimal ->
  is_opt (split_lp mk) (flat (sr_primal sr)) ->
  sr_obj sr == dot (raw_obj mk) (nets (sr_primal sr)) ->
  exists g v, get_growth_fba sr = (Some g, Optimal) /\ is_opt (net_lp mk) v /\ g == dot (raw_obj mk) v.
Proof. exact deletion_growth. Qed.
Print Assumptions C06_deletion_growth.

(* find_essential_*: exactly the entities of the rows whose growth is NaN or below the threshold (strictly) *)
Theorem C06_essential_spec : forall thr rows x,
  In x (essential thr rows) <->
  exists r, In r rows /\ In x (d_ids r) /\
            (d_growth r = None \/ exists g, d_growth r = Some g /\ g < thr).
Proof. exact essential_spec. Qed.
Print Assumptions C06_essential_spec.

(* _reaction_deletion: sequential Reaction.knock_out calls, in any order and with repeats = bounds (0,0) on the
   listed reactions *)
Theorem C06_reaction_deletion_spec : forall m ids, reaction_deletion m ids = ko_reactions m ids.
Proof. exact reaction_deletion_spec. Qed.
Print Assumptions C06_reaction_deletion_spec.

(* _gene_deletion: sequential Gene.knock_out calls (each looks only at the reactions of ITS gene, with the genes
   knocked out so far) leave exactly the reactions whose rule is false without the listed genes with bounds (0,0) *)
Theorem C06_gene_deletion_spec : forall rules m gs,
  gene_deletion rules m gs = ko_reactions m (disabled rules m gs).
Proof. exact gene_deletion_spec. Qed.
Print Assumptions C06_gene_deletion_spec.

Theorem C06_disabled_spec : forall rules m gs k,
  In k (disabled rules m gs) <-> (k < length (rxns m))%nat /\ reval gs (nth k rules RTrue) = false.
Proof. exact disabled_spec. Qed.
Print Assumptions C06_disabled_spec.

Theorem C06_gene_deletion_order : forall rules m gs gs',
  (forall x, In x gs <-> In x gs') -> gene_deletion rules m gs = gene_deletion rules m gs'.
Proof. exact gene_deletion_order. Qed.
Print Assumptions C06_gene_deletion_order.

(* "forced to zero flux": the flux-balance problem of the knocked-out model has the same stoichiometric rows and
   objective, the knocked-out fluxes are zero and every other flux keeps its own bounds *)
Theorem C06_ko_feasible_iff : forall m ids v,
  feasible (net_lp (ko_reactions m ids)) v <->
  Forall2 (fun p x => if memb (fst p) ids then x == 0 else inb (rx_lb (snd p), rx_ub (snd p)) x)
          (combine (seq 0 (length (rxns m))) (rxns m)) v /\
  Forall (row_ok v) (rows (net_lp m)).
Proof. exact ko_feasible_iff. Qed.
Print Assumptions C06_ko_feasible_iff.

Theorem C06_ko_objective : forall m ids, obj (net_lp (ko_reactions m ids)) = obj (net_lp m).
Proof. exact ko_objective. Qed.
Print Assumptions C06_ko_objective.

(* linear MOMA (partial: a characterisation, because minimisers of the summed distance need not be unique): the
   reported growth is the primal of moma_old_objective, which at an optimum of the MOMA problem of the knocked-out
   model is the original objective's value at SOME flux vector of minimal summed distance to the reference.
   Full statement kept for reference: *)
Definition C06_moma_growth_statement : Prop :=
  forall mk ref zs w ds, valid_model mk -> length zs = length (rxns mk) ->
    is_opt (moma_lp mk ref) (flat zs ++ w :: ds) ->
    forall v, moma_opt mk ref v -> w == dot (raw_obj mk) v.
(* what is missing: uniqueness of the minimiser (false in general), so only "for SOME minimiser" is proved *)
Theorem C06_moma_growth_char_partial : forall mk ref sr zs w ds,
  valid_model mk -> length zs = length (rxns mk) ->
  is_opt (moma_lp mk ref) (flat zs ++ w :: ds) ->
  get_growth_moma sr w = (Some w, sr_status sr) /\
  exists v, moma_opt mk ref v /\ w == dot (raw_obj mk) v.
Proof. exact moma_growth_char. Qed.
Print Assumptions C06_moma_growth_char_partial.

(* side condition on the regenerated constant: the default threshold is 1 % of the optimum *)
Example C06_default_threshold : default_threshold essential_factor 50 == 1 # 2.
Proof. vm_compute. reflexivity. Qed.

(* non-vacuity: rule (g0 and g1) or g2; knocking out g2 then g0 disables the reaction, g0 alone does not;
   double deletion of [0;1] x [1;0] has the three rows {0}, {1}, {0,1} *)
Example C06_toy :
  let rules := [ROr (RAnd (RGene 0) (RGene 1)) (RGene 2); RTrue] in
  let m := mkFba 1 [mkRxn [1] (Fin 0) (Fin 10) 0; mkRxn [-1] (Fin 0) (Fin 1000) 1] true in
  disabled rules m [2; 0]%nat = [0%nat] /\ disabled rules m [0%nat] = [] /\
  rxns (gene_deletion rules m [2; 0]%nat) = [mkRxn [1] (Fin 0) (Fin 0) 0; mkRxn [-1] (Fin 0) (Fin 1000) 1] /\
  combos [[0; 1]; [1; 0]]%nat = [[0]; [1]; [0; 1]]%nat.
Proof. vm_compute. repeat split. Qed.
