(* C06 — deletion analyses report the optimum of each knocked-out model.
   This file only states the property theorems and prints their assumptions. *)
From Coq Require Import QArith List Bool.
From Cobra.LP Require Import Defs Cert Fba.
From Cobra.Optimize Require Import Model.
From Cobra.Secondary Require Import Aux Pfba AuxLp Moma.
From Cobra.Deletion Require Import Model Proofs.
Import ListNotations.
Open Scope Q_scope.

(* `args = {frozenset(comb) for comb in product(lists)}`: exactly one task - hence one row - per distinct unordered
   combination; two combinations share a row iff they have the same elements *)
Theorem C06_deletion_rows : forall ls,
  NoDup (combos ls) /\
  (forall c, In c (product ls) -> In (canon c) (combos ls)) /\
  (forall r, In r (combos ls) -> exists c, In c (product ls) /\ r = canon c) /\
  (forall c c', In c (product ls) -> In c' (product ls) ->
     (canon c = canon c' <-> forall x, In x c <-> In x c')).
Proof. exact deletion_rows. Qed.
Print Assumptions C06_deletion_rows.

Theorem C06_product_spec : forall ls c, In c (product ls) <-> Forall2 (fun x l => In x l) c ls.
Proof. exact In_product. Qed.
Print Assumptions C06_product_spec.

(* _get_growth (fba): a number exactly when the status is optimal, NaN otherwise; the status is the solver's *)
Theorem C06_get_growth_fba : forall sr,
  (sr_status sr = Optimal -> get_growth_fba sr = (Some (sr_obj sr), Optimal)) /\
  (sr_status sr <> Optimal -> get_growth_fba sr = (None, sr_status sr)).
Proof. exact get_growth_fba_spec. Qed.
Print Assumptions C06_get_growth_fba.

Theorem C06_deletion_growth : forall mk sr,
  valid_model mk -> sr_status sr = Optimal ->
  is_opt (split_lp mk) (flat (sr_primal sr)) ->
  sr_obj sr == dot (raw_obj mk) (nets (sr_primal sr)) ->
  exists g v, get_growth_fba sr = (Some g, Optimal) /\ is_opt (net_lp mk) v /\ g == dot (raw_obj mk) v.
Proof. exact deletion_growth. Qed.
Print Assumptions C06_deletion_growth.

(* find_essential_*: exactly the entities of the rows whose growth is NaN or below the threshold (strictly) *)
Theorem C06_essential_spec : forall thr rows x,
  In x (essential thr rows) <->
  exists r, In r rows /\ In x (d_ids r) /\
            (d_growth r = None \/ exists g, d_growth r = Some g /\ g < thr).
Proof. exact essential_spec. Qed.
Print Assumptions C06_essential_spec.
