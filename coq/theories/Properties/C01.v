(* C01 — the solver always holds exactly the model's flux-balance problem.
   This file only states the property theorems and prints their assumptions. *)
From Coq Require Import ZArith QArith Qcanon List Bool.
From Cobra.LP Require Import Defs Fba.
From Cobra.Core Require Import Model Inv Preserve FluxRange RestoreBase RestoreOps Restore.
Import ListNotations.
Open Scope Z_scope.

(* What "in sync" means, spelled out: exactly the two variables of every reaction in the model, with the
   bounds of Reaction.update_variable_bounds; exactly one row per metabolite in the model, whose coefficients
   are the current stoichiometry (c on the forward, -c on the reverse variable); an objective that is a
   function of net fluxes and mentions no absent reaction.                                            *)
Theorem C01_lpsync_meaning : forall s, LPSync s ->
  (forall r, vin s (F r) = rin s r /\ vin s (R r) = rin s r) /\
  (forall r, rin s r = true ->
     (vlb s (F r), vub s (F r), (vlb s (R r), vub s (R r))) = Model.split_bounds (lb s r) (ub s r)) /\
  (forall m, cin s m = min s m) /\
  (forall m r, co s m (F r) = (if rin s r && min s m then sto s r m else q0) /\
               co s m (R r) = (if rin s r && min s m then (- sto s r m)%Qc else q0)) /\
  (forall r, oc s (R r) = (- oc s (F r))%Qc /\ (rin s r = false -> oc s (F r) = q0)).
Proof. intros s H. exact H. Qed.
Print Assumptions C01_lpsync_meaning.

(* under those variable bounds the net flux forward - reverse ranges over exactly [lb, ub] *)
Theorem C01_net_flux_range : forall lb ub (v : Q),
  valid (to_e lb) (to_e ub) ->
  (inb (to_e lb, to_e ub) v <->
   exists f r, inb (to_e2 (fst (Model.split_bounds lb ub))) f /\
               inb (to_e2 (snd (Model.split_bounds lb ub))) r /\ (v == f - r)%Q).
Proof. exact core_net_flux_range. Qed.
Print Assumptions C01_net_flux_range.

Theorem C01_init : forall rs ms, Inv (init_u rs ms) /\ LPSync (init_u rs ms).
Proof. intros rs ms. split; [apply init_Inv|apply Inv_LPSync, init_Inv]. Qed.
Print Assumptions C01_init.

(* every operation of the kernel, succeeding or raising, keeps the solver in sync (and the cross
   references consistent, which the argument needs)                                            *)
Theorem C01_step : forall s o, Inv s -> op_ok s o ->
  Inv (fst (step s o)) /\ LPSync (fst (step s o)).
Proof. intros s o HI Hok. pose proof (step_Inv s o HI Hok) as H. split; [exact H|apply Inv_LPSync, H]. Qed.
Print Assumptions C01_step.

(* every history of such operations, from an empty model *)
Fixpoint ok_run (s : st) (ops : list op) : Prop :=
  match ops with [] => True | o :: ops' => op_ok s o /\ ok_run (fst (step s o)) ops' end.
Theorem C01_history : forall ops s, Inv s -> ok_run s ops -> Inv (run ops s) /\ LPSync (run ops s).
Proof.
  induction ops as [|o ops IH]; intros s HI Hok; cbn [run fold_left ok_run] in *.
  - split; [exact HI|apply Inv_LPSync, HI].
  - destruct Hok as [H1 H2]. apply (IH (fst (step s o))); [apply step_Inv; assumption|exact H2].
Qed.
Print Assumptions C01_history.

(* ... and with `with model:` blocks nested to any depth in between (for the operations whose undo is
   proved in Core/RestoreOps.v): leaving a block gives back the state at its entry, which was in sync *)
Theorem C01_history_with_contexts : forall l s, Inv s -> V s -> ok_items s l ->
  Inv (run_items s l) /\ LPSync (run_items s l).
Proof.
  intros l s HI HV Hok.
  assert (Hl : Forall good l) by (apply Forall_forall; intros i _; apply all_good).
  destruct (good_list l Hl s HI HV Hok) as [_ [H _]]. split; [exact H|apply Inv_LPSync, H].
Qed.
Print Assumptions C01_history_with_contexts.

(* non-vacuity: a reaction A -> 2 B with bounds (-5, 10) added to an empty model, then knocked out *)
Definition q (z : Z) : Qc := Q2Qc (inject_Z z).
Definition demo : st :=
  run [NewRxn 0 (Fn (q (-5))) (Fn (q 10)) [(0, q (-1)); (1, q 2)]; AddRxn 0; SetObj [(0, q 1)]] (init_u [0] [0; 1]).
Example C01_demo :
  vin demo (F 0) = true /\ vub demo (F 0) = Fn (q 10) /\ vub demo (R 0) = Fn (q 5) /\
  co demo 1 (F 0) = q 2 /\ co demo 1 (R 0) = q (-2) /\ cin demo 0 = true /\ oc demo (R 0) = q (-1).
Proof. vm_compute. repeat split. Qed.
Example C01_demo_ok :
  ok_run (init_u [0] [0; 1]) [NewRxn 0 (Fn (q (-5))) (Fn (q 10)) [(0, q (-1)); (1, q 2)]; AddRxn 0; SetObj [(0, q 1)]].
Proof.
  cbn [ok_run]. unfold op_ok, in_univ. split; [split; [|exact I]|split; [split; [|exact I]|split; [split; exact I|exact I]]].
  - intros m Hm. exact Hm.
  - left. reflexivity.
Qed.
