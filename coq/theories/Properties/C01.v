(* placeholder until the proofs are in place *)
From Cobra.Core Require Import Model.
Example C01_placeholder : True. Proof. exact I. Qed.
