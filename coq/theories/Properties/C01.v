(* C01 — the solver always holds exactly the model's flux-balance problem.
   This file only states the property theorems and prints their assumptions. *)
From Coq Require Import ZArith QArith Qcanon List Bool.
From Cobra.LP Require Import Defs Fba.
From Cobra.Core Require Import Model Inv Preserve FluxRange RestoreBase RestoreOps Restore.
Import ListNotations.
Open Scope Z_scope.

(* What "in sync" means, spelled out: exactly the two variables of every reaction in the model, with the
   bounds of Reaction.update_variable_bounds; exactly one row per metabolite in the model, whose coefficients
   are the current stoichiometry (c on the forward, -c on the reverse variable); an objective that is a
   function of net fluxes and mentions no absent reaction.                                            *)
Theorem C01_lpsync_meaning : forall s, LPSync s ->
  (forall r, vin s (F r) = rin s r /\ vin s (R r) = rin s r) /\
  (forall r, rin s r = true ->
     (vlb s (F r), vub s (F r), (vlb s (R r), vub s (R r))) = Model.split_bounds (lb s r) (ub s r)) /\
  (forall m, cin s m = min s m) /\
  (forall m r, co s m (F r) = (if rin s r && min s m then sto s r m else q0) /\
               co s m (R r) = (if rin s r && min s m then (- sto s r m)%Qc else q0)) /\
  (forall r, oc s (R r) = (- oc s (F r))%Qc /\ (rin s r = false -> oc s (F r) = q0)).
Proof. intros s H. exact H. Qed.
Print Assumptions C01_lpsync_meaning.

(* under those variable bounds the net flux forward - reverse ranges over exactly [lb, ub] *)
Theorem C01_net_flux_range : forall lb ub (v : Q),
  valid (to_e lb) (to_e ub) ->
  (inb (to_e lb, to_e ub) v <->
   exists f r, inb (to_e2 (fst (Model.split_bounds lb ub))) f /\
               inb (to_e2 (snd (Model.split_bounds lb ub))) r /\ (v == f - r)%Q).
Proof. exact core_net_flux_range. Qed.
Print Assumptions C01_net_flux_range.

Theorem C01_init : forall rs ms, Inv (init_u rs ms) /\ LPSync (init_u rs ms).
Proof. intros rs ms. split; [apply init_Inv|apply Inv_LPSync, init_Inv]. Qed.
Print Assumptions C01_init.

(* every operation of the kernel, succeeding or raising, keeps the solver in sync (and the cross
   references consistent, which the argument needs)                                            *)
Theorem C01_step : forall s o, Inv s -> op_ok s o ->
  Inv (fst (step s o)) /\ LPSync (fst (step s o)).
Proof. intros s o HI Hok. pose proof (step_Inv s o HI Hok) as H. split; [exact H|apply Inv_LPSync, H]. Qed.
Print Assumptions C01_step.

(* every history of such operations, from an empty model *)
Fixpoint ok_run (s : st) (ops : list op) : Prop :=
  match ops with [] => True | o :: ops' => op_ok s o /\ ok_run (fst (step s o)) ops' end.
Theorem C01_history : forall ops s, Inv s -> ok_run s ops -> Inv (run ops s) /\ LPSync (run ops s).
Proof.
  induction ops as [|o ops IH]; intros s HI Hok; cbn [run fold_left ok_run] in *.
  - split; [exact HI|apply Inv_LPSync, HI].
  - destruct Hok as [H1 H2]. apply (IH (fst (step s o))); [apply step_Inv; assumption|exact H2].
Qed.
Print Assumptions C01_history.

(* ... and with `with model:` blocks nested to any depth in between (for the operations whose undo is
   proved in Core/RestoreOps.v): leaving a block gives back the state at its entry, which was in sync *)
Theorem C01_history_with_contexts : forall l s, Inv s -> V s -> ok_items s l ->
  Inv (run_items s l) /\ LPSync (run_items s l).
Proof.
  intros l s HI HV Hok.
  assert (Hl : Forall good l) by (apply Forall_forall; intros i _; apply all_good).
  destruct (good_list l Hl s HI HV Hok) as [_ [H _]]. split; [exact H|apply Inv_LPSync, H].
Qed.
Print Assumptions C01_history_with_contexts.

(* non-vacuity: a reaction A -> 2 B with bounds (-5, 10) added to an empty model, then knocked out *)
Definition q (z : Z) : Qc := Q2Qc (inject_Z z).
Definition demo : st :=
  run [NewRxn 0 (Fn (q (-5))) (Fn (q 10)) [(0, q (-1)); (1, q 2)]; AddRxn 0; SetObj [(0, q 1)]] (init_u [0] [0; 1]).
Example C01_demo :
  vin demo (F 0) = true /\ vub demo (F 0) = Fn (q 10) /\ vub demo (R 0) = Fn (q 5) /\
  co demo 1 (F 0) = q 2 /\ co demo 1 (R 0) = q (-2) /\ cin demo 0 = true /\ oc demo (R 0) = q (-1).
Proof. vm_compute. repeat split. Qed.
Example C01_demo_ok :
  ok_run (init_u [0] [0; 1]) [NewRxn 0 (Fn (q (-5))) (Fn (q 10)) [(0, q (-1)); (1, q 2)]; AddRxn 0; SetObj [(0, q 1)]].
Proof.
  cbn [ok_run]. unfold op_ok, in_univ. split; [split; [|exact I]|split; [split; [|exact I]|split; [split; exact I|exact I]]].
  - intros m Hm. exact Hm.
  - left. reflexivity.
Qed.

(* ====================================================================================================
   Kernel IV: user constraints and variables, switching the solver interface, Model.merge
   (coq/theories/Extras; correspondence: harness/extras.py run_c01, Extras/Check.v codes 1, 2, 8).
   The solver is exactly the flux-balance problem of the content PLUS what the user added (the ledger of
   Extras/Model.v), each user item exactly as added, along every history of these operations.
   ==================================================================================================== *)
From Cobra.Extras Require Model Inv Proofs Effects Ctx Examples.
Module ExtrasKernel.
Import Cobra.Extras.Model Cobra.Extras.Inv Cobra.Extras.Proofs Cobra.Extras.Effects Cobra.Extras.Ctx Cobra.Extras.Examples.

(* what the invariant says about the solver, spelled out: exactly the two variables of every reaction of the model with
   the bounds of update_variable_bounds and the user variables with their bounds; exactly one [0, 0] row per metabolite
   with the stoichiometric coefficients (c forward, -c reverse, no user variable) and the user constraints with their
   bounds and their terms; terms only over variables that exist; an objective over net fluxes of reactions of the model *)
Theorem C01_extras_meaning : forall s, Inv s ->
  (forall r, vin s (VF r) = rin s r /\ vin s (VR r) = rin s r) /\
  (forall r, rin s r = true -> (vb s (VF r), vb s (VR r)) = split (rb s r)) /\
  (forall k, vin s (VU k) = is_some (uv s k) /\ (forall b, uv s k = Some b -> vb s (VU k) = b)) /\
  (forall m, cin s (CM m) = min s m /\ (min s m = true -> cb s (CM m) = (Some 0, Some 0))) /\
  (forall m r, co s (CM m) (VF r) = (if rin s r && min s m then sto s r m else 0) /\
               co s (CM m) (VR r) = (if rin s r && min s m then - sto s r m else 0)) /\
  (forall m k, co s (CM m) (VU k) = 0) /\
  (forall k, cin s (CU k) = is_some (uc s k) /\ (forall b, uc s k = Some b -> cb s (CU k) = b)) /\
  (forall k v, co s (CU k) v = uct s k v /\ (uct s k v <> 0 -> cin s (CU k) = true /\ vin s v = true)) /\
  (forall v, vin s v = false -> oc s v = 0 /\ forall c, co s c v = 0) /\
  (forall r, oc s (VR r) = - oc s (VF r)) /\ (forall k, oc s (VU k) = 0).
Proof.
  intros s H.
  pose proof (I_vin s H) as Hv. pose proof (I_vb s H) as Hb. pose proof (I_cin s H) as Hc. pose proof (I_cb s H) as Hcb.
  pose proof (I_co s H) as Hco. pose proof (I_lg s H) as Hlg.
  split. { intros r. rewrite !Hv. split; reflexivity. }
  split. { intros r Hr. rewrite !Hb. cbn [exp_vb]. rewrite Hr. destruct (split (rb s r)); reflexivity. }
  split. { intros k. split; [rewrite Hv; reflexivity|]. intros b E. rewrite Hb. cbn [exp_vb]. rewrite E. reflexivity. }
  split. { intros m. split; [rewrite Hc; reflexivity|]. intros E. rewrite Hcb. cbn [exp_cb]. rewrite E. reflexivity. }
  split. { intros m r. rewrite !Hco. split; reflexivity. }
  split. { intros m k. rewrite Hco. reflexivity. }
  split. { intros k. split; [rewrite Hc; reflexivity|]. intros b E. rewrite Hcb. cbn [exp_cb]. rewrite E. reflexivity. }
  split. { intros k v. split; [rewrite Hco; reflexivity|]. intros E. rewrite Hc, Hv. cbn [exp_cin]. apply Hlg, E. }
  split. { intros v E. split; [apply (I_oc_abs s H), E|]. intros c. rewrite Hco. rewrite Hv in E.
           destruct c as [m|k]; cbn [exp_co].
           - destruct v as [r|r|k]; cbn [exp_vin] in E; [rewrite E; reflexivity|rewrite E; reflexivity|reflexivity].
           - destruct (Z.eq_dec (uct s k v) 0) as [E0|E0]; [exact E0|]. destruct (Hlg k v E0) as [_ E2]. congruence. }
  split. { apply (I_oc_net s H). }
  apply (I_oc_user s H).
Qed.
Print Assumptions C01_extras_meaning.

Theorem C01_extras_init : forall e, Inv (init e).
Proof. exact init_Inv. Qed.
Print Assumptions C01_extras_init.

(* every operation (user variables / constraints added and removed by object and by name, reactions added and removed
   while user constraints mention them, bounds, objective, direction, the solver switch, merge in every mode) *)
Theorem C01_extras_step : forall s o, Inv s -> op_ok s o -> Inv (fst (step vfix s o)).
Proof. exact step_Inv. Qed.
Print Assumptions C01_extras_step.

Theorem C01_extras_history : forall ops s, Inv s -> ok_run vfix s ops -> Inv (run vfix ops s).
Proof. exact run_Inv. Qed.
Print Assumptions C01_extras_history.

(* ... and with `with model:` blocks (specification level: Exit puts the saved state back) *)
Theorem C01_extras_history_with_contexts : forall ops c, CInv c -> cok_run c ops -> CInv (crun vfix ops c).
Proof. exact crun_CInv. Qed.
Print Assumptions C01_extras_history_with_contexts.

(* switching the interface: nothing but the tag changes -- every variable, bound, row, coefficient, the objective, the
   content and the user items are what they were (the problem is rebuilt by names; under the invariant nothing is lost) *)
Theorem C01_extras_switch_solver_effect : forall s e, Inv s ->
  let s' := switch_solver e s in
  exact s' = e /\
  (forall v, vin s' v = vin s v /\ vb s' v = vb s v /\ oc s' v = oc s v) /\
  (forall c, cin s' c = cin s c /\ cb s' c = cb s c) /\
  (forall c v, co s' c v = co s c v) /\
  odir s' = odir s /\ rin s' = rin s /\ rb s' = rb s /\ sto s' = sto s /\ min s' = min s /\ back s' = back s /\
  uv s' = uv s /\ uc s' = uc s /\ uct s' = uct s.
Proof. exact switch_solver_effect. Qed.
Print Assumptions C01_extras_switch_solver_effect.

Theorem C01_extras_switch_solver_same : forall s e, exact s = e -> switch_solver e s = s.
Proof. exact switch_solver_same. Qed.
Print Assumptions C01_extras_switch_solver_same.

(* removing a reaction takes its two variables out of EVERY row -- also every user constraint -- and nothing else moves *)
Theorem C01_extras_remove_reactions_effect : forall r s, rin s r = true ->
  let s' := remove_rxn r s in
  rin s' r = false /\ vin s' (VF r) = false /\ vin s' (VR r) = false /\
  vb s' (VF r) = free /\ vb s' (VR r) = free /\ oc s' (VF r) = 0 /\ oc s' (VR r) = 0 /\
  (forall c, co s' c (VF r) = 0 /\ co s' c (VR r) = 0) /\
  (forall k, uct s' k (VF r) = 0 /\ uct s' k (VR r) = 0) /\
  (forall m, back s' m r = false) /\
  (forall v, v <> VF r -> v <> VR r ->
     vin s' v = vin s v /\ vb s' v = vb s v /\ oc s' v = oc s v /\
     (forall c, co s' c v = co s c v) /\ (forall k, uct s' k v = uct s k v)) /\
  (forall r', r' <> r -> rin s' r' = rin s r' /\ forall m, back s' m r' = back s m r') /\
  rb s' = rb s /\ sto s' = sto s /\ min s' = min s /\ cin s' = cin s /\ cb s' = cb s /\
  uv s' = uv s /\ uc s' = uc s /\ odir s' = odir s /\ exact s' = exact s.
Proof. exact remove_rxn_effect. Qed.
Print Assumptions C01_extras_remove_reactions_effect.

(* merge as found copies rows of right's metabolites that do not join the model: the invariant breaks (= the finding
   C01-merge-foreign-metabolite-row; fixes/merge-foreign-metabolite-row.patch is the variant the theorems are about) *)
Theorem C01_extras_merge_rows_refuted : exists s rm, Inv s /\ rm_okb s rm false = true /\
  ~ Inv (fst (merge_result (mkV true false true) rm false 0 s)).
Proof. exact merge_rows_refuted. Qed.
Print Assumptions C01_extras_merge_rows_refuted.

(* non-vacuity: a history using every operation (incl. a reaction removed and added again while two user constraints
   mention it, both interfaces, a merge with overlapping identifiers / prefix / objective sum) meets the hypotheses *)
Example C01_extras_history_nonvacuous : ok_run vfix (init false) ops /\ Inv (run vfix ops (init false)) /\
  co (run vfix ops1 (init false)) (CU 4) (VF 2) = 0 /\ co (run vfix ops1 (init false)) (CU 4) (VF 1) = 2 /\
  vin (run vfix ops1 (init false)) (VF 2) = true /\ exact (run vfix ops1 (init false)) = true /\
  rin (run vfix ops (init false)) 1002 = true /\ exact (run vfix ops (init false)) = false.
Proof.
  split; [exact history_nonvacuous|]. split; [exact history_Inv|]. vm_compute. repeat split.
Qed.
Print Assumptions C01_extras_history_nonvacuous.
End ExtrasKernel.
