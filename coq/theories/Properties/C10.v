(* C10 -- SBML export is valid and import(export(model)) is the same model.
   Modelled (coq/theories/IO/SbmlId.v): the identifier codec _f_*_rev / _f_*, the choice of flux-bound
   parameters (_create_bound), the reader's application of bounds, the reactant/product split.
   Document level (coq/theories/IO/SbmlDoc.v): the document _model_to_sbml writes, as data, with executable
   write_doc / read_doc mirroring the Python; C10_gpr_assoc_roundtrip (every rule tree) and
   C10_sbml_doc_roundtrip (every model inside the boolean side condition sbml_ok, each conjunct of which is
   shown necessary in IO/SbmlDocNecessity.v).  libsbml is represented by its observable effect on the
   modelled data (SId syntax check of setId, unset attribute = "", 15 significant digits, normal form of the
   association tree); harness/c10.py compares write_doc / read_doc with the document cobrapy wrote and the
   model it read back on every run.  The validator itself is exercised, not modelled. *)
From Coq Require Import ZArith QArith List Bool String.
From Cobra.IO Require Import Str JVal DictModel SbmlId SbmlProofs SbmlNum SbmlDoc SbmlGpr SbmlDocLemmas SbmlDocProofs
  SbmlDocIdentity SbmlCheck SbmlDocNecessity.
From Cobra.GPR Require Syntax.
From Cobra.Gen Require Import Config SbmlTables.
Import ListNotations.
Open Scope Z_scope.

(* "the same identifiers, whatever characters they contain" -- FALSE of the codec (witness below) *)
Definition sid_roundtrip_statement : Prop :=
  forall dec undec, (forall c, undec (dec c) = c) -> (forall c, dec c <> [] /\ forallb is_digit (dec c) = true) ->
  forall p s, forallb is_plain p = true -> f_fwd undec p (f_rev dec p s) = s.

(* identifiers survive for every id such that prefix ++ id contains no "__" followed by a digit; dec/undec
   are str(int)/int(str), of which only undec (dec c) = c and "dec c is a non-empty digit string" are used *)
Theorem C10_sid_roundtrip :
  forall dec undec, (forall c, undec (dec c) = c) -> (forall c, dec c <> [] /\ forallb is_digit (dec c) = true) ->
  forall p s, sid_ok p s = true -> f_fwd undec p (f_rev dec p s) = s.
Proof. exact sid_roundtrip. Qed.
Print Assumptions C10_sid_roundtrip.

Theorem C10_sid_injective :
  forall dec undec, (forall c, undec (dec c) = c) -> (forall c, dec c <> [] /\ forallb is_digit (dec c) = true) ->
  forall p s t, sid_ok p s = true -> sid_ok p t = true -> f_rev dec p s = f_rev dec p t -> s = t.
Proof. exact sid_injective. Qed.
Print Assumptions C10_sid_injective.

(* a__45__b is written as M_a__45__b and read back as a-b; a-b is written as the same M_a__45__b *)
Example C10_sid_refuted :
  let s := [97; 95; 95; 52; 53; 95; 95; 98] in let t := [97; 45; 98] in
  forallb is_plain sb_prefix_specie = true /\ sid_ok sb_prefix_specie s = false /\
  f_fwd parse_dec sb_prefix_specie (f_rev to_dec sb_prefix_specie s) = t /\
  f_rev to_dec sb_prefix_specie s = f_rev to_dec sb_prefix_specie t /\ s <> t.
Proof. vm_compute. repeat split; discriminate. Qed.

(* the generated prefixes are plain, so sid_ok only speaks about the identifier and the prefix's "_" *)
Example C10_prefixes_plain :
  forallb (forallb is_plain) [sb_prefix_gene; sb_prefix_specie; sb_prefix_reaction; sb_prefix_group] = true.
Proof. vm_compute. reflexivity. Qed.

(* the concrete decimal printer / parser of the executable model agree on a spread of code points *)
Example C10_dec_samples :
  forallb (fun c => (parse_dec (to_dec c) =? c) && forallb is_digit (to_dec c) && negb (is_nil (to_dec c)))
          [0; 9; 10; 45; 46; 91; 99; 100; 127; 233; 945; 8364; 65535; 65536; 1114111] = true.
Proof. vm_compute. reflexivity. Qed.

Theorem C10_bound_param_roundtrip : forall c v, eb_eqb (bref_value c (create_bound c v)) v = true.
Proof. exact bound_param_roundtrip. Qed.
Print Assumptions C10_bound_param_roundtrip.

(* reading bounds back: total for the reader that starts from an unbounded reaction
   (fixes/io-sbml-bounds-wide-default.patch); with Reaction(rid) defaults it fails exactly when the
   lower bound is above the configured default upper bound *)
Theorem C10_read_bounds_wide : forall c lb ub, eb_leb lb ub = true -> read_bounds true c lb ub = Ok (lb, ub).
Proof. exact read_bounds_wide. Qed.
Print Assumptions C10_read_bounds_wide.

Theorem C10_read_bounds_narrow : forall c lb ub, eb_leb lb ub = true ->
  read_bounds false c lb ub = if eb_leb lb (Fin (c_ub c)) then Ok (lb, ub) else Err EValue.
Proof. exact read_bounds_narrow. Qed.
Print Assumptions C10_read_bounds_narrow.

Example C10_read_bounds_refuted :
  eb_leb (Fin 1500) (Fin 2000) = true /\
  read_bounds false (mkCfg cfg_lower_bound cfg_upper_bound) (Fin 1500) (Fin 2000) = Err EValue.
Proof. vm_compute. split; reflexivity. Qed.

Theorem C10_stoich_split_roundtrip : forall q, Qeq (import_coef (export_coef q)) q.
Proof. exact stoich_split_roundtrip. Qed.
Print Assumptions C10_stoich_split_roundtrip.

(* non-vacuity of sid_ok: awkward identifiers satisfy it *)
Example C10_sid_ok_examples :
  forallb (sid_ok sb_prefix_reaction) [[69; 88; 95; 97; 40; 101; 41]; [946]; [114; 45; 50]; [95; 95]; [97; 95; 95; 98]; [51; 120]] = true /\
  f_rev to_dec sb_prefix_reaction [69; 88; 95; 97; 40; 101; 41] =
    [82; 95; 69; 88; 95; 97; 95; 95; 52; 48; 95; 95; 101; 95; 95; 52; 49; 95; 95].
Proof. vm_compute. split; reflexivity. Qed.

(* ------------------------------------------------------------------ gene product associations *)
(* for every rule tree t: if it has an operator without operands nothing is written; otherwise what is read back
   from the written fbc:and / fbc:or / fbc:geneProductRef tree is assoc_norm t (single-child operators dropped,
   nested operators of the same kind merged) with the original gene ids, provided these survive the id codec
   and GPRCleaner; and assoc_norm t is the same Boolean function as t on every knockout set *)
Theorem C10_gpr_assoc_roundtrip : forall dec undec clean E t,
  (Syntax.wf t = false -> write_assoc dec E t = None) /\
  (Syntax.wf t = true ->
   (forall g, In g (Syntax.genes t) -> clean (dec_g undec E (enc_g dec E g)) = g) ->
   option_map (read_assoc undec clean E) (write_assoc dec E t) = Some (assoc_norm t)) /\
  (forall K, Syntax.eval K (assoc_norm t) = Syntax.eval K t).
Proof. exact gpr_assoc_roundtrip. Qed.
Print Assumptions C10_gpr_assoc_roundtrip.

Theorem C10_gene_roundtrip :
  forall dec undec, (forall c, undec (dec c) = c) -> (forall c, dec c <> [] /\ forallb is_digit (dec c) = true) ->
  forall dot p s, sid_ok p s = true -> contains dot (p ++ escape dec s) = false ->
  f_gene undec dot p (f_gene_rev dec dot p s) = s.
Proof. exact gene_roundtrip. Qed.
Print Assumptions C10_gene_roundtrip.

(* ------------------------------------------------------------------ the document *)
(* "read_sbml_model(write_sbml_model(m)) is the same model", unrestricted -- FALSE (SbmlDocNecessity.v) *)
Definition sbml_doc_roundtrip_statement : Prop :=
  forall c m, roundtrip to_dec parse_dec wnum15 cur_clean cur_env c m = Ok (norm to_dec cur_env m).

(* for every decimal printer/parser with the two properties of str(int)/int(str), every number writer wnum,
   every GPRCleaner function, every table of constants with env_ok: a model inside sbml_ok comes back as norm m *)
Theorem C10_sbml_doc_roundtrip :
  forall dec undec wnum clean E,
  (forall c, undec (dec c) = c) -> (forall c, dec c <> [] /\ forallb is_digit (dec c) = true) -> env_ok E = true ->
  forall c m, sbml_ok dec wnum clean E c m = true -> roundtrip dec undec wnum clean E c m = Ok (norm dec E m).
Proof. exact sbml_doc_roundtrip. Qed.
Print Assumptions C10_sbml_doc_roundtrip.

(* the property as stated -- the same model on every field the document carries -- for models that are already in
   the form one trip produces (sbml_canon: a boolean test; what it asks is listed in IO/SbmlDocIdentity.v) *)
Theorem C10_sbml_doc_identity :
  forall dec undec wnum clean E,
  (forall c, undec (dec c) = c) -> (forall c, dec c <> [] /\ forallb is_digit (dec c) = true) -> env_ok E = true ->
  forall c m, sbml_ok dec wnum clean E c m = true -> sbml_canon m = true ->
  roundtrip dec undec wnum clean E c m = Ok (forget m).
Proof. exact sbml_doc_identity. Qed.
Print Assumptions C10_sbml_doc_identity.

(* non-vacuity of sbml_canon: the model that comes back from the witness below satisfies both conditions *)
Example C10_sbml_canon_witness :
  sbml_ok to_dec wnum15 cur_clean cur_env cfg0 (NORM witness) = true /\ sbml_canon (NORM witness) = true /\
  NORM witness <> forget witness.
Proof. vm_compute. repeat split; try reflexivity. discriminate. Qed.

(* the constants regenerated from the source satisfy env_ok *)
Example C10_env_ok_current : env_ok cur_env = true.
Proof. exact env_ok_current. Qed.

(* non-vacuity: five reactions (unbounded, default, own, half-open bounds), nested rules, a group, minimisation *)
Example C10_sbml_ok_witness :
  sbml_ok to_dec wnum15 cur_clean cur_env cfg0 witness = true /\
  roundtrip to_dec parse_dec wnum15 cur_clean cur_env cfg0 witness = Ok (norm to_dec cur_env witness).
Proof. destruct sbml_ok_witness as [H1 [H2 _]]. split; assumption. Qed.

Theorem C10_sbml_doc_roundtrip_refuted : ~ sbml_doc_roundtrip_statement.
Proof. intros H. destruct need_rule_wf as [_ [_ [H3 _]]]. apply H3. apply H. Qed.

(* refuted by the faithful model outside the findings known before (replayed on the code: corpus/C10) *)
Theorem C10_sbml_numbers_refuted :
  exists c m, RT c m <> Ok (NORM m) /\
    exists m', RT c m = Ok m' /\
      map (fun rr => r_lb (fst rr)) (sm_rxns m') = [Fin ((-6004799503160655) # 18014398509481984)] /\
      map (fun rr => r_lb (fst rr)) (sm_rxns m) = [Fin ((-6004799503160661) # 18014398509481984)].
Proof. exact sbml_numbers_refuted. Qed.

(* a group with a gene among its members (unreadable before /repo ed33fe7) is inside sbml_ok with the repaired
   reader; a gene written like a group (gene x, group x -> G_x) is not *)
Example C10_sbml_group_gene_member_ok :
  let m := model mets_ab [(rxn "R1" st_ab (Fin 0) (Fin (1000 # 1)) 1, Some (G "g1"))] [gene "g1" "n"]
                 [grp "g" [(0, S "g1"%string); (2, S "R1"%string)]] in
  (if sb_sidmap_genes then OKB cfg0 m else negb (OKB cfg0 m)) = true /\
  (if sb_sidmap_genes then rres_eqb (RT cfg0 m) (Ok (NORM m)) else true) = true.
Proof. exact sbml_group_gene_member_ok. Qed.

Theorem C10_sbml_duplicate_sid_refuted :
  (exists c m d, OKB c m = true /\ m_write c m = Ok d /\ nodupb (core_sids d) = false /\
                 str_mem (S "R_R1_lower_bound"%string) (map dr_id (d_rxns d)) = true /\
                 str_mem (S "R_R1_lower_bound"%string) (map (fun p => fst (fst p)) (d_params d)) = true) /\
  (exists c m d, OKB c m = true /\ m_write c m = Ok d /\ nodupb (core_sids d) = false /\
                 str_mem (S "M_a"%string) (map fst (d_comps d)) = true /\ str_mem (S "M_a"%string) (map sp_id (d_species d)) = true).
Proof. exact sbml_duplicate_sid_refuted. Qed.
