(* C10 -- SBML export is valid and import(export(model)) is the same model.
   Modelled (coq/theories/IO/SbmlId.v): the identifier codec _f_*_rev / _f_*, the choice of flux-bound
   parameters (_create_bound), the reader's application of bounds, the reactant/product split.
   libsbml (document model, XML, validator, gene association parser) is trusted and exercised by
   harness/c10.py; the document-level theorem sbml_doc_roundtrip and gpr_assoc_roundtrip of DESIGN.md are
   NOT proved (monitored only: full observation before/after, gene rules as truth tables). *)
From Coq Require Import ZArith QArith List Bool.
From Cobra.IO Require Import Str JVal DictModel SbmlId SbmlProofs SbmlCheck.
From Cobra.Gen Require Import Config SbmlTables.
Import ListNotations.
Open Scope Z_scope.

(* "the same identifiers, whatever characters they contain" -- FALSE of the codec (witness below) *)
Definition sid_roundtrip_statement : Prop :=
  forall dec undec, (forall c, undec (dec c) = c) -> (forall c, dec c <> [] /\ forallb is_digit (dec c) = true) ->
  forall p s, forallb is_plain p = true -> f_fwd undec p (f_rev dec p s) = s.

(* identifiers survive for every id such that prefix ++ id contains no "__" followed by a digit; dec/undec
   are str(int)/int(str), of which only undec (dec c) = c and "dec c is a non-empty digit string" are used *)
Theorem C10_sid_roundtrip :
  forall dec undec, (forall c, undec (dec c) = c) -> (forall c, dec c <> [] /\ forallb is_digit (dec c) = true) ->
  forall p s, sid_ok p s = true -> f_fwd undec p (f_rev dec p s) = s.
Proof. exact sid_roundtrip. Qed.
Print Assumptions C10_sid_roundtrip.

Theorem C10_sid_injective :
  forall dec undec, (forall c, undec (dec c) = c) -> (forall c, dec c <> [] /\ forallb is_digit (dec c) = true) ->
  forall p s t, sid_ok p s = true -> sid_ok p t = true -> f_rev dec p s = f_rev dec p t -> s = t.
Proof. exact sid_injective. Qed.
Print Assumptions C10_sid_injective.

(* a__45__b is written as M_a__45__b and read back as a-b; a-b is written as the same M_a__45__b *)
Example C10_sid_refuted :
  let s := [97; 95; 95; 52; 53; 95; 95; 98] in let t := [97; 45; 98] in
  forallb is_plain sb_prefix_specie = true /\ sid_ok sb_prefix_specie s = false /\
  f_fwd parse_dec sb_prefix_specie (f_rev to_dec sb_prefix_specie s) = t /\
  f_rev to_dec sb_prefix_specie s = f_rev to_dec sb_prefix_specie t /\ s <> t.
Proof. vm_compute. repeat split; discriminate. Qed.

(* the generated prefixes are plain, so sid_ok only speaks about the identifier and the prefix's "_" *)
Example C10_prefixes_plain :
  forallb (forallb is_plain) [sb_prefix_gene; sb_prefix_specie; sb_prefix_reaction; sb_prefix_group] = true.
Proof. vm_compute. reflexivity. Qed.

(* the concrete decimal printer / parser of the executable model agree on a spread of code points *)
Example C10_dec_samples :
  forallb (fun c => (parse_dec (to_dec c) =? c) && forallb is_digit (to_dec c) && negb (is_nil (to_dec c)))
          [0; 9; 10; 45; 46; 91; 99; 100; 127; 233; 945; 8364; 65535; 65536; 1114111] = true.
Proof. vm_compute. reflexivity. Qed.

Theorem C10_bound_param_roundtrip : forall c v, eb_eqb (bref_value c (create_bound c v)) v = true.
Proof. exact bound_param_roundtrip. Qed.
Print Assumptions C10_bound_param_roundtrip.

(* reading bounds back: total for the reader that starts from an unbounded reaction
   (fixes/io-sbml-bounds-wide-default.patch); with Reaction(rid) defaults it fails exactly when the
   lower bound is above the configured default upper bound *)
Theorem C10_read_bounds_wide : forall c lb ub, eb_leb lb ub = true -> read_bounds true c lb ub = Ok (lb, ub).
Proof. exact read_bounds_wide. Qed.
Print Assumptions C10_read_bounds_wide.

Theorem C10_read_bounds_narrow : forall c lb ub, eb_leb lb ub = true ->
  read_bounds false c lb ub = if eb_leb lb (Fin (c_ub c)) then Ok (lb, ub) else Err EValue.
Proof. exact read_bounds_narrow. Qed.
Print Assumptions C10_read_bounds_narrow.

Example C10_read_bounds_refuted :
  eb_leb (Fin 1500) (Fin 2000) = true /\
  read_bounds false (mkCfg cfg_lower_bound cfg_upper_bound) (Fin 1500) (Fin 2000) = Err EValue.
Proof. vm_compute. split; reflexivity. Qed.

Theorem C10_stoich_split_roundtrip : forall q, Qeq (import_coef (export_coef q)) q.
Proof. exact stoich_split_roundtrip. Qed.
Print Assumptions C10_stoich_split_roundtrip.

(* non-vacuity of sid_ok: awkward identifiers satisfy it *)
Example C10_sid_ok_examples :
  forallb (sid_ok sb_prefix_reaction) [[69; 88; 95; 97; 40; 101; 41]; [946]; [114; 45; 50]; [95; 95]; [97; 95; 95; 98]; [51; 120]] = true /\
  f_rev to_dec sb_prefix_reaction [69; 88; 95; 97; 40; 101; 41] =
    [82; 95; 69; 88; 95; 97; 95; 95; 52; 48; 95; 95; 101; 95; 95; 52; 49; 95; 95].
Proof. vm_compute. split; reflexivity. Qed.
